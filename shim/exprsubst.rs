// shim/exprsubst.rs -- TRUSTED glue for unit `exprsubst`: derive-generated Clone / PartialEq of Expression (R1 restated).
impl Clone for Expression {
    #[verifier::external_body]
    fn clone(&self) -> (r: Expression) ensures r == *self { unimplemented!() }
}
impl PartialEq for Expression {
    #[verifier::external_body]
    fn eq(&self, other: &Expression) -> (r: bool) { unimplemented!() }
}
impl PartialEqSpecImpl for Expression {
    open spec fn obeys_eq_spec() -> bool { true }
    open spec fn eq_spec(&self, other: &Expression) -> bool { *self == *other }
}
impl Eq for Expression {}

/// std: `impl<T: PartialEq, A> PartialEq for Box<T, A>` compares the contents (`PartialEq::eq(&**self, &**other)`).
/// vstd has no specification for it (it has one for `&A == &B`); stated for Box<Expression> only.
#[verifier::external_body]
pub proof fn axiom_es_box_eq()
    ensures <Box<Expression> as vstd::std_specs::cmp::PartialEqSpec>::obeys_eq_spec(),
        forall |a: Box<Expression>, b: Box<Expression>| #[trigger] <Box<Expression> as vstd::std_specs::cmp::PartialEqSpec>::eq_spec(&a, &b) == (*a == *b),
{}

/// R9 target of `unreachable!()` / `panic!()` arms: reaching it is a proof obligation (instead of R5's assumption).
pub fn es_unreachable<T>() -> (r: T)
    requires false,
{
    verif_diverge()
}

// `#[derive(PartialEq)]` on the field-less operation enums is structural equality (the derived impls are kept by extraction).
impl PartialEqSpecImpl for BinOpType {
    open spec fn obeys_eq_spec() -> bool { true }
    open spec fn eq_spec(&self, other: &BinOpType) -> bool { *self == *other }
}
impl PartialEqSpecImpl for CastOpType {
    open spec fn obeys_eq_spec() -> bool { true }
    open spec fn eq_spec(&self, other: &CastOpType) -> bool { *self == *other }
}
impl PartialEqSpecImpl for UnOpType {
    open spec fn obeys_eq_spec() -> bool { true }
    open spec fn eq_spec(&self, other: &UnOpType) -> bool { *self == *other }
}
