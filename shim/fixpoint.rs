// ---------------------------------------------------------------------------
// shim/fixpoint.rs -- TRUSTED.  What the extracted worklist solver
// (analysis/fixpoint.rs) may assume about petgraph 0.6 (`DiGraph`, `NodeIndex`,
// `EdgeIndex`), `fnv::FnvHashMap` (= std HashMap with the FNV hasher) and
// `std::collections::BTreeSet<usize>`.  Each `external_body` is an assumption.
// The shims expose a ghost view and nothing else:
//     DiGraph      node_count_spec() : nat,  edge_seq() : Seq<(source, target)> indexed by EdgeIndex
//     FnvHashMap   view : Map<K, V>
//     BTreeSet     view : Set<usize>
// Contracts are written from the petgraph / std documentation.
// ---------------------------------------------------------------------------

/// petgraph::graph::NodeIndex<u32>: a `Copy` wrapper around the position of the node.
/// Equality / hashing are derived on the wrapped integer, i.e. structural.
#[derive(Clone, Copy)]
pub struct NodeIndex { pub i: usize }

// derived PartialEq/Eq of petgraph's index types (structural); not used by the pinned code, declared so that an
// edited body comparing nodes or edges is decided instead of rejected
impl PartialEq for NodeIndex {
    fn eq(&self, other: &NodeIndex) -> (r: bool) { self.i == other.i }
}
impl PartialEqSpecImpl for NodeIndex {
    open spec fn obeys_eq_spec() -> bool { true }
    open spec fn eq_spec(&self, other: &NodeIndex) -> bool { self.i == other.i }
}
impl Eq for NodeIndex {}

impl NodeIndex {
    /// petgraph: `NodeIndex::new(x)` = `NodeIndex(x as u32)`, `index()` = `self.0 as usize`:
    /// the round trip is the identity for x <= u32::MAX (nothing is claimed beyond).
    #[verifier::external_body]
    pub fn new(x: usize) -> (r: NodeIndex)
        ensures x <= u32::MAX ==> r.i == x
    { unimplemented!() }

    pub fn index(self) -> (r: usize)
        ensures r == self.i
    { self.i }
}

/// petgraph::graph::EdgeIndex<u32>
#[derive(Clone, Copy)]
pub struct EdgeIndex { pub i: usize }

impl EdgeIndex {
    #[verifier::external_body]
    pub fn new(x: usize) -> (r: EdgeIndex)
        ensures x <= u32::MAX ==> r.i == x
    { unimplemented!() }

    pub fn index(self) -> (r: usize)
        ensures r == self.i
    { self.i }
}

/// petgraph::graph::DiGraph<N, E> (= Graph<N, E, Directed, u32>), seen through
/// its number of nodes and the sequence of edge endpoints (position = EdgeIndex).
#[verifier::external_body]
#[verifier::accept_recursive_types(N)]
#[verifier::accept_recursive_types(E)]
pub struct DiGraph<N, E> { _p: core::marker::PhantomData<(N, E)> }

impl<N, E> DiGraph<N, E> {
    pub uninterp spec fn node_count_spec(&self) -> nat;
    /// (source, target) of every edge, indexed by `EdgeIndex::index()`
    pub uninterp spec fn edge_seq(&self) -> Seq<(NodeIndex, NodeIndex)>;

    /// petgraph `Graph::node_count`: "Return the number of nodes (vertices) in the graph."
    /// Node indices are `u32`, `add_node` panics when the index space is exhausted.
    #[verifier::external_body]
    pub fn node_count(&self) -> (r: usize)
        ensures r == self.node_count_spec(), r <= u32::MAX
    { unimplemented!() }

    /// petgraph `Graph::edge_endpoints`: "Access the source and target nodes for e." -- `None` iff
    /// `e` is not an edge of the graph.  Edges only connect existing nodes (`add_edge` panics "if any
    /// of the nodes don't exist", `remove_node` removes the incident edges).
    #[verifier::external_body]
    pub fn edge_endpoints(&self, e: EdgeIndex) -> (r: Option<(NodeIndex, NodeIndex)>)
        ensures
            match r {
                Some(p) => e.i < self.edge_seq().len() && p == self.edge_seq()[e.i as int]
                    && p.0.i < self.node_count_spec() && p.1.i < self.node_count_spec(),
                None => e.i >= self.edge_seq().len(),
            }
    { unimplemented!() }
}

/// R9 target for `GRAPH.edges(NODE).map(|edge_ref| edge_ref.id()).collect()`:
/// petgraph `Graph::edges(a)`: "Return an iterator of all edges of a. Outgoing: All edges from a."
/// (empty for a node that does not exist), `EdgeReference::id()` = the edge's index, `collect()`
/// into a `Vec<EdgeIndex>`: exactly the ids of the edges whose source is `node`; nothing is
/// assumed about their order.
#[verifier::external_body]
pub fn verif_outgoing_edge_ids<N, E>(g: &DiGraph<N, E>, node: NodeIndex) -> (r: Vec<EdgeIndex>)
    ensures
        forall |k: int| 0 <= k < r@.len() ==> (#[trigger] r@[k]).i < g.edge_seq().len() && g.edge_seq()[r@[k].i as int].0 == node,
        forall |e: int| 0 <= e < g.edge_seq().len() && (#[trigger] g.edge_seq()[e]).0 == node
            ==> exists |k: int| 0 <= k < r@.len() && (#[trigger] r@[k]).i == e,
{ unimplemented!() }

/// fnv::FnvHashMap<K, V> = std::collections::HashMap<K, V, FnvBuildHasher>, seen as a Map.
/// Keys of the unit are `NodeIndex` (derived Eq + Hash on the wrapped integer = structural equality).
#[verifier::external_body]
#[verifier::reject_recursive_types(K)]
#[verifier::accept_recursive_types(V)]
pub struct FnvHashMap<K, V> { _p: core::marker::PhantomData<(K, V)> }

impl<K, V> View for FnvHashMap<K, V> {
    type V = Map<K, V>;
    uninterp spec fn view(&self) -> Map<K, V>;
}

impl<K, V> FnvHashMap<K, V> {
    /// std `HashMap::get`: "Returns a reference to the value corresponding to the key."
    #[verifier::external_body]
    pub fn get(&self, k: &K) -> (r: Option<&V>)
        ensures
            match r {
                Some(v) => self@.contains_key(*k) && *v == self@[*k],
                None => !self@.contains_key(*k),
            }
    { unimplemented!() }

    /// std `HashMap::insert`: "Inserts a key-value pair into the map. If the map did not have this key
    /// present, None is returned. If the map did have this key present, the value is updated, and the
    /// old value is returned."
    #[verifier::external_body]
    pub fn insert(&mut self, k: K, v: V) -> (r: Option<V>)
        ensures
            final(self)@ == old(self)@.insert(k, v),
            r == (if old(self)@.contains_key(k) { Some(old(self)@[k]) } else { None::<V> }),
    { unimplemented!() }

    /// `FnvHashMap::default()` (std `HashMap::default`: "Creates an empty HashMap")
    #[verifier::external_body]
    pub fn default() -> (r: FnvHashMap<K, V>)
        ensures r@ == Map::<K, V>::empty()
    { unimplemented!() }
}

/// std::collections::BTreeSet<usize>, seen as a Set<usize>.
#[verifier::external_body]
#[verifier::reject_recursive_types(T)]
pub struct BTreeSet<T> { _p: core::marker::PhantomData<T> }

impl<T> View for BTreeSet<T> {
    type V = Set<T>;
    uninterp spec fn view(&self) -> Set<T>;
}

impl BTreeSet<usize> {
    /// std `BTreeSet::new`: "Makes a new, empty BTreeSet."
    #[verifier::external_body]
    pub fn new() -> (r: BTreeSet<usize>)
        ensures r@ == Set::<usize>::empty()
    { unimplemented!() }

    /// std `BTreeSet::insert`: "Adds a value to the set. Returns whether the value was newly inserted."
    #[verifier::external_body]
    pub fn insert(&mut self, v: usize) -> (r: bool)
        ensures final(self)@ == old(self)@.insert(v), r == !old(self)@.contains(v)
    { unimplemented!() }

    /// std `BTreeSet::take`: "Removes and returns the element in the set, if any, that is equal to the value."
    #[verifier::external_body]
    pub fn take(&mut self, v: &usize) -> (r: Option<usize>)
        ensures
            final(self)@ == old(self)@.remove(*v),
            r == (if old(self)@.contains(*v) { Some(*v) } else { None::<usize> }),
    { unimplemented!() }

    /// std `BTreeSet::remove`: "If the set contains an element equal to the value, removes it from the set and
    /// drops it. Returns whether such an element was present."  (not used by the pinned code; declared so that an
    /// edited body using it is decided instead of rejected)
    #[verifier::external_body]
    pub fn remove(&mut self, v: &usize) -> (r: bool)
        ensures final(self)@ == old(self)@.remove(*v), r == old(self)@.contains(*v)
    { unimplemented!() }

    /// std `BTreeSet::contains`
    #[verifier::external_body]
    pub fn contains(&self, v: &usize) -> (r: bool)
        ensures r == self@.contains(*v)
    { unimplemented!() }

    /// std `BTreeSet::is_empty`: "Returns true if the set contains no elements."
    #[verifier::external_body]
    pub fn is_empty(&self) -> (r: bool)
        ensures r == (self@ == Set::<usize>::empty())
    { unimplemented!() }
}

/// R9 target for `SET.iter().next_back().cloned()`: `BTreeSet::iter` "Gets an iterator that visits the
/// elements in the BTreeSet in ascending order", `next_back` of a double-ended iterator = its last
/// element: the largest element, `None` iff the set is empty.
#[verifier::external_body]
pub fn verif_btreeset_last(s: &BTreeSet<usize>) -> (r: Option<usize>)
    ensures
        match r {
            Some(m) => s@.contains(m) && forall |x: usize| s@.contains(x) ==> x <= m,
            None => s@ == Set::<usize>::empty(),
        }
{ unimplemented!() }

/// R9 target for `vec![0; N]` (std: "a Vec with N copies of 0"); element type u64 as inferred
/// from the comparison with `max_steps: u64` in `compute_with_max_steps`.
#[verifier::external_body]
pub fn verif_vec_zeros(n: usize) -> (r: Vec<u64>)
    ensures r@.len() == n, forall |i: int| 0 <= i < n ==> r@[i] == 0
{ unimplemented!() }

/// petgraph: node indices of a `DiGraph` are `u32` (`add_node` panics when the index space is exhausted),
/// same fact as in the contract of `node_count`, usable in proofs.
#[verifier::external_body]
pub proof fn axiom_digraph_node_bound<N, E>(g: DiGraph<N, E>)
    ensures g.node_count_spec() <= u32::MAX
{ unimplemented!() }

/// The result of `verif_positions_in_key_order`, as a predicate: `keys` are the distinct entries of `nodes` in
/// ascending order, `r[j]` is the LAST position of `keys[j]` in `nodes`.
pub open spec fn positions_in_key_order(nodes: Seq<NodeIndex>, keys: Seq<NodeIndex>, r: Seq<usize>) -> bool {
    &&& keys.len() == r.len()
    &&& forall |i: int, j: int| 0 <= i < j < keys.len() ==> (#[trigger] keys[i]).i < (#[trigger] keys[j]).i
    &&& forall |i: int| 0 <= i < nodes.len() ==> exists |j: int| 0 <= j < keys.len() && #[trigger] keys[j] == #[trigger] nodes[i]
    &&& forall |j: int| 0 <= j < keys.len() ==> (#[trigger] r[j]) < nodes.len() && nodes[r[j] as int] == keys[j]
            && forall |i: int| r[j] < i < nodes.len() ==> #[trigger] nodes[i] != keys[j]
}

/// R9 target for the block
///     let mut node_to_index = BTreeMap::new();
///     for (i, node_index) in NODES.iter().enumerate() { node_to_index.insert(node_index, i); }
///     let node_priority_list: Vec<usize> = node_to_index.values().copied().collect();
/// (`.iter().enumerate()` and `.values().copied().collect()` are adapter chains Verus rejects).
/// std: `enumerate` pairs each element with its position; `BTreeMap::insert` "If the map did have this key
/// present, the value is updated"; keys `&NodeIndex` compare by the derived `Ord` of the wrapped integer;
/// `BTreeMap::values` "Gets an iterator over the values of the map, in order by key": the result lists, for the
/// distinct nodes in ascending order, the last position of the node in NODES.
#[verifier::external_body]
pub fn verif_positions_in_key_order(nodes: &Vec<NodeIndex>) -> (r: Vec<usize>)
    ensures exists |keys: Seq<NodeIndex>| positions_in_key_order(nodes@, keys, r@)
{ unimplemented!() }
