// ---------------------------------------------------------------------------
// shim/subreg.rs -- TRUSTED glue for unit `subreg` (property C11, sub-register substitution of the P-Code lifting).
// Every item is an assumption and is listed in contracts/subreg.vc.
// std's HashMap is NOT shimmed: vstd's specification is used (under obeys_key_model::<&String>(), a hypothesis).
// ---------------------------------------------------------------------------
pub mod sr_std { pub use std::collections::HashMap; }
pub use sr_std::*;
use vstd::std_specs::hash::*;

// ---- derive-generated code (R1 restated): Clone returns an equal value, PartialEq is structural equality ----------
impl Clone for Variable {
    #[verifier::external_body]
    fn clone(&self) -> (r: Variable) ensures r == *self { unimplemented!() }
}
impl PartialEq for Variable {
    #[verifier::external_body]
    fn eq(&self, other: &Variable) -> (r: bool) { unimplemented!() }
}
impl PartialEqSpecImpl for Variable {
    open spec fn obeys_eq_spec() -> bool { true }
    open spec fn eq_spec(&self, other: &Variable) -> bool { *self == *other }
}
impl Eq for Variable {}
impl Clone for Expression {
    #[verifier::external_body]
    fn clone(&self) -> (r: Expression) ensures r == *self { unimplemented!() }
}
impl Clone for RegisterProperties {
    #[verifier::external_body]
    fn clone(&self) -> (r: RegisterProperties) ensures r == *self { unimplemented!() }
}

// ---- HashMap<&String, _> looked up with a &String ---------------------------------------------------------------------
/// `impl<T: ?Sized> Borrow<T> for &T { fn borrow(&self) -> &T { &**self } }` (core::borrow): looking a `HashMap<&K, V>` up with
/// a `&K` (Q = K) finds the entry whose key equals (by VALUE of the referenced K) the looked-up key.  vstd states the same for
/// `Key = Q` and `Key = Box<Q>`; these two are the `&Q` case (the same two axioms as in shim/callsites.rs).
pub broadcast axiom fn axiom_sr_contains_ref_key<'a, K, V>(m: Map<&'a K, V>, k: &K)
    ensures #[trigger] contains_borrowed_key::<&'a K, V, K>(m, k) <==> m.contains_key(k);
pub broadcast axiom fn axiom_sr_maps_ref_key_to_value<'a, K, V>(m: Map<&'a K, V>, k: &K, v: V)
    ensures #[trigger] maps_borrowed_key_to_value::<&'a K, V, K>(m, k, v) <==> m.contains_key(k) && m[k] == v;
pub broadcast group group_sr_ref_key { axiom_sr_contains_ref_key, axiom_sr_maps_ref_key_to_value }

/// A `String` is determined by its characters (vstd models `String` as an abstract type with the view `Seq<char>`; std's `==` on
/// `String` compares the characters, vstd's key model reads map lookups as specification equality of the keys).
pub broadcast axiom fn axiom_sr_string_ext(a: String, b: String)
    ensures #![trigger a@, b@] a@ == b@ ==> a == b;
impl Clone for Tid {
    #[verifier::external_body]
    fn clone(&self) -> (r: Tid) ensures r == *self { unimplemented!() }
}
impl<T> Clone for Term<T> {
    #[verifier::external_body]
    fn clone(&self) -> (r: Term<T>) ensures r == *self { unimplemented!() }
}

// ---- Peekable<std::slice::Iter<'a, T>> (R9 on the field type of SubregisterSubstitutionBuilder, after R11 `std::slice::`) --------
// std: `slice::Iter` "Immutable slice iterator", `Iterator::peekable` "Creates an iterator which can use the peek and peek_mut
// methods to look at the next element of the iterator without consuming it", `Peekable::peek` "Returns a reference to the next()
// value without advancing the iterator", `next` "Advances the iterator and returns the next value".  MODEL: the slice and the
// index of the next element.  The bodies below are VERIFIED; the assumption is that std's types behave like this model.
// (`peek` returns `Option<&'a T>` where std returns `Option<&&'a T>`: the builder only reads through it.)
pub struct Iter<'a, T> { pub s: &'a Vec<T>, pub pos: usize }
pub struct Peekable<I> { pub iter: I }

impl<'a, T> Peekable<Iter<'a, T>> {
    pub open spec fn sr_wf(&self) -> bool { self.iter.pos <= self.iter.s@.len() }

    pub fn next(&mut self) -> (r: Option<&'a T>)
        requires old(self).sr_wf(),
        ensures
            final(self).iter.s == old(self).iter.s, final(self).sr_wf(),
            old(self).iter.pos < old(self).iter.s@.len() ==> r == Some(&old(self).iter.s@[old(self).iter.pos as int]) && final(self).iter.pos == old(self).iter.pos + 1,
            old(self).iter.pos >= old(self).iter.s@.len() ==> r is None && final(self).iter.pos == old(self).iter.pos,
    {
        if self.iter.pos < self.iter.s.len() {
            let x = &self.iter.s[self.iter.pos];
            self.iter.pos = self.iter.pos + 1;
            Some(x)
        } else {
            None
        }
    }

    pub fn peek(&mut self) -> (r: Option<&'a T>)
        requires old(self).sr_wf(),
        ensures
            *final(self) == *old(self),
            old(self).iter.pos < old(self).iter.s@.len() ==> r == Some(&old(self).iter.s@[old(self).iter.pos as int]),
            old(self).iter.pos >= old(self).iter.s@.len() ==> r is None,
    {
        if self.iter.pos < self.iter.s.len() { Some(&self.iter.s[self.iter.pos]) } else { None }
    }
}
/// R9 target of `V.iter().peekable()`
pub fn sr_peekable<'a, T>(v: &'a Vec<T>) -> (r: Peekable<Iter<'a, T>>)
    ensures r.iter.s == v, r.iter.pos == 0, r.sr_wf(),
{
    Peekable { iter: Iter { s: v, pos: 0 } }
}

/// R9 target of `panic!()` in replace_output_subregister: a PROOF OBLIGATION (the panics are unreachable)
pub fn sr_unreachable()
    requires false,
{
}
