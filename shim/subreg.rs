// ---------------------------------------------------------------------------
// shim/subreg.rs -- TRUSTED glue for unit `subreg` (property C11, sub-register substitution of the P-Code lifting).
// Every item is an assumption and is listed in contracts/subreg.vc.
// std's HashMap is NOT shimmed: vstd's specification is used (under obeys_key_model::<&String>(), a hypothesis).
// ---------------------------------------------------------------------------
pub mod sr_std { pub use std::collections::HashMap; }
pub use sr_std::*;
use vstd::std_specs::hash::*;

// ---- derive-generated code (R1 restated): Clone returns an equal value, PartialEq is structural equality ----------
impl Clone for Variable {
    #[verifier::external_body]
    fn clone(&self) -> (r: Variable) ensures r == *self { unimplemented!() }
}
impl PartialEq for Variable {
    #[verifier::external_body]
    fn eq(&self, other: &Variable) -> (r: bool) { unimplemented!() }
}
impl PartialEqSpecImpl for Variable {
    open spec fn obeys_eq_spec() -> bool { true }
    open spec fn eq_spec(&self, other: &Variable) -> bool { *self == *other }
}
impl Eq for Variable {}
impl Clone for Expression {
    #[verifier::external_body]
    fn clone(&self) -> (r: Expression) ensures r == *self { unimplemented!() }
}
impl Clone for RegisterProperties {
    #[verifier::external_body]
    fn clone(&self) -> (r: RegisterProperties) ensures r == *self { unimplemented!() }
}

// ---- HashMap<&String, _> looked up with a &String ---------------------------------------------------------------------
/// `impl<T: ?Sized> Borrow<T> for &T { fn borrow(&self) -> &T { &**self } }` (core::borrow): looking a `HashMap<&K, V>` up with
/// a `&K` (Q = K) finds the entry whose key equals (by VALUE of the referenced K) the looked-up key.  vstd states the same for
/// `Key = Q` and `Key = Box<Q>`; these two are the `&Q` case (the same two axioms as in shim/callsites.rs).
pub broadcast axiom fn axiom_sr_contains_ref_key<'a, K, V>(m: Map<&'a K, V>, k: &K)
    ensures #[trigger] contains_borrowed_key::<&'a K, V, K>(m, k) <==> m.contains_key(k);
pub broadcast axiom fn axiom_sr_maps_ref_key_to_value<'a, K, V>(m: Map<&'a K, V>, k: &K, v: V)
    ensures #[trigger] maps_borrowed_key_to_value::<&'a K, V, K>(m, k, v) <==> m.contains_key(k) && m[k] == v;
pub broadcast group group_sr_ref_key { axiom_sr_contains_ref_key, axiom_sr_maps_ref_key_to_value }

/// A `String` is determined by its characters (vstd models `String` as an abstract type with the view `Seq<char>`; std's `==` on
/// `String` compares the characters, vstd's key model reads map lookups as specification equality of the keys).
pub broadcast axiom fn axiom_sr_string_ext(a: String, b: String)
    ensures #![trigger a@, b@] a@ == b@ ==> a == b;
