// ---------------------------------------------------------------------------
// shim/bytesize.rs -- TRUSTED.  `ByteSize(u64)` of cwe_checker gets most of its
// behaviour from `derive` / `derive_more` (From, Into, Add, Sub, PartialOrd, ...);
// generated code is dropped by extraction (rule R1), so it is restated here.
// The hand-written impls of ByteSize (`new`, `as_bit_length`, the conversions
// from/to apint::BitWidth) are *extracted from /repo*, not written here.
// derive_more's Add/Sub are plain `self.0 + rhs.0` / `self.0 - rhs.0`: overflow
// panics in debug builds and wraps in release builds -> stated as `requires`.
// ---------------------------------------------------------------------------

#[derive(Clone, Copy)]
pub struct ByteSize(pub u64);

impl PartialEq for ByteSize {
    fn eq(&self, other: &ByteSize) -> (r: bool) { self.0 == other.0 }
}
impl PartialEqSpecImpl for ByteSize {
    open spec fn obeys_eq_spec() -> bool { true }
    open spec fn eq_spec(&self, other: &ByteSize) -> bool { self.0 == other.0 }
}
impl Eq for ByteSize {}
impl PartialOrd for ByteSize {
    fn partial_cmp(&self, other: &ByteSize) -> (r: Option<core::cmp::Ordering>) {
        if self.0 < other.0 { Some(core::cmp::Ordering::Less) }
        else if self.0 == other.0 { Some(core::cmp::Ordering::Equal) }
        else { Some(core::cmp::Ordering::Greater) }
    }
}
impl PartialOrdSpecImpl for ByteSize {
    open spec fn obeys_partial_cmp_spec() -> bool { true }
    open spec fn partial_cmp_spec(&self, other: &ByteSize) -> Option<core::cmp::Ordering> {
        if self.0 < other.0 { Some(core::cmp::Ordering::Less) }
        else if self.0 == other.0 { Some(core::cmp::Ordering::Equal) }
        else { Some(core::cmp::Ordering::Greater) }
    }
}

impl From<u64> for ByteSize {
    fn from(v: u64) -> (r: ByteSize) { ByteSize(v) }
}
impl FromSpecImpl<u64> for ByteSize {
    open spec fn obeys_from_spec() -> bool { true }
    open spec fn from_spec(v: u64) -> ByteSize { ByteSize(v) }
}
impl From<ByteSize> for u64 {
    fn from(v: ByteSize) -> (r: u64) { v.0 }
}
impl FromSpecImpl<ByteSize> for u64 {
    open spec fn obeys_from_spec() -> bool { true }
    open spec fn from_spec(v: ByteSize) -> u64 { v.0 }
}

impl core::ops::Add<ByteSize> for ByteSize {
    type Output = ByteSize;
    #[verifier::external_body]
    fn add(self, rhs: ByteSize) -> (r: ByteSize) { unimplemented!() }
}
impl AddSpecImpl<ByteSize> for ByteSize {
    open spec fn obeys_add_spec() -> bool { true }
    open spec fn add_req(self, rhs: ByteSize) -> bool { self.0 + rhs.0 <= u64::MAX }
    open spec fn add_spec(self, rhs: ByteSize) -> ByteSize { ByteSize((self.0 + rhs.0) as u64) }
}
impl core::ops::Sub<ByteSize> for ByteSize {
    type Output = ByteSize;
    #[verifier::external_body]
    fn sub(self, rhs: ByteSize) -> (r: ByteSize) { unimplemented!() }
}
impl SubSpecImpl<ByteSize> for ByteSize {
    open spec fn obeys_sub_spec() -> bool { true }
    open spec fn sub_req(self, rhs: ByteSize) -> bool { self.0 >= rhs.0 }
    open spec fn sub_spec(self, rhs: ByteSize) -> ByteSize { ByteSize((self.0 - rhs.0) as u64) }
}

/// Bound on byte sizes under which `size * 8` and width sums stay far away from overflow.
pub open spec fn MAXBYTES() -> nat { 0x200_0000 }
