// ---------------------------------------------------------------------------
// shim/data_domain.rs -- TRUSTED.  What the extracted code of abstract_domain/data.rs, data/trait_impl.rs and
// data/conditional_specialization.rs (unit `data_domain`, properties C03 / C04) may assume about
//   * the key type `AbstractIdentifier` (abstract_domain/identifier/mod.rs), kept opaque,
//   * `BTreeMap::values_mut()`                                            (R9 target, no vstd specification).
// The R9 substitution of `entry(k).and_modify(f).or_insert_with(g)` in `merge` needs no target here: it is written with
// contains_key / get_mut / insert (vstd) and keeps both closures verbatim and under verification (contracts/data_domain.vc).
// `BTreeMap<AbstractIdentifier, T>` itself is NOT shimmed: the unit uses vstd's specifications of
// std::collections::BTreeMap (view = Map<K, V>; new / clone / is_empty / get_mut / iter with its ghost sequence).
// vstd states them under `vstd::laws_cmp::obeys_cmp::<K>()` ("Ord on K is a lawful total order that agrees with ==");
// for K = AbstractIdentifier that is a HYPOTHESIS of the unit (`dd_id_ok`), not an axiom of this file.
// `Option::{and_then, map, is_none, clone}`, `Result::ok`, `BTreeMap::{get, get_mut, insert, contains_key, clone, is_empty, iter}`
// have vstd specifications: nothing is added for them.  The third R9 substitution of the unit (filter_map(..).collect() in
// intersect_relative_values) is a plain loop and has no target here.
// ---------------------------------------------------------------------------

use std::collections::BTreeMap;

/// `AbstractIdentifier` = `pub struct AbstractIdentifier(Arc<AbstractIdentifierData>)` with
/// `derive(PartialEq, Eq, Hash, Clone, PartialOrd, Ord)`: OPAQUE here.  The unit only uses it as a map key and clones it.
#[verifier::external_body]
#[verifier::external_derive]
#[derive(PartialEq, Eq, PartialOrd, Ord)]
pub struct AbstractIdentifier { _p: () }

/// derive(Clone) over an `Arc`: the clone is the same value.
impl Clone for AbstractIdentifier {
    #[verifier::external_body]
    fn clone(&self) -> (r: AbstractIdentifier) ensures r == *self { unimplemented!() }
}

/// R9 target for  `for X in MAP.values_mut() { BODY }`: the keys of the map, each exactly once (ascending order).
/// std documentation of `BTreeMap::values_mut`: "Gets a mutable iterator over the values of the map, in order by key":
/// BODY is run once per entry with X = the mutable reference to the value stored there.  The substitution re-emits BODY
/// verbatim inside `for k in KEYS { let X = MAP.get_mut(&k).unwrap(); BODY }` (vstd specifies `get_mut`).
#[verifier::external_body]
pub fn verif_btree_keys<K: Ord + Clone, V>(m: &BTreeMap<K, V>) -> (r: Vec<K>)
    requires vstd::laws_cmp::obeys_cmp::<K>(),
    ensures
        forall |i: int| 0 <= i < r@.len() ==> m@.contains_key(#[trigger] r@[i]),
        forall |i: int, j: int| 0 <= i < j < r@.len() ==> r@[i] != r@[j],
        forall |k: K| m@.contains_key(k) ==> exists |i: int| 0 <= i < r@.len() && #[trigger] r@[i] == k,
{ unimplemented!() }
