// ---------------------------------------------------------------------------
// shim/data_domain.rs -- TRUSTED.  What the extracted code of abstract_domain/data.rs, data/trait_impl.rs and
// data/conditional_specialization.rs (unit `data_domain`, properties C03 / C04) may assume about
//   * the key type `AbstractIdentifier` (abstract_domain/identifier/mod.rs), kept opaque,
//   * `BTreeMap::entry(..).and_modify(..).or_insert_with(..)`            (R9 target, no vstd specification),
//   * `BTreeMap::values_mut()`                                            (R9 target, no vstd specification).
// `BTreeMap<AbstractIdentifier, T>` itself is NOT shimmed: the unit uses vstd's specifications of
// std::collections::BTreeMap (view = Map<K, V>; new / clone / is_empty / get_mut / iter with its ghost sequence).
// vstd states them under `vstd::laws_cmp::obeys_cmp::<K>()` ("Ord on K is a lawful total order that agrees with ==");
// for K = AbstractIdentifier that is a HYPOTHESIS of the unit (`dd_id_ok`), not an axiom of this file.
// `Option::{and_then, map, is_none, clone}`, `Result::ok`, `BTreeMap::{get, get_mut, insert, clone, is_empty, iter}` have vstd
// specifications: nothing is added for them.  The third R9 substitution of the unit (filter_map(..).collect() in
// intersect_relative_values) is a plain loop and has no target here.
// ---------------------------------------------------------------------------

use std::collections::BTreeMap;

/// `AbstractIdentifier` = `pub struct AbstractIdentifier(Arc<AbstractIdentifierData>)` with
/// `derive(PartialEq, Eq, Hash, Clone, PartialOrd, Ord)`: OPAQUE here.  The unit only uses it as a map key and clones it.
#[verifier::external_body]
#[verifier::external_derive]
#[derive(PartialEq, Eq, PartialOrd, Ord)]
pub struct AbstractIdentifier { _p: () }

/// derive(Clone) over an `Arc`: the clone is the same value.
impl Clone for AbstractIdentifier {
    #[verifier::external_body]
    fn clone(&self) -> (r: AbstractIdentifier) ensures r == *self { unimplemented!() }
}

/// R9 target for the statement
///     MAP.entry(KEY).and_modify(|offset| *offset = offset.merge(OTHER)).or_insert_with(|| DEFAULT);
/// std documentation: `entry(key)` "gets the given key's corresponding entry in the map for in-place manipulation";
/// `Entry::and_modify(f)` "provides in-place mutable access to an occupied entry before any potential inserts into the
/// map" (f is run on the stored value iff the key is present); `Entry::or_insert_with(default)` "ensures a value is in the
/// entry by inserting the result of the default function if empty".  Specialised to the two closures of the pattern:
///   key present  -> the stored value v becomes v.merge(OTHER)   (the call `offset.merge(OTHER)` of the first closure is
///                   swallowed by the substitution, so its precondition is a precondition here),
///   key absent   -> DEFAULT is inserted at the key.
/// No other entry changes.  MAP, KEY, OTHER and DEFAULT are pattern holes (arguments); the text of the two closures is
/// part of the pattern: a changed closure no longer matches and the run ends undecided.  DEFAULT (`OTHER.clone()` in
/// /repo) is evaluated before the call instead of lazily; it is a clone, which has no effect besides its result.
#[verifier::external_body]
pub fn verif_btree_entry_merge_or_insert<K: Ord, T: AbstractDomain>(m: &mut BTreeMap<K, T>, key: K, other: &T, default: T)
    requires
        vstd::laws_cmp::obeys_cmp::<K>(),
        old(m)@.contains_key(key) ==> old(m)@[key].merge_pre_spec(other),
    ensures
        final(m)@ == (if old(m)@.contains_key(key) { old(m)@.insert(key, old(m)@[key].merge_spec(other)) }
                      else { old(m)@.insert(key, default) }),
{ unimplemented!() }

/// R9 target for  `for X in MAP.values_mut() { BODY }`: the keys of the map, each exactly once (ascending order).
/// std documentation of `BTreeMap::values_mut`: "Gets a mutable iterator over the values of the map, in order by key":
/// BODY is run once per entry with X = the mutable reference to the value stored there.  The substitution re-emits BODY
/// verbatim inside `for k in KEYS { let X = MAP.get_mut(&k).unwrap(); BODY }` (vstd specifies `get_mut`).
#[verifier::external_body]
pub fn verif_btree_keys<K: Ord + Clone, V>(m: &BTreeMap<K, V>) -> (r: Vec<K>)
    requires vstd::laws_cmp::obeys_cmp::<K>(),
    ensures
        forall |i: int| 0 <= i < r@.len() ==> m@.contains_key(#[trigger] r@[i]),
        forall |i: int, j: int| 0 <= i < j < r@.len() ==> r@[i] != r@[j],
        forall |k: K| m@.contains_key(k) ==> exists |i: int| 0 <= i < r@.len() && #[trigger] r@[i] == k,
{ unimplemented!() }
