// ---------------------------------------------------------------------------
// shim/fwd_fixpoint.rs -- TRUSTED.  What the extracted adapter `GeneralizedContext` and the worklist constructors of
// analysis/forward_interprocedural_fixpoint.rs (property C07) may assume about petgraph 0.6 beyond shim/callgraph.rs,
// shim/callgraph_build.rs and shim/cfgbuild.rs (ghost views node_count_spec / node_weight / edge_seq / edge_weight,
// `graph[NodeIndex]` with the proved precondition "node exists", `DiGraph::clone`), and about two std iterator chains.
// Every `external_body` is an assumption; each is written from the petgraph / std documentation.
// ---------------------------------------------------------------------------

impl<N, E> DiGraph<N, E> {
    /// petgraph `Graph::edge_endpoints`: "Access the source and target nodes for e." (source: `self.edges.get(e.index())
    /// .map(|ed| (ed.source(), ed.target()))`) -- `None` iff `e` is not an edge of the graph.
    #[verifier::external_body]
    pub fn edge_endpoints(&self, e: EdgeIndex) -> (r: Option<(NodeIndex, NodeIndex)>)
        ensures
            r == (if e.i < self.edge_seq().len() { Some(self.edge_seq()[e.i as int]) } else { None::<(NodeIndex, NodeIndex)> }),
    { unimplemented!() }

    /// R9 target for `GRAPH.edge_weight(E)` (the NAME `edge_weight` is taken by the ghost view of shim/callgraph.rs).
    /// petgraph `Graph::edge_weight`: "Access the weight for edge e. If edge e doesn't exist in the graph, return None.
    /// Also available with indexing syntax: &graph[e]."
    #[verifier::external_body]
    pub fn ff_edge_weight_exec(&self, e: EdgeIndex) -> (r: Option<&E>)
        ensures
            match r {
                Some(w) => e.i < self.edge_seq().len() && *w == self.edge_weight(e.i as int),
                None => e.i >= self.edge_seq().len(),
            },
    { unimplemented!() }

    /// R9 target for `GRAPH.node_weight(A)` (the NAME `node_weight` is taken by the ghost view of shim/callgraph.rs).
    /// petgraph `Graph::node_weight`: "Access the weight for node a. If node a doesn't exist in the graph, return None.
    /// Also available with indexing syntax: &graph[a]."
    #[verifier::external_body]
    pub fn ff_node_weight_exec(&self, a: NodeIndex) -> (r: Option<&N>)
        ensures
            match r {
                Some(w) => a.i < self.node_count_spec() && *w == self.node_weight(a.i as int),
                None => a.i >= self.node_count_spec(),
            },
    { unimplemented!() }
}

impl<N, E> DiGraph<N, E> {
    /// R9 target for `GRAPH.retain_edges(|frozen, edge| PREDICATE)` (receiver kept, the predicate closure is dropped).
    /// petgraph `Graph::retain_edges`: "Keep all edges that return true from the visit closure, remove the others.
    /// visit is provided a proxy reference to the graph, so that the graph can be walked and associated data modified.
    /// The order edges are visited is not specified.  The edge indices of the removed edes [sic] are invalidated, but none other."
    /// Only EDGES are removed: the nodes stay.  WHICH edges are kept is not specified here (the property demands the same
    /// solver result for every priority order, so the worklist constructors owe C07 nothing but "a permutation of all
    /// nodes"; the predicate only shapes the order).  The predicate closure is therefore NOT under verification: its only
    /// possible failure is the index `frozen[edge]`, and petgraph calls it with existing edges only.
    #[verifier::external_body]
    pub fn ff_retain_edges(&mut self)
        ensures
            final(self).node_count_spec() == old(self).node_count_spec(),
    { unimplemented!() }
}

/// `comps` is a partition of the node indices 0..n: every entry is a node, every node occurs at exactly one place.
pub open spec fn ff_partition(comps: Seq<Vec<NodeIndex>>, n: nat) -> bool {
    &&& forall |c: int, j: int| 0 <= c < comps.len() && 0 <= j < comps[c]@.len() ==> (#[trigger] comps[c]@[j]).i < n
    &&& forall |c1: int, j1: int, c2: int, j2: int|
            0 <= c1 < comps.len() && 0 <= j1 < comps[c1]@.len() && 0 <= c2 < comps.len() && 0 <= j2 < comps[c2]@.len()
            && (#[trigger] comps[c1]@[j1]).i == (#[trigger] comps[c2]@[j2]).i ==> c1 == c2 && j1 == j2
    &&& forall |k: int| 0 <= k < n ==> #[trigger] ff_in_comps(comps, k)
}

/// node `k` occurs in one of the lists
pub open spec fn ff_in_comps(comps: Seq<Vec<NodeIndex>>, k: int) -> bool {
    exists |c: int, j: int| 0 <= c < comps.len() && 0 <= j < comps[c]@.len() && (#[trigger] comps[c]@[j]).i == k
}

/// R9 target for `petgraph::algo::kosaraju_scc(&GRAPH)`.
/// petgraph: "Compute the strongly connected components using Kosaraju's algorithm.  Return a vector where each element is
/// a strongly connected component (scc).  The order of node ids within each scc is arbitrary, but the order of the sccs is
/// their postorder (reverse topological sort)."  The strongly connected components of a graph PARTITION its node set (every
/// node lies in exactly one component; a node without edges is a component of its own): that, and nothing about the order,
/// is assumed.
#[verifier::external_body]
pub fn verif_ff_kosaraju_scc<N, E>(g: &DiGraph<N, E>) -> (r: Vec<Vec<NodeIndex>>)
    ensures
        ff_partition(r@, g.node_count_spec()),
{ unimplemented!() }

/// the concatenation of the first `n` lists
pub open spec fn ff_concat(comps: Seq<Vec<NodeIndex>>, n: int) -> Seq<NodeIndex>
    decreases n
{
    if n <= 0 { Seq::empty() } else { ff_concat(comps, n - 1) + comps[n - 1]@ }
}

/// R9 target for `VEC_OF_VECS.into_iter().flatten().collect()` into a `Vec<NodeIndex>`.
/// std `Iterator::flatten`: "Creates an iterator that flattens nested structure" (the items of the first inner collection in
/// order, then those of the second, ...); `collect::<Vec<_>>()` keeps the order: the concatenation of the lists.
#[verifier::external_body]
pub fn verif_ff_flatten(comps: Vec<Vec<NodeIndex>>) -> (r: Vec<NodeIndex>)
    ensures
        r@ == ff_concat(comps@, comps@.len() as int),
{ unimplemented!() }
