// ---------------------------------------------------------------------------
// shim/prelude.rs  -- TRUSTED.  Error type, divergence helpers, min/max.
// Every `external_body` here is an assumption and is counted in the evidence.
// ---------------------------------------------------------------------------

/// `anyhow::Error` and `apint::Error` collapsed to one opaque value (rule R4):
/// the payload is dropped, Ok/Err is kept.
#[derive(Debug)]
pub struct Error { pub tag: u8 }

#[verifier::external_body]
pub fn verif_error() -> (r: Error)
{ unimplemented!() }

/// Rule R5: a failing `assert!` / `assert_eq!` diverges; after it the condition holds.
#[verifier::external_body]
pub fn verif_assume_or_diverge(c: bool)
    ensures c
{ unimplemented!() }

/// Rule R5: `panic!()`, `unreachable!()`, `unimplemented!()`.
#[verifier::external_body]
pub fn verif_diverge<T>() -> (r: T)
    ensures false
{ unimplemented!() }

// Rule R6: std::cmp::{min,max} on the primitive types the units use.
pub trait VerifMinMax: Sized {
    spec fn vmm_le(self, other: Self) -> bool;
    fn verif_max_impl(self, other: Self) -> (r: Self)
        ensures r == (if self.vmm_le(other) { other } else { self });
    fn verif_min_impl(self, other: Self) -> (r: Self)
        ensures r == (if self.vmm_le(other) { self } else { other });
}
impl VerifMinMax for u64 {
    open spec fn vmm_le(self, other: u64) -> bool { self <= other }
    fn verif_max_impl(self, other: u64) -> (r: u64) { if self <= other { other } else { self } }
    fn verif_min_impl(self, other: u64) -> (r: u64) { if self <= other { self } else { other } }
}
impl VerifMinMax for i64 {
    open spec fn vmm_le(self, other: i64) -> bool { self <= other }
    fn verif_max_impl(self, other: i64) -> (r: i64) { if self <= other { other } else { self } }
    fn verif_min_impl(self, other: i64) -> (r: i64) { if self <= other { self } else { other } }
}
impl VerifMinMax for usize {
    open spec fn vmm_le(self, other: usize) -> bool { self <= other }
    fn verif_max_impl(self, other: usize) -> (r: usize) { if self <= other { other } else { self } }
    fn verif_min_impl(self, other: usize) -> (r: usize) { if self <= other { self } else { other } }
}
pub fn verif_max<T: VerifMinMax>(a: T, b: T) -> (r: T)
    ensures r == (if a.vmm_le(b) { b } else { a })
{ a.verif_max_impl(b) }
pub fn verif_min<T: VerifMinMax>(a: T, b: T) -> (r: T)
    ensures r == (if a.vmm_le(b) { a } else { b })
{ a.verif_min_impl(b) }

// std functions without a vstd specification in this build (contracts = std documentation)
pub assume_specification<T, E>[ Result::<T, E>::unwrap_or ](res: Result<T, E>, default: T) -> (out: T)
    ensures out == (match res { Ok(t) => t, Err(_) => default }),
;
pub assume_specification<T>[ Option::<T>::or ](a: Option<T>, b: Option<T>) -> (out: Option<T>)
    ensures out == (if a is Some { a } else { b }),
;
