// ---------------------------------------------------------------------------
// shim/gcd.rs -- TRUSTED: the `gcd` crate (gcd::Gcd::gcd on u64, binary gcd) is
// assumed to return the mathematical greatest common divisor `spec_gcd`
// (gcd(0,0) = 0).  The divisibility properties of spec_gcd are PROVED in
// lemmas/interval.rs, not assumed.
// ---------------------------------------------------------------------------
pub open spec fn spec_gcd(a: nat, b: nat) -> nat
    decreases b
{
    if b == 0 { a } else { spec_gcd(b, a % b) }
}

pub trait Gcd: Sized {
    spec fn gcd_view(self) -> nat;
    fn gcd(self, other: Self) -> (r: Self)
        ensures r.gcd_view() == spec_gcd(self.gcd_view(), other.gcd_view());
}
impl Gcd for u64 {
    open spec fn gcd_view(self) -> nat { self as nat }
    #[verifier::external_body]
    fn gcd(self, other: u64) -> (r: u64) { unimplemented!() }
}
