// shim/trivpass.rs -- unit `trivpass`.
//   Imported, not restated: unit normalize (Project and its opaque field types, nz_keys, nz_frame; cfg_key_hyp via cfgbuild), unit exprsubst (the
//   PROVED contract of Expression::substitute_trivial_operations), vstd (BTreeMap::get_mut, Vec::iter_mut).
//   Own items: the marker axiom below (consistent: interpret tp_visited as `true`) and the VERIFIED wrapper tp_rewrite.

/// the only source of the marker tp_visited (spec/trivpass.rs).  No semantic content: it records that tp_rewrite was called.
#[verifier::external_body]
pub proof fn axiom_tp_mark(e0: Expression, e1: Expression)
    ensures tp_visited(e0, e1),
{}

impl Expression {
    /// R9 target of `.substitute_trivial_operations()` inside the pass: VERIFIED (not external_body) -- the body is that very call; the contract is the
    /// callee's proved contract (unit exprsubst) plus the marker.
    pub fn tp_rewrite(&mut self)
        requires es_wf(*old(self)),
        ensures es_same(*old(self), *final(self)), tp_visited(*old(self), *final(self)),
    {
        let ghost verif_e0 = *self;
        self.substitute_trivial_operations();
        proof { axiom_tp_mark(verif_e0, *self); }
    }
}
