// ---------------------------------------------------------------------------
// shim/modsel.rs -- TRUSTED.  What the extracted module-selection code (lib.rs `get_modules`, the 19 `CWE_MODULE` statics,
// checkers.rs `MODULES_LKM`, caller/src/main.rs `filter_modules_for_partial_run`; property C22) may assume about std
// (`str::split`, `HashSet<&str>` as a set of texts, its consuming iterator, `Iterator::find` on a slice iterator) and the one
// cwe_checker type that cannot be extracted (`CweModule`, because of its function-pointer field).
// Every item is an assumption and is listed in contracts/modsel.vc.
// ---------------------------------------------------------------------------
pub mod ms_std { pub use std::collections::HashSet; }
pub use ms_std::*;

/// `pub struct CweModule { pub name: &'static str, pub version: &'static str, pub run: CweModuleFn }` of lib.rs, RESTATED
/// without the field `run` (`CweModuleFn = fn(&AnalysisResults, &serde_json::Value) -> (Vec<LogMessage>, Vec<CweWarning>)`:
/// Verus rejects function-pointer types).  Consequence: WHICH function a selected module runs is not part of any claim.
pub struct CweModule { pub name: &'static str, pub version: &'static str }

/// The TEXTS held by a `HashSet<&str>`: std's `impl Hash / Eq for str` compare the characters, so a set of `&str` is a set of
/// character sequences.  Uninterpreted: the two shim functions below are the only things known about it.
pub uninterp spec fn ms_hs_texts(s: HashSet<&str>) -> Set<Seq<char>>;

/// `p` is one of the pieces `s.split(c)` yields.  std documentation of `str::split`: "Returns an iterator over substrings of
/// this string slice, separated by characters matched by a pattern"; "If a string contains multiple contiguous separators, you
/// will end up with empty strings in the output"; a separator at the start / end yields a leading / trailing empty string; the
/// empty string yields one empty piece.  I.e. the pieces are exactly the MAXIMAL separator-free substrings `s[a..b]`: bounded
/// on the left by the start of `s` or a separator, on the right by the end of `s` or a separator.
pub open spec fn ms_is_piece(s: Seq<char>, c: char, p: Seq<char>) -> bool {
    exists |a: int, b: int| ms_piece_at(s, c, a, b) && #[trigger] s.subrange(a, b) == p
}

pub open spec fn ms_piece_at(s: Seq<char>, c: char, a: int, b: int) -> bool {
    0 <= a <= b <= s.len()
    && (forall |k: int| a <= k < b ==> s[k] != c)
    && (a == 0 || s[a - 1] == c)
    && (b == s.len() || s[b] == c)
}

/// R9 target for `S.split(C).collect()` into a `HashSet<&str>` (`impl FromIterator for HashSet`: "the set of all yielded
/// items"): the set of texts is exactly the set of pieces.
#[verifier::external_body]
pub fn verif_split_collect<'a>(s: &'a str, c: char) -> (r: HashSet<&'a str>)
    ensures
        forall |p: Seq<char>| #[trigger] ms_hs_texts(r).contains(p) <==> ms_is_piece(s@, c, p),
{
    s.split(c).collect()
}

/// R9 target for `SET.into_iter()` (std: "Creates a consuming iterator, that is, one that moves each value out of the set in
/// ARBITRARY order"): the yielded items as a vector -- every text of the set exactly once, nothing else, order unknown.
#[verifier::external_body]
pub fn verif_hs_into_vec<'a>(s: HashSet<&'a str>) -> (r: Vec<&'a str>)
    ensures
        forall |p: Seq<char>| #[trigger] ms_hs_texts(s).contains(p) <==> ms_yields(r@, p),
        forall |i: int, j: int| 0 <= i < j < r@.len() ==> (#[trigger] r@[i])@ != (#[trigger] r@[j])@,
{
    s.into_iter().collect()
}

pub open spec fn ms_yields(v: Seq<&str>, p: Seq<char>) -> bool {
    exists |i: int| 0 <= i < v.len() && (#[trigger] v[i])@ == p
}

/// R9 target for `V.iter().find(F)` with `V: Vec<T>` (through `&mut Vec<T>`): std `Iterator::find`: "Searches for an element
/// of an iterator that satisfies a predicate ... returns the FIRST element for which the closure returns true, None if they
/// all return false"; `slice::Iter` yields `&v[0], &v[1], ..`.  The predicate receives a reference to the yielded item (`&&T`).
#[verifier::external_body]
pub fn verif_iter_find<'a, T, F: Fn(&&'a T) -> bool>(v: &'a Vec<T>, f: F) -> (r: Option<&'a T>)
    requires
        forall |i: int| #![trigger v@[i]] 0 <= i < v@.len() ==> f.requires((&&v@[i],)),
    ensures
        match r {
            Some(x) => exists |i: int| #![trigger v@[i]] 0 <= i < v@.len() && *x == v@[i] && f.ensures((&&v@[i],), true)
                        && forall |j: int| #![trigger v@[j]] 0 <= j < i ==> f.ensures((&&v@[j],), false),
            None => forall |i: int| #![trigger v@[i]] 0 <= i < v@.len() ==> f.ensures((&&v@[i],), false),
        },
{
    v.iter().find(f)
}

/// `str::starts_with` / `str::contains` declared WITHOUT any postcondition (nothing is assumed about the result; both are
/// total).  The real code calls neither: the declarations only let a name comparison that was weakened to a prefix / substring
/// test reach the verifier (where the closure contract `== equality of the texts` then fails) instead of ending as
/// "`starts_with` is not supported" (undecided).
#[verifier::allow(undeclared_external_trait)]
pub assume_specification<P: std::str::pattern::Pattern> [str::starts_with::<P>] (_0: &str, _1: P) -> bool;
#[verifier::allow(undeclared_external_trait)]
pub assume_specification<P: std::str::pattern::Pattern> [str::contains::<P>] (_0: &str, _1: P) -> bool;

/// R9 target for `panic!(..)` in `filter_modules_for_partial_run`: the panic becomes an OBLIGATION -- it may be reached only
/// in a state in which the specification allows the call to panic (`allowed`); reaching it ends the call (`ensures false`:
/// a Rust panic does not return).
#[verifier::external_body]
pub fn ms_panic_only_if<T>(Ghost(allowed): Ghost<bool>) -> (r: T)
    requires
        allowed,
    ensures
        false,
{
    panic!()
}

// ---- std items used by the selection statement of run_with_ghidra (fragment ms_select_modules) ----

/// `Vec::retain` (std): "Retains only the elements specified by the predicate.  In other words, remove all elements `e` for
/// which `f(&e)` returns false.  This method operates in place, visiting each element exactly once in the original order, and
/// preserves the order of the retained elements."  Stated through the predicate's OWN contract: there is a sequence of
/// decisions `keep`, one per element, each a result the predicate may return for that element, and the vector afterwards is
/// the old one with exactly the elements decided `true`, in order (`ms_keep`).
/// (R9 target for `V.retain(F)`: an `assume_specification` of `Vec::<T, A>::retain` would have to name the unstable `Allocator`.)
#[verifier::external_body]
pub fn verif_vec_retain<T, F: FnMut(&T) -> bool>(v: &mut Vec<T>, f: F)
    requires
        forall |i: int| #![trigger old(v)@[i]] 0 <= i < old(v)@.len() ==> f.requires((&old(v)@[i],)),
    ensures
        exists |keep: Seq<bool>| #![trigger ms_keep(old(v)@, keep)] keep.len() == old(v)@.len()
            && (forall |i: int| #![trigger keep[i]] 0 <= i < keep.len() ==> f.ensures((&old(v)@[i],), keep[i]))
            && final(v)@ == ms_keep(old(v)@, keep),
{
    v.retain(f)
}

/// the elements of `s` whose decision is `true`, in order
pub open spec fn ms_keep<T>(s: Seq<T>, keep: Seq<bool>) -> Seq<T>
    decreases s.len(),
{
    if s.len() == 0 || keep.len() != s.len() {
        Seq::empty()
    } else if keep.last() {
        ms_keep(s.drop_last(), keep.drop_last()).push(s.last())
    } else {
        ms_keep(s.drop_last(), keep.drop_last())
    }
}

/// `<[T]>::contains` (std): "Returns true if the slice contains an element with the given value" -- element EQUALITY
/// (`PartialEq`), stated with vstd's model of `==` (for `&str`: the same characters).
pub assume_specification<T: PartialEq> [<[T]>::contains] (s: &[T], x: &T) -> (r: bool)
    ensures
        <T as PartialEqSpec>::obeys_eq_spec() ==> r == exists |i: int| 0 <= i < s@.len() && <T as PartialEqSpec>::eq_spec(#[trigger] &s@[i], x),
;

/// R9 target for `println!("{module}")` (std: prints the `Display` text of the value and a newline to stdout): the
/// printed VALUES are recorded in a ghost trace, one entry per call.  Which text `impl Display for CweModule` produces for a
/// value (`"name": "version"`) is not modelled.
#[verifier::external_body]
pub fn verif_print_module<'a>(m: &&'a CweModule, out: &mut Ghost<Seq<&'a CweModule>>)
    ensures
        final(out)@ == old(out)@.push(*m),
{
    println!("\"{}\": \"{}\"", m.name, m.version);
}
