// ---------------------------------------------------------------------------------------------------------------------
// shim/formatstr.rs -- TRUSTED items of unit `formatstr` (property C20).  Every item here is an ASSUMPTION.
// ---------------------------------------------------------------------------------------------------------------------

/// R9 target for
///     let re = Regex::new(r"<THE LITERAL>").expect("No valid regex!");
///     re.captures_iter(format_string).filter_map(|cap| cap.get(INDEX).map(|specifier| specifier.as_str().to_string()))
/// up to (not including) the filtering: one entry per non-overlapping match, in the order of `captures_iter`; the entry is
/// `cap.get(INDEX).map(|m| m.as_str().to_string())`.  The contract IS the trusted model `fs_captures` of this one regular
/// expression (spec/formatstr.rs, written from the regex text and the documented leftmost-first semantics of the `regex`
/// crate).  `Regex::new` of this literal succeeds (the `.expect` never fires; the repository's unit tests execute it).
/// Kept honest by: the R9 pattern contains the regex LITERAL (an edited regex no longer matches the pattern: undecided,
/// never a pass) and the bounded twin `c20.regex_model` (replay/src/c20.rs), which runs an executable copy of `fs_captures`
/// against the real `regex` crate.
#[verifier::external_body]
pub fn verif_fs_regex_captures(format_string: &str, index: usize) -> (r: Vec<Option<String>>)
    ensures fs_caps_view(r@, fs_captures(format_string@, index as int)),
{ unimplemented!() }

/// `panic!(..)` of `Datatype::from` is substituted by a call of this function: the precondition `false` turns the arm into a
/// PROOF OBLIGATION (unreachable for every specifier the regex model can produce) instead of R5's "diverges".
#[verifier::external_body]
pub fn fs_panic<T>() -> (r: T)
    requires false
{ unimplemented!() }

/// A `str` is determined by its characters (vstd models `str` as an abstract type with the view `Seq<char>`).  Needed because
/// Verus reads a string-literal PATTERN (`match specifier.as_str() { "c" | "C" => ..`) as specification equality with the
/// literal, whereas Rust compares the characters (`<str as PartialEq>::eq`).
pub axiom fn axiom_fs_str_ext(a: &str, b: &str)
    ensures a@ =~= b@ ==> a == b;
