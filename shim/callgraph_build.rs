// ---------------------------------------------------------------------------
// shim/callgraph_build.rs -- TRUSTED.  What the extracted `get_program_callgraph` (analysis/callgraph.rs,
// property C24 "for every program") may assume about petgraph 0.6 (`DiGraph::{new, add_node, add_edge}`), about
// derive-generated code of `Tid` (`Jmp` is the real, extracted enum).  Extends the ghost views of shim/callgraph.rs
// (DiGraph = node_count_spec / node_weight / edge_seq / edge_weight); nothing in that file is changed.
// `std::collections::HashMap` and `std::collections::BTreeMap` are NOT shimmed: the unit uses vstd's specifications
// (HashMap::{new, insert, get} under `obeys_key_model::<Tid>()`, BTreeMap::iter with its ghost sequence).
// ---------------------------------------------------------------------------

use std::collections::{BTreeMap, HashMap};

// ---- petgraph ------------------------------------------------------------------------------------------------

/// `final` is `old` with one more node of weight `w` (index = old node count); edges untouched.
pub open spec fn cgb_node_added<N, E>(old: DiGraph<N, E>, new: DiGraph<N, E>, w: N) -> bool {
    &&& new.node_count_spec() == old.node_count_spec() + 1
    &&& new.node_weight(old.node_count_spec() as int) == w
    &&& forall |n: int| 0 <= n < old.node_count_spec() ==> #[trigger] new.node_weight(n) == old.node_weight(n)
    &&& new.edge_seq() == old.edge_seq()
    &&& forall |e: int| 0 <= e < old.edge_seq().len() ==> #[trigger] new.edge_weight(e) == old.edge_weight(e)
}

/// `new` is `old` with one more edge a -> b of weight `w` (index = old edge count); nodes untouched.
pub open spec fn cgb_edge_added<N, E>(old: DiGraph<N, E>, new: DiGraph<N, E>, a: NodeIndex, b: NodeIndex, w: E) -> bool {
    &&& new.node_count_spec() == old.node_count_spec()
    &&& forall |n: int| 0 <= n < old.node_count_spec() ==> #[trigger] new.node_weight(n) == old.node_weight(n)
    &&& new.edge_seq() == old.edge_seq().push((a, b))
    &&& new.edge_weight(old.edge_seq().len() as int) == w
    &&& forall |e: int| 0 <= e < old.edge_seq().len() ==> #[trigger] new.edge_weight(e) == old.edge_weight(e)
}

impl<N, E> DiGraph<N, E> {
    /// petgraph `Graph::new`: "Create a new Graph with directed edges."  (no nodes, no edges)
    #[verifier::external_body]
    pub fn new() -> (r: DiGraph<N, E>)
        ensures r.node_count_spec() == 0, r.edge_seq() == Seq::<(NodeIndex, NodeIndex)>::empty(),
    { unimplemented!() }

    /// petgraph `Graph::add_node`: "Add a node (also called vertex) with associated data weight to the graph.
    /// Computes in O(1) time. Return the index of the new node. Panics if the Graph is at the maximum number of
    /// nodes for its index type (N/A if usize)."  Source: `let node_idx = NodeIndex::new(self.nodes.len()); ..
    /// self.nodes.push(node); node_idx`.  The capacity panic is read as rule R5 reads a failed assertion: the call
    /// diverges, panic-freedom w.r.t. the u32 capacity is NOT claimed (cf. axiom_cg_digraph_bounds).
    #[verifier::external_body]
    pub fn add_node(&mut self, weight: N) -> (r: NodeIndex)
        ensures
            r.i == old(self).node_count_spec(),
            cgb_node_added(*old(self), *final(self), weight),
    { unimplemented!() }

    /// petgraph `Graph::add_edge`: "Add an edge from a to b to the graph, with its associated data weight. Return
    /// the index of the new edge. Computes in O(1) time. Panics if any of the nodes don't exist. Panics if the Graph
    /// is at the maximum number of edges for its index type (N/A if usize). Note: Graph allows adding parallel
    /// ("duplicate") edges."  Source: `let edge_idx = EdgeIndex::new(self.edges.len()); .. self.edges.push(edge);
    /// edge_idx`.  "The nodes exist" is a PRECONDITION (proved at the call); the capacity panic is read as R5.
    #[verifier::external_body]
    pub fn add_edge(&mut self, a: NodeIndex, b: NodeIndex, weight: E) -> (r: EdgeIndex)
        requires
            a.i < old(self).node_count_spec(),
            b.i < old(self).node_count_spec(),
        ensures
            r.i == old(self).edge_seq().len(),
            cgb_edge_added(*old(self), *final(self), a, b, weight),
    { unimplemented!() }
}

// ---- derive-generated code of `Tid` (term.rs: #[derive(.., PartialEq, Eq, Hash, Clone, PartialOrd, Ord)]) ----------
// PartialEq / Eq / Clone are restated in contracts/callgraph.vc (Clone: a clone of a Tid is that Tid, two `String`s cloned).
// Hash / PartialOrd / Ord: restated WITHOUT specification (needed for `HashMap<Tid, _>` / `BTreeMap<Tid, _>` to type-check);
// what the maps need of them is a named HYPOTHESIS of the unit (cgb_key_hyp), not an axiom.

// (`impl Clone for Tid` -- `ensures r == *self` -- now sits next to PartialEq / Eq in contracts/callgraph.vc: the query's final
// step `.tid.clone()` is verified there.)

impl core::hash::Hash for Tid {
    #[verifier::external_body]
    fn hash<H: core::hash::Hasher>(&self, state: &mut H) { unimplemented!() }
}

impl PartialOrd for Tid {
    #[verifier::external_body]
    fn partial_cmp(&self, other: &Tid) -> Option<core::cmp::Ordering> { unimplemented!() }
}

impl Ord for Tid {
    #[verifier::external_body]
    fn cmp(&self, other: &Tid) -> core::cmp::Ordering { unimplemented!() }
}

// ---- the one test the builder performs on a jump: is it a direct call? (Jmp is the real, extracted enum) ------------

/// `Some(target)` iff the jump is `Jmp::Call { target, return_ }` (a direct call), `None` for the other variants.
pub open spec fn cgb_call_target(j: Jmp) -> Option<Tid> {
    match j {
        Jmp::Call { target, return_ } => Some(target),
        _ => None,
    }
}
