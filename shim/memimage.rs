// ---------------------------------------------------------------------------
// shim/memimage.rs -- TRUSTED.  Contracts for the std iterator / CStr chains of
// runtime_memory_image.rs that Verus cannot parse.  Each function here is the
// target of one declared R9 substitution in contracts/memimage.vc; the pattern
// holes capture the ARGUMENTS of the chain (slice, indices, endianness flag), so
// a changed argument in /repo flows into the call and is verified against the
// contract below.  The contracts are the std documentation of the chain,
// including its panic conditions (as `requires`).
// Every `external_body` here is an assumption and is listed in the evidence.
// ---------------------------------------------------------------------------

/// "is valid UTF-8" (core::str::from_utf8 succeeds) -- left uninterpreted.
pub uninterp spec fn valid_utf8(b: Seq<u8>) -> bool;
/// the bytes of a string slice (`str::as_bytes`) -- left uninterpreted.
pub uninterp spec fn str_bytes(s: &str) -> Seq<u8>;

/// R9 target for   BYTES[START..].iter().position(|&b| b == 0)
/// std: `BYTES[START..]` panics when START > len; `Iterator::position` returns the index *within the
/// sub-slice* of the first element satisfying the predicate, `None` when no element does.
#[verifier::external_body]
pub fn verif_position_zero(bytes: &Vec<u8>, start: usize) -> (r: Option<usize>)
    requires start <= bytes@.len(),
    ensures
        r is Some ==> is_first_nul_from(bytes@, start as int, start as int + r->Some_0 as int),
        r is None ==> !has_nul_from(bytes@, start as int),
{ unimplemented!() }

/// std::ffi::CStr -- ghost content = the bytes without the trailing NUL.
pub struct CStr { pub content: Ghost<Seq<u8>> }

/// R9 target for   std::ffi::CStr::from_bytes_with_nul(&BYTES[LO..HI])
/// std: `BYTES[LO..HI]` panics unless LO <= HI <= len.  `from_bytes_with_nul` is `Ok` iff the slice is
/// NUL terminated and contains no interior NUL (i.e. its only NUL is its last byte); an empty slice is `Err`.
#[verifier::external_body]
pub fn verif_cstr_from_bytes_with_nul<'a>(bytes: &'a Vec<u8>, lo: usize, hi: usize) -> (r: Result<&'a CStr, Error>)
    requires lo <= hi <= bytes@.len(),
    ensures
        r is Ok <==> (lo < hi && bytes@[hi - 1] == 0u8 && forall|k: int| lo <= k < hi - 1 ==> #[trigger] bytes@[k] != 0u8),
        r is Ok ==> r->Ok_0.content@ == bytes@.subrange(lo as int, hi - 1),
{ unimplemented!() }

impl CStr {
    /// std: `CStr::to_str` is `Ok` iff the content (without the NUL) is valid UTF-8, and then it is that content.
    #[verifier::external_body]
    pub fn to_str(&self) -> (r: Result<&str, Error>)
        ensures
            r is Ok <==> valid_utf8(self.content@),
            r is Ok ==> str_bytes(r->Ok_0) == self.content@,
    { unimplemented!() }
}

/// R9 target for the byte-order assembly block of `RuntimeMemoryImage::read`:
///     let mut bytes = BYTES[LO..HI].to_vec();
///     if LITTLE_ENDIAN { bytes = bytes.into_iter().rev().collect(); }
///     let mut bytes = bytes.into_iter();
///     let mut bitvector = Bitvector::from_u8(bytes.next().unwrap());
///     for byte in bytes { let new_byte = Bitvector::from_u8(byte); bitvector = bitvector.bin_op(BinOpType::Piece, &new_byte)?; }
/// Panics: the slicing unless LO <= HI <= len, `next().unwrap()` when LO == HI.  `Piece` appends the new byte as
/// the least significant byte and is never `Err` for well-formed operands (proved in unit `bitvector`, C01), so
/// the first byte of the (possibly reversed) vector ends up most significant.  THE CONTRACT IS THE "in the image's
/// byte order" CLAUSE OF C19: that clause is assumed here, not proved.  (HI-LO)*8 <= MAXW is the model's width bound.
#[verifier::external_body]
pub fn verif_bytes_to_bitvector(bytes: &Vec<u8>, lo: usize, hi: usize, little_endian: bool) -> (r: Result<Bitvector, Error>)
    requires lo < hi <= bytes@.len(), (hi - lo) * 8 <= MAXW(),
    ensures
        r is Ok,
        r->Ok_0 == bv(((hi - lo) * 8) as nat, mem_value(bytes@.subrange(lo as int, hi as int), little_endian)),
{ unimplemented!() }
