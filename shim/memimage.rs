// ---------------------------------------------------------------------------
// shim/memimage.rs -- TRUSTED.  Contracts for the std pieces of
// runtime_memory_image.rs that this Verus/vstd build has no specification for.
//  * read_string_until_null_terminator: two iterator / CStr chains that Verus
//    cannot parse; each `verif_*` function is the target of one declared R9
//    substitution in contracts/memimage.vc whose holes capture the ARGUMENTS of
//    the chain (slice, indices), so a changed argument in /repo flows into the
//    call and is verified against the contract.  Contracts = std documentation of
//    the chain, including its panic conditions (as `requires`).
//  * read: NO substitution.  The only item is the `assume_specification` of
//    `<[T]>::to_vec` at the end of this file; slicing, into_iter, rev, collect,
//    next, unwrap and the `for` loop are specified by vstd itself, and the Piece
//    fold is verified from the real text against the contract of
//    Bitvector::bin_op (proved in unit bitvector).
// Every external_body / assume_specification here is an assumption and is listed
// in the evidence.
// ---------------------------------------------------------------------------

/// "is valid UTF-8" (core::str::from_utf8 succeeds) -- left uninterpreted.
pub uninterp spec fn valid_utf8(b: Seq<u8>) -> bool;
/// the bytes of a string slice (`str::as_bytes`) -- left uninterpreted.
pub uninterp spec fn str_bytes(s: &str) -> Seq<u8>;

/// R9 target for   BYTES[START..].iter().position(|&b| b == 0)
/// std: `BYTES[START..]` panics when START > len; `Iterator::position` returns the index *within the
/// sub-slice* of the first element satisfying the predicate, `None` when no element does.
#[verifier::external_body]
pub fn verif_position_zero(bytes: &Vec<u8>, start: usize) -> (r: Option<usize>)
    requires start <= bytes@.len(),
    ensures
        r is Some ==> is_first_nul_from(bytes@, start as int, start as int + r->Some_0 as int),
        r is None ==> !has_nul_from(bytes@, start as int),
{ unimplemented!() }

/// std::ffi::CStr -- ghost content = the bytes without the trailing NUL.
pub struct CStr { pub content: Ghost<Seq<u8>> }

/// R9 target for   std::ffi::CStr::from_bytes_with_nul(&BYTES[LO..HI])
/// std: `BYTES[LO..HI]` panics unless LO <= HI <= len.  `from_bytes_with_nul` is `Ok` iff the slice is
/// NUL terminated and contains no interior NUL (i.e. its only NUL is its last byte); an empty slice is `Err`.
#[verifier::external_body]
pub fn verif_cstr_from_bytes_with_nul<'a>(bytes: &'a Vec<u8>, lo: usize, hi: usize) -> (r: Result<&'a CStr, Error>)
    requires lo <= hi <= bytes@.len(),
    ensures
        r is Ok <==> (lo < hi && bytes@[hi - 1] == 0u8 && forall|k: int| lo <= k < hi - 1 ==> #[trigger] bytes@[k] != 0u8),
        r is Ok ==> r->Ok_0.content@ == bytes@.subrange(lo as int, hi - 1),
{ unimplemented!() }

impl CStr {
    /// std: `CStr::to_str` is `Ok` iff the content (without the NUL) is valid UTF-8, and then it is that content.
    #[verifier::external_body]
    pub fn to_str(&self) -> (r: Result<&str, Error>)
        ensures
            r is Ok <==> valid_utf8(self.content@),
            r is Ok ==> str_bytes(r->Ok_0) == self.content@,
    { unimplemented!() }
}

/// std `<[T]>::to_vec` (used by `RuntimeMemoryImage::read` as `segment.bytes[lo..hi].to_vec()`), for which this
/// vstd build has no specification.  std documentation: "Copies `self` into a new `Vec`" -- same length, every
/// element the clone of the element at the same position (`cloned` is vstd's relation "b is a clone of a"; for
/// `u8` it is equality).  NOT a substitution: the call in /repo is verified as written, the slicing
/// `bytes[lo..hi]` (panics unless lo <= hi <= len), `Vec::into_iter`, `Iterator::rev`, `collect`, `next`, `unwrap`
/// and the `for` loop over the `vec::IntoIter` are covered by vstd's own std specifications.
pub assume_specification<T: Clone> [ <[T]>::to_vec ] (s: &[T]) -> (r: Vec<T>)
    ensures
        r@.len() == s@.len(),
        forall|i: int| 0 <= i < s@.len() ==> cloned::<T>(#[trigger] s@[i], r@[i]);
