// ---------------------------------------------------------------------------
// shim/reachcheck.rs -- TRUSTED.  What the extracted reachability checkers (utils/graph_utils.rs, checkers/cwe_367.rs,
// checkers/cwe_243.rs; property C17) may assume about petgraph 0.6.4 and std.  Extends the ghost views of
// shim/callgraph.rs (DiGraph = node_count_spec / node_weight / edge_seq / edge_weight, NodeIndex, EdgeIndex); nothing in
// that file is changed.  Written from the petgraph source under ~/.cargo/registry/src/*/petgraph-0.6.4/src/graph_impl/mod.rs.
// `std::collections::HashSet` is NOT shimmed: the unit uses vstd's specification (HashSet::{new, insert, contains}), which
// is stated under `obeys_key_model::<NodeIndex>()` -- given to the shim type NodeIndex below (trusted).
// ---------------------------------------------------------------------------

use std::collections::HashSet;

// ---- NodeIndex as a HashSet key ---------------------------------------------------------------------------------------
// petgraph: `#[derive(Copy, Clone, Default, PartialEq, PartialOrd, Eq, Ord, Hash)] pub struct NodeIndex<Ix = DefaultIx>(Ix);`
// i.e. structural equality on the wrapped u32 and the derived hash of that u32.

impl PartialEq for NodeIndex {
    fn eq(&self, other: &NodeIndex) -> (r: bool) { self.i == other.i }
}
impl PartialEqSpecImpl for NodeIndex {
    open spec fn obeys_eq_spec() -> bool { true }
    open spec fn eq_spec(&self, other: &NodeIndex) -> bool { self.i == other.i }
}
impl Eq for NodeIndex {}

impl core::hash::Hash for NodeIndex {
    #[verifier::external_body]
    fn hash<H: core::hash::Hasher>(&self, state: &mut H) { unimplemented!() }
}

/// vstd states HashSet::{insert, contains} under `obeys_key_model::<Key>()` ("the key's Hash and Eq are consistent and
/// deterministic, and == is structural").  True of the derived impls on a wrapped u32 (vstd itself assumes it for u32).
#[verifier::external_body]
pub broadcast proof fn axiom_rc_node_index_key_model()
    ensures #[trigger] vstd::std_specs::hash::obeys_key_model::<NodeIndex>(),
{ unimplemented!() }

// ---- EdgeReference with weight and endpoints --------------------------------------------------------------------------

/// petgraph::graph::EdgeReference<'a, E, u32> `{ index: EdgeIndex, node: [NodeIndex; 2], weight: &'a E }` (Copy), seen
/// through the accessors of `petgraph::visit::EdgeRef` the unit calls.  (Own type: `EdgeReference` of shim/callgraph.rs
/// carries the index only.)
pub struct RcEdgeReference<'a, E> {
    pub e: EdgeIndex,
    pub src: NodeIndex,
    pub tgt: NodeIndex,
    pub w: &'a E,
}

impl<'a, E> Clone for RcEdgeReference<'a, E> {
    fn clone(&self) -> (r: Self) ensures r == *self { *self }
}
impl<'a, E> Copy for RcEdgeReference<'a, E> {}

impl<'a, E> RcEdgeReference<'a, E> {
    /// `EdgeRef::weight`: "fn weight(&self) -> &'a E { self.weight }"
    pub fn weight(&self) -> (r: &'a E)
        ensures r == self.w
    { self.w }

    /// `EdgeRef::target`: "fn target(&self) -> Self::NodeId { self.node[1] }"
    pub fn target(&self) -> (r: NodeIndex)
        ensures r == self.tgt
    { self.tgt }

    /// `EdgeRef::source`: "fn source(&self) -> Self::NodeId { self.node[0] }"
    pub fn source(&self) -> (r: NodeIndex)
        ensures r == self.src
    { self.src }

    /// `EdgeRef::id`: "fn id(&self) -> Self::EdgeId { self.index }"
    pub fn id(&self) -> (r: EdgeIndex)
        ensures r == self.e
    { self.e }
}

/// the reference `x` denotes edge number `x.e.i` of `g`: endpoints and weight are those of the graph
pub open spec fn rc_ref_of<'a, N, E>(g: DiGraph<N, E>, x: RcEdgeReference<'a, E>) -> bool {
    &&& x.e.i < g.edge_seq().len()
    &&& x.src == g.edge_seq()[x.e.i as int].0
    &&& x.tgt == g.edge_seq()[x.e.i as int].1
    &&& *x.w == g.edge_weight(x.e.i as int)
}

/// Contract of `verif_rc_edges`, as a predicate: `r` lists outgoing edges of `a` only, and every outgoing edge of `a`.
pub open spec fn rc_out_edges_ok<'a, N, E>(g: DiGraph<N, E>, a: NodeIndex, r: Seq<RcEdgeReference<'a, E>>) -> bool {
    &&& forall |k: int| 0 <= k < r.len() ==> rc_ref_of(g, #[trigger] r[k]) && r[k].src == a
    &&& forall |e: int| 0 <= e < g.edge_seq().len() && (#[trigger] g.edge_seq()[e]).0 == a
            ==> exists |k: int| 0 <= k < r.len() && (#[trigger] r[k]).e.i == e
}

/// petgraph::graph::Edges<'a, E, Directed, u32>, the iterator returned by `Graph::edges`, seen as the list of the edge
/// references it will yield and a cursor.  `next` is ordinary verified code over that list; the only assumption is the
/// contract of `verif_rc_edges` (which list it is).
pub struct RcEdges<'a, E> {
    pub v: Vec<RcEdgeReference<'a, E>>,
    pub i: usize,
}

impl<'a, E> RcEdges<'a, E> {
    /// the references the iterator yields, in order
    pub open spec fn refs(&self) -> Seq<RcEdgeReference<'a, E>> { self.v@ }
    /// how many of them have been yielded
    pub open spec fn pos(&self) -> int { self.i as int }
    pub open spec fn wf(&self) -> bool { self.i <= self.v@.len() }

    /// `Iterator::next`
    pub fn next(&mut self) -> (r: Option<RcEdgeReference<'a, E>>)
        requires old(self).wf(),
        ensures
            final(self).wf(),
            final(self).refs() == old(self).refs(),
            old(self).pos() < old(self).refs().len() ==> r == Some(old(self).refs()[old(self).pos()]) && final(self).pos() == old(self).pos() + 1,
            old(self).pos() >= old(self).refs().len() ==> r is None && final(self).pos() == old(self).pos(),
    {
        if self.i < self.v.len() {
            let x = self.v[self.i];
            self.i = self.i + 1;
            Some(x)
        } else {
            None
        }
    }
}

/// R9 target for `for edge in GRAPH.edges(A) {`  ->  `let mut verif_eit = verif_rc_edges(GRAPH, A); while let Some(edge) = verif_eit.next() {`
/// (Rust's own desugaring of `for`: `let mut it = IntoIterator::into_iter(X); loop { match it.next() { None => break, Some(edge) => BODY } }`;
/// needed because this Verus rejects `continue` inside a `for` loop.)
/// petgraph `Graph::edges(a)`: "Return an iterator of all edges of a. Directed: Outgoing edges from a. Produces an empty
/// iterator if the node doesn't exist. Iterator element type is EdgeReference<E, Ix>."  (= edges_directed(a, Outgoing); the
/// iterator walks the linked list of outgoing edges of `a` and yields `EdgeReference { index, node: *node, weight }`.)
/// Nothing is assumed about order or multiplicity.
#[verifier::external_body]
pub fn verif_rc_edges<'a, N, E>(g: &'a DiGraph<N, E>, a: NodeIndex) -> (r: RcEdges<'a, E>)
    ensures rc_out_edges_ok(*g, a, r.refs()), r.pos() == 0, r.wf(),
{ unimplemented!() }
