// ---------------------------------------------------------------------------
// shim/domain_map.rs -- TRUSTED.  What the extracted code of abstract_domain/domain_map.rs (unit `domain_map`,
// property C03 for keyed maps) may assume about std.
// `BTreeMap<K, V>` itself is NOT shimmed: the unit uses vstd's specifications of std::collections::BTreeMap
// (view = Map<K, V>; new / clone / is_empty / get / get_mut / insert / remove / contains_key / iter with its ghost
// sequence), stated by vstd under `vstd::laws_cmp::obeys_cmp::<K>()` -- for the generic key type K that is a
// HYPOTHESIS of the unit (`dm_key_ok`), not an axiom of this file.  `PhantomData`, `Option::{is_none, unwrap}`,
// `Into::into` (through `FromSpecImpl`) have vstd specifications.
// The ONLY item here: the list of keys of a map, target of the R9 substitution of `BTreeMap::retain`.
// The R9 substitution of `entry(k).and_modify(f).or_insert_with(g)` needs no target (see contracts/domain_map.vc).
// ---------------------------------------------------------------------------

use std::collections::BTreeMap;
use std::marker::PhantomData;

/// R9 target for `MAP.retain(F);`.  std documentation of `BTreeMap::retain`: "Retains only the elements specified by
/// the predicate.  In other words, remove all pairs (k, v) for which f(&k, &mut v) returns false.  The elements are
/// visited in ascending key order."  The substitution (contracts/domain_map.vc) binds the closure F -- text verbatim,
/// body under verification -- to a local, takes the keys of MAP (this function: every key exactly once, ascending
/// order is not claimed) and, per key, calls F on the key and on the mutable reference `get_mut` (vstd) yields for
/// it, then `remove`s (vstd) the key when F answered false.  The keys are clones of the stored keys; that a clone of
/// a key is that key is part of what this contract states (K: Clone is in the bounds of every strategy).
#[verifier::external_body]
pub fn verif_dm_keys<K: Ord + Clone, V>(m: &BTreeMap<K, V>) -> (r: Vec<K>)
    requires vstd::laws_cmp::obeys_cmp::<K>(),
    ensures
        forall |i: int| 0 <= i < r@.len() ==> m@.contains_key(#[trigger] r@[i]),
        forall |i: int, j: int| 0 <= i < j < r@.len() ==> r@[i] != r@[j],
        forall |k: K| m@.contains_key(k) ==> exists |i: int| 0 <= i < r@.len() && #[trigger] r@[i] == k,
{ unimplemented!() }
