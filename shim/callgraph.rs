// ---------------------------------------------------------------------------
// shim/callgraph.rs -- TRUSTED.  What the extracted call-sequence query
// (analysis/callgraph.rs, property C24) may assume about petgraph 0.6 (`DiGraph`, `NodeIndex`,
// `EdgeIndex`, `EdgeReference`, `Direction`) and `std::collections::BTreeSet`.
// Each `external_body` is an assumption.  The shims expose a ghost view and nothing else:
//     DiGraph<N, E>   edge_seq() : Seq<(source, target)> indexed by EdgeIndex,  edge_weight(e) : E,
//                     node_count_spec() : nat
//     BTreeSet<T>     view : Set<T>
// Contracts are written from the petgraph / std documentation.
// (Own file instead of shim/fixpoint.rs: that one fixes BTreeSet to `usize`; this unit needs
//  BTreeSet<NodeIndex>, BTreeSet<EdgeIndex>, BTreeSet<Tid>, directed neighbour queries and edge weights.)
// ---------------------------------------------------------------------------

/// The path `petgraph::Direction` as written in the extracted text (`use petgraph::Direction;` and
/// `petgraph::Direction::Incoming` stay verbatim).
pub mod petgraph {
    /// petgraph::Direction: "Edge direction. Outgoing: An Outgoing edge is an outward edge from the
    /// current node. Incoming: An Incoming edge is an inbound edge to the current node."
    #[derive(Clone, Copy)]
    pub enum Direction { Outgoing, Incoming }
}

/// petgraph::graph::NodeIndex<u32>: a `Copy` wrapper around the position of the node.
/// Equality / ordering are derived on the wrapped integer, i.e. structural.
#[derive(Clone, Copy)]
pub struct NodeIndex { pub i: usize }

/// petgraph::graph::EdgeIndex<u32>: same for edges.
#[derive(Clone, Copy)]
pub struct EdgeIndex { pub i: usize }

/// petgraph::graph::EdgeReference<'a, E, u32>, seen through the only accessor the unit calls.
#[derive(Clone, Copy)]
pub struct EdgeReference { pub e: EdgeIndex }

impl EdgeReference {
    /// petgraph `EdgeRef::id`: "The edge's identifier" (= its EdgeIndex).
    pub fn id(&self) -> (r: EdgeIndex)
        ensures r == self.e
    { self.e }
}

/// petgraph::graph::DiGraph<N, E> (= Graph<N, E, Directed, u32>), seen through its number of nodes,
/// the sequence of edge endpoints (position = EdgeIndex) and the weight of each edge.
#[verifier::external_body]
#[verifier::accept_recursive_types(N)]
#[verifier::accept_recursive_types(E)]
pub struct DiGraph<N, E> { _p: core::marker::PhantomData<(N, E)> }

impl<N, E> DiGraph<N, E> {
    pub uninterp spec fn node_count_spec(&self) -> nat;
    /// (source, target) of every edge, indexed by `EdgeIndex::index()`
    pub uninterp spec fn edge_seq(&self) -> Seq<(NodeIndex, NodeIndex)>;
    /// the weight of edge `e` (meaningful for 0 <= e < edge_seq().len()); `graph[EdgeIndex]` returns it
    pub uninterp spec fn edge_weight(&self, e: int) -> E;
    /// the weight (label) of node `n` (meaningful for 0 <= n < node_count_spec()); `graph[NodeIndex]` returns it
    pub uninterp spec fn node_weight(&self, n: int) -> N;
}

/// petgraph: edges only connect existing nodes (`add_edge` "Panics if any of the nodes don't exist",
/// `remove_node` removes the incident edges); node and edge indices are `u32` (`add_node` / `add_edge`: "Panics if
/// the Graph is at the maximum number of nodes / edges for its index type").
#[verifier::external_body]
pub proof fn axiom_cg_digraph_bounds<N, E>(g: DiGraph<N, E>)
    ensures
        g.node_count_spec() <= u32::MAX,
        g.edge_seq().len() <= u32::MAX,
        forall |e: int| 0 <= e < g.edge_seq().len() ==>
            (#[trigger] g.edge_seq()[e]).0.i < g.node_count_spec() && g.edge_seq()[e].1.i < g.node_count_spec(),
{ unimplemented!() }

/// The endpoint of edge `e` that `GRAPH.xxx_directed(a, dir)` compares with `a` ...
pub open spec fn cg_near<N, E>(g: DiGraph<N, E>, d: petgraph::Direction, e: int) -> NodeIndex {
    match d {
        petgraph::Direction::Outgoing => g.edge_seq()[e].0,
        petgraph::Direction::Incoming => g.edge_seq()[e].1,
    }
}

/// ... and the other endpoint (the "neighbor").
pub open spec fn cg_far<N, E>(g: DiGraph<N, E>, d: petgraph::Direction, e: int) -> NodeIndex {
    match d {
        petgraph::Direction::Outgoing => g.edge_seq()[e].1,
        petgraph::Direction::Incoming => g.edge_seq()[e].0,
    }
}

/// `x` is the other endpoint of an edge that leaves (Outgoing) / enters (Incoming) `a`.
pub open spec fn cg_is_neighbor<N, E>(g: DiGraph<N, E>, a: NodeIndex, d: petgraph::Direction, x: NodeIndex) -> bool {
    exists |e: int| 0 <= e < g.edge_seq().len() && cg_near(g, d, e) == a && #[trigger] cg_far(g, d, e) == x
}

/// Contract of `verif_neighbors_directed`, as a predicate.
pub open spec fn cg_neighbors_ok<N, E>(g: DiGraph<N, E>, a: NodeIndex, d: petgraph::Direction, r: Seq<NodeIndex>) -> bool {
    &&& forall |k: int| 0 <= k < r.len() ==> cg_is_neighbor(g, a, d, #[trigger] r[k])
    &&& forall |e: int| 0 <= e < g.edge_seq().len() && #[trigger] cg_near(g, d, e) == a ==> r.contains(cg_far(g, d, e))
}

/// R9 target for `for neighbor in GRAPH.neighbors_directed(A, DIR)` (the iterator is materialised as a Vec).
/// petgraph `Graph::neighbors_directed(a, dir)`: "Return an iterator of all neighbors that have an edge between
/// them and a, in the specified direction. Outgoing: All edges from a. Incoming: All edges to a. Produces an empty
/// iterator if the node doesn't exist. Iterator element type is NodeIndex<Ix>."  (One entry per edge, i.e. with
/// multiplicity; only "every entry is the other endpoint of such an edge" and "the other endpoint of every such
/// edge is an entry" are assumed, nothing about order or multiplicity.)
#[verifier::external_body]
pub fn verif_neighbors_directed<N, E>(g: &DiGraph<N, E>, a: NodeIndex, dir: petgraph::Direction) -> (r: Vec<NodeIndex>)
    ensures cg_neighbors_ok(*g, a, dir, r@)
{ unimplemented!() }

/// the edge with index `e` is among the references `r`
pub open spec fn cg_has_edge(r: Seq<EdgeReference>, e: int) -> bool {
    exists |k: int| 0 <= k < r.len() && (#[trigger] r[k]).e.i == e
}

/// Contract of `verif_edges_directed`, as a predicate.
pub open spec fn cg_edges_ok<N, E>(g: DiGraph<N, E>, a: NodeIndex, d: petgraph::Direction, r: Seq<EdgeReference>) -> bool {
    &&& forall |k: int| 0 <= k < r.len() ==>
            (#[trigger] r[k]).e.i < g.edge_seq().len() && cg_near(g, d, r[k].e.i as int) == a
    &&& forall |e: int| 0 <= e < g.edge_seq().len() && #[trigger] cg_near(g, d, e) == a ==> cg_has_edge(r, e)
}

/// R9 target for `for edge in GRAPH.edges_directed(A, DIR)` (the iterator is materialised as a Vec).
/// petgraph `Graph::edges_directed(a, dir)`: "Return an iterator of all edges of a, in the specified direction.
/// Outgoing: All edges from a. Incoming: All edges to a. Produces an empty iterator if the node a doesn't exist.
/// Iterator element type is EdgeReference<E, Ix>."  Nothing is assumed about the order.
#[verifier::external_body]
pub fn verif_edges_directed<N, E>(g: &DiGraph<N, E>, a: NodeIndex, dir: petgraph::Direction) -> (r: Vec<EdgeReference>)
    ensures cg_edges_ok(*g, a, dir, r@)
{ unimplemented!() }

/// std::collections::BTreeSet<T>, seen as a Set<T>.  Instantiated in this unit at `NodeIndex`, `EdgeIndex`
/// (derived `Ord` on the wrapped integer: `Ordering::Equal` iff structurally equal) and `Tid` (derived `Ord`/`Eq`
/// on two `String`s: the same).
#[verifier::external_body]
#[verifier::reject_recursive_types(T)]
pub struct BTreeSet<T> { _p: core::marker::PhantomData<T> }

impl<T> View for BTreeSet<T> {
    type V = Set<T>;
    uninterp spec fn view(&self) -> Set<T>;
}

impl<T> BTreeSet<T> {
    /// std `BTreeSet::new`: "Makes a new, empty BTreeSet."
    #[verifier::external_body]
    pub fn new() -> (r: BTreeSet<T>)
        ensures r@ == Set::<T>::empty()
    { unimplemented!() }

    /// std `BTreeSet::insert`: "Adds a value to the set. Returns whether the value was newly inserted. That is:
    /// If the set did not previously contain an equal value, true is returned. If the set already contained an
    /// equal value, false is returned, and the entry is not updated."
    #[verifier::external_body]
    pub fn insert(&mut self, v: T) -> (r: bool)
        ensures final(self)@ == old(self)@.insert(v), r == !old(self)@.contains(v), !r ==> final(self)@ == old(self)@
    { unimplemented!() }
}

// `Jmp` of the intermediate representation is EXTRACTED from /repo (jmp.rs) by the unit; the query never looks into it.

/// Contract of `verif_common_edge_tids`, as a predicate: `r` is the set of the tids of the edges in both `a` and `b`.
pub open spec fn cg_common_tids<'a, N>(g: DiGraph<N, &'a Term<Jmp>>, a: Set<EdgeIndex>, b: Set<EdgeIndex>, r: Set<Tid>) -> bool {
    forall |t: Tid| #[trigger] r.contains(t) <==>
        exists |e: EdgeIndex| a.contains(e) && b.contains(e) && t == (#[trigger] g.edge_weight(e.i as int)).tid
}

/// R9 target for the final chain of `find_call_sequences_from_node_to_target`
///     A.iter().filter_map(|edge| { if B.contains(edge) { Some(GRAPH[*edge].tid.clone()) } else { None } }).collect()
/// std: `BTreeSet::iter` visits every element of A; `filter_map` keeps the `Some` results; `BTreeSet::contains`
/// "Returns true if the set contains an element equal to the value"; petgraph `Index<EdgeIndex>`: "Index the Graph
/// by EdgeIndex to access edge weights. Panics if the edge doesn't exist." (hence the `requires`); derived
/// `Tid::clone` returns an equal Tid; `collect::<BTreeSet<Tid>>()` builds the set of the collected values.
/// This is the part of "exactly" in C24 that is ASSUMED: the tid image of the intersection of the two edge sets.
#[verifier::external_body]
pub fn verif_common_edge_tids<'a, N>(g: &DiGraph<N, &'a Term<Jmp>>, a: &BTreeSet<EdgeIndex>, b: &BTreeSet<EdgeIndex>) -> (r: BTreeSet<Tid>)
    requires
        forall |e: EdgeIndex| a@.contains(e) && b@.contains(e) ==> e.i < g.edge_seq().len(),
    ensures
        cg_common_tids(*g, a@, b@, r@),
{ unimplemented!() }

/// `r` is the first node of `g` (in index order) whose weight is `w`.
pub open spec fn cg_first_node_with<N, E>(g: DiGraph<N, E>, w: N, r: NodeIndex) -> bool {
    &&& r.i < g.node_count_spec()
    &&& g.node_weight(r.i as int) == w
    &&& forall |j: int| 0 <= j < r.i ==> #[trigger] g.node_weight(j) != w
}

/// R9 target for `callgraph.node_indices().find(|node| callgraph[*node] == *W).unwrap_or_else(|| panic!(..))`.
/// petgraph `Graph::node_indices`: "Return an iterator over the node indices of the graph" (0 .. node_count(), ascending);
/// `Iterator::find`: "Searches for an element of an iterator that satisfies a predicate ... returns the first";
/// `Index<NodeIndex>`: the node weight; `==` on `Tid` is the derived `PartialEq` (both strings equal), read as
/// specification equality; `unwrap_or_else(|| panic!(..))`: diverges when there is no such node (as rule R5:
/// panic-freedom is NOT claimed, after the call a node was found).
#[verifier::external_body]
pub fn verif_find_node_or_panic<N, E>(g: &DiGraph<N, E>, w: &N) -> (r: NodeIndex)
    ensures cg_first_node_with(*g, *w, r)
{ unimplemented!() }
