// ---------------------------------------------------------------------------
// shim/callgraph.rs -- TRUSTED.  What the extracted call-sequence query
// (analysis/callgraph.rs, property C24) may assume about petgraph 0.6 (`DiGraph`, `NodeIndex`,
// `EdgeIndex`, `EdgeReference`, `Direction`) and `std::collections::BTreeSet`.
// Each `external_body` is an assumption.  The shims expose a ghost view and nothing else:
//     DiGraph<N, E>   edge_seq() : Seq<(source, target)> indexed by EdgeIndex,  edge_weight(e) : E,
//                     node_count_spec() : nat
//     BTreeSet<T>     view : Set<T>
// Contracts are written from the petgraph / std documentation.  Items: Direction, NodeIndex, EdgeIndex, EdgeReference::id,
// DiGraph (views), axiom_cg_digraph_bounds, verif_neighbors_directed, verif_edges_directed, BTreeSet::{new, insert, contains},
// verif_btreeset_iter, Index<EdgeIndex> for DiGraph, CgNodeWeights + Index<NodeIndex>, verif_cg_node_indices.
// (The former shims verif_common_edge_tids -- the ASSUMED meaning of the final filter_map chain -- and verif_find_node_or_panic
//  are gone: both constructs are now verified, see contracts/callgraph.vc R9 (3) / (4).)
// (Own file instead of shim/fixpoint.rs: that one fixes BTreeSet to `usize`; this unit needs
//  BTreeSet<NodeIndex>, BTreeSet<EdgeIndex>, BTreeSet<Tid>, directed neighbour queries and edge weights.)
// ---------------------------------------------------------------------------

/// The path `petgraph::Direction` as written in the extracted text (`use petgraph::Direction;` and
/// `petgraph::Direction::Incoming` stay verbatim).
pub mod petgraph {
    /// petgraph::Direction: "Edge direction. Outgoing: An Outgoing edge is an outward edge from the
    /// current node. Incoming: An Incoming edge is an inbound edge to the current node."
    #[derive(Clone, Copy)]
    pub enum Direction { Outgoing, Incoming }
}

/// petgraph::graph::NodeIndex<u32>: a `Copy` wrapper around the position of the node.
/// Equality / ordering are derived on the wrapped integer, i.e. structural.
#[derive(Clone, Copy)]
pub struct NodeIndex { pub i: usize }

/// petgraph::graph::EdgeIndex<u32>: same for edges.
#[derive(Clone, Copy)]
pub struct EdgeIndex { pub i: usize }

/// petgraph::graph::EdgeReference<'a, E, u32>, seen through the only accessor the unit calls.
#[derive(Clone, Copy)]
pub struct EdgeReference { pub e: EdgeIndex }

impl EdgeReference {
    /// petgraph `EdgeRef::id`: "The edge's identifier" (= its EdgeIndex).
    pub fn id(&self) -> (r: EdgeIndex)
        ensures r == self.e
    { self.e }
}

/// petgraph::graph::DiGraph<N, E> (= Graph<N, E, Directed, u32>), seen through its number of nodes,
/// the sequence of edge endpoints (position = EdgeIndex) and the weight of each edge.
#[verifier::external_body]
#[verifier::accept_recursive_types(N)]
#[verifier::accept_recursive_types(E)]
pub struct DiGraph<N, E> { _p: core::marker::PhantomData<(N, E)> }

impl<N, E> DiGraph<N, E> {
    pub uninterp spec fn node_count_spec(&self) -> nat;
    /// (source, target) of every edge, indexed by `EdgeIndex::index()`
    pub uninterp spec fn edge_seq(&self) -> Seq<(NodeIndex, NodeIndex)>;
    /// the weight of edge `e` (meaningful for 0 <= e < edge_seq().len()); `graph[EdgeIndex]` returns it
    pub uninterp spec fn edge_weight(&self, e: int) -> E;
    /// the weight (label) of node `n` (meaningful for 0 <= n < node_count_spec()); `graph[NodeIndex]` returns it
    pub uninterp spec fn node_weight(&self, n: int) -> N;
}

/// petgraph: edges only connect existing nodes (`add_edge` "Panics if any of the nodes don't exist",
/// `remove_node` removes the incident edges); node and edge indices are `u32` (`add_node` / `add_edge`: "Panics if
/// the Graph is at the maximum number of nodes / edges for its index type").
#[verifier::external_body]
pub proof fn axiom_cg_digraph_bounds<N, E>(g: DiGraph<N, E>)
    ensures
        g.node_count_spec() <= u32::MAX,
        g.edge_seq().len() <= u32::MAX,
        forall |e: int| 0 <= e < g.edge_seq().len() ==>
            (#[trigger] g.edge_seq()[e]).0.i < g.node_count_spec() && g.edge_seq()[e].1.i < g.node_count_spec(),
{ unimplemented!() }

/// The endpoint of edge `e` that `GRAPH.xxx_directed(a, dir)` compares with `a` ...
pub open spec fn cg_near<N, E>(g: DiGraph<N, E>, d: petgraph::Direction, e: int) -> NodeIndex {
    match d {
        petgraph::Direction::Outgoing => g.edge_seq()[e].0,
        petgraph::Direction::Incoming => g.edge_seq()[e].1,
    }
}

/// ... and the other endpoint (the "neighbor").
pub open spec fn cg_far<N, E>(g: DiGraph<N, E>, d: petgraph::Direction, e: int) -> NodeIndex {
    match d {
        petgraph::Direction::Outgoing => g.edge_seq()[e].1,
        petgraph::Direction::Incoming => g.edge_seq()[e].0,
    }
}

/// `x` is the other endpoint of an edge that leaves (Outgoing) / enters (Incoming) `a`.
pub open spec fn cg_is_neighbor<N, E>(g: DiGraph<N, E>, a: NodeIndex, d: petgraph::Direction, x: NodeIndex) -> bool {
    exists |e: int| 0 <= e < g.edge_seq().len() && cg_near(g, d, e) == a && #[trigger] cg_far(g, d, e) == x
}

/// Contract of `verif_neighbors_directed`, as a predicate.
pub open spec fn cg_neighbors_ok<N, E>(g: DiGraph<N, E>, a: NodeIndex, d: petgraph::Direction, r: Seq<NodeIndex>) -> bool {
    &&& forall |k: int| 0 <= k < r.len() ==> cg_is_neighbor(g, a, d, #[trigger] r[k])
    &&& forall |e: int| 0 <= e < g.edge_seq().len() && #[trigger] cg_near(g, d, e) == a ==> r.contains(cg_far(g, d, e))
}

/// R9 target for `for neighbor in GRAPH.neighbors_directed(A, DIR)` (the iterator is materialised as a Vec).
/// petgraph `Graph::neighbors_directed(a, dir)`: "Return an iterator of all neighbors that have an edge between
/// them and a, in the specified direction. Outgoing: All edges from a. Incoming: All edges to a. Produces an empty
/// iterator if the node doesn't exist. Iterator element type is NodeIndex<Ix>."  (One entry per edge, i.e. with
/// multiplicity; only "every entry is the other endpoint of such an edge" and "the other endpoint of every such
/// edge is an entry" are assumed, nothing about order or multiplicity.)
#[verifier::external_body]
pub fn verif_neighbors_directed<N, E>(g: &DiGraph<N, E>, a: NodeIndex, dir: petgraph::Direction) -> (r: Vec<NodeIndex>)
    ensures cg_neighbors_ok(*g, a, dir, r@)
{ unimplemented!() }

/// the edge with index `e` is among the references `r`
pub open spec fn cg_has_edge(r: Seq<EdgeReference>, e: int) -> bool {
    exists |k: int| 0 <= k < r.len() && (#[trigger] r[k]).e.i == e
}

/// Contract of `verif_edges_directed`, as a predicate.
pub open spec fn cg_edges_ok<N, E>(g: DiGraph<N, E>, a: NodeIndex, d: petgraph::Direction, r: Seq<EdgeReference>) -> bool {
    &&& forall |k: int| 0 <= k < r.len() ==>
            (#[trigger] r[k]).e.i < g.edge_seq().len() && cg_near(g, d, r[k].e.i as int) == a
    &&& forall |e: int| 0 <= e < g.edge_seq().len() && #[trigger] cg_near(g, d, e) == a ==> cg_has_edge(r, e)
}

/// R9 target for `for edge in GRAPH.edges_directed(A, DIR)` (the iterator is materialised as a Vec).
/// petgraph `Graph::edges_directed(a, dir)`: "Return an iterator of all edges of a, in the specified direction.
/// Outgoing: All edges from a. Incoming: All edges to a. Produces an empty iterator if the node a doesn't exist.
/// Iterator element type is EdgeReference<E, Ix>."  Nothing is assumed about the order.
#[verifier::external_body]
pub fn verif_edges_directed<N, E>(g: &DiGraph<N, E>, a: NodeIndex, dir: petgraph::Direction) -> (r: Vec<EdgeReference>)
    ensures cg_edges_ok(*g, a, dir, r@)
{ unimplemented!() }

/// std::collections::BTreeSet<T>, seen as a Set<T>.  Instantiated in this unit at `NodeIndex`, `EdgeIndex`
/// (derived `Ord` on the wrapped integer: `Ordering::Equal` iff structurally equal) and `Tid` (derived `Ord`/`Eq`
/// on two `String`s: the same).
#[verifier::external_body]
#[verifier::reject_recursive_types(T)]
pub struct BTreeSet<T> { _p: core::marker::PhantomData<T> }

impl<T> View for BTreeSet<T> {
    type V = Set<T>;
    uninterp spec fn view(&self) -> Set<T>;
}

impl<T> BTreeSet<T> {
    /// std `BTreeSet::new`: "Makes a new, empty BTreeSet."
    #[verifier::external_body]
    pub fn new() -> (r: BTreeSet<T>)
        ensures r@ == Set::<T>::empty()
    { unimplemented!() }

    /// std `BTreeSet::insert`: "Adds a value to the set. Returns whether the value was newly inserted. That is:
    /// If the set did not previously contain an equal value, true is returned. If the set already contained an
    /// equal value, false is returned, and the entry is not updated."
    #[verifier::external_body]
    pub fn insert(&mut self, v: T) -> (r: bool)
        ensures final(self)@ == old(self)@.insert(v), r == !old(self)@.contains(v), !r ==> final(self)@ == old(self)@
    { unimplemented!() }
}

// `Jmp` of the intermediate representation is EXTRACTED from /repo (jmp.rs) by the unit; the query never looks into it.

impl<T> BTreeSet<T> {
    /// std `BTreeSet::contains`: "Returns true if the set contains an element equal to the value."
    #[verifier::external_body]
    pub fn contains(&self, v: &T) -> (r: bool)
        ensures r == self@.contains(*v)
    { unimplemented!() }
}

/// Contract of `verif_btreeset_iter`, as a predicate: every entry of `r` is an element of `s`, and every element
/// of `s` has an entry.
pub open spec fn cg_iter_ok<T>(s: Set<T>, r: Seq<&T>) -> bool {
    &&& forall |k: int| 0 <= k < r.len() ==> s.contains(*#[trigger] r[k])
    &&& forall |x: T| #[trigger] s.contains(x) ==> exists |k: int| 0 <= k < r.len() && *#[trigger] r[k] == x
}

/// R9 target for `SET.iter()` at the head of an iterator chain that is rewritten into a `for` loop (the iterator is
/// materialised as a Vec of references).  std `BTreeSet::iter`: "Gets an iterator that visits the elements in the
/// BTreeSet in ascending order." (Item = &T.)  Only "every visited item is an element" and "every element is
/// visited" are assumed; nothing about order or multiplicity.
#[verifier::external_body]
pub fn verif_btreeset_iter<'s, T>(s: &'s BTreeSet<T>) -> (r: Vec<&'s T>)
    ensures cg_iter_ok(s@, r@)
{ unimplemented!() }

/// petgraph `impl Index<EdgeIndex<Ix>> for Graph<N, E, Ty, Ix>`: "Index the Graph by EdgeIndex to access edge weights.
/// Panics if the edge doesn't exist."  "The edge exists" is the PRECONDITION (`index_req`, PROVED at every `graph[e]`),
/// the result is the edge weight.
impl<N, E> core::ops::Index<EdgeIndex> for DiGraph<N, E> {
    type Output = E;
    #[verifier::external_body]
    fn index(&self, index: EdgeIndex) -> (r: &E)
        ensures *r == self.edge_weight(index.i as int)
    { unimplemented!() }
}
impl<N, E> vstd::std_specs::core::IndexSpecImpl<EdgeIndex> for DiGraph<N, E> {
    open spec fn index_req(&self, index: &EdgeIndex) -> bool { index.i < self.edge_seq().len() }
}

/// A call graph seen through `Index<NodeIndex>` only.  petgraph `impl Index<NodeIndex<Ix>> for Graph<N, E, Ty, Ix>`:
/// "Index the Graph by NodeIndex to access node weights. Panics if the node doesn't exist."  "The node exists" is the
/// PRECONDITION (`index_req`, PROVED at every `graph[n]`), the result is the node weight.
/// (Stated on a transparent view type and not on `DiGraph` itself: the units cfgbuild and reachcheck_243/_367, which
/// import this file, carry the same `impl Index<NodeIndex> for DiGraph` in their own shims; a second impl on `DiGraph`
/// would be rejected as overlapping (E0119).  The R9 substitution of the node lookup binds the name `callgraph` to
/// `CgNodeWeights(callgraph)` for the evaluation of the closure body, which stays verbatim.)
pub struct CgNodeWeights<'g, N, E>(pub &'g DiGraph<N, E>);

impl<'g, N, E> core::ops::Index<NodeIndex> for CgNodeWeights<'g, N, E> {
    type Output = N;
    #[verifier::external_body]
    fn index(&self, index: NodeIndex) -> (r: &N)
        ensures *r == self.0.node_weight(index.i as int)
    { unimplemented!() }
}
impl<'g, N, E> vstd::std_specs::core::IndexSpecImpl<NodeIndex> for CgNodeWeights<'g, N, E> {
    open spec fn index_req(&self, index: &NodeIndex) -> bool { index.i < self.0.node_count_spec() }
}

/// R9 target for `GRAPH.node_indices()` at the head of an iterator chain that is rewritten into a `for` loop (the
/// iterator is materialised as a Vec).  petgraph `Graph::node_indices`: "Return an iterator over the node indices of
/// the graph" -- source: `NodeIndices { r: 0..self.node_count(), .. }`, i.e. the indices 0 .. node_count(), ascending.
#[verifier::external_body]
pub fn verif_cg_node_indices<N, E>(g: &DiGraph<N, E>) -> (r: Vec<NodeIndex>)
    ensures
        r@.len() == g.node_count_spec(),
        forall |k: int| 0 <= k < r@.len() ==> (#[trigger] r@[k]).i == k,
{ unimplemented!() }
