// ---------------------------------------------------------------------------
// shim/reachcheck_checks.rs -- TRUSTED.  What the extracted check functions of checkers/cwe_243.rs and checkers/cwe_367.rs
// (units reachcheck_243 / reachcheck_367, property C17) may assume about petgraph 0.6.4, std, serde_json and the parts of
// cwe_checker they only hand on.  Extends shim/callgraph.rs and shim/reachcheck.rs; nothing there is changed.
// ---------------------------------------------------------------------------

// `Project` / `AnalysisResults` (extracted) name std's BTreeMap in fields the checks never read.
use std::collections::BTreeMap;

// ---- opaque field types of the extracted `Project` / `AnalysisResults` (never read by the two checks) ---------------------
#[verifier::external_body]
pub struct CallingConvention { _p: () }
#[verifier::external_body]
pub struct DatatypeProperties { _p: () }
#[verifier::external_body]
pub struct RuntimeMemoryImage { _p: () }
#[verifier::external_body]
pub struct FunctionSignature { _p: () }
#[verifier::external_body]
pub struct BricksDomain { _p: () }
#[verifier::external_body]
pub struct PointerInference<'a> { _p: core::marker::PhantomData<&'a ()> }
#[verifier::external_body]
#[verifier::reject_recursive_types(T)]
pub struct StringAbstraction<'a, T> { _p: core::marker::PhantomData<&'a T> }
/// utils/log.rs `LogMessage`: the checks return an empty list of them
#[verifier::external_body]
pub struct LogMessage { _p: () }

/// `serde_json::Value` (the check's JSON parameters): opaque
pub mod serde_json {
    #[verifier::external_body]
    pub struct Value { _p: () }
}

/// The configuration a JSON value deserialises to, as a (deterministic) function of the value.
pub uninterp spec fn rc_parsed<T>(v: serde_json::Value) -> T;

/// R9 target for `serde_json::from_value(PARAMS.clone()).unwrap()`: the check's `Config`, an ARBITRARY value of the
/// config type determined by the parameters.  The call panics when the parameters do not deserialise: read like rule R5
/// (the call diverges; panic-freedom w.r.t. a malformed config.json is NOT claimed -- the property speaks of programs).
#[verifier::external_body]
pub fn verif_rc_parse_config<T>(v: &serde_json::Value) -> (r: T)
    ensures r == rc_parsed::<T>(*v)
{ unimplemented!() }

// ---- petgraph: Index<NodeIndex>, node_indices, edge_references --------------------------------------------------------------

/// petgraph `impl Index<NodeIndex<Ix>> for Graph`: "Index the Graph by NodeIndex to access node weights. Panics if the node
/// doesn't exist."  "The node exists" is a PRECONDITION (index_req below), proved at every `graph[..]`.
impl<N, E> core::ops::Index<NodeIndex> for DiGraph<N, E> {
    type Output = N;
    #[verifier::external_body]
    fn index(&self, index: NodeIndex) -> (r: &N)
        ensures *r == self.node_weight(index.i as int)
    { unimplemented!() }
}
impl<N, E> vstd::std_specs::core::IndexSpecImpl<NodeIndex> for DiGraph<N, E> {
    open spec fn index_req(&self, index: &NodeIndex) -> bool { index.i < self.node_count_spec() }
}

/// R9 target for `for node in GRAPH.node_indices()` (the iterator is materialised as a Vec).
/// petgraph `Graph::node_indices`: "Return an iterator over the node indices of the graph" --
/// `NodeIndices { r: 0..self.node_count() }`, i.e. the indices 0 .. node_count() in ascending order.
#[verifier::external_body]
pub fn verif_rc_node_indices<N, E>(g: &DiGraph<N, E>) -> (r: Vec<NodeIndex>)
    ensures
        r@.len() == g.node_count_spec(),
        forall |k: int| 0 <= k < r@.len() ==> (#[trigger] r@[k]).i == k && r@[k] == (NodeIndex { i: k as usize }),
{ unimplemented!() }

/// R9 target for `for edge in GRAPH.edge_references()` (the iterator is materialised as a Vec).
/// petgraph `Graph::edge_references`: "Create an iterator over all edges, in indexed order. Iterator element type is
/// EdgeReference<E, Ix>."  (`self.edges.iter().enumerate()` mapped to `EdgeReference { index: i, node: edge.node, weight }`.)
#[verifier::external_body]
pub fn verif_rc_edge_references<'a, N, E>(g: &'a DiGraph<N, E>) -> (r: Vec<RcEdgeReference<'a, E>>)
    ensures
        r@.len() == g.edge_seq().len(),
        forall |k: int| 0 <= k < r@.len() ==> (#[trigger] r@[k]).e.i == k && rc_ref_of(*g, r@[k]),
{ unimplemented!() }

/// `e` is an edge leaving node `a`
pub open spec fn rc_out_edge<N, E>(g: DiGraph<N, E>, a: NodeIndex, e: int) -> bool {
    0 <= e < g.edge_seq().len() && g.edge_seq()[e].0 == a
}

// ---- std -------------------------------------------------------------------------------------------------------------------

/// R9 target for `SLICE.iter().any(F)`.  std `Iterator::any`: "Tests if any element of the iterator matches a predicate.
/// any() takes a closure that returns true or false. It applies this closure to each element of the iterator, and if any of
/// them return true, then so does any(). If they all return false, it returns false. any() is short-circuiting."
/// Stated for a closure whose precondition holds for every element: `true` comes with an element for which some call of
/// the closure may return true, `false` means that the closure may return false for every element.
#[verifier::external_body]
pub fn verif_rc_any<T, F: Fn(&T) -> bool>(s: &[T], f: F) -> (r: bool)
    requires
        forall |i: int| #![trigger s@[i]] 0 <= i < s@.len() ==> call_requires(f, (&s@[i],)),
    ensures
        r ==> exists |i: int| #![trigger s@[i]] 0 <= i < s@.len() && call_ensures(f, (&s@[i],), true),
        !r ==> forall |i: int| #![trigger s@[i]] 0 <= i < s@.len() ==> call_ensures(f, (&s@[i],), false),
{ unimplemented!() }

/// A panic site of /repo turned into a PROOF OBLIGATION (instead of rule R5's "diverges"): calling it needs `false`,
/// i.e. the site must be proved unreachable under the function's preconditions.
#[verifier::external_body]
pub fn verif_rc_never<T>() -> (r: T)
    requires false
{ unimplemented!() }

// ---- "`name` is imported" (vocabulary shared by both checks; a definition, nothing trusted) ------------------------------------
// (The contract of utils/symbol_utils.rs::find_symbol is no longer stated here: unit reachcheck_243 extracts the real
//  function and PROVES it, see spec/reachcheck_findsym.rs / lemmas/reachcheck_findsym.rs.  cwe_367 does not call find_symbol.)

/// some extern symbol is called `name` ("`name` is imported")
pub open spec fn rc_imported(m: Map<Tid, ExternSymbol>, name: Seq<char>) -> bool {
    exists |k: Tid| m.contains_key(k) && (#[trigger] m[k]).name@ == name
}

// ---- the name -> tid map of cwe_367::check_cwe -----------------------------------------------------------------------------

/// the KEY under which the map built by cwe_367::check_cwe finds `name`: the key of the LAST extern symbol (in key order)
/// called `name` (`collect()` into a HashMap inserts in iteration order, later entries replace earlier ones); None iff no
/// extern symbol has that name.  WHICH of several symbols of that name stays uninterpreted.
pub uninterp spec fn rc_symbol_key(m: Map<Tid, ExternSymbol>, name: Seq<char>) -> Option<Tid>;

/// `HashMap<&str, Tid>` as built by cwe_367::check_cwe, seen through `get` only
#[verifier::external_body]
pub struct RcSymbolMap<'a> { _p: core::marker::PhantomData<&'a ()> }

impl<'a> RcSymbolMap<'a> {
    /// the extern symbols the map was built from
    pub uninterp spec fn syms(&self) -> Map<Tid, ExternSymbol>;

    /// std `HashMap::get`: "Returns a reference to the value corresponding to the key."
    #[verifier::external_body]
    pub fn get(&self, k: &str) -> (r: Option<&Tid>)
        ensures
            r is None <==> !rc_imported(self.syms(), k@),
            r is None <==> rc_symbol_key(self.syms(), k@) is None,
            r is Some ==> rc_symbol_key(self.syms(), k@) == Some(*r->Some_0)
                && self.syms().contains_key(*r->Some_0) && self.syms()[*r->Some_0].name@ == k@,
    { unimplemented!() }
}

/// R9 target for
///     `PROJECT.program.term.extern_symbols.iter().map(|(tid, symbol)| (symbol.name.as_str(), tid.clone())).collect()`
/// (into a `HashMap<&str, Tid>`): std `BTreeMap::iter` visits every entry, `map` pairs the symbol's name with (a clone of) its
/// KEY, `collect` builds the map of these pairs.  So a name is a key of the result iff some extern symbol has it, and the
/// value is the key of such a symbol.
#[verifier::external_body]
pub fn verif_rc_symbol_map<'a>(syms: &'a BTreeMap<Tid, ExternSymbol>) -> (r: RcSymbolMap<'a>)
    ensures r.syms() == syms@
{ unimplemented!() }
