// ---------------------------------------------------------------------------
// shim/charincl.rs -- TRUSTED.  What the extracted code of abstract_domain/character_inclusion.rs (unit `charincl`,
// property C06, character-inclusion part) may assume about std.
// `BTreeSet<char>` itself is NOT shimmed: the unit uses vstd's view of std::collections::BTreeSet (`s@ : Set<char>`,
// a finite set) and vstd's specification of `BTreeSet::clone` (`r@ == self@`).  vstd has no specification of
// `BTreeSet::union` / `BTreeSet::intersection` (lazy iterators) nor of `Iterator::cloned` / `collect` into a set:
// the two chains below are the R9 targets for them.  A third item gives `string.chars().collect()`.
// ---------------------------------------------------------------------------

use std::collections::BTreeSet;

/// R9 target for `A.intersection(&B).cloned().collect()` (collected into a `BTreeSet<char>`).
/// std documentation of `BTreeSet::intersection`: "Visits the elements representing the intersection, i.e., the
/// elements that are both in `self` and `other`, in ascending order."; `cloned()` "creates an iterator which clones all
/// of its elements" (a clone of a `char` is that `char`); `collect()` into a `BTreeSet` builds the set of the visited elements.
#[verifier::external_body]
pub fn verif_ci_intersection_collect(a: &BTreeSet<char>, b: &BTreeSet<char>) -> (r: BTreeSet<char>)
    ensures
        forall |c: char| #[trigger] r@.contains(c) <==> (a@.contains(c) && b@.contains(c)),
{ a.intersection(b).cloned().collect() }

/// R9 target for `A.union(&B).cloned().collect()` (collected into a `BTreeSet<char>`).
/// std documentation of `BTreeSet::union`: "Visits the elements representing the union, i.e., all the elements in
/// `self` or `other`, without duplicates, in ascending order."
#[verifier::external_body]
pub fn verif_ci_union_collect(a: &BTreeSet<char>, b: &BTreeSet<char>) -> (r: BTreeSet<char>)
    ensures
        forall |c: char| #[trigger] r@.contains(c) <==> (a@.contains(c) || b@.contains(c)),
{ a.union(b).cloned().collect() }

/// R9 target for `STRING.chars().collect()` (collected into a `BTreeSet<char>`).
/// std documentation of `str::chars`: "Returns an iterator over the chars of a string slice."; vstd's view of a `String`
/// is the sequence of its chars.
#[verifier::external_body]
pub fn verif_ci_chars_collect(s: &String) -> (r: BTreeSet<char>)
    ensures
        forall |c: char| #[trigger] r@.contains(c) <==> s@.contains(c),
{ s.chars().collect() }
