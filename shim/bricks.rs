// ---------------------------------------------------------------------------
// shim/bricks.rs -- TRUSTED.  What the extracted code of abstract_domain/bricks.rs, bricks/brick.rs, bricks/widening.rs
// (unit `bricks`, property C06, brick-sequence part) may assume about std.
// `BTreeSet<String>`, `Vec`, `String` are NOT shimmed: the unit uses vstd's views (`set@ : Set<String>`, `vec@ : Seq<T>`,
// `string@ : Seq<char>`) and vstd's specifications of BTreeSet::{new, clone, len, is_empty, insert, iter}, Vec::{new, push,
// len, index, clone, remove, insert, append}, String::clone -- the BTreeSet ones are stated by vstd under
// `vstd::laws_cmp::obeys_cmp::<String>()`, which is a HYPOTHESIS of the unit (`br_ord_ok`), not an axiom of this file.
// Items here: targets of R9 substitutions for constructs without vstd specification, contracts = std documentation.
// ---------------------------------------------------------------------------

use std::collections::BTreeSet;

// `use std::cmp::{max, min}` of bricks/widening.rs, RESTATED for u32 (rule R6 rewrites only the qualified path `std::cmp::min`;
// vstd cannot give the generic std functions a specification).  The extracted calls `min(a, b)` / `max(a, b)` resolve to these two
// functions; contract = std documentation ("Compares and returns the minimum / maximum of two values").
pub fn min(a: u32, b: u32) -> (r: u32)
    ensures r == (if a <= b { a } else { b }),
{ if a <= b { a } else { b } }
pub fn max(a: u32, b: u32) -> (r: u32)
    ensures r == (if a <= b { b } else { a }),
{ if a <= b { b } else { a } }

/// R9 target for `A.union(B).cloned().collect::<BTreeSet<String>>()`.
/// std documentation of `BTreeSet::union`: "Visits the elements representing the union, i.e., all the elements in `self` or
/// `other`, without duplicates, in ascending order."; `cloned()` clones each visited element (a clone of a String is an equal
/// String); `collect()` into a `BTreeSet` builds the set of the visited elements.  Membership is stated through the views of
/// the strings (an element of the result is a clone, i.e. an equal string, of an element of an input).
#[verifier::external_body]
pub fn verif_br_union_collect(a: &BTreeSet<String>, b: &BTreeSet<String>) -> (r: BTreeSet<String>)
    ensures
        forall |u: Seq<char>| #[trigger] br_member(r@, u) <==> (br_member(a@, u) || br_member(b@, u)),
{ a.union(b).cloned().collect::<BTreeSet<String>>() }

/// R9 target for `X.clone() + Y` on Strings (`impl Add<&str> for String`: "Concatenates two strings"; vstd has no
/// specification of it and Verus cannot resolve the operator).
#[verifier::external_body]
pub fn verif_br_concat(a: String, b: &String) -> (r: String)
    ensures r@ == a@ + b@,
{ a + b }

/// R9 target for `VEC.into_iter().collect()` into a `BTreeSet<String>`: the set of the elements of the vector.
#[verifier::external_body]
pub fn verif_br_vec_to_set(v: Vec<String>) -> (r: BTreeSet<String>)
    ensures
        forall |u: Seq<char>| #[trigger] br_member(r@, u) <==> br_in_vec(v@, u),
{ v.into_iter().collect() }

/// R9 target for `A == B` on two `&BTreeSet<String>` (std: "two sets are equal if they contain the same elements", elements
/// compared with String's ==, i.e. by content; vstd has no specification of PartialEq for BTreeSet).
#[verifier::external_body]
pub fn verif_br_set_eq(a: &BTreeSet<String>, b: &BTreeSet<String>) -> (r: bool)
    ensures r == br_set_same(a@, b@),
{ a == b }

/// R9 target for `A.iter().cartesian_product(B.iter()).collect_vec()` (crate itertools, trait `Itertools`).
/// itertools documentation of `cartesian_product`: "Return an iterator adaptor that iterates over the cartesian product of the
/// element sets of two iterators `self` and `J`.  Iterator element type is `(Self::Item, J::Item)`."; of `collect_vec`:
/// "`.collect_vec()` is simply a type specialization of `Iterator::collect`" into a `Vec`; std documentation of
/// `BTreeSet::iter`: "Gets an iterator that visits the elements in the `BTreeSet`" (items are references to the elements).
/// Stated as weakly as that reads (br_cart_of, spec/bricks.rs): every entry of the vector is a pair (element of `a`, element
/// of `b`), and every such pair occurs.  Nothing about order or multiplicity.  (The body cannot name itertools here.)
#[verifier::external_body]
pub fn verif_br_cartesian_product<'a>(a: &'a BTreeSet<String>, b: &'a BTreeSet<String>) -> (r: Vec<(&'a String, &'a String)>)
    ensures
        br_cart_of(r@, a@, b@),
{ unimplemented!() }
