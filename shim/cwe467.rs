// ---------------------------------------------------------------------------
// shim/cwe467.rs -- TRUSTED.  What the extracted decision function of the CWE-467 check
// (`check_for_pointer_sized_arg`, checkers/cwe_467.rs, property C18) may assume about the parts of
// cwe_checker it calls but that are out of reach of this technique: the pointer-inference `State`,
// the abstract value `Data` (= DataDomain<IntervalDomain>) and the opaque pieces of `Project`.
// Every item of this file is an assumption and is listed in contracts/cwe467.vc.
//
// The VALUE of a parameter (a pointer-inference state folded over the defs of the call block, then
// `State::eval_parameter_arg`) is NOT decided: it is an uninterpreted, deterministic function of the
// arguments of the two calls.  What is decided is the DECISION taken on those values.
// ---------------------------------------------------------------------------

// `Project` (extracted) names these two std types in fields the unit never reads.
use std::collections::{BTreeMap, BTreeSet};

/// `RuntimeMemoryImage` (utils/binary.rs): opaque, only handed on to `eval_parameter_arg`.
#[verifier::external_body]
pub struct RuntimeMemoryImage { _p: () }

/// `Program`, `CallingConvention`, `DatatypeProperties`: opaque field types of `Project`, never read by the unit.
#[verifier::external_body]
pub struct Program { _p: () }
#[verifier::external_body]
pub struct CallingConvention { _p: () }
#[verifier::external_body]
pub struct DatatypeProperties { _p: () }

/// `Blk` (a basic block: defs + jumps): opaque, only handed on to `compute_block_end_state`.
#[verifier::external_body]
pub struct Blk { _p: () }

/// `analysis::pointer_inference::State`: opaque.
#[verifier::external_body]
pub struct State { _p: () }

/// `analysis::pointer_inference::Data` (= `DataDomain<IntervalDomain>`): opaque; seen through `try_to_bitvec` only.
#[verifier::external_body]
pub struct Data { _p: () }

/// ASSUMED (out of reach): the pointer-inference state at the end of `block` when nothing is known at its start
/// -- what `compute_block_end_state(project, block)` of cwe_467.rs computes -- as a function of its two arguments.
pub uninterp spec fn c467_block_end_state(project: Project, block: Term<Blk>) -> State;

/// ASSUMED (out of reach): the abstract value of parameter `arg` in `state`
/// (`State::eval_parameter_arg`: `Ok(value)` -> `Some(value)`, `Err(_)` -> `None`), as a function of its arguments.
pub uninterp spec fn c467_param_value(state: State, arg: Arg, mem: RuntimeMemoryImage) -> Option<Data>;

/// ASSUMED: `Some(v)` iff the abstract value `d` "represents a single absolute value" `v`
/// (doc of `TryToBitvec::try_to_bitvec`), `None` in all other cases.
pub uninterp spec fn c467_known_value(d: Data) -> Option<Bitvector>;

impl Data {
    /// `impl TryToBitvec for DataDomain<T>`: "If `self` represents a single absolute value, return it.  In all other
    /// cases return an error."  Every Bitvector that exists at run time is well-formed (1 <= width, value < 2^width).
    #[verifier::external_body]
    pub fn try_to_bitvec(&self) -> (r: Result<Bitvector, Error>)
        ensures
            r is Ok <==> c467_known_value(*self) is Some,
            r is Ok ==> r->Ok_0 == c467_known_value(*self)->Some_0 && r->Ok_0.wf(),
    { unimplemented!() }
}

/// `apint::Error` derives `PartialEq` (apint-0.2.0 src/errors.rs: `#[derive(Debug, Clone, PartialEq, Eq, Hash)] pub struct Error`).
/// The shim `Error` of shim/prelude.rs has no payload and no `PartialEq`; the impl is restated WITHOUT any
/// specification (nothing is assumed about which errors are equal), so that `Result<u64, Error>: PartialEq`
/// type-checks as it does in /repo.
impl PartialEq for Error {
    #[verifier::external_body]
    fn eq(&self, other: &Error) -> (r: bool) { unimplemented!() }
}

/// std `#[derive(PartialEq)]` on `enum Result<T, E> { Ok(T), Err(E) }`, at `T = u64`, for a LEFT operand `Ok(a)`:
/// two values are equal iff they are the same variant with equal payloads, i.e. `Ok(a) == b` iff `b` is `Ok(a)`;
/// an `Err(_)` on the right is never equal to an `Ok(_)`.  Nothing is said about `Err(_) == _`.
/// (vstd has this specification for `Option` but not for `Result`.)
#[verifier::external_body]
pub proof fn axiom_c467_result_eq_ok_left()
    ensures
        <Result<u64, Error> as PartialEqSpec>::obeys_eq_spec(),
        forall|a: u64, b: Result<u64, Error>|
            #[trigger] <Result<u64, Error> as PartialEqSpec>::eq_spec(&Ok(a), &b) <==> (b is Ok && b->Ok_0 == a),
{ unimplemented!() }
