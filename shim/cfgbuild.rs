// ---------------------------------------------------------------------------
// shim/cfgbuild.rs -- TRUSTED.  What the extracted `GraphBuilder` (analysis/graph.rs, property C08) may assume about
// petgraph 0.6 beyond shim/callgraph.rs + shim/callgraph_build.rs (`DiGraph::{new, add_node, add_edge}` and the ghost views
// node_count_spec / node_weight / edge_seq / edge_weight), about std, and about `utils::log::LogMessage`.
// `std::collections::{HashMap, HashSet, BTreeMap}` are NOT shimmed: vstd's specifications are used (under the hypotheses
// cfg_key_hyp, spec/cfgbuild.rs).
// ---------------------------------------------------------------------------

// (glob of a tiny module instead of a plain `use`: no E0252 clash with shim/callgraph_build.rs when a unit imports both, HOWTO)
pub mod cfg_std { pub use std::collections::{BTreeMap, HashMap, HashSet}; }
pub use cfg_std::*;

// ---- petgraph ------------------------------------------------------------------------------------------------

/// petgraph `impl Index<NodeIndex<Ix>> for Graph<N, E, Ty, Ix>`: "Index the Graph by NodeIndex to access node weights.
/// Panics if the node doesn't exist."  "The node exists" is the PRECONDITION (`index_req`, proved at every `graph[n]`),
/// the result is the node weight.
impl<N, E> core::ops::Index<NodeIndex> for DiGraph<N, E> {
    type Output = N;
    #[verifier::external_body]
    fn index(&self, index: NodeIndex) -> (r: &N)
        ensures *r == self.node_weight(index.i as int)
    { unimplemented!() }
}
impl<N, E> vstd::std_specs::core::IndexSpecImpl<NodeIndex> for DiGraph<N, E> {
    open spec fn index_req(&self, index: &NodeIndex) -> bool { index.i < self.node_count_spec() }
}

/// petgraph `impl Clone for Graph`: a clone has the same nodes and edges with cloned weights; the weights of the CFG
/// (`Node`, `Edge`) are `Copy` types made of shared references, a clone of them is the value itself.
impl<N: Copy, E: Copy> Clone for DiGraph<N, E> {
    #[verifier::external_body]
    fn clone(&self) -> (r: DiGraph<N, E>)
        ensures
            r.node_count_spec() == self.node_count_spec(),
            forall |n: int| 0 <= n < self.node_count_spec() ==> #[trigger] r.node_weight(n) == self.node_weight(n),
            r.edge_seq() == self.edge_seq(),
            forall |e: int| 0 <= e < self.edge_seq().len() ==> #[trigger] r.edge_weight(e) == self.edge_weight(e),
    { unimplemented!() }
}

/// R9 target for `for node in GRAPH.node_indices()`: petgraph `Graph::node_indices`: "Return an iterator over the node
/// indices of the graph" (source: `(0..self.node_count()).map(NodeIndex::new)`), materialised as a Vec.
#[verifier::external_body]
pub fn verif_cfg_node_indices<N, E>(g: &DiGraph<N, E>) -> (r: Vec<NodeIndex>)
    ensures
        r@.len() == g.node_count_spec(),
        forall |k: int| 0 <= k < r@.len() ==> (#[trigger] r@[k]).i == k,
{ unimplemented!() }

// ---- panics that the unit PROVES unreachable -----------------------------------------------------------------------

/// R9 target for the `panic!(..)` arms of the builder (`_ => panic!()` on node kinds, "more than 2 jumps").  Unlike rule R5
/// (a panic diverges, nothing is claimed) the precondition `false` makes every such arm a PROOF OBLIGATION: it must be
/// unreachable from cfg_inv and the stated preconditions.  A function that is never called needs no body.
#[verifier::external_body]
pub fn cfg_panic<T>() -> (r: T)
    requires false
{ unimplemented!() }

// ---- utils::log::LogMessage (opaque) --------------------------------------------------------------------------------

/// `utils::log::LogMessage`: never inspected by the builder; C08 does not speak about log messages.
#[verifier::external_body]
pub struct LogMessage { _p: core::marker::PhantomData<()> }

/// R9 target for `LogMessage::new_info(format!("{} contains no blocks", TID))`: some log message (no specification).
#[verifier::external_body]
pub fn verif_cfg_log_info(tid: &Tid) -> (r: LogMessage)
{ unimplemented!() }

// ---- std::collections::HashMap::get_mut (no vstd specification in this build) ---------------------------------------------

/// R9 target for `MAP.get_mut(&KEY).unwrap()` inside the substitution of the Entry API (contracts/cfgbuild.vc).
/// std `HashMap::get_mut`: "Returns a mutable reference to the value corresponding to the key." (`None` when the key is
/// absent: the precondition makes the `unwrap` a proof obligation).  Whatever is written through the reference is the new
/// value stored under the key; no other entry changes.
#[verifier::external_body]
pub fn verif_cfg_get_mut_present<'m, K: core::hash::Hash + Eq, V>(m: &'m mut HashMap<K, V>, k: &K) -> (r: &'m mut V)
    requires
        vstd::std_specs::hash::obeys_key_model::<K>(),
        old(m)@.contains_key(*k),
    ensures
        *r == old(m)@[*k],
        final(m)@ == old(m)@.insert(*k, *final(r)),
{ unimplemented!() }

// ---- iterator chain of add_call_return_node_and_edges -------------------------------------------------------------------

/// R9 target for `JMPS.iter().find(|jump| matches!(jump.term, Jmp::Call { .. }))`.  std `Iterator::find`: "Searches for an
/// element of an iterator that satisfies a predicate. ... returns the first true result or None" ; `slice::iter` visits the
/// elements in order; `matches!(x, Jmp::Call { .. })` is true iff x is the variant `Call`.
#[verifier::external_body]
pub fn verif_cfg_find_call<'a>(jmps: &'a Vec<Term<Jmp>>) -> (r: Option<&'a Term<Jmp>>)
    ensures
        match r {
            Some(t) => exists |j: int| cfg_first_call(jmps@, j) && *t == #[trigger] jmps@[j],
            None => forall |j: int| 0 <= j < jmps@.len() ==> !((#[trigger] jmps@[j]).term is Call),
        },
{ unimplemented!() }

/// R9 target for `JMPS.iter().any(|jmp| matches!(jmp.term, Jmp::Return(_)))`.  std `Iterator::any`: "Tests if any element of
/// the iterator matches a predicate"; `matches!(x, Jmp::Return(_))` is true iff x is the variant `Return`.
#[verifier::external_body]
pub fn verif_cfg_any_return(jmps: &Vec<Term<Jmp>>) -> (r: bool)
    ensures r == cfg_has_return_jmp(jmps@),
{ unimplemented!() }

// ---- get_program_cfg_with_logs ------------------------------------------------------------------------------------------------

/// R9 target for `MAP.keys().cloned().collect()` into a `HashSet<Tid>`.  std: `BTreeMap::keys` "Gets an iterator over the
/// keys of the map", `cloned` clones each (a clone of a Tid is that Tid), `collect::<HashSet<_>>()` builds the set of the
/// collected values: the set of the keys of the map.
#[verifier::external_body]
pub fn verif_cfg_key_set<V>(m: &BTreeMap<Tid, V>) -> (r: HashSet<Tid>)
    ensures r@ == m@.dom(),
{ unimplemented!() }
