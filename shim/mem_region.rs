// ---------------------------------------------------------------------------
// shim/mem_region.rs -- TRUSTED.  What the extracted code of abstract_domain/mem_region.rs may
// assume about `std::collections::BTreeMap::range` and `apint::Int::try_to_i64`.
//
// `BTreeMap<i64, V>` itself is NOT shimmed: the unit uses vstd's specifications of
// std::collections::BTreeMap (view = Map<i64, V>; new / insert / get / remove / contains_key / is_empty /
// iter with its ghost sequence "all entries, no duplicates, keys increasing").
//
// The R9 substitutions of `retain(F)` (clear_top_values) and of the `values_mut()` loop (mark_all_values_as_top) have NO target
// here: they are written with get_mut / remove (vstd) over the key list `verif_mr_keys`, which is verified glue in
// contracts/mem_region.vc (body checked against vstd's BTreeMap::iter).
// The three functions below are the targets of the declared R9 substitutions of `range` in contracts/mem_region.vc.
// Each one is `BTreeMap::range(<R>)` followed by the consumer named in its doc comment; the range
// BOUNDS are arguments (pattern holes), so a changed bound in /repo flows into the call and is verified.
// std documentation of `BTreeMap::range`: "Constructs a double-ended iterator over a sub-range of
// elements in the map. [...] Panics if range start > end. Panics if range start == end and both bounds
// are Excluded."  The iterator yields the entries whose key lies in the range in ascending key order.
// ---------------------------------------------------------------------------

use std::collections::BTreeMap;

/// R9 target for  `MAP.range(..HI) ... .last()`:  the last element of the ascending iteration over the keys
/// below HI = the entry with the greatest key < HI; `None` iff the map has no key < HI.
#[verifier::external_body]
pub fn verif_btree_range_to_last<'a, V>(m: &'a BTreeMap<i64, V>, hi: i64) -> (r: Option<(&'a i64, &'a V)>)
    ensures
        match r {
            Some((k, v)) => m@.contains_key(*k) && *v == m@[*k] && *k < hi
                && forall |j: i64| m@.contains_key(j) && j < hi ==> j <= *k,
            None => forall |j: i64| m@.contains_key(j) ==> j >= hi,
        }
{ unimplemented!() }

/// R9 target for  `MAP.range(LO..HI)` consumed front to back (`.map(f).collect()`): the entries with
/// LO <= key < HI, each once, in ascending key order.  `range` panics when LO > HI (LO == HI is an empty range).
#[verifier::external_body]
pub fn verif_btree_range<'a, V>(m: &'a BTreeMap<i64, V>, lo: i64, hi: i64) -> (r: Vec<(&'a i64, &'a V)>)
    requires lo <= hi,
    ensures
        forall |i: int| 0 <= i < r@.len() ==> m@.contains_key(*(#[trigger] r@[i]).0) && *r@[i].1 == m@[*r@[i].0]
            && lo <= *r@[i].0 < hi,
        forall |i: int, j: int| 0 <= i < j < r@.len() ==> *(#[trigger] r@[i]).0 < *(#[trigger] r@[j]).0,
        forall |k: i64| m@.contains_key(k) && lo <= k < hi ==> exists |i: int| 0 <= i < r@.len() && *(#[trigger] r@[i]).0 == k,
{ unimplemented!() }

/// R9 target for  `MAP.range(LO..).next()`:  the first element of the ascending iteration over the keys
/// >= LO = the entry with the least key >= LO; `None` iff the map has no key >= LO.
#[verifier::external_body]
pub fn verif_btree_range_from_first<'a, V>(m: &'a BTreeMap<i64, V>, lo: i64) -> (r: Option<(&'a i64, &'a V)>)
    ensures
        match r {
            Some((k, v)) => m@.contains_key(*k) && *v == m@[*k] && *k >= lo
                && forall |j: i64| m@.contains_key(j) && j >= lo ==> j >= *k,
            None => forall |j: i64| m@.contains_key(j) ==> j < lo,
        }
{ unimplemented!() }

impl Int {
    /// apint 0.2.0, int.rs: `pub fn try_to_i64(&self) -> Result<i64> { self.value.try_to_i64() }`
    /// (same body; the contract is the one of `ApInt::try_to_i64` in shim/apint.rs).
    pub fn try_to_i64(&self) -> (r: Result<i64, Error>)
        requires self.value.wf()
        ensures r is Ok <==> self.value.u@ < p2(64),
                r is Ok ==> r->Ok_0 as int == (if self.value.w@ <= 64 { self.value.s() } else { sval(64, self.value.u@) })
    { self.value.try_to_i64() }
}
