// ---------------------------------------------------------------------------
// shim/logcollect.rs -- TRUSTED.  What the extracted `LogThread::{collect_and_deduplicate, collect, spawn}`
// (utils/log.rs, property C25) may assume about crossbeam-channel 0.5 (`unbounded`, `Sender::send`,
// `Receiver::recv`), `std::thread::{spawn, JoinHandle::join}` and two std iterator chains over `BTreeMap`.
//
// Threads are outside Verus: the channel is modelled by ONE ghost value per channel, its DELIVERY HISTORY
// `chan_history(id)`: the sequence of all messages the (single) receiver of the channel obtains, in the order it
// obtains them, until the channel is empty and disconnected.  It is a prophecy-style constant: the interleaving of
// the sending threads is "any sequence", the contracts below quantify over all of them.  Which sends end up in the
// history, and where, is crossbeam's semantics and is NOT stated here (see the unit header for the exact split).
// `std::collections::BTreeMap` itself is NOT shimmed: `new / insert` are vstd's specifications (under
// `vstd::laws_cmp::obeys_cmp::<String>()`, a named hypothesis of the unit).
// ---------------------------------------------------------------------------

use std::collections::BTreeMap;

// ---- crossbeam_channel ---------------------------------------------------------------------------------------

/// crossbeam_channel::RecvError ("An error returned from the recv method. A message could not be received because
/// the channel is empty and disconnected.")
pub struct RecvError;

/// crossbeam_channel::SendError<T> ("The message could not be sent because the channel is disconnected."); payload dropped.
pub struct SendError;

/// The delivery history of the channel with ghost identity `id` (see the file header).
pub uninterp spec fn lc_chan_history<T>(id: int) -> Seq<T>;

/// crossbeam_channel::Receiver<T>: "The receiving side of a channel."
#[verifier::external_body]
#[verifier::reject_recursive_types(T)]
pub struct Receiver<T> { verif_x: core::marker::PhantomData<T> }

/// crossbeam_channel::Sender<T>: "The sending side of a channel."
#[verifier::external_body]
#[verifier::reject_recursive_types(T)]
pub struct Sender<T> { verif_x: core::marker::PhantomData<T> }

impl<T> Receiver<T> {
    /// ghost identity of the channel this receiver belongs to
    pub uninterp spec fn chan(&self) -> int;

    /// the delivery history of this receiver's channel
    pub open spec fn history(&self) -> Seq<T> { lc_chan_history::<T>(self.chan()) }

    /// R9 target for `RECEIVER.recv()`.  crossbeam documentation of `Receiver::recv`: "Blocks the current thread until a
    /// message is received or the channel is empty and disconnected. If the channel is empty and disconnected, this call
    /// wakes up and returns an error."  Unbounded channel, one receiver: messages are handed out in the order of the
    /// history, each once.  `recv` takes `&self` and advances the channel through interior mutability, which Verus cannot
    /// express; the position of the next message is therefore an explicit ghost cursor `cur` (erased at run time) that the
    /// R9 substitution threads through the call.  A `recv` that blocks forever (no message, senders alive) does not
    /// return: that is "history not yet at its end" and is outside this model -- see clause (e) in the unit header.
    #[verifier::external_body]
    pub fn verif_recv(&self, cur: &mut Ghost<nat>) -> (r: Result<T, RecvError>)
        requires
            old(cur)@ <= self.history().len(),
        ensures
            old(cur)@ < self.history().len() ==> r == Ok::<T, RecvError>(self.history()[old(cur)@ as int]) && final(cur)@ == old(cur)@ + 1,
            old(cur)@ >= self.history().len() ==> r is Err && final(cur)@ == old(cur)@,
    { unimplemented!() }
}

impl<T> Sender<T> {
    /// ghost identity of the channel this sender belongs to
    pub uninterp spec fn chan(&self) -> int;

    /// crossbeam `Sender::send`: "Blocks the current thread until a message is sent or the channel is disconnected. ...
    /// If called on a zero-capacity channel ... " (unbounded: never blocks).  Nothing about the history is promised here:
    /// WHERE the message lands relative to the sends of other threads is channel semantics (trusted, not modelled).
    #[verifier::external_body]
    pub fn send(&self, msg: T) -> (r: Result<(), SendError>)
    { unimplemented!() }

    /// R9 target for `SENDER.send(MSG)` inside `LogThread::collect`: the same call, which additionally records (channel, message)
    /// in a ghost trace local to the calling function (erased at run time).  The record is made whether or not the send
    /// succeeds (`Err` = the receiver is gone, i.e. the collector thread has already finished).
    #[verifier::external_body]
    pub fn verif_send(&self, msg: T, sent: &mut Ghost<Seq<(int, T)>>) -> (r: Result<(), SendError>)
        ensures
            final(sent)@ == old(sent)@.push((self.chan(), msg)),
            // consequences of the line above, spelt out so that no witness has to be found by the caller
            final(sent)@.contains((self.chan(), msg)),
            forall |e: (int, T)| old(sent)@.contains(e) ==> #[trigger] final(sent)@.contains(e),
    { unimplemented!() }
}

impl<T> Clone for Sender<T> {
    /// crossbeam: "Senders can be cloned and shared among threads": the clone sends into the same channel.
    #[verifier::external_body]
    fn clone(&self) -> (r: Sender<T>)
        ensures r.chan() == self.chan()
    { unimplemented!() }
}

/// crossbeam_channel::unbounded: "Creates a channel of unbounded capacity."  Sender and receiver belong to one channel.
#[verifier::external_body]
pub fn unbounded<T>() -> (r: (Sender<T>, Receiver<T>))
    ensures r.0.chan() == r.1.chan()
{ unimplemented!() }

// ---- std::thread -----------------------------------------------------------------------------------------------

/// std::thread::JoinHandle<T> ("An owned permission to join on a thread (block on its termination)."), modelled like
/// vstd::thread::JoinHandle: `predicate(v)` = "v may be the value the thread's closure returns".
#[verifier::external_body]
#[verifier::reject_recursive_types(T)]
pub struct JoinHandle<T> { verif_x: core::marker::PhantomData<T> }

/// payload of a thread panic (`Box<dyn Any + Send>`), dropped; Debug is needed by `.unwrap()`.
#[derive(Debug)]
pub struct JoinError { pub tag: u8 }

impl<T> JoinHandle<T> {
    pub uninterp spec fn predicate(&self, ret: T) -> bool;

    /// std `JoinHandle::join`: "Waits for the associated thread to finish. ... If the associated thread panics, Err is
    /// returned with the parameter given to panic" ; on Ok the value is what the thread's closure returned.
    #[verifier::external_body]
    pub fn join(self) -> (r: Result<T, JoinError>)
        ensures
            match r { Ok(v) => self.predicate(v), Err(_) => true },
    { unimplemented!() }
}

impl<T> JoinHandle<T> {
    /// R9 target for `.join().unwrap()`: join, then unwrap.  Returns the value the thread's closure returned; when the
    /// thread panicked `join` yields Err and `unwrap` PANICS -- read as rule R5 reads a panic: the call diverges, nothing
    /// is claimed (vstd's `Result::unwrap` demands `is Ok`, which nobody can promise for a thread that may panic).
    ///
    /// The `requires` is NOT std's: it is a protocol obligation this unit puts on the caller (`LogThread::collect`), in the only
    /// place a contract can hold it: before blocking on the collector thread, a `Terminate` must have been sent into the channel
    /// `chan` (the R9 replacement passes the channel of `self.msg_sender`); `sent` is the ghost trace of the sends of the
    /// enclosing function (threaded through `verif_send`).  Without that signal the join would wait for ever.
    #[verifier::external_body]
    pub fn verif_join_unwrap_signalled(self, sent: Ghost<Seq<(int, LogThreadMsg)>>, chan: Ghost<int>) -> (r: T)
        requires lc_terminate_sent(sent@, chan@),
        ensures self.predicate(r),
    { unimplemented!() }
}

/// The trace of sends holds a `Terminate` into channel `chan`.
pub open spec fn lc_terminate_sent(sent: Seq<(int, LogThreadMsg)>, chan: int) -> bool {
    sent.contains((chan, LogThreadMsg::Terminate))
}

/// R9 target for `std::thread::spawn(move || F(ARG))`: std `thread::spawn`: "Spawns a new thread, returning a JoinHandle for
/// it. ... The join handle provides a join method that can be used to join the spawned thread"; the value obtained by
/// `join` is the return value of the closure, i.e. of the call `f(arg)` -- hence it satisfies f's postcondition for `arg`.
/// (The `move ||` closure is folded into the shim because a Verus closure capturing an `FnOnce` by move and calling it
/// cannot carry the callee's specification; the callee and its argument are holes of the substitution.)
#[verifier::external_body]
pub fn verif_thread_spawn_call<A, T, F: FnOnce(A) -> T>(f: F, arg: A) -> (r: JoinHandle<T>)
    requires
        f.requires((arg,)),
    ensures
        forall |v: T| #[trigger] r.predicate(v) ==> f.ensures((arg,), v),
{ unimplemented!() }

// ---- std iterator chains over BTreeMap (R9 targets) ----------------------------------------------------------------

/// The keys of a `BTreeMap` with view `m` in the order in which std iterates over it ("sorted by key").
pub uninterp spec fn lc_key_order<K, V>(m: Map<K, V>) -> Seq<K>;

/// `vs` are the values of `m` in the order of the keys `ks`; `ks` lists every key of `m` exactly once, ascending
/// (`increasing_seq` is vstd's name for "strictly ascending w.r.t. `Ord::cmp`", the form in which it states `BTreeMap::iter`).
pub open spec fn lc_values_in_key_order<K, V>(m: Map<K, V>, ks: Seq<K>, vs: Seq<V>) -> bool {
    &&& ks.len() == vs.len()
    &&& forall |j: int| 0 <= j < ks.len() ==> m.contains_key(#[trigger] ks[j]) && vs[j] == m[ks[j]]
    &&& forall |k: K| #[trigger] m.contains_key(k) ==> exists |j: int| 0 <= j < ks.len() && #[trigger] ks[j] == k
    &&& ks.no_duplicates()
    &&& vstd::std_specs::btree::increasing_seq(ks)
}

/// R9 target for `MAP.values().cloned().chain(VEC).collect()` (into a `Vec`).  std: `BTreeMap::values` "Gets an iterator
/// over the values of the map, in order by key"; `Iterator::cloned` "Creates an iterator which clones all of its elements"
/// (derive(Clone) of the element type yields an equal value: field-wise clone); `Iterator::chain` "Takes two iterators and
/// creates a new iterator over both in sequence" (a `Vec` is turned into its by-value iterator: its elements front to back);
/// `collect` into a Vec keeps the order.
#[verifier::external_body]
pub fn verif_values_cloned_chain_collect<K: Ord, V>(m: &BTreeMap<K, V>, tail: Vec<V>) -> (r: Vec<V>)
    requires
        vstd::laws_cmp::obeys_cmp::<K>(),
    ensures
        r@.len() == lc_key_order(m@).len() + tail@.len(),
        lc_values_in_key_order(m@, lc_key_order(m@), r@.take(lc_key_order(m@).len() as int)),
        r@.skip(lc_key_order(m@).len() as int) == tail@,
{ unimplemented!() }

/// R9 target for `MAP.into_values().collect()` (into a `Vec`).  std `BTreeMap::into_values`: "Creates a consuming iterator
/// visiting all the values, in order by key."
#[verifier::external_body]
pub fn verif_into_values_collect<K: Ord, V>(m: BTreeMap<K, V>) -> (r: Vec<V>)
    requires
        vstd::laws_cmp::obeys_cmp::<K>(),
    ensures
        lc_values_in_key_order(m@, lc_key_order(m@), r@),
{ unimplemented!() }
