// ---------------------------------------------------------------------------
// shim/interval_domain_ops.rs -- TRUSTED.  std functions without a vstd specification in this build that the
// IntervalDomain transfer functions call (contract = std documentation).
// ---------------------------------------------------------------------------

/// std: "Shifts self right by rhs bits.  Returns a tuple of the shifted version of self along with a boolean
/// indicating whether the shift value was larger than or equal to the number of bits.  If the shift value is too
/// large, then value is masked (N-1) where N is the number of bits, and this value is then used to perform the shift."
/// (only used for the widening delay counter in IntervalDomain::subpiece_higher; no property depends on it)
pub assume_specification[ u64::overflowing_shr ](a: u64, rhs: u32) -> (out: (u64, bool))
    ensures out.1 == (rhs >= 64), out.0 == a >> ((rhs % 64) as u64),
;
