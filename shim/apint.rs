// ---------------------------------------------------------------------------
// shim/apint.rs -- TRUSTED contracts for the `apint` 0.2.0 crate (the bodies of
// apint are not verified; these `external_body` declarations state what the
// extracted cwe_checker code may assume about them).  Written from the apint
// source (registry/src/.../apint-0.2.0), including when a call returns `Err`
// and when it panics (a panic is a `requires`).  Cross-checked against the real
// crate by kani/ (loop-free operations) and replay/ (executable twin sweep).
//
// Bitvector = apint::ApInt is modelled as the ghost pair (w, u):  wf <=> 1 <= w <= MAXW, u < 2^w.
// The shim type is `Copy` (rule R3); the real ApInt is not, which only makes
// the shim accept more programs than rustc does -- the extracted code already
// compiles with rustc.
// ---------------------------------------------------------------------------

#[derive(Clone, Copy)]
pub struct BitWidth { pub n: usize }

impl BitWidth {
    pub fn to_usize(self) -> (r: usize)
        ensures r == self.n
    { self.n }
}

impl From<usize> for BitWidth {
    /// apint: `BitWidth::new(width).unwrap()` -- panics for 0.
    fn from(width: usize) -> (r: BitWidth) {
        verif_assume_or_diverge(width != 0);
        BitWidth { n: width }
    }
}
impl FromSpecImpl<usize> for BitWidth {
    open spec fn obeys_from_spec() -> bool { true }
    open spec fn from_spec(width: usize) -> BitWidth { BitWidth { n: width } }
}

impl PartialEq for BitWidth {
    fn eq(&self, other: &BitWidth) -> (r: bool) { self.n == other.n }
}
impl PartialEqSpecImpl for BitWidth {
    open spec fn obeys_eq_spec() -> bool { true }
    open spec fn eq_spec(&self, other: &BitWidth) -> bool { self.n == other.n }
}
impl Eq for BitWidth {}
impl PartialOrd for BitWidth {
    fn partial_cmp(&self, other: &BitWidth) -> (r: Option<core::cmp::Ordering>) {
        if self.n < other.n { Some(core::cmp::Ordering::Less) }
        else if self.n == other.n { Some(core::cmp::Ordering::Equal) }
        else { Some(core::cmp::Ordering::Greater) }
    }
}
impl PartialOrdSpecImpl for BitWidth {
    open spec fn obeys_partial_cmp_spec() -> bool { true }
    open spec fn partial_cmp_spec(&self, other: &BitWidth) -> Option<core::cmp::Ordering> {
        if self.n < other.n { Some(core::cmp::Ordering::Less) }
        else if self.n == other.n { Some(core::cmp::Ordering::Equal) }
        else { Some(core::cmp::Ordering::Greater) }
    }
}

/// Bit width denoted by a value handed to an `W: Into<BitWidth>` parameter.
pub open spec fn tw_of<W: Into<BitWidth>>(t: W) -> nat {
    IntoSpec::<BitWidth>::into_spec(t).n as nat
}
pub open spec fn tw_ok<W: Into<BitWidth>>(t: W) -> bool {
    <W as IntoSpec<BitWidth>>::obeys_into_spec() && 1 <= tw_of(t) <= MAXW()
}

#[derive(Clone, Copy)]
pub enum Bit { Unset, Set }
impl Bit {
    pub fn to_bool(self) -> (r: bool)
        ensures r == (self is Set)
    { match self { Bit::Set => true, Bit::Unset => false } }
}

#[derive(Clone, Copy)]
pub struct Bitvector { pub w: Ghost<nat>, pub u: Ghost<nat> }

pub open spec fn bv(w: nat, u: nat) -> Bitvector { Bitvector { w: Ghost(w), u: Ghost(u) } }

impl Bitvector {
    pub open spec fn wf(&self) -> bool { 1 <= self.w@ <= MAXW() && self.u@ < p2(self.w@) }
    /// two's-complement value
    pub open spec fn s(&self) -> int { sval(self.w@, self.u@) }
    pub open spec fn sign(&self) -> bool { self.u@ >= p2((self.w@ - 1) as nat) }

    // ---- constructors -----------------------------------------------------
    #[verifier::external_body]
    pub fn from_u8(v: u8) -> (r: Bitvector) ensures r == bv(8, v as nat), r.wf() { unimplemented!() }
    #[verifier::external_body]
    pub fn from_u16(v: u16) -> (r: Bitvector) ensures r == bv(16, v as nat), r.wf() { unimplemented!() }
    #[verifier::external_body]
    pub fn from_u32(v: u32) -> (r: Bitvector) ensures r == bv(32, v as nat), r.wf() { unimplemented!() }
    #[verifier::external_body]
    pub fn from_u64(v: u64) -> (r: Bitvector) ensures r == bv(64, v as nat), r.wf() { unimplemented!() }
    #[verifier::external_body]
    pub fn from_u128(v: u128) -> (r: Bitvector) ensures r == bv(128, v as nat), r.wf() { unimplemented!() }
    #[verifier::external_body]
    pub fn from_i8(v: i8) -> (r: Bitvector) ensures r == bv(8, trunc(8, v as int)), r.wf() { unimplemented!() }
    #[verifier::external_body]
    pub fn from_i16(v: i16) -> (r: Bitvector) ensures r == bv(16, trunc(16, v as int)), r.wf() { unimplemented!() }
    #[verifier::external_body]
    pub fn from_i32(v: i32) -> (r: Bitvector) ensures r == bv(32, trunc(32, v as int)), r.wf() { unimplemented!() }
    #[verifier::external_body]
    pub fn from_i64(v: i64) -> (r: Bitvector) ensures r == bv(64, trunc(64, v as int)), r.wf() { unimplemented!() }
    #[verifier::external_body]
    pub fn from_i128(v: i128) -> (r: Bitvector) ensures r == bv(128, trunc(128, v as int)), r.wf() { unimplemented!() }

    #[verifier::external_body]
    pub fn zero(width: BitWidth) -> (r: Bitvector)
        requires 1 <= width.n <= MAXW()
        ensures r == bv(width.n as nat, 0), r.wf()
    { unimplemented!() }
    #[verifier::external_body]
    pub fn one(width: BitWidth) -> (r: Bitvector)
        requires 1 <= width.n <= MAXW()
        ensures r == bv(width.n as nat, 1), r.wf()
    { unimplemented!() }
    #[verifier::external_body]
    pub fn unsigned_max_value(width: BitWidth) -> (r: Bitvector)
        requires 1 <= width.n <= MAXW()
        ensures r == bv(width.n as nat, (p2(width.n as nat) - 1) as nat), r.wf()
    { unimplemented!() }
    #[verifier::external_body]
    pub fn signed_min_value(width: BitWidth) -> (r: Bitvector)
        requires 1 <= width.n <= MAXW()
        ensures r == bv(width.n as nat, p2((width.n - 1) as nat)), r.wf()
    { unimplemented!() }
    #[verifier::external_body]
    pub fn signed_max_value(width: BitWidth) -> (r: Bitvector)
        requires 1 <= width.n <= MAXW()
        ensures r == bv(width.n as nat, (p2((width.n - 1) as nat) - 1) as nat), r.wf()
    { unimplemented!() }

    #[verifier::external_body]
    pub fn width(&self) -> (r: BitWidth)
        requires self.wf()
        ensures r.n as nat == self.w@
    { unimplemented!() }

    // ---- casts --------------------------------------------------------------
    // Err iff the target is narrower (extend) / wider (truncate) than the current width.
    #[verifier::external_body]
    pub fn into_zero_extend<W: Into<BitWidth>>(self, target_width: W) -> (r: Result<Bitvector, Error>)
        requires self.wf(), tw_ok(target_width)
        ensures r is Ok <==> tw_of(target_width) >= self.w@,
                r is Ok ==> r->Ok_0 == bv(tw_of(target_width), self.u@) && r->Ok_0.wf()
    { unimplemented!() }
    #[verifier::external_body]
    pub fn into_sign_extend<W: Into<BitWidth>>(self, target_width: W) -> (r: Result<Bitvector, Error>)
        requires self.wf(), tw_ok(target_width)
        ensures r is Ok <==> tw_of(target_width) >= self.w@,
                r is Ok ==> r->Ok_0 == bv(tw_of(target_width), trunc(tw_of(target_width), self.s())) && r->Ok_0.wf()
    { unimplemented!() }
    #[verifier::external_body]
    pub fn into_truncate<W: Into<BitWidth>>(self, target_width: W) -> (r: Result<Bitvector, Error>)
        requires self.wf(), tw_ok(target_width)
        ensures r is Ok <==> tw_of(target_width) <= self.w@,
                r is Ok ==> r->Ok_0 == bv(tw_of(target_width), self.u@ % p2(tw_of(target_width))) && r->Ok_0.wf()
    { unimplemented!() }
    #[verifier::external_body]
    pub fn into_zero_resize<W: Into<BitWidth>>(self, target_width: W) -> (r: Bitvector)
        requires self.wf(), tw_ok(target_width)
        ensures r == bv(tw_of(target_width), if tw_of(target_width) >= self.w@ { self.u@ } else { self.u@ % p2(tw_of(target_width)) }),
                r.wf()
    { unimplemented!() }
    #[verifier::external_body]
    pub fn into_sign_resize<W: Into<BitWidth>>(self, target_width: W) -> (r: Bitvector)
        requires self.wf(), tw_ok(target_width)
        ensures r == bv(tw_of(target_width), if tw_of(target_width) >= self.w@ { trunc(tw_of(target_width), self.s()) } else { self.u@ % p2(tw_of(target_width)) }),
                r.wf()
    { unimplemented!() }

    // ---- shifts: Err iff shift_amount >= width ------------------------------
    #[verifier::external_body]
    pub fn into_checked_shl(self, shift_amount: usize) -> (r: Result<Bitvector, Error>)
        requires self.wf()
        ensures r is Ok <==> (shift_amount as nat) < self.w@,
                r is Ok ==> r->Ok_0 == bv(self.w@, trunc(self.w@, (self.u@ * p2(shift_amount as nat)) as int)) && r->Ok_0.wf()
    { unimplemented!() }
    #[verifier::external_body]
    pub fn into_checked_lshr(self, shift_amount: usize) -> (r: Result<Bitvector, Error>)
        requires self.wf()
        ensures r is Ok <==> (shift_amount as nat) < self.w@,
                r is Ok ==> r->Ok_0 == bv(self.w@, self.u@ / p2(shift_amount as nat)) && r->Ok_0.wf()
    { unimplemented!() }
    #[verifier::external_body]
    pub fn into_checked_ashr(self, shift_amount: usize) -> (r: Result<Bitvector, Error>)
        requires self.wf()
        ensures r is Ok <==> (shift_amount as nat) < self.w@,
                r is Ok ==> r->Ok_0 == bv(self.w@, trunc(self.w@, self.s() / (p2(shift_amount as nat) as int))) && r->Ok_0.wf()
    { unimplemented!() }

    // ---- modular arithmetic: Err iff widths differ ----------------------------
    #[verifier::external_body]
    pub fn into_checked_add(self, rhs: &Bitvector) -> (r: Result<Bitvector, Error>)
        requires self.wf(), rhs.wf()
        ensures r is Ok <==> self.w@ == rhs.w@,
                r is Ok ==> r->Ok_0 == bv_add(self, *rhs) && r->Ok_0.wf()
    { unimplemented!() }
    #[verifier::external_body]
    pub fn into_checked_sub(self, rhs: &Bitvector) -> (r: Result<Bitvector, Error>)
        requires self.wf(), rhs.wf()
        ensures r is Ok <==> self.w@ == rhs.w@,
                r is Ok ==> r->Ok_0 == bv_sub(self, *rhs) && r->Ok_0.wf()
    { unimplemented!() }
    /// apint: `unimplemented!()` (panic) for widths above 64 bit when the widths match.
    #[verifier::external_body]
    pub fn into_checked_mul(self, rhs: &Bitvector) -> (r: Result<Bitvector, Error>)
        requires self.wf(), rhs.wf(), self.w@ <= 64 || self.w@ != rhs.w@
        ensures r is Ok <==> self.w@ == rhs.w@,
                r is Ok ==> r->Ok_0 == bv_mul(self, *rhs) && r->Ok_0.wf()
    { unimplemented!() }
    #[verifier::external_body]
    pub fn checked_add_assign(&mut self, rhs: &Bitvector) -> (r: Result<(), Error>)
        requires old(self).wf(), rhs.wf()
        ensures r is Ok <==> old(self).w@ == rhs.w@,
                r is Ok ==> *final(self) == bv_add(*old(self), *rhs) && final(self).wf(),
                r is Err ==> *final(self) == *old(self)
    { unimplemented!() }
    #[verifier::external_body]
    pub fn checked_sub_assign(&mut self, rhs: &Bitvector) -> (r: Result<(), Error>)
        requires old(self).wf(), rhs.wf()
        ensures r is Ok <==> old(self).w@ == rhs.w@,
                r is Ok ==> *final(self) == bv_sub(*old(self), *rhs) && final(self).wf(),
                r is Err ==> *final(self) == *old(self)
    { unimplemented!() }

    // ---- division: Err iff rhs == 0 or widths differ; panics (unimplemented!) above 64 bit ----
    #[verifier::external_body]
    pub fn into_checked_udiv(self, rhs: &Bitvector) -> (r: Result<Bitvector, Error>)
        requires self.wf(), rhs.wf(), self.w@ <= 64 || rhs.u@ == 0 || self.w@ != rhs.w@
        ensures r is Ok <==> (self.w@ == rhs.w@ && rhs.u@ != 0),
                r is Ok ==> r->Ok_0 == bv(self.w@, self.u@ / rhs.u@) && r->Ok_0.wf()
    { unimplemented!() }
    #[verifier::external_body]
    pub fn into_checked_urem(self, rhs: &Bitvector) -> (r: Result<Bitvector, Error>)
        requires self.wf(), rhs.wf(), self.w@ <= 64 || rhs.u@ == 0 || self.w@ != rhs.w@
        ensures r is Ok <==> (self.w@ == rhs.w@ && rhs.u@ != 0),
                r is Ok ==> r->Ok_0 == bv(self.w@, self.u@ % rhs.u@) && r->Ok_0.wf()
    { unimplemented!() }
    /// apint computes `i64::wrapping_div` on the sign-extended digits and clears the unused bits:
    /// the quotient is truncated (MIN / -1 = MIN).
    #[verifier::external_body]
    pub fn into_checked_sdiv(self, rhs: &Bitvector) -> (r: Result<Bitvector, Error>)
        requires self.wf(), rhs.wf(), self.w@ <= 64 || rhs.u@ == 0 || self.w@ != rhs.w@
        ensures r is Ok <==> (self.w@ == rhs.w@ && rhs.u@ != 0),
                r is Ok ==> r->Ok_0 == bv(self.w@, trunc(self.w@, tdiv(self.s(), rhs.s()))) && r->Ok_0.wf()
    { unimplemented!() }
    #[verifier::external_body]
    pub fn into_checked_srem(self, rhs: &Bitvector) -> (r: Result<Bitvector, Error>)
        requires self.wf(), rhs.wf(), self.w@ <= 64 || rhs.u@ == 0 || self.w@ != rhs.w@
        ensures r is Ok <==> (self.w@ == rhs.w@ && rhs.u@ != 0),
                r is Ok ==> r->Ok_0 == bv(self.w@, trunc(self.w@, trem(self.s(), rhs.s()))) && r->Ok_0.wf()
    { unimplemented!() }

    #[verifier::external_body]
    pub fn into_bitnot(self) -> (r: Bitvector)
        requires self.wf()
        ensures r == bv(self.w@, bits_not(self.w@, self.u@)), r.wf()
    { unimplemented!() }
    #[verifier::external_body]
    pub fn into_negate(self) -> (r: Bitvector)
        requires self.wf()
        ensures r == bv_neg(self), r.wf()
    { unimplemented!() }

    // ---- comparisons: Err iff widths differ -----------------------------------
    #[verifier::external_body]
    pub fn checked_ult(&self, rhs: &Bitvector) -> (r: Result<bool, Error>)
        requires self.wf(), rhs.wf()
        ensures r is Ok <==> self.w@ == rhs.w@, r is Ok ==> r->Ok_0 == (self.u@ < rhs.u@)
    { unimplemented!() }
    #[verifier::external_body]
    pub fn checked_ule(&self, rhs: &Bitvector) -> (r: Result<bool, Error>)
        requires self.wf(), rhs.wf()
        ensures r is Ok <==> self.w@ == rhs.w@, r is Ok ==> r->Ok_0 == (self.u@ <= rhs.u@)
    { unimplemented!() }
    #[verifier::external_body]
    pub fn checked_ugt(&self, rhs: &Bitvector) -> (r: Result<bool, Error>)
        requires self.wf(), rhs.wf()
        ensures r is Ok <==> self.w@ == rhs.w@, r is Ok ==> r->Ok_0 == (self.u@ > rhs.u@)
    { unimplemented!() }
    #[verifier::external_body]
    pub fn checked_uge(&self, rhs: &Bitvector) -> (r: Result<bool, Error>)
        requires self.wf(), rhs.wf()
        ensures r is Ok <==> self.w@ == rhs.w@, r is Ok ==> r->Ok_0 == (self.u@ >= rhs.u@)
    { unimplemented!() }
    #[verifier::external_body]
    pub fn checked_slt(&self, rhs: &Bitvector) -> (r: Result<bool, Error>)
        requires self.wf(), rhs.wf()
        ensures r is Ok <==> self.w@ == rhs.w@, r is Ok ==> r->Ok_0 == (self.s() < rhs.s())
    { unimplemented!() }
    #[verifier::external_body]
    pub fn checked_sle(&self, rhs: &Bitvector) -> (r: Result<bool, Error>)
        requires self.wf(), rhs.wf()
        ensures r is Ok <==> self.w@ == rhs.w@, r is Ok ==> r->Ok_0 == (self.s() <= rhs.s())
    { unimplemented!() }
    #[verifier::external_body]
    pub fn checked_sgt(&self, rhs: &Bitvector) -> (r: Result<bool, Error>)
        requires self.wf(), rhs.wf()
        ensures r is Ok <==> self.w@ == rhs.w@, r is Ok ==> r->Ok_0 == (self.s() > rhs.s())
    { unimplemented!() }
    #[verifier::external_body]
    pub fn checked_sge(&self, rhs: &Bitvector) -> (r: Result<bool, Error>)
        requires self.wf(), rhs.wf()
        ensures r is Ok <==> self.w@ == rhs.w@, r is Ok ==> r->Ok_0 == (self.s() >= rhs.s())
    { unimplemented!() }

    // ---- predicates and bit counts ----------------------------------------------
    #[verifier::external_body]
    pub fn is_zero(&self) -> (r: bool) requires self.wf() ensures r == (self.u@ == 0) { unimplemented!() }
    #[verifier::external_body]
    pub fn is_one(&self) -> (r: bool) requires self.wf() ensures r == (self.u@ == 1) { unimplemented!() }
    #[verifier::external_body]
    pub fn sign_bit(&self) -> (r: Bit) requires self.wf() ensures (r is Set) == self.sign() { unimplemented!() }
    #[verifier::external_body]
    pub fn count_ones(&self) -> (r: usize) requires self.wf() ensures r as nat == popcount(self.u@) { unimplemented!() }
    #[verifier::external_body]
    pub fn leading_zeros(&self) -> (r: usize) requires self.wf() ensures r as int == self.w@ - bitlen(self.u@) { unimplemented!() }
    #[verifier::external_body]
    pub fn trailing_zeros(&self) -> (r: usize) requires self.wf() ensures r as nat == (if self.u@ == 0 { self.w@ } else { tz(self.u@) }) { unimplemented!() }

    // ---- lossless conversion to primitives: Err iff the *unsigned* value does not fit ------
    #[verifier::external_body]
    pub fn try_to_u8(&self) -> (r: Result<u8, Error>)
        requires self.wf()
        ensures r is Ok <==> self.u@ < p2(8), r is Ok ==> r->Ok_0 as nat == self.u@
    { unimplemented!() }
    #[verifier::external_body]
    pub fn try_to_u64(&self) -> (r: Result<u64, Error>)
        requires self.wf()
        ensures r is Ok <==> self.u@ < p2(64), r is Ok ==> r->Ok_0 as nat == self.u@
    { unimplemented!() }
    /// sign extension from the own width when it is below 64 bit, else the low 64 bits read as i64.
    #[verifier::external_body]
    pub fn try_to_i64(&self) -> (r: Result<i64, Error>)
        requires self.wf()
        ensures r is Ok <==> self.u@ < p2(64),
                r is Ok ==> r->Ok_0 as int == (if self.w@ <= 64 { self.s() } else { sval(64, self.u@) })
    { unimplemented!() }
    #[verifier::external_body]
    pub fn try_to_i128(&self) -> (r: Result<i128, Error>)
        requires self.wf()
        ensures r is Ok <==> self.u@ < p2(128),
                r is Ok ==> r->Ok_0 as int == (if self.w@ <= 128 { self.s() } else { sval(128, self.u@) })
    { unimplemented!() }
    #[verifier::external_body]
    pub fn try_to_u128(&self) -> (r: Result<u128, Error>)
        requires self.wf()
        ensures r is Ok <==> self.u@ < p2(128), r is Ok ==> r->Ok_0 as nat == self.u@
    { unimplemented!() }
}

/// number of trailing zero bits of a non-zero value
pub open spec fn tz(u: nat) -> nat
    decreases u
{
    if u == 0 || u % 2 == 1 { 0 } else { 1 + tz(u / 2) }
}

pub open spec fn bv_add(a: Bitvector, b: Bitvector) -> Bitvector { bv(a.w@, trunc(a.w@, (a.u@ + b.u@) as int)) }
pub open spec fn bv_sub(a: Bitvector, b: Bitvector) -> Bitvector { bv(a.w@, trunc(a.w@, a.u@ - b.u@)) }
pub open spec fn bv_mul(a: Bitvector, b: Bitvector) -> Bitvector { bv(a.w@, trunc(a.w@, (a.u@ * b.u@) as int)) }
pub open spec fn bv_neg(a: Bitvector) -> Bitvector { bv(a.w@, trunc(a.w@, -(a.u@ as int))) }
pub open spec fn bv_and(a: Bitvector, b: Bitvector) -> Bitvector { bv(a.w@, bits_and(a.u@, b.u@)) }
pub open spec fn bv_or(a: Bitvector, b: Bitvector) -> Bitvector { bv(a.w@, bits_or(a.u@, b.u@)) }
pub open spec fn bv_xor(a: Bitvector, b: Bitvector) -> Bitvector { bv(a.w@, bits_xor(a.u@, b.u@)) }

// PartialEq: apint compares width and digits; never panics.
impl PartialEq for Bitvector {
    #[verifier::external_body]
    fn eq(&self, other: &Bitvector) -> (r: bool) { unimplemented!() }
}
impl PartialEqSpecImpl for Bitvector {
    open spec fn obeys_eq_spec() -> bool { true }
    open spec fn eq_spec(&self, other: &Bitvector) -> bool { self.w@ == other.w@ && self.u@ == other.u@ }
}
impl Eq for Bitvector {}

// From<primitive> for ApInt
impl From<u8> for Bitvector {
    #[verifier::external_body]
    fn from(v: u8) -> (r: Bitvector) { unimplemented!() }
}
impl FromSpecImpl<u8> for Bitvector {
    open spec fn obeys_from_spec() -> bool { true }
    open spec fn from_spec(v: u8) -> Bitvector { bv(8, v as nat) }
}
impl From<u64> for Bitvector {
    #[verifier::external_body]
    fn from(v: u64) -> (r: Bitvector) { unimplemented!() }
}
impl FromSpecImpl<u64> for Bitvector {
    open spec fn obeys_from_spec() -> bool { true }
    open spec fn from_spec(v: u64) -> Bitvector { bv(64, v as nat) }
}

/// apint::Int -- a signed view of an ApInt.
#[derive(Clone, Copy)]
pub struct Int { pub value: Bitvector }
impl From<Bitvector> for Int {
    fn from(value: Bitvector) -> (r: Int) { Int { value } }
}
impl FromSpecImpl<Bitvector> for Int {
    open spec fn obeys_from_spec() -> bool { true }
    open spec fn from_spec(value: Bitvector) -> Int { Int { value } }
}
impl Int {
    /// apint: `self.sign_bit() == Bit::Unset` (zero counts as positive)
    #[verifier::external_body]
    pub fn is_positive(&self) -> (r: bool) requires self.value.wf() ensures r == !self.value.sign() { unimplemented!() }
    #[verifier::external_body]
    pub fn is_negative(&self) -> (r: bool) requires self.value.wf() ensures r == self.value.sign() { unimplemented!() }
}
