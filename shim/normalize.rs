// ---------------------------------------------------------------------------
// shim/normalize.rs -- TRUSTED.  (stage 0 skeleton)
// ---------------------------------------------------------------------------

// std's maps, imported through a GLOB of a tiny module (may coexist with explicit `use std::collections::..` of imported units)
pub mod nz_std { pub use std::collections::{BTreeMap, HashMap, HashSet}; }
pub use nz_std::*;

// ---- opaque field types of the extracted `Project` (never read by the normalization passes) ---------------------
#[verifier::external_body]
pub struct CallingConvention { _p: () }
#[verifier::external_body]
pub struct DatatypeProperties { _p: () }
#[verifier::external_body]
pub struct RuntimeMemoryImage { _p: () }
