// ---------------------------------------------------------------------------
// shim/normalize.rs -- TRUSTED.  What the extracted basic-normalization passes (intermediate_representation/project.rs,
// project/block_duplication_normalization.rs, sub.rs, blk.rs; unit `normalize`, property C09) may assume about std, about
// derive-generated code, about `utils::log::LogMessage` and about the NAMES (`Tid`s) that the passes generate by string
// concatenation.  `std::collections::{BTreeMap, HashMap, HashSet}` and `Vec` are NOT shimmed: vstd's specifications are used
// (incl. `BTreeMap::get_mut`, `Vec::iter_mut`, `HashMap::remove`, `Vec::append`), under the hypotheses cfg_key_hyp (spec/cfgbuild.rs).
// Every item is an assumption and is listed in contracts/normalize.vc.
// ---------------------------------------------------------------------------

// std's maps, imported through a GLOB of a tiny module (may coexist with explicit `use std::collections::..` of imported units)
pub mod nz_std { pub use std::collections::{BTreeMap, HashMap, HashSet}; }
pub use nz_std::*;

// ---- opaque field types of the extracted `Project` (never read by the normalization passes) ---------------------
#[verifier::external_body]
pub struct CallingConvention { _p: () }
#[verifier::external_body]
pub struct DatatypeProperties { _p: () }
#[verifier::external_body]
pub struct RuntimeMemoryImage { _p: () }

// ---- NAMES ----------------------------------------------------------------------------------------------------------------
// `Tid { id: String, address: String }`.  The passes build new tids with `format!` / `String + &str` and test them with
// `starts_with` / `ends_with`; Verus has no theory of string concatenation that would decide when two such names collide, so
// the names are UNINTERPRETED functions of their ingredients.  The contracts of the `Tid` helpers (@nobody in
// contracts/normalize.vc) say which function a helper computes; the two axioms below are facts of string concatenation;
// everything else that the proofs need about names ("no term of the input carries an artificial-sink name") is a HYPOTHESIS on
// the input program (spec/normalize.rs: nz_no_sink_names, nz_namespace).  NOTHING is assumed about `nz_with` / `nz_sfx` (in
// particular NOT that different (tid, suffix) pairs give different tids: with string concatenation that is false, e.g.
// "a_b" + "_c" == "a" + "_b_c"); the clauses that would need it are listed as not decided.

/// `Tid::artificial_sink_sub()`: id "Artificial Sink Sub", address "UNKNOWN"
pub uninterp spec fn nz_sink_sub() -> Tid;
/// `Tid::artificial_sink_block(suffix)`: id "Artificial Sink Block" + suffix, address "UNKNOWN"
pub uninterp spec fn nz_sink_blk(suffix: Seq<char>) -> Tid;
/// `tid.is_artificial_sink_block(suffix)`: id starts with "Artificial Sink Block", ends with suffix, address "UNKNOWN"
pub uninterp spec fn nz_is_sink_blk(t: Tid, suffix: Seq<char>) -> bool;
/// `tid.with_id_suffix(suffix)`: id + suffix, same address
pub uninterp spec fn nz_with(t: Tid, suffix: Seq<char>) -> Tid;
/// `format!("_{}", tid)` (`Term<Sub>::id_suffix`, the suffix of block duplication): "_" + id (Display of Tid writes the id)
pub uninterp spec fn nz_sfx(t: Tid) -> Seq<char>;

/// "Artificial Sink Block" + s starts with "Artificial Sink Block", ends with s, and has the address "UNKNOWN".
pub broadcast axiom fn axiom_nz_sink_blk_is(s: Seq<char>)
    ensures #[trigger] nz_is_sink_blk(nz_sink_blk(s), s);

/// "Artificial Sink Sub" and "Artificial Sink Block" are different names.
pub axiom fn axiom_nz_sink_names_differ()
    ensures nz_sink_sub() != nz_sink_blk(Seq::<char>::empty());

/// R9 target for `format!("_{}", TID)` (block_duplication_normalization.rs): the text is the function nz_sfx of the tid
/// (the same text `Term<Sub>::id_suffix` produces: both are `format!("_{}", tid)`).
#[verifier::external_body]
pub fn verif_nz_sub_suffix(t: &Tid) -> (r: String)
    ensures r@ == nz_sfx(*t)
{ unimplemented!() }

// ---- derive-generated Clone of the IR terms --------------------------------------------------------------------------------
/// `#[derive(Clone)]` on `Term<T>`, `Blk`, `Def`, `Jmp`, `Sub` (and below them `Expression`, `Variable`, `String`, `Vec`, `ApInt`):
/// a clone equals the original.
impl<T> Clone for Term<T> {
    #[verifier::external_body]
    fn clone(&self) -> (r: Term<T>)
        ensures r == *self
    { unimplemented!() }
}

// ---- utils::log::LogMessage (opaque type of shim/cfgbuild.rs): constructors WITHOUT specification ------------------------------
// C09 does not speak about log messages: whatever these return, no contract of the unit mentions it.
impl LogMessage {
    /// `LogMessage::new_error(text)`
    #[verifier::external_body]
    pub fn new_error<T>(text: T) -> (r: LogMessage)
    { unimplemented!() }
    /// `msg.location(tid)`
    #[verifier::external_body]
    pub fn location(self, location: Tid) -> (r: LogMessage)
    { unimplemented!() }
}

/// R9 target for `LogMessage::new_error(&format!("Removed duplicate of TID {}. ..", TID))`: some log message.
#[verifier::external_body]
pub fn verif_nz_log_dup(tid: &Tid) -> (r: LogMessage)
{ unimplemented!() }

/// R9 target for `LogMessage::new_info(format!(.., TIDS..))` in the non-returning-calls pass: some log message.
#[verifier::external_body]
pub fn verif_nz_log_info() -> (r: LogMessage)
{ unimplemented!() }

// ---- panics that the unit PROVES unreachable ------------------------------------------------------------------------------------
/// R9 target for `panic!("Duplicate of TID {} encountered.", sub.tid)`: precondition `false`, i.e. a PROOF OBLIGATION
/// (unlike rule R5, which reads a panic as divergence and claims nothing).
#[verifier::external_body]
pub fn nz_panic<T>() -> (r: T)
    requires false
{ unimplemented!() }
