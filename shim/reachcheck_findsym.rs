// ---------------------------------------------------------------------------
// shim/reachcheck_findsym.rs -- TRUSTED.  The one std item the extracted body of utils/symbol_utils.rs::find_symbol (unit
// reachcheck_243, property C17) needs beyond vstd: the comparison `name == sym.name` of a `&str` with a `String`.
// Same text as the item of shim/callsites.rs (unit callsites, C16, proves the same function; the two units are never
// imported together).  std's BTreeMap (`iter`) is NOT shimmed: vstd's specification is used.
// ---------------------------------------------------------------------------

/// std `impl<'a, 'b> PartialEq<String> for &'a str` (alloc::string, `impl_eq! { &'a str, String }`):
/// `PartialEq::eq(&self[..], &other[..])` -- equality of the character sequences.
pub assume_specification<'a>[ <&'a str as PartialEq<String>>::eq ](a: &&'a str, b: &String) -> (r: bool)
    ensures r == (a@ == b@);

/// std `str::eq_ignore_ascii_case`, declared WITHOUT any specification: the real find_symbol does not call it; a mutant that
/// compares case-insensitively then fails a proof obligation instead of ending as "not supported" (HOWTO, unit modsel).
pub assume_specification [str::eq_ignore_ascii_case] (_0: &str, _1: &str) -> bool;
