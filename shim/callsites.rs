// ---------------------------------------------------------------------------
// shim/callsites.rs -- TRUSTED.  (draft)
// ---------------------------------------------------------------------------
use std::collections::*;   // glob: may coexist with the explicit imports of shim/callgraph_build.rs
use vstd::std_specs::hash::*;

/// `impl<T: ?Sized> Borrow<T> for &T { fn borrow(&self) -> &T { &**self } }` (core::borrow): looking a `HashMap<&K, V>` up
/// with a `&K` (Q = K) finds the entry whose key equals (`==`, i.e. by VALUE of the referenced K) the looked-up key.
/// vstd states the same for `Key = Q` (axiom_contains_deref_key) and `Key = Box<Q>` (axiom_contains_box); this is the `&Q` case.
pub broadcast axiom fn axiom_cs_contains_ref_key<'a, V>(m: Map<&'a Tid, V>, k: &Tid)
    ensures #[trigger] contains_borrowed_key::<&'a Tid, V, Tid>(m, k) <==> m.contains_key(k);

pub broadcast axiom fn axiom_cs_maps_ref_key_to_value<'a, V>(m: Map<&'a Tid, V>, k: &Tid, v: V)
    ensures #[trigger] maps_borrowed_key_to_value::<&'a Tid, V, Tid>(m, k, v) <==> m.contains_key(k) && m[k] == v;

pub broadcast group group_cs_ref_key {
    axiom_cs_contains_ref_key,
    axiom_cs_maps_ref_key_to_value,
}

/// std `impl<'a, 'b> PartialEq<String> for &'a str` (alloc::string, `impl_eq! { &'a str, String }`):
/// `PartialEq::eq(&self[..], &other[..])` -- equality of the character sequences.
pub assume_specification<'a>[ <&'a str as PartialEq<String>>::eq ](a: &&'a str, b: &String) -> (r: bool)
    ensures r == (a@ == b@);

/// std `ToString::to_string`: "Converts the given value to a String."  NOTHING is assumed about the result (the texts of
/// name / version / description of a warning are not part of C16).
#[verifier::external_trait_specification]
pub trait ExCsToString {
    type ExternalTraitSpecificationFor: ToString;
    fn to_string(&self) -> String;
}
