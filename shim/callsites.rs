// ---------------------------------------------------------------------------
// shim/callsites.rs -- TRUSTED.  What the extracted call-site code (utils/symbol_utils.rs, utils/log.rs, checkers/cwe_676 /
// cwe_782 / cwe_426 / cwe_332, property C16) may assume about std (`HashMap<&K, V>` / `HashSet<&K>` lookups with a `&K`,
// `&str == String`, `String::from(&str)`, `ToString`, `format!` of a Tid), serde_json (`from_value`) and the parts of
// cwe_checker that are out of reach (opaque field types of Project / AnalysisResults, `CweModule` without its fn pointer).
// Every item is an assumption and is listed in contracts/callsites.vc.  std's HashMap / HashSet / BTreeMap themselves are
// NOT shimmed: vstd's specifications are used.
// ---------------------------------------------------------------------------
// std's maps, imported through a GLOB of a module holding exactly these names: a glob import may coexist with the explicit
// `use std::collections::{BTreeMap, HashMap}` of shim/callgraph_build.rs (same module when this unit is imported), and `pub`
// so that the units importing this one see the names too (std's BTreeSet is deliberately not among them: `BTreeSet` is the
// shim type of shim/callgraph.rs).
pub mod cs_std { pub use std::collections::{BTreeMap, HashMap, HashSet}; }
pub use cs_std::*;
use vstd::std_specs::hash::*;

/// `impl<T: ?Sized> Borrow<T> for &T { fn borrow(&self) -> &T { &**self } }` (core::borrow): looking a `HashMap<&K, V>` /
/// `HashSet<&K>` up with a `&K` (Q = K) finds the entry whose key equals (`==`, i.e. by VALUE of the referenced K) the
/// looked-up key.  vstd states the same for `Key = Q` (axiom_contains_deref_key, axiom_maps_deref_key_to_value,
/// axiom_set_contains_deref_key, axiom_set_deref_key_to_value) and `Key = Box<Q>` (axiom_contains_box, ..); these four are the `&Q` case.
pub broadcast axiom fn axiom_cs_contains_ref_key<'a, K, V>(m: Map<&'a K, V>, k: &K)
    ensures #[trigger] contains_borrowed_key::<&'a K, V, K>(m, k) <==> m.contains_key(k);

pub broadcast axiom fn axiom_cs_maps_ref_key_to_value<'a, K, V>(m: Map<&'a K, V>, k: &K, v: V)
    ensures #[trigger] maps_borrowed_key_to_value::<&'a K, V, K>(m, k, v) <==> m.contains_key(k) && m[k] == v;

pub broadcast axiom fn axiom_cs_set_contains_ref_key<'a, K>(s: Set<&'a K>, k: &K)
    ensures #[trigger] set_contains_borrowed_key::<&'a K, K>(s, k) <==> s.contains(k);

pub broadcast axiom fn axiom_cs_sets_ref_key_to_key<'a, K>(s: Set<&'a K>, k: &K, key: &&'a K)
    ensures #[trigger] sets_borrowed_key_to_key::<&'a K, K>(s, k, key) <==> s.contains(k) && **key == *k;

pub broadcast group group_cs_ref_key {
    axiom_cs_contains_ref_key,
    axiom_cs_maps_ref_key_to_value,
    axiom_cs_set_contains_ref_key,
    axiom_cs_sets_ref_key_to_key,
}

/// A `String` is determined by its characters (vstd models `String` as an abstract type with the view `Seq<char>`; the
/// capacity of the buffer is not observable).  Needed because vstd's key model reads `HashSet<&String>` lookups as
/// specification equality of the keys, whereas std compares the characters.
pub axiom fn axiom_cs_string_ext(a: String, b: String)
    ensures a@ == b@ ==> a == b;

/// std `impl<'a, 'b> PartialEq<String> for &'a str` (alloc::string, `impl_eq! { &'a str, String }`):
/// `PartialEq::eq(&self[..], &other[..])` -- equality of the character sequences.
pub assume_specification<'a>[ <&'a str as PartialEq<String>>::eq ](a: &&'a str, b: &String) -> (r: bool)
    ensures r == (a@ == b@);

/// std `ToString::to_string`: "Converts the given value to a String."  NOTHING is assumed about the result (the texts of
/// name / version / description of a warning are not part of C16).
#[verifier::external_trait_specification]
pub trait ExCsToString {
    type ExternalTraitSpecificationFor: ToString;
    fn to_string(&self) -> String;
}

/// `pub struct CweModule { pub name: &'static str, pub version: &'static str, pub run: CweModuleFn }` of lib.rs, RESTATED
/// without the field `run` (Verus rejects function pointer types).  The checkers only read `name` and `version`, and
/// neither is part of C16.
pub struct CweModule { pub name: &'static str, pub version: &'static str }

/// The text `format!("{}", tid)` produces for a Tid (`impl Display for Tid`: `write!(formatter, "{}", self.id)`): an
/// UNINTERPRETED, deterministic function of the tid (nothing else is assumed about the text).
pub uninterp spec fn cs_tid_fmt(t: Tid) -> Seq<char>;

/// R9 target for `format!("{jmp_tid}")` / `format!("{}", sub.tid)`: vstd gives `format!` no postcondition at all; the
/// shim adds determinism ("the text is a function of the formatted Tid").
#[verifier::external_body]
pub fn verif_format_tid(t: &Tid) -> (r: String)
    ensures r@ == cs_tid_fmt(*t)
{ unimplemented!() }

/// std `impl From<&str> for String`: "Converts a `&str` into a `String`.  The result is allocated on the heap." (same characters)
pub assume_specification<'a>[ <String as From<&'a str>>::from ](s: &str) -> (r: String)
    ensures r@ == s@;

// ---- opaque field types of `Project` / `AnalysisResults` (never read by the checkers of this unit) ---------------------------
/// `utils::binary::RuntimeMemoryImage`: opaque.
#[verifier::external_body]
pub struct RuntimeMemoryImage { _p: () }
/// `analysis::graph::Graph<'a>` (= petgraph DiGraph<Node<'a>, Edge<'a>>): opaque.
#[verifier::external_body]
pub struct Graph<'a> { _p: core::marker::PhantomData<&'a ()> }
/// `analysis::function_signature::FunctionSignature`: opaque.
#[verifier::external_body]
pub struct FunctionSignature { _p: () }
/// `analysis::pointer_inference::PointerInference<'a>`: opaque.
#[verifier::external_body]
pub struct PointerInference<'a> { _p: core::marker::PhantomData<&'a ()> }
/// `analysis::string_abstraction::StringAbstraction<'a, T>`: opaque.
#[verifier::external_body]
#[verifier::reject_recursive_types(T)]
pub struct StringAbstraction<'a, T> { _p: core::marker::PhantomData<&'a T> }
/// `abstract_domain::BricksDomain`: opaque.
#[verifier::external_body]
pub struct BricksDomain { _p: () }

/// `serde_json::Value` (a parsed JSON document): opaque.
pub mod serde_json {
    use vstd::prelude::*;
    #[verifier::external_body]
    pub struct Value { _p: () }
}

/// what `serde_json::from_value::<T>(v)` deserialises the JSON value `v` to (when it succeeds): an UNINTERPRETED function of `v`
pub uninterp spec fn cs_parsed<T>(v: serde_json::Value) -> T;

/// R9 target for `serde_json::from_value(PARAMS.clone()).unwrap()`: serde_json `from_value`: "Interpret a serde_json::Value as an
/// instance of type T ... This conversion can fail"; `unwrap` panics on failure: the call DIVERGES then (read like R5,
/// panic-freedom on a malformed configuration is not claimed); otherwise the configuration is a function of the parameters.
#[verifier::external_body]
pub fn verif_from_value_or_panic<T>(v: &serde_json::Value) -> (r: T)
    ensures r == cs_parsed::<T>(*v)
{ unimplemented!() }
