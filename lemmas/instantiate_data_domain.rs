// ---------------------------------------------------------------------------
// lemmas/instantiate_data_domain.rs -- proved lemmas of unit `instantiate_data_domain` (prefix lemma_inst_).
//
// (1) SATISFIABILITY: for every function f, `pre(args) ==> exists r. post(args, r)`, proved here from the definitions alone
//     (a witness value is exhibited; the code is not consulted).  Hence the graph functions `inst_iv_<f>_fn = choose ..` of
//     spec/instantiate_data_domain.rs satisfy `pre(args) ==> post(args, fn(args))` (lemma_inst_iv_<f>_fn): this is a THEOREM, not an
//     axiom, and it does not depend on the exec function returning (R5 turns a failing `assert!` into divergence).
// (2) What the only trusted items of the unit (the wrappers `inst_iv_<f>_g`: "the exec function is a function of its arguments")
//     add is therefore conservative.
// ---------------------------------------------------------------------------

/// the full interval of a byte width is well-formed and represents every value of that width
pub proof fn lemma_inst_iv_full(w: nat)
    requires byte_w(w)
    ensures
        inst_iv_full(w).inv(), inst_iv_full(w).interval.is_full(), inst_iv_full(w).w() == w,
        forall|v: Bitvector| v.wf() && v.w@ == w ==> #[trigger] inst_iv_full(w).gamma(v),
{
    lemma_minmax(w);
    lemma_p2((w - 1) as nat);
    let i = inst_iv_full(w).interval;
    assert(i.start.wf() && i.end.wf());
    lemma_full_contains(i);
}

// ---- merge ------------------------------------------------------------------------------------------------------
pub proof fn lemma_inst_iv_merge_fn(a: IntervalDomain, b: IntervalDomain)
    requires inst_iv_merge_pre(a, b)
    ensures inst_iv_merge_post(a, b, inst_iv_merge_fn(a, b))
{
    // witness: the absorbing operand if there is one, else the full interval
    let w = a.w();
    lemma_inst_iv_full(w);
    let r = if forall|v: Bitvector| b.gamma(v) ==> a.gamma(v) { a }
            else if forall|v: Bitvector| a.gamma(v) ==> b.gamma(v) { b }
            else { inst_iv_full(w) };
    assert(inst_iv_merge_post(a, b, r));
}

// ---- is_top / bytesize / new_top / top / without_widening_hints ---------------------------------------------------
pub proof fn lemma_inst_iv_is_top_fn(a: IntervalDomain)
    requires inst_iv_is_top_pre(a)
    ensures inst_iv_is_top_post(a, inst_iv_is_top_fn(a))
{
    assert(inst_iv_is_top_post(a, a.interval.is_full()));
}

pub proof fn lemma_inst_iv_bytesize_fn(a: IntervalDomain)
    requires inst_iv_bytesize_pre(a)
    ensures inst_iv_bytesize_post(a, inst_iv_bytesize_fn(a))
{
    assert(a.w() <= MAXW());
    assert(inst_iv_bytesize_post(a, ByteSize(((a.w() + 7) / 8) as u64)));
}

pub proof fn lemma_inst_iv_new_top_fn(s: ByteSize)
    requires inst_iv_new_top_pre(s)
    ensures inst_iv_new_top_post(s, inst_iv_new_top_fn(s))
{
    let w = (s.0 * 8) as nat;
    assert(byte_w(w));
    lemma_inst_iv_full(w);
    assert(inst_iv_new_top_post(s, inst_iv_full(w)));
}

pub proof fn lemma_inst_iv_top_fn(a: IntervalDomain)
    requires inst_iv_top_pre(a)
    ensures inst_iv_top_post(a, inst_iv_top_fn(a))
{
    lemma_inst_iv_full(a.w());
    assert(inst_iv_top_post(a, inst_iv_full(a.w())));
}

pub proof fn lemma_inst_iv_unhint_fn(a: IntervalDomain)
    requires inst_iv_unhint_pre(a)
    ensures inst_iv_unhint_post(a, inst_iv_unhint_fn(a))
{
    let r = IntervalDomain { interval: a.interval, widening_upper_bound: None, widening_lower_bound: None, widening_delay: 0 };
    assert(inst_iv_unhint_post(a, r));
}

// ---- the five refinements -------------------------------------------------------------------------------------------
pub proof fn lemma_inst_iv_refine_fn(cmp: DdCmp, a: IntervalDomain, bound: Bitvector)
    requires inst_iv_refine_pre(a, bound)
    ensures inst_iv_refine_post(cmp, a, bound, inst_iv_refine_fn(cmp, a, bound))
{
    // witness: the value itself if some member satisfies the comparison, else 'unsatisfiable'
    let o = if exists|v: Bitvector| a.gamma(v) && dd_cmp_holds(cmp, v, bound) { Some(a) } else { None::<IntervalDomain> };
    assert(inst_iv_refine_post(cmp, a, bound, o));
}

// ---- intersect ------------------------------------------------------------------------------------------------------
pub proof fn lemma_inst_iv_intersect_fn(a: IntervalDomain, b: IntervalDomain)
    requires inst_iv_intersect_pre(a, b)
    ensures inst_iv_intersect_post(a, b, inst_iv_intersect_fn(a, b))
{
    let o = if exists|v: Bitvector| a.gamma(v) && b.gamma(v) { Some(a) } else { None::<IntervalDomain> };
    assert(inst_iv_intersect_post(a, b, o));
}

// ---- concrete sufficient conditions for the preconditions of the DataDomain contracts ------------------------------------
/// values of at most 4 bytes: the machine-arithmetic side condition on merge_span holds by itself
pub proof fn lemma_inst_iv_merge_pre_small(a: IntervalDomain, b: IntervalDomain)
    requires a.inv(), b.inv(), a.w() == b.w(), a.w() <= 32, a.widening_delay <= i64::MAX, b.widening_delay <= i64::MAX
    ensures inst_iv_merge_pre(a, b), p2(a.w()) <= 0x1_0000_0000,
{
    lemma_p2_mono(a.w(), 32);
    let w = a.w();
    lemma_idom_sval_all(w);
    lemma_p2_consts();
    lemma_p2_mono((w - 1) as nat, 31);
    vstd::arithmetic::power2::lemma2_to64();
    assert(p2(31) == 0x8000_0000);
    // every bound and hint lies in [-2^31, 2^31)
    assert(-0x8000_0000 <= a.interval.start.s() < 0x8000_0000 && -0x8000_0000 <= a.interval.end.s() < 0x8000_0000);
    assert(-0x8000_0000 <= b.interval.start.s() < 0x8000_0000 && -0x8000_0000 <= b.interval.end.s() < 0x8000_0000);
    if a.widening_lower_bound is Some { assert(-0x8000_0000 <= a.widening_lower_bound->Some_0.s() < 0x8000_0000); }
    if a.widening_upper_bound is Some { assert(-0x8000_0000 <= a.widening_upper_bound->Some_0.s() < 0x8000_0000); }
    if b.widening_lower_bound is Some { assert(-0x8000_0000 <= b.widening_lower_bound->Some_0.s() < 0x8000_0000); }
    if b.widening_upper_bound is Some { assert(-0x8000_0000 <= b.widening_upper_bound->Some_0.s() < 0x8000_0000); }
    assert(merge_span(a, b) <= 0x1_0000_0000);
}
