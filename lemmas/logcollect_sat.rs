// ---------------------------------------------------------------------------
// lemmas/logcollect_sat.rs -- SATISFIABILITY WITNESSES of the preconditions of unit `logcollect` (nothing here is trusted).
//   (a') verif_sat_logcollect_wrapper: NO `requires`.  Witnesses the closure hypothesis of `LogThread::spawn`
//        (`forall |rcv| collector_func.requires((rcv,))`) twice: with the fn item verif_sat_logcollect_null_collector
//        (no precondition; it also calls the shim's verif_recv at cursor 0: `cur <= |history|`) and with a closure whose
//        `requires` is absent; then get_msg_sender / send / collect / drop (no preconditions), on live handles (spawn
//        ensures `thread_handle is Some`) and on a LogThread literal with `thread_handle: None`.
//   (a') relative to (d) verif_sat_logcollect_standard: ONLY `requires lc_key_hyp()`.  collect_and_deduplicate on the
//        receiver of a fresh `unbounded()` channel; lc_spawn_standard_collector; then lc_collect_standard, whose
//        precondition `lc_thread_ok(t) && t.thread_handle is Some` is discharged from the postcondition of
//        lc_spawn_standard_collector (real requires checked by Verus at the call).
//   (d)  lc_key_hyp() == vstd::laws_cmp::obeys_cmp::<String>(): uninterpreted in vstd (neither it nor its negation is
//        provable in this build); no axiom / external_body / assume_specification of the unit has it in an `ensures`
//        (the two BTreeMap iterator shims have obeys_cmp::<K>() as a `requires` only).
// ---------------------------------------------------------------------------

/// a collector without precondition: looks at the first message and returns nothing
pub fn verif_sat_logcollect_null_collector(rcv: Receiver<LogThreadMsg>) -> (r: (Vec<LogMessage>, Vec<CweWarning>))
    ensures r.0@.len() == 0, r.1@.len() == 0,
{
    let mut cur: Ghost<nat> = Ghost(0);
    // shim precondition of verif_recv: old(cur)@ <= history().len()
    let _ = rcv.verif_recv(&mut cur);
    let _ = rcv.verif_recv(&mut cur);
    (Vec::new(), Vec::new())
}

/// (a') the thread wrapper: spawn (closure hypothesis), get_msg_sender, collect, drop -- no precondition
pub fn verif_sat_logcollect_wrapper()
{
    // spawn: forall |rcv| collector_func.requires((rcv,)) -- fn item
    let t1 = LogThread::spawn(verif_sat_logcollect_null_collector);
    assert(t1.thread_handle is Some);
    let s1 = t1.get_msg_sender();
    let _ = s1.send(LogThreadMsg::Terminate);
    let r1 = t1.collect();
    // spawn -- closure
    let f = |rcv: Receiver<LogThreadMsg>| -> (r: (Vec<LogMessage>, Vec<CweWarning>))
        ensures r.0@.len() == 0
        { (Vec::new(), Vec::new()) };
    let mut t2 = LogThread::spawn(f);
    t2.drop();
    assert(t2.thread_handle is None);
    // collect / drop without a handle
    let r2 = t2.collect();
    assert(r2.0@.len() == 0 && r2.1@.len() == 0);
    let (s3, _r3) = unbounded::<LogThreadMsg>();
    let mut t3 = LogThread { msg_sender: s3, thread_handle: None };
    t3.drop();
}

/// (a') relative to (d): the collector and the composition, under the vstd hypothesis only
pub fn verif_sat_logcollect_standard()
    requires lc_key_hyp(),
{
    // collect_and_deduplicate: lc_key_hyp()
    let (s0, r0) = unbounded::<LogThreadMsg>();
    let _ = s0.send(LogThreadMsg::Terminate);
    let res0 = LogThread::collect_and_deduplicate(r0);
    // lc_spawn_standard_collector: lc_key_hyp()   (inside: spawn with collector_func.requires == lc_key_hyp())
    let t = lc_spawn_standard_collector();
    let s = t.get_msg_sender();
    let _ = s.send(LogThreadMsg::Terminate);
    // lc_collect_standard: lc_thread_ok(t), t.thread_handle is Some
    let res = lc_collect_standard(t);
    // spawn directly with the real collector
    let t4 = LogThread::spawn(LogThread::collect_and_deduplicate);
    let res4 = t4.collect();
}
