// ---------------------------------------------------------------------------
// lemmas/mem_region_sat.rs -- SATISFIABILITY WITNESSES of the preconditions of unit `mem_region` (nothing here is trusted).
//   (c)  the hypotheses mr_domain_ok / mr_eq_is_spec_eq / mr_merge_idem are PROVED for the toy domain MrToy by
//        lemma_mr_toy_hyps (contracts/mem_region.vc) -- and for BitvectorDomain / Data in unit instantiate_mem_region.
//   (a') verif_sat_mem_region_two_cells: NO `requires`; MemRegion::new(ByteSize(8)), then `add` of Val(7,4) at offset 0 and of
//        Val(9,8) at offset 16 (64-bit positions from Bitvector::from_u64) -- ensures the cell map is exactly {0, 16} and ok().
//   (a') verif_sat_mem_region_chain: NO `requires`; calls EVERY contracted function of the unit at T = MrToy, each mutator on a
//        fresh copy of that NON-EMPTY region (so `old(self).ok()`, the machine-arithmetic bounds, mr_merge_pre, the
//        `forall k. contains_key(k) ==> ..` of add_offset_to_all_indices are checked by Verus at the call, on two real cells),
//        the restated trait methods (merge / bytesize / top at MrToy), verif_mr_keys, compute_range_end and
//        merge_or_merge_with_top on (Some, Some) / (Some, None) / (None, Some), merge_inner / merge on two regions that
//        share a cell, hold cells that overlap and cells that are free, and the four read-after-write clients + the toy client.
//        Postconditions are used to assert that the witness is not degenerate (which cells survive).
//   NOTE: the width `assert_eq!` of add / get / get_unsized / remove is modelled as verif_assume_or_diverge: a call with a
//        position whose width is not the region's address size would put `false` into the caller's context.  The region has
//        address size 8 and every position is 64 bit wide; the negative control (assert(false) at the end must FAIL) covers it.
//   (d)  nothing: no hypothesis of this unit mentions a vstd-uninterpreted predicate (keys are i64).
// ---------------------------------------------------------------------------

/// (a') a region with address size 8 and exactly the two cells  0 -> Val(7,4),  16 -> Val(9,8)
pub fn verif_sat_mem_region_two_cells() -> (r: MemRegion<MrToy>)
    ensures
        r.ok(), r.inner.address_bytesize == ByteSize(8),
        r.cells() =~= Map::<i64, MrToy>::empty().insert(0i64, MrToy::Val(7, 4)).insert(16i64, MrToy::Val(9, 8)),
{
    proof { lemma_mr_toy_hyps(); lemma_p2_consts(); }
    let mut r: MemRegion<MrToy> = MemRegion::new(ByteSize(8));
    let p0 = Bitvector::from_u64(0);
    let p16 = Bitvector::from_u64(16);
    assert(p0.s() == 0 && p16.s() == 16);
    r.add(MrToy::Val(7, 4), p0);
    r.add(MrToy::Val(9, 8), p16);
    r
}

/// (a') every contracted function of the unit is called at T = MrToy on a region with two cells; no precondition
#[verifier::exec_allows_no_decreases_clause]
pub fn verif_sat_mem_region_chain()
{
    proof { lemma_mr_toy_hyps(); lemma_p2_consts(); }
    let p0 = Bitvector::from_u64(0);
    let p4 = Bitvector::from_u64(4);
    let p16 = Bitvector::from_u64(16);
    let p20 = Bitvector::from_u64(20);
    let p40 = Bitvector::from_u64(40);
    let s8 = Bitvector::from_u64(8);
    assert(p0.s() == 0 && p4.s() == 4 && p16.s() == 16 && p20.s() == 20 && p40.s() == 40 && s8.s() == 8);
    let v = MrToy::Val(7, 4);
    let w = MrToy::Val(9, 8);

    // restated traits: merge (merge_pre_spec), bytesize (bytesize_pre_spec), top (top_pre_spec) -- at the instance MrToy
    let _ = AbstractDomain::merge(&v, &w);
    let _ = SizedDomain::bytesize(&v);
    let _ = HasTop::top(&v);

    // get / get_unsized / verif_mr_keys on the two-cell region
    let a = verif_sat_mem_region_two_cells();
    assert(a.cells().contains_key(0) && a.cells().contains_key(16));
    let r1 = a.get(p0, ByteSize(4));
    assert(r1 == MrToy::Val(7, 4));
    let r2 = a.get_unsized(p16);
    assert(r2 == Some(MrToy::Val(9, 8)));
    let _ = verif_mr_keys(&a.inner.values);

    // clear_interval: size > 0, position + size <= i64::MAX -- [2, 6) meets the cell at 0 only
    let mut a = verif_sat_mem_region_two_cells();
    a.clear_interval(2, 4);
    assert(!a.cells().contains_key(0) && a.cells().contains_key(16));

    // insert_at_byte_index: value.inv_spec(), position + size <= i64::MAX -- a negative offset
    let mut a = verif_sat_mem_region_two_cells();
    a.insert_at_byte_index(MrToy::Val(1, 2), -8);
    assert(a.cells().contains_key(-8i64) && a.cells().contains_key(0) && a.cells().contains_key(16));

    // add: an overlapping write ([20, 28) meets the cell at 16)
    let mut a = verif_sat_mem_region_two_cells();
    a.add(MrToy::Val(3, 8), p20);
    assert(a.cells().contains_key(0) && !a.cells().contains_key(16) && a.cells().contains_key(20));

    // remove: [4, 12) meets nothing
    let mut a = verif_sat_mem_region_two_cells();
    a.remove(p4, s8);
    assert(a.cells().contains_key(0) && a.cells().contains_key(16));

    // merge_write_top: 0 < size <= i64::MAX; exactly the cell at 16 (first branch) and a range without exact cell (second branch)
    let mut a = verif_sat_mem_region_two_cells();
    a.merge_write_top(p16, ByteSize(8));
    assert(a.cells().contains_key(0) && !a.cells().contains_key(16));
    let mut a = verif_sat_mem_region_two_cells();
    a.merge_write_top(p0, ByteSize(2));
    assert(!a.cells().contains_key(0) && a.cells().contains_key(16));

    // merge_values_intersecting_range_with_top: start <= end
    let mut a = verif_sat_mem_region_two_cells();
    a.merge_values_intersecting_range_with_top(2, 10);
    assert(!a.cells().contains_key(0) && a.cells().contains_key(16));

    // mark_interval_values_as_top: end + elem_size <= i64::MAX, start <= end + elem_size
    let mut a = verif_sat_mem_region_two_cells();
    a.mark_interval_values_as_top(8, 16, ByteSize(4));
    assert(a.cells().contains_key(0) && !a.cells().contains_key(16));

    // add_offset_to_all_indices: the `forall k` bound holds on both cells
    let mut a = verif_sat_mem_region_two_cells();
    a.add_offset_to_all_indices(-100);
    assert(a.cells().contains_key(-100i64) && a.cells().contains_key(-84i64) && !a.cells().contains_key(0));

    // mark_all_values_as_top: mr_cells_inv
    let mut a = verif_sat_mem_region_two_cells();
    a.mark_all_values_as_top();
    assert(a.ok());

    // compute_range_end / merge_or_merge_with_top on every admissible shape
    let e1 = compute_range_end::<MrToy>(0, Some(&v), Some(&w));
    let e2 = compute_range_end::<MrToy>(16, None, Some(&w));
    let e3 = compute_range_end::<MrToy>(0, Some(&v), None);
    assert(e1 == 8 && e2 == 24 && e3 == 4);
    let m1 = merge_or_merge_with_top::<MrToy>(Some(&v), Some(&v));
    let m2 = merge_or_merge_with_top::<MrToy>(Some(&v), Some(&w));
    let m3 = merge_or_merge_with_top::<MrToy>(Some(&v), None);
    let m4 = merge_or_merge_with_top::<MrToy>(None, Some(&w));
    assert(m1 == Some(MrToy::Val(7, 4)) && m2.is_none() && m3.is_none() && m4.is_none());

    // merge_inner / merge: a = {0, 16}, b = {0, 20, 40}: a shared cell (kept), overlapping cells (dropped), a free cell
    let a = verif_sat_mem_region_two_cells();
    let mut b = verif_sat_mem_region_two_cells();
    b.add(MrToy::Val(3, 8), p20);
    b.add(MrToy::Val(5, 1), p40);
    assert(b.cells().contains_key(0) && b.cells().contains_key(20) && b.cells().contains_key(40));
    let mi = a.merge_inner(&b);
    assert(mr_merge_keeps(a.cells(), b.cells(), 0));
    assert(mi.cells().contains_key(0) && mi.cells()[0] == MrToy::Val(7, 4));
    let mm = a.merge(&b);
    assert(mm.cells().contains_key(0));
    let ms = a.merge(&a);
    assert(ms.cells() == a.cells());

    // the four read-after-write clients and the toy client of contracts/mem_region.vc
    let mut a = verif_sat_mem_region_two_cells();
    let c1 = verif_c05_client_write_read::<MrToy>(&mut a, MrToy::Val(3, 8), p20);
    assert(c1 == MrToy::Val(3, 8));
    let mut a = verif_sat_mem_region_two_cells();
    let c2 = verif_c05_client_write_write_read::<MrToy>(&mut a, MrToy::Val(3, 8), p20, MrToy::Val(5, 1), p40);
    assert(c2 == MrToy::Val(3, 8));
    let mut a = verif_sat_mem_region_two_cells();
    let c3 = verif_c05_client_write_markall_read::<MrToy>(&mut a, MrToy::Val(3, 8), p20);
    assert(c3 == MrToy::Top(8));
    let mut a = verif_sat_mem_region_two_cells();
    let c4 = verif_c05_client_write_remove_read::<MrToy>(&mut a, MrToy::Val(3, 8), p20, p4, s8);
    assert(c4 == MrToy::Val(3, 8));
    let mut a = verif_sat_mem_region_two_cells();
    let mut b = verif_sat_mem_region_two_cells();
    let c5 = verif_mr_toy_client(&mut a, &mut b, p40);
    assert(c5 == MrToy::Val(7, 4));
}
