// ---------------------------------------------------------------------------
// lemmas/bv.rs -- proved facts about p2 / trunc / sval (no assumptions).
// ---------------------------------------------------------------------------

pub proof fn lemma_p2(w: nat)
    ensures p2(w) > 0, w >= 1 ==> p2(w) == 2 * p2((w - 1) as nat),
{
    vstd::arithmetic::power2::lemma_pow2_pos(w);
    if w >= 1 { vstd::arithmetic::power2::lemma_pow2_unfold(w); }
}

pub proof fn lemma_p2_mono(a: nat, b: nat)
    requires a <= b
    ensures p2(a) <= p2(b), p2(b) == p2(a) * p2((b - a) as nat),
{
    if a < b { vstd::arithmetic::power2::lemma_pow2_strictly_increases(a, b); }
    vstd::arithmetic::power2::lemma_pow2_adds(a, (b - a) as nat);
}

pub proof fn lemma_p2_consts()
    ensures p2(0) == 1, p2(1) == 2, p2(3) == 8, p2(7) == 128, p2(8) == 256, p2(16) == 65536, p2(32) == 0x1_0000_0000,
            p2(63) == 0x8000_0000_0000_0000, p2(64) == 0x1_0000_0000_0000_0000,
            p2(127) == 0x8000_0000_0000_0000_0000_0000_0000_0000, p2(128) == 0x1_0000_0000_0000_0000_0000_0000_0000_0000,
{
    vstd::arithmetic::power2::lemma2_to64();
    vstd::arithmetic::power2::lemma2_to64_rest();
    vstd::arithmetic::power2::lemma_pow2_adds(64, 63);
    vstd::arithmetic::power2::lemma_pow2_adds(64, 64);
    assert(p2(127) == 0x8000_0000_0000_0000_0000_0000_0000_0000) by {
        assert(0x1_0000_0000_0000_0000 * 0x8000_0000_0000_0000 == 0x8000_0000_0000_0000_0000_0000_0000_0000) by (compute);
    }
    assert(p2(128) == 0x1_0000_0000_0000_0000_0000_0000_0000_0000) by {
        assert(0x1_0000_0000_0000_0000 * 0x1_0000_0000_0000_0000 == 0x1_0000_0000_0000_0000_0000_0000_0000_0000) by (compute);
    }
}

/// the basic tool: x = q*2^w + y with 0 <= y < 2^w  ==>  trunc(w, x) = y
pub proof fn lemma_trunc_unique(w: nat, x: int, q: int, y: int)
    requires 0 <= y < p2(w), x == q * p2(w) + y,
    ensures trunc(w, x) == y,
{
    lemma_p2(w);
    vstd::arithmetic::div_mod::lemma_fundamental_div_mod_converse(x, p2(w) as int, q, y);
}

pub proof fn lemma_trunc_range(w: nat, x: int)
    ensures 0 <= trunc(w, x) < p2(w), x == (x / (p2(w) as int)) * p2(w) + trunc(w, x),
{
    lemma_p2(w);
    vstd::arithmetic::div_mod::lemma_mod_bound(x, p2(w) as int);
    vstd::arithmetic::div_mod::lemma_fundamental_div_mod(x, p2(w) as int);
    assert((p2(w) as int) * (x / (p2(w) as int)) == (x / (p2(w) as int)) * p2(w)) by (nonlinear_arith);
}

pub proof fn lemma_trunc_id(w: nat, x: int)
    requires 0 <= x < p2(w)
    ensures trunc(w, x) == x,
{
    lemma_trunc_unique(w, x, 0, x);
}

/// adding a multiple of 2^w does not change trunc
pub proof fn lemma_trunc_shift(w: nat, x: int, k: int)
    ensures trunc(w, x + k * p2(w)) == trunc(w, x),
{
    lemma_trunc_range(w, x);
    let q = x / (p2(w) as int);
    assert(x + k * p2(w) == (q + k) * p2(w) + trunc(w, x)) by (nonlinear_arith)
        requires x == q * p2(w) + trunc(w, x);
    lemma_trunc_unique(w, x + k * p2(w), q + k, trunc(w, x) as int);
}

pub proof fn lemma_trunc_add_case(w: nat, a: nat, b: nat)
    requires a < p2(w), b < p2(w)
    ensures trunc(w, (a + b) as int) == (if a + b < p2(w) { (a + b) as int } else { a + b - p2(w) }),
{
    if a + b < p2(w) { lemma_trunc_id(w, (a + b) as int); }
    else { lemma_trunc_unique(w, (a + b) as int, 1, a + b - p2(w)); }
}

pub proof fn lemma_trunc_sub_case(w: nat, a: nat, b: nat)
    requires a < p2(w), b < p2(w)
    ensures trunc(w, a - b) == (if a >= b { a - b } else { a - b + p2(w) }),
{
    if a >= b { lemma_trunc_id(w, a - b); }
    else { lemma_trunc_unique(w, a - b, -1, a - b + p2(w)); }
}

pub proof fn lemma_trunc_neg_case(w: nat, a: nat)
    requires a < p2(w)
    ensures trunc(w, -(a as int)) == (if a == 0 { 0 } else { p2(w) - a }),
{
    if a == 0 { lemma_trunc_id(w, 0); }
    else { lemma_trunc_unique(w, -(a as int), -1, p2(w) - a); }
}

/// two's complement reading: range, sign, and the two possible relations to u
pub proof fn lemma_sval(w: nat, u: nat)
    requires 1 <= w, u < p2(w)
    ensures smin(w) <= sval(w, u) <= smax(w),
            (sval(w, u) >= 0) == (u < p2((w - 1) as nat)),
            u < p2((w - 1) as nat) ==> sval(w, u) == u,
            u >= p2((w - 1) as nat) ==> sval(w, u) == u - p2(w),
            trunc(w, sval(w, u)) == u,
            p2(w) == 2 * p2((w - 1) as nat),
            smax(w) - smin(w) + 1 == p2(w),
{
    lemma_p2(w);
    lemma_p2((w - 1) as nat);
    if u < p2((w - 1) as nat) { lemma_trunc_id(w, u as int); }
    else { lemma_trunc_unique(w, u - p2(w), -1, u as int); }
}

/// every integer in the signed range is the reading of its truncation
pub proof fn lemma_trunc_sval(w: nat, x: int)
    requires 1 <= w, smin(w) <= x <= smax(w)
    ensures sval(w, trunc(w, x)) == x, trunc(w, x) < p2(w),
            x >= 0 ==> trunc(w, x) == x, x < 0 ==> trunc(w, x) == x + p2(w),
{
    lemma_p2(w);
    lemma_p2((w - 1) as nat);
    if x >= 0 { lemma_trunc_id(w, x); }
    else { lemma_trunc_unique(w, x, -1, x + p2(w)); }
}

/// congruent values have the same truncation
pub proof fn lemma_trunc_congruent(w: nat, x: int, y: int, k: int)
    requires x == y + k * p2(w)
    ensures trunc(w, x) == trunc(w, y),
{
    lemma_trunc_shift(w, y, k);
}

/// trunc distributes over +, -, * up to congruence
pub proof fn lemma_trunc_add(w: nat, x: int, y: int)
    ensures trunc(w, x + y) == trunc(w, (trunc(w, x) + trunc(w, y)) as int),
{
    lemma_trunc_range(w, x);
    lemma_trunc_range(w, y);
    let qx = x / (p2(w) as int);
    let qy = y / (p2(w) as int);
    assert(x + y == trunc(w, x) + trunc(w, y) + (qx + qy) * p2(w)) by (nonlinear_arith)
        requires x == qx * p2(w) + trunc(w, x), y == qy * p2(w) + trunc(w, y);
    lemma_trunc_congruent(w, x + y, (trunc(w, x) + trunc(w, y)) as int, qx + qy);
}
pub proof fn lemma_trunc_sub(w: nat, x: int, y: int)
    ensures trunc(w, x - y) == trunc(w, trunc(w, x) - trunc(w, y)),
{
    lemma_trunc_range(w, x);
    lemma_trunc_range(w, y);
    let qx = x / (p2(w) as int);
    let qy = y / (p2(w) as int);
    assert(x - y == trunc(w, x) - trunc(w, y) + (qx - qy) * p2(w)) by (nonlinear_arith)
        requires x == qx * p2(w) + trunc(w, x), y == qy * p2(w) + trunc(w, y);
    lemma_trunc_congruent(w, x - y, trunc(w, x) - trunc(w, y), qx - qy);
}
pub proof fn lemma_trunc_mul(w: nat, x: int, y: int)
    ensures trunc(w, x * y) == trunc(w, (trunc(w, x) * trunc(w, y)) as int),
{
    lemma_trunc_range(w, x);
    lemma_trunc_range(w, y);
    let qx = x / (p2(w) as int);
    let qy = y / (p2(w) as int);
    let tx = trunc(w, x) as int;
    let ty = trunc(w, y) as int;
    let p = p2(w) as int;
    assert(x * y == tx * ty + (qx * qy * p + qx * ty + qy * tx) * p) by {
        assert((qx * p + tx) * (qy * p + ty) == (qx * p) * (qy * p) + (qx * p) * ty + tx * (qy * p) + tx * ty) by (nonlinear_arith);
        assert((qx * p) * (qy * p) == (qx * qy * p) * p) by (nonlinear_arith);
        assert((qx * p) * ty == (qx * ty) * p) by (nonlinear_arith);
        assert(tx * (qy * p) == (qy * tx) * p) by (nonlinear_arith);
        assert((qx * qy * p) * p + (qx * ty) * p + (qy * tx) * p == (qx * qy * p + qx * ty + qy * tx) * p) by (nonlinear_arith);
    }
    lemma_trunc_congruent(w, x * y, tx * ty, qx * qy * p + qx * ty + qy * tx);
}

/// signed and unsigned readings are congruent
pub proof fn lemma_sval_congruent(w: nat, u: nat)
    requires 1 <= w, u < p2(w)
    ensures trunc(w, sval(w, u)) == u, trunc(w, u as int) == u,
{
    lemma_sval(w, u);
    lemma_trunc_id(w, u as int);
}
