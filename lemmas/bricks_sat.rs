// ---------------------------------------------------------------------------
// lemmas/bricks_sat.rs -- SATISFIABILITY WITNESSES of the preconditions of unit `bricks` (nothing here is trusted).
//   (d)  br_ord_ok() = vstd::laws_cmp::obeys_cmp::<String>() (vstd: obeys_eq_spec [trait fn, no impl for String] && the
//        uninterpreted obeys_eq_spec_properties / obeys_cmp_partial_ord / obeys_cmp_ord / ..): nothing can be proved; no axiom /
//        external_body / assume_specification of the unit mentions it.  It is the ONLY `requires` of the clients below.
//   (a') verif_sat_bricks_chain (relative to (d)): builds the bricks [{a}]^{1,2}, [{a,b}]^{0,3}, [{a}]^{2,2}, .. with Brick::new /
//        set_sequence / set_min / set_max from exec BTreeSet<String> values of one or two strings, a two-brick and a three-brick
//        list (NON-EMPTY: br_list_wf is witnessed on real entries), BricksDomain::from("ab"), and calls every one of the 17
//        contracted functions; Verus checks the REAL `requires` at each call (br_wf, `is Value`, br_set_same of two sets built
//        SEPARATELY -- different String objects, same contents --, the two u32 sums, min >= 1, length >= 1, the length order of
//        pad_list).  Neither the restated Clone/PartialEq (trusted) nor any shim function is used to BUILD an argument.
//        The tail of the client also calls merge_bricks_with_bound_one and the TRUSTED items (@nobody all_bricks_are_top, restated
//        clone / ==) on the same values: the negative control (`assert(false)` as last statement must fail) then covers their
//        `ensures` together with everything the contracted functions returned.
//   Nothing stays conditional.
// ---------------------------------------------------------------------------

/// the strings of the witness sets: "a", and "b" when `two`
pub open spec fn br_sat_members(two: bool, u: Seq<char>) -> bool {
    u == seq!['a'] || (two && u == seq!['b'])
}

/// {"a"} or {"a", "b"}, built in exec code
fn verif_sat_bricks_set(two: bool) -> (r: BTreeSet<String>)
    requires br_ord_ok(),
    ensures forall |u: Seq<char>| #[trigger] br_member(r@, u) <==> br_sat_members(two, u),
{
    let mut s: BTreeSet<String> = BTreeSet::new();
    let a = "a".to_string();
    let b = "b".to_string();
    let ghost ga = a;
    let ghost gb = b;
    s.insert(a);
    if two { s.insert(b); }
    proof {
        reveal_strlit("a"); reveal_strlit("b");
        assert(ga@ =~= seq!['a'] && gb@ =~= seq!['b']);
        assert forall |u: Seq<char>| #[trigger] br_member(s@, u) <==> br_sat_members(two, u) by {
            if u == seq!['a'] { assert(s@.contains(ga) && ga@ == u); }
            if two && u == seq!['b'] { assert(s@.contains(gb) && gb@ == u); }
        }
    }
    s
}

/// the brick [{a}]^{min,max} resp. [{a,b}]^{min,max}, built with the unit's own constructor and setters
fn verif_sat_bricks_brick(min: u32, max: u32, two: bool) -> (r: Brick)
    requires br_ord_ok(),
    ensures r.min == min, r.max == max, forall |u: Seq<char>| #[trigger] br_member(r.sequence@, u) <==> br_sat_members(two, u),
{
    let mut b = Brick::new();
    b.set_sequence(verif_sat_bricks_set(two));
    b.set_min(min);
    b.set_max(max);
    b
}

/// (a') every contracted function of the unit is called once on constructed, non-degenerate values
#[verifier::exec_allows_no_decreases_clause]
pub fn verif_sat_bricks_chain()
    requires br_ord_ok(),
{
    // ---- Brick
    let b12 = verif_sat_bricks_brick(1, 2, false);
    let _ = b12.is_empty_string();                                   // br_ord_ok
    // merge_bricks_with_equal_content: br_wf x 2, br_set_same, the two u32 sums -- the two sets are distinct objects
    let b03 = verif_sat_bricks_brick(0, 3, false);
    let _m = b12.merge_bricks_with_equal_content(b03);
    // break_single_brick_into_simpler_bricks: br_wf, min >= 1
    let b25 = verif_sat_bricks_brick(2, 5, true);
    let _p = b25.break_single_brick_into_simpler_bricks();
    // transform_brick_with_min_max_equal: length >= 1
    let b22 = verif_sat_bricks_brick(2, 2, true);
    let _t = b22.transform_brick_with_min_max_equal(2);
    // generate_permutations_of_fixed_length: br_ord_ok
    let s2 = verif_sat_bricks_set(true);
    let _g = Brick::generate_permutations_of_fixed_length(2, &s2, Vec::new(), 1);

    // ---- BrickDomain
    let _n = BrickDomain::new("a".to_string());                      // br_ord_ok
    let d1 = BrickDomain::Value(verif_sat_bricks_brick(1, 2, false));
    let d2 = BrickDomain::Value(verif_sat_bricks_brick(0, 3, true));
    let _u = d1.unwrap_value();                                      // is Value
    let _w = d1.widen(&d2);                                          // is Value x 2, br_wf x 2
    let _j = d1.merge(&d2);                                          // br_wf x 2
    let _j2 = d1.merge(&BrickDomain::Top);

    // ---- BricksDomain: a list of two and a list of three bricks
    let mut v2: Vec<BrickDomain> = Vec::new();
    v2.push(d1);
    v2.push(d2);
    let mut v3: Vec<BrickDomain> = Vec::new();
    v3.push(BrickDomain::Value(verif_sat_bricks_brick(2, 2, false)));
    v3.push(BrickDomain::Value(verif_sat_bricks_brick(0, 1, true)));
    v3.push(BrickDomain::Value(verif_sat_bricks_brick(3, 7, true)));
    let l2 = BricksDomain::Value(v2);
    let l3 = BricksDomain::Value(v3);
    assert(l2->Value_0@.len() == 2 && l3->Value_0@.len() == 3);
    assert(l2.br_wf() && l3.br_wf());
    let _u2 = l2.unwrap_value();                                     // is Value
    let _pd = l2.pad_list(&l3);                                      // is Value x 2, len(self) <= len(other)
    let _le = l2.is_less_or_equal(&l3);                              // is Value x 2 (@nobody)
    let _wd = l2.widen(&l3);                                         // is Value x 2, br_wf x 2
    let _wd2 = l3.widen(&l2);
    let _nm = l3.normalize();                                        // is Value
    let _mg = l2.merge(&l3);                                         // br_wf x 2
    let _mg2 = l3.merge(&BricksDomain::Top);
    let f = BricksDomain::from("ab".to_string());                    // br_ord_ok
    let _nf = f.merge(&l2);
    let _e = BricksDomain::create_empty_string_domain();             // br_ord_ok

    // ---- the TRUSTED items of the unit, called on the same values so that the negative control (assert(false) here must fail)
    // also covers their `ensures`: merge_bricks_with_bound_one (now a verified body; its new `requires br_ord_ok()` is checked here), @nobody all_bricks_are_top, the restated derives (clone, ==)
    let b11 = verif_sat_bricks_brick(1, 1, false);
    let _b1 = b11.merge_bricks_with_bound_one(verif_sat_bricks_brick(1, 1, true));
    let _at = BricksDomain::all_bricks_are_top(&_u2);
    let c2 = l2.clone();
    let _q = c2 == l2;
    let _q2 = l2 == l3;
    let _c1 = b11.clone();
    let _q3 = _c1 == b11;
    let _q4 = BrickDomain::Value(_c1) == BrickDomain::Top;
}
