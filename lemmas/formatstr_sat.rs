// ---------------------------------------------------------------------------
// lemmas/formatstr_sat.rs -- SATISFIABILITY WITNESSES of the preconditions of unit `formatstr` (nothing here is trusted).
//   The unit has ONE contracted function with a precondition: Datatype::from(specifier: String) `requires fs_is_spec(specifier@)`
//   (get_size_from_data_type and parse_format_string_parameters have none; no hypothesis predicate, no (d) item).
//   (a') verif_sat_formatstr_chain: NO `requires`; calls the real Datatype::from on the exec strings "d", "hu", "lld", "LA"
//        (one per length / family of the 45 forms; fs_is_spec is discharged from reveal_strlit alone, the trusted axiom
//        axiom_fs_str_ext is NOT used for the precondition) and checks the documented answers; then calls the two functions
//        without precondition (parse_format_string_parameters on "%d%%%5.2lf", "%lld", get_size_from_data_type), so that the
//        negative control (`assert(false)` as last statement must fail) covers the trusted regex shim and both axioms
//        (the str extensionality axiom is instantiated on two DIFFERENT literals there).
//   (b)  lemma_sat_formatstr_from: exists a character sequence of each of the five shapes of fs_is_spec (spec level; a
//        `String` has no spec constructor, hence (a') for the real argument type).
//   Nothing stays conditional.
// ---------------------------------------------------------------------------

/// (b) Datatype::from -- `requires fs_is_spec(specifier@)`, stated over the view (each of the five disjuncts is inhabited)
pub proof fn lemma_sat_formatstr_from()
    ensures
        exists |t: Seq<char>| fs_is_spec(t),
        fs_is_spec(seq!['d']), fs_is_spec(seq!['h', 'u']), fs_is_spec(seq!['l', 'f']), fs_is_spec(seq!['l', 'l', 'd']), fs_is_spec(seq!['L', 'A']),
{
    assert(fs_is_spec(seq!['d']));
}

/// (a') the real Datatype::from is called on constructed strings; no precondition
#[verifier::exec_allows_no_decreases_clause]
pub fn verif_sat_formatstr_chain()
{
    proof { reveal_strlit("d"); reveal_strlit("hu"); reveal_strlit("lld"); reveal_strlit("LA"); }
    // Datatype::from: fs_is_spec(specifier@)
    let t1 = Datatype::from("d".to_string());
    let t2 = Datatype::from("hu".to_string());
    let t3 = Datatype::from("lld".to_string());
    let t4 = Datatype::from("LA".to_string());
    assert(t1 is Integer && t2 is Integer && t3 is LongLong && t4 is LongDouble);

    // ---- the functions without precondition and the TRUSTED items (regex shim, Clone, the two axioms), on concrete values
    let p = DatatypeProperties {
        char_size: ByteSize(1), double_size: ByteSize(8), float_size: ByteSize(4), integer_size: ByteSize(4),
        long_double_size: ByteSize(16), long_long_size: ByteSize(8), long_size: ByteSize(8), pointer_size: ByteSize(8),
        short_size: ByteSize(2),
    };
    let _s = p.get_size_from_data_type(t3.clone());
    let _r1 = parse_format_string_parameters("%d%%%5.2lf", &p);
    let _r2 = parse_format_string_parameters("%lld", &p);
    proof {
        // str extensionality on two different literals: the views differ, nothing follows
        axiom_fs_str_ext("d", "hu");
        axiom_fs_str_ext("d", "d");
        lemma_fs_strlit_table_1(); lemma_fs_strlit_table_2(); lemma_fs_strlit_table_3();
        lemma_fs_strlit_table_4(); lemma_fs_strlit_table_5();
        assert("d" != "hu");
    }
}
