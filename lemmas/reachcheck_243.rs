// ---------------------------------------------------------------------------
// lemmas/reachcheck_243.rs -- proof-only lemmas of unit `reachcheck_243` (all proved by Verus, none trusted).
// ---------------------------------------------------------------------------

/// the first call is unique, so `rc_callsite` is the tid of the jump at `i`
pub proof fn lemma_rc_first_call_is(blk: Term<Blk>, tid: Tid, i: int)
    requires rc_first_call(blk, tid, i),
    ensures rc_blk_calls(blk, tid), rc_callsite(blk, tid) == blk.term.jmps@[i].tid,
        rc_blk_calls_tid_post(blk, tid, Some(blk.term.jmps@[i].tid)),
{
    let c = choose |c: int| rc_first_call(blk, tid, c);
    if c < i { assert(!rc_jmp_calls(blk, tid, c)); }
    if i < c { assert(!rc_jmp_calls(blk, tid, i)); }
}

/// chroot is not imported: nothing is reported
pub broadcast proof fn lemma_rc243_no_chroot<'a>(g: DiGraph<Node<'a>, Edge<'a>>, m: Map<Tid, ExternSymbol>, names: Seq<String>, n: int)
    requires rc_find_symbol(m, "chroot"@) is None,
    ensures #[trigger] rc243_warnings(g, m, names, n) == Seq::<CweWarning>::empty(),
    decreases n,
{
    if n > 0 { lemma_rc243_no_chroot(g, m, names, n - 1); }
}

/// every entry of the list of privilege-dropping tids is the lookup result of a configured name, and vice versa
pub proof fn lemma_rc243_priv_tids(m: Map<Tid, ExternSymbol>, names: Seq<String>, n: int)
    requires 0 <= n <= names.len(),
    ensures
        forall |k: int| 0 <= k < rc243_priv_tids(m, names, n).len() ==>
            exists |j: int| 0 <= j < n && rc_find_symbol(m, (#[trigger] names[j])@) == Some(#[trigger] rc243_priv_tids(m, names, n)[k]),
        forall |j: int| 0 <= j < n && rc_find_symbol(m, (#[trigger] names[j])@) is Some ==>
            exists |k: int| 0 <= k < rc243_priv_tids(m, names, n).len() && #[trigger] rc243_priv_tids(m, names, n)[k] == rc_find_symbol(m, names[j]@)->Some_0,
    decreases n,
{
    if n > 0 {
        lemma_rc243_priv_tids(m, names, n - 1);
        let prev = rc243_priv_tids(m, names, n - 1);
        let cur = rc243_priv_tids(m, names, n);
        assert forall |k: int| 0 <= k < cur.len() implies
            exists |j: int| 0 <= j < n && rc_find_symbol(m, (#[trigger] names[j])@) == Some(#[trigger] cur[k]) by {
            if k < prev.len() {
                assert(cur[k] == prev[k]);
                let j = choose |j: int| 0 <= j < n - 1 && rc_find_symbol(m, (#[trigger] names[j])@) == Some(#[trigger] prev[k]);
                assert(0 <= j < n && rc_find_symbol(m, names[j]@) == Some(cur[k]));
            } else {
                assert(rc_find_symbol(m, names[n - 1]@) == Some(cur[k]));
            }
        }
        assert forall |j: int| 0 <= j < n && rc_find_symbol(m, (#[trigger] names[j])@) is Some implies
            exists |k: int| 0 <= k < cur.len() && #[trigger] cur[k] == rc_find_symbol(m, names[j]@)->Some_0 by {
            if j < n - 1 {
                let k = choose |k: int| 0 <= k < prev.len() && #[trigger] prev[k] == rc_find_symbol(m, names[j]@)->Some_0;
                assert(cur[k] == prev[k]);
            } else {
                assert(cur[cur.len() - 1] == rc_find_symbol(m, names[j]@)->Some_0);
            }
        }
    }
}

/// "the function calls one of the collected tids"  ==  "the function calls an imported, configured privilege-dropping function"
pub broadcast proof fn lemma_rc243_drops(sub: Term<Sub>, m: Map<Tid, ExternSymbol>, names: Seq<String>, n: int)
    requires n == names.len(),
    ensures #[trigger] rc_sub_calls_any(sub, rc243_priv_tids(m, names, n)) == rc243_sub_drops(sub, m, names),
{
    lemma_rc243_priv_tids(m, names, n);
    let tids = rc243_priv_tids(m, names, n);
    if rc_sub_calls_any(sub, tids) {
        let k = choose |k: int| 0 <= k < tids.len() && rc_sub_calls(sub, #[trigger] tids[k]);
        let j = choose |j: int| 0 <= j < n && rc_find_symbol(m, (#[trigger] names[j])@) == Some(#[trigger] tids[k]);
        assert(rc243_sub_drops(sub, m, names));
    }
    if rc243_sub_drops(sub, m, names) {
        let j = choose |j: int| 0 <= j < names.len() && rc_find_symbol(m, (#[trigger] names[j])@) is Some
            && rc_sub_calls(sub, rc_find_symbol(m, names[j]@)->Some_0);
        let k = choose |k: int| 0 <= k < tids.len() && #[trigger] tids[k] == rc_find_symbol(m, names[j]@)->Some_0;
        assert(rc_sub_calls(sub, tids[k]));
    }
}

/// with exactly one outgoing edge, the target of any outgoing edge is "the node after"
pub broadcast proof fn lemma_rc_after_is<N, E>(g: DiGraph<N, E>, a: NodeIndex, e: int)
    requires rc_one_out_edge(g, a), #[trigger] rc_out_edge(g, a, e),
    ensures g.edge_seq()[e].1 == rc_after(g, a),
{
    let c = choose |c: int| rc_out_edge(g, a, c);
    assert(rc_out_edge(g, a, c));
}
