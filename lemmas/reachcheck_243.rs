// ---------------------------------------------------------------------------
// lemmas/reachcheck_243.rs -- proof-only lemmas of unit `reachcheck_243` (all proved by Verus, none trusted).
// ---------------------------------------------------------------------------

/// the first call is unique, so `rc_callsite` is the tid of the jump at `i`
pub proof fn lemma_rc_first_call_is(blk: Term<Blk>, tid: Tid, i: int)
    requires rc_first_call(blk, tid, i),
    ensures rc_blk_calls(blk, tid), rc_callsite(blk, tid) == blk.term.jmps@[i].tid,
        rc_blk_calls_tid_post(blk, tid, Some(blk.term.jmps@[i].tid)),
{
    let c = choose |c: int| rc_first_call(blk, tid, c);
    if c < i { assert(!rc_jmp_calls(blk, tid, c)); }
    if i < c { assert(!rc_jmp_calls(blk, tid, i)); }
}

/// chroot is not imported: the empty list is correct
pub broadcast proof fn lemma_rc243_no_chroot<'a>(g: DiGraph<Node<'a>, Edge<'a>>, m: Map<Tid, ExternSymbol>, names: Seq<String>, n: int, w: Seq<CweWarning>)
    requires rc_find_symbol(m, "chroot"@) is None, w.len() == 0,
    ensures #[trigger] rc243_list(g, m, names, n, w),
    decreases n,
{
    if n > 0 { lemma_rc243_no_chroot(g, m, names, n - 1, w); }
}

/// appending the warning of a node with verdict true
pub broadcast proof fn lemma_rc243_push<'a>(g: DiGraph<Node<'a>, Edge<'a>>, m: Map<Tid, ExternSymbol>, names: Seq<String>, n: int, w: Seq<CweWarning>, x: CweWarning)
    requires
        0 <= n,
        rc243_list(g, m, names, n, w),
        rc243_verdict(g, m, names, n, true),
        x == rc243_warning_at(g, m, n),
    ensures
        #[trigger] rc243_list(g, m, names, n + 1, w.push(x)),
{
    assert(w.push(x).drop_last() =~= w);
    assert(w.push(x).last() == x);
}

/// all outgoing edges seen: the search state is a return site of the call
pub broadcast proof fn lemma_rc243_ret_done<'a, N>(g: DiGraph<N, Edge<'a>>, a: NodeIndex, callsite: Tid, refs: Seq<RcEdgeReference<'a, Edge<'a>>>, idx: int, cur: Option<NodeIndex>)
    requires
        rc_out_edges_ok(g, a, refs),
        idx >= refs.len(),
        #[trigger] rc243_ret_upto(g, a, callsite, refs, idx, cur),
    ensures
        rc243_ret_ok(g, a, callsite, cur),
{
    match cur {
        None => {
            assert forall |e: int| !rc243_ret_edge(g, a, callsite, e) by {
                if rc243_ret_edge(g, a, callsite, e) {
                    let k = choose |k: int| 0 <= k < refs.len() && (#[trigger] refs[k]).e.i == e;
                    assert(!rc243_ret_edge(g, a, callsite, refs[k].e.i as int));
                }
            }
        }
        Some(r) => {
            let k = choose |k: int| 0 <= k < idx && k < refs.len() && rc243_ret_edge(g, a, callsite, (#[trigger] refs[k]).e.i as int) && r == refs[k].tgt;
            assert(rc_ref_of(g, refs[k]));
            assert(rc243_ret_edge(g, a, callsite, refs[k].e.i as int));
        }
    }
}

/// every entry of the list of privilege-dropping tids is the lookup result of a configured name, and vice versa
pub proof fn lemma_rc243_priv_tids(m: Map<Tid, ExternSymbol>, names: Seq<String>, n: int)
    requires 0 <= n <= names.len(),
    ensures
        forall |k: int| 0 <= k < rc243_priv_tids(m, names, n).len() ==>
            exists |j: int| 0 <= j < n && rc_find_symbol(m, (#[trigger] names[j])@) == Some(#[trigger] rc243_priv_tids(m, names, n)[k]),
        forall |j: int| 0 <= j < n && rc_find_symbol(m, (#[trigger] names[j])@) is Some ==>
            exists |k: int| 0 <= k < rc243_priv_tids(m, names, n).len() && #[trigger] rc243_priv_tids(m, names, n)[k] == rc_find_symbol(m, names[j]@)->Some_0,
    decreases n,
{
    if n > 0 {
        lemma_rc243_priv_tids(m, names, n - 1);
        let prev = rc243_priv_tids(m, names, n - 1);
        let cur = rc243_priv_tids(m, names, n);
        assert forall |k: int| 0 <= k < cur.len() implies
            exists |j: int| 0 <= j < n && rc_find_symbol(m, (#[trigger] names[j])@) == Some(#[trigger] cur[k]) by {
            if k < prev.len() {
                assert(cur[k] == prev[k]);
                let j = choose |j: int| 0 <= j < n - 1 && rc_find_symbol(m, (#[trigger] names[j])@) == Some(#[trigger] prev[k]);
                assert(0 <= j < n && rc_find_symbol(m, names[j]@) == Some(cur[k]));
            } else {
                assert(rc_find_symbol(m, names[n - 1]@) == Some(cur[k]));
            }
        }
        assert forall |j: int| 0 <= j < n && rc_find_symbol(m, (#[trigger] names[j])@) is Some implies
            exists |k: int| 0 <= k < cur.len() && #[trigger] cur[k] == rc_find_symbol(m, names[j]@)->Some_0 by {
            if j < n - 1 {
                let k = choose |k: int| 0 <= k < prev.len() && #[trigger] prev[k] == rc_find_symbol(m, names[j]@)->Some_0;
                assert(cur[k] == prev[k]);
            } else {
                assert(cur[cur.len() - 1] == rc_find_symbol(m, names[j]@)->Some_0);
            }
        }
    }
}

/// "the function calls one of the collected tids"  ==  "the function calls an imported, configured privilege-dropping function"
pub broadcast proof fn lemma_rc243_drops(sub: Term<Sub>, m: Map<Tid, ExternSymbol>, names: Seq<String>, n: int)
    requires n == names.len(),
    ensures #[trigger] rc_sub_calls_any(sub, rc243_priv_tids(m, names, n)) == rc243_sub_drops(sub, m, names),
{
    lemma_rc243_priv_tids(m, names, n);
    let tids = rc243_priv_tids(m, names, n);
    if rc_sub_calls_any(sub, tids) {
        let k = choose |k: int| 0 <= k < tids.len() && rc_sub_calls(sub, #[trigger] tids[k]);
        let j = choose |j: int| 0 <= j < n && rc_find_symbol(m, (#[trigger] names[j])@) == Some(#[trigger] tids[k]);
        assert(rc243_sub_drops(sub, m, names));
    }
    if rc243_sub_drops(sub, m, names) {
        let j = choose |j: int| 0 <= j < names.len() && rc_find_symbol(m, (#[trigger] names[j])@) is Some
            && rc_sub_calls(sub, rc_find_symbol(m, names[j]@)->Some_0);
        let k = choose |k: int| 0 <= k < tids.len() && #[trigger] tids[k] == rc_find_symbol(m, names[j]@)->Some_0;
        assert(rc_sub_calls(sub, tids[k]));
    }
}

/// `s.push(x)` without its last element is `s` (fires on the term that unfolding rc243_list produces)
pub broadcast proof fn lemma_rc_push_drop_last<A>(s: Seq<A>, x: A)
    ensures #[trigger] s.push(x).drop_last() == s,
{
    assert(s.push(x).drop_last() =~= s);
}

/// the last element of `s.push(x)` is `x`
pub broadcast proof fn lemma_rc_push_last<A>(s: Seq<A>, x: A)
    ensures #[trigger] s.push(x).last() == x,
{
}
