// ---------------------------------------------------------------------------
// lemmas/charincl_sat.rs -- SATISFIABILITY WITNESSES of the preconditions of unit `charincl` (nothing here is trusted).
//   The unit has exactly two contracted functions with a precondition: CharacterSet::unwrap_value and
//   CharacterInclusionDomain::unwrap_value, both `requires *self is Value`.  No hypothesis predicate, no (d) item
//   (no `requires` of the unit mentions vstd::laws_cmp::obeys_cmp::<char>(); vstd's BTreeSet::{new, insert, clone} are used
//   only through facts that vstd states unconditionally).
//   (a') verif_sat_charincl_chain: NO `requires`; builds Value({'a'}) / Value({}) / a (certain, possible) pair in exec code
//        (enum literals over std BTreeSet<char>) and calls both functions, then the unit's other functions and the three shim
//        functions + restated clone / == on the same values, so that the negative control (`assert(false)` as last
//        statement must fail) covers their trusted `ensures` too.
//   Nothing stays conditional.
// ---------------------------------------------------------------------------

/// (a') both contracted functions are called on constructed values; no precondition
#[verifier::exec_allows_no_decreases_clause]
pub fn verif_sat_charincl_chain()
{
    let mut s1: BTreeSet<char> = BTreeSet::new();
    s1.insert('a');
    let mut s2: BTreeSet<char> = BTreeSet::new();
    s2.insert('a');
    s2.insert('b');
    let certain = CharacterSet::Value(s1);
    let possible = CharacterSet::Value(s2);
    // CharacterSet::unwrap_value: *self is Value
    let _u1 = certain.unwrap_value();
    let _u0 = CharacterSet::Value(BTreeSet::new()).unwrap_value();
    // CharacterInclusionDomain::unwrap_value: *self is Value
    let d = CharacterInclusionDomain::Value((certain, possible));
    let _u2 = d.unwrap_value();
    let e = CharacterInclusionDomain::Value((CharacterSet::Value(BTreeSet::new()), CharacterSet::Top));
    let _u3 = e.unwrap_value();

    // ---- functions without precondition and the TRUSTED items (shim functions through union / intersection / from, restated
    // clone / ==), on the same values
    let _m = d.merge(&e);
    let _a = d.append_string_domain(&e);
    let f = CharacterInclusionDomain::from("ab".to_string());
    let _m2 = f.merge(&d);
    let _i = _u2.0.intersection(_u2.1);
    let _c = d.clone();
    let _q = _c == d;
    let _q2 = d == e;
    let _es = CharacterInclusionDomain::create_empty_string_domain();
}
