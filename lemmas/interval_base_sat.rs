// ---------------------------------------------------------------------------
// lemmas/interval_base_sat.rs -- SATISFIABILITY WITNESSES of the preconditions of unit `interval_base`
// (nothing here is trusted: no external_body / assume / admit / axiom).
//   verif_sat_interval_base_iv8 / _iv64 / _iv128: exec builders (struct literal over Bitvector::from_u8 / from_u64 /
//        from_u128) WITHOUT requires; also used by the sat files of interval_arith / interval_bits / interval_intersect.
//   (b)  lemma_sat_interval_base_inv: `inv()` -- the predicate nearly every contract of the four interval units rests
//        on -- holds for strided intervals with a NEGATIVE start at 8, 64 and 128 bit and for a constant (stride 0).
//   (a') verif_sat_interval_base_chain: exec client WITHOUT requires that calls every contracted function of the unit
//        on 8 bit [-4, 10] stride 2, [0, 9] stride 3, 64 bit [-16, 32] stride 4 and 128 bit values: Verus checks the
//        REAL requires at each call.
//   nothing conditional, no (d) hypothesis in this unit.
// ---------------------------------------------------------------------------

/// the 8 bit interval with the given bit patterns as bounds
pub fn verif_sat_interval_base_iv8(lo: u8, hi: u8, stride: u64) -> (r: Interval)
    ensures r == (Interval { start: bv(8, lo as nat), end: bv(8, hi as nat), stride }), r.start.wf(), r.end.wf(),
{
    Interval { start: Bitvector::from_u8(lo), end: Bitvector::from_u8(hi), stride }
}
pub fn verif_sat_interval_base_iv64(lo: u64, hi: u64, stride: u64) -> (r: Interval)
    ensures r == (Interval { start: bv(64, lo as nat), end: bv(64, hi as nat), stride }), r.start.wf(), r.end.wf(),
{
    Interval { start: Bitvector::from_u64(lo), end: Bitvector::from_u64(hi), stride }
}
pub fn verif_sat_interval_base_iv128(lo: u128, hi: u128, stride: u64) -> (r: Interval)
    ensures r == (Interval { start: bv(128, lo as nat), end: bv(128, hi as nat), stride }), r.start.wf(), r.end.wf(),
{
    Interval { start: Bitvector::from_u128(lo), end: Bitvector::from_u128(hi), stride }
}

/// (b) inv() is satisfiable at 8 / 64 / 128 bit with stride >= 2 and a negative start, and by a constant
pub proof fn lemma_sat_interval_base_inv()
    ensures
        exists |i: Interval| #[trigger] i.inv() && i.w() == 8 && byte_w(i.w()) && i.stride >= 2 && i.start.s() < 0 < i.end.s(),
        exists |i: Interval| #[trigger] i.inv() && i.w() == 64 && byte_w(i.w()) && i.stride >= 2 && i.start.s() < 0 < i.end.s(),
        exists |i: Interval| #[trigger] i.inv() && i.w() == 128 && byte_w(i.w()) && i.stride >= 2 && i.start.s() < 0 < i.end.s(),
        exists |i: Interval| #[trigger] i.inv() && i.stride == 0,
{
    lemma_p2_consts();
    let a = Interval { start: bv(8, 252), end: bv(8, 10), stride: 2 };
    let b = Interval { start: bv(64, 0xffff_ffff_ffff_fff0), end: bv(64, 32), stride: 4 };
    let c = Interval { start: bv(128, 0xffff_ffff_ffff_ffff_ffff_ffff_ffff_fff0), end: bv(128, 32), stride: 4 };
    let d = Interval { start: bv(8, 7), end: bv(8, 7), stride: 0 };
    assert(a.inv() && a.start.s() == -4);
    assert(b.inv() && b.start.s() == -16);
    assert(c.inv() && c.start.s() == -16);
    assert(d.inv());
}

/// (a') every contracted function of the unit is called; no precondition
pub fn verif_sat_interval_base_chain()
{
    proof { lemma_p2_consts(); }
    let a = verif_sat_interval_base_iv8(252, 10, 2);
    let b = verif_sat_interval_base_iv8(0, 9, 3);
    let q = verif_sat_interval_base_iv64(0xffff_ffff_ffff_fff0, 32, 4);
    let h = verif_sat_interval_base_iv128(0xffff_ffff_ffff_ffff_ffff_ffff_ffff_fff0, 32, 4);
    // new_top: 1 <= bytesize <= MAXBYTES
    let t = Interval::new_top(ByteSize(1));
    let _ = Interval::new_top(ByteSize(16));
    // is_top: inv;  bytesize: start.wf;  From<Bitvector>: no precondition
    let _ = a.is_top();
    let _ = t.is_top();
    let _ = q.bytesize();
    let _ = Interval::from(Bitvector::from_u8(5));
    // signed_min / signed_max: wf, equal widths
    let _ = signed_min(&a.start, &a.end);
    let _ = signed_max(&q.start, &q.end);
    // set_stride_to_unknown: start.wf, end.wf
    let mut m = verif_sat_interval_base_iv8(252, 10, 2);
    m.set_stride_to_unknown();
    // add: inv, inv, equal widths, byte_w
    let _ = a.add(&b);
    let _ = q.add(&q);
    let _ = h.add(&h);
    // contains: inv, wf, equal widths (<= 64 bit and above)
    let _ = a.contains(&Bitvector::from_u8(4));
    let _ = h.contains(&Bitvector::from_u128(4));
}
