// ---------------------------------------------------------------------------
// lemmas/bitvector_sat.rs -- SATISFIABILITY WITNESSES of the preconditions of unit `bitvector`
// (nothing here is trusted: no external_body / assume / admit / axiom).  Kept tiny: every other unit compiles this file.
//   (b)  lemma_sat_bitvector_wellsized: EVERY BinOpType / UnOpType / CastOpType value has well-sized operands
//        (`forall |op| exists |a, b| wellsized_bin(op, a, b)`, likewise un / cast with the size clause of `cast`);
//        uniform witnesses: 8 bit values 5, 3 / 1 and target size 2 bytes.
//   (b)  lemma_sat_bitvector_assume_entry: the two logged ASSUMPTIONS of the BitWidth <-> ByteSize conversions
//        (`@assume_entry`) are satisfiable, and are IMPLIED by the size bounds the contracts use (MAXBYTES, MAXW):
//        they never cut off an input that a contract of this unit admits.
//   (b)  lemma_sat_bitvector_shim_ctors: the unguarded TRUSTED apint contracts (constructors: `r == bv(..), r.wf()` for ALL
//        arguments) state a well-formed value, i.e. their two ensures conjuncts cannot clash.
//   (a') verif_sat_bitvector_chain: exec client WITHOUT requires; builds 8, 64 and 128 bit values (Bitvector::from_u8 /
//        from_u64 / from_u128, struct literals) and calls every contracted function of the unit, the operation
//        parameters `bop / uop / kind` left ARBITRARY: Verus checks the REAL requires at each call for every operation.
//        (`BitvectorDomain::merge_with` @optional override is absent from /repo; the trait default that is verified
//        in its place has the same requires and is called.)
//   nothing conditional, no (d) hypothesis in this unit.
// ---------------------------------------------------------------------------

pub open spec fn bvsat_bin_has_operands(op: BinOpType) -> bool { exists |a: Bitvector, b: Bitvector| wellsized_bin(op, a, b) }
pub open spec fn bvsat_un_has_operand(op: UnOpType) -> bool { exists |a: Bitvector| wellsized_un(op, a) }
/// the requires of Bitvector::cast, verbatim (`*self` -> `a`)
pub open spec fn bvsat_cast_pre(kind: CastOpType, a: Bitvector, width: ByteSize) -> bool {
    1 <= width.0 <= MAXBYTES() && wellsized_cast(kind, a, (width.0 * 8) as nat)
}
pub open spec fn bvsat_cast_has_operand(kind: CastOpType) -> bool { exists |a: Bitvector, width: ByteSize| bvsat_cast_pre(kind, a, width) }

/// (b) requires of Bitvector::bin_op / un_op / cast (and of the guarded clauses of BitvectorDomain::bin_op / un_op / cast)
pub proof fn lemma_sat_bitvector_wellsized()
    ensures
        forall |op: BinOpType| #[trigger] bvsat_bin_has_operands(op),
        forall |op: UnOpType| #[trigger] bvsat_un_has_operand(op),
        forall |kind: CastOpType| #[trigger] bvsat_cast_has_operand(kind),
{
    lemma_p2_consts();
    assert forall |op: BinOpType| #[trigger] bvsat_bin_has_operands(op) by { assert(wellsized_bin(op, bv(8, 5), bv(8, 3))); }
    assert forall |op: UnOpType| #[trigger] bvsat_un_has_operand(op) by { assert(wellsized_un(op, bv(8, 1))); }
    assert forall |kind: CastOpType| #[trigger] bvsat_cast_has_operand(kind) by {
        assert(bvsat_cast_pre(kind, bv(8, 5), ByteSize(2)));
    }
}

/// (b) `@assume_entry bytesize.0 <= 0x200_0000` (From<ByteSize> for BitWidth), `@assume_entry bitwidth.n <= 0x1000_0000`
/// (From<BitWidth> for ByteSize)
pub proof fn lemma_sat_bitvector_assume_entry()
    ensures
        exists |bytesize: ByteSize| 1 <= #[trigger] bytesize.0 && bytesize.0 <= 0x200_0000,
        exists |bitwidth: BitWidth| 1 <= #[trigger] bitwidth.n && bitwidth.n <= 0x1000_0000,
        forall |bytesize: ByteSize| #[trigger] bytesize.0 <= MAXBYTES() ==> bytesize.0 <= 0x200_0000,
        forall |bitwidth: BitWidth| #[trigger] bitwidth.n <= MAXW() ==> bitwidth.n <= 0x1000_0000,
{
    assert(ByteSize(8).0 == 8);
    assert((BitWidth { n: 64 }).n == 64);
}

/// (b) the only TRUSTED contracts of shim/apint.rs that hold for ALL arguments (no `requires`): the constructors
/// `from_u8 .. from_i128` / `From<u8>` / `From<u64>` (`ensures r == bv(W, ..), r.wf()`) and, under their range requires
/// on the width, `zero / one / unsigned_max_value / signed_min_value / signed_max_value`: the two ensures conjuncts
/// agree (the stated value IS well-formed), for every argument
pub proof fn lemma_sat_bitvector_shim_ctors()
    ensures
        forall |v: u8| #[trigger] bv(8, v as nat).wf(),
        forall |v: u16| #[trigger] bv(16, v as nat).wf(),
        forall |v: u32| #[trigger] bv(32, v as nat).wf(),
        forall |v: u64| #[trigger] bv(64, v as nat).wf(),
        forall |v: u128| #[trigger] bv(128, v as nat).wf(),
        forall |w: nat, x: int| 1 <= w <= MAXW() ==> #[trigger] bv(w, trunc(w, x)).wf(),
        forall |n: nat| 1 <= n <= MAXW() ==> #[trigger] bv(n, 0).wf() && bv(n, 1).wf() && bv(n, (p2(n) - 1) as nat).wf()
            && bv(n, p2((n - 1) as nat)).wf() && bv(n, (p2((n - 1) as nat) - 1) as nat).wf(),
{
    lemma_p2_consts();
    assert forall |w: nat, x: int| 1 <= w <= MAXW() implies #[trigger] bv(w, trunc(w, x)).wf() by { lemma_trunc_range(w, x); }
    assert forall |n: nat| 1 <= n <= MAXW() implies #[trigger] bv(n, 0).wf() && bv(n, 1).wf() && bv(n, (p2(n) - 1) as nat).wf()
            && bv(n, p2((n - 1) as nat)).wf() && bv(n, (p2((n - 1) as nat) - 1) as nat).wf() by {
        lemma_p2(n); lemma_p2((n - 1) as nat);
    }
}

/// (a') every contracted function of the unit is called once or twice; no precondition
pub fn verif_sat_bitvector_chain(bop: BinOpType, uop: UnOpType, kind: CastOpType)
{
    proof { lemma_p2_consts(); }
    let a = Bitvector::from_u8(5);
    let b = Bitvector::from_u8(3);
    let one = Bitvector::from_u8(1);
    let q = Bitvector::from_u64(0xffff_ffff_ffff_fff0);
    let h = Bitvector::from_u128(7);
    // ByteSize::as_bit_length: self.0 <= MAXBYTES;  the two conversions: their assumption holds for the arguments
    let two = ByteSize::new(2);
    let _ = two.as_bit_length();
    let bw = BitWidth::from(two);
    let _ = ByteSize::from(bw);
    // resize / bytesize / subpiece: wf, 1 <= size <= MAXBYTES, low_byte * 8 < w, 1 <= size, size * 8 <= w
    let _ = a.into_resize_unsigned(two);
    let _ = q.into_resize_signed(ByteSize(1));
    let _ = q.bytesize();
    let _ = q.subpiece(ByteSize(1), ByteSize(2));
    // cast / un_op / bin_op for EVERY operation: wellsized_cast / wellsized_un / wellsized_bin
    let _ = a.cast(kind, two);
    let _ = one.un_op(uop);
    let _ = a.bin_op(bop, &b);
    let _ = q.bin_op(bop, &q);
    // overflow helpers: equal widths (8, 64 bit; above 64 bit for the Err case of the multiplication)
    let _ = a.signed_add_overflow_checked(&b);
    let _ = q.signed_sub_overflow_checked(&q);
    let _ = a.signed_mult_with_overflow_flag(&b);
    let _ = h.signed_mult_with_overflow_flag(&h);
    // Expression::bytesize: expr_ok, expr_bytes <= u64::MAX
    let e = Expression::BinOp { op: bop, lhs: Box::new(Expression::Const(a)), rhs: Box::new(Expression::Const(q)) };
    proof { reveal_with_fuel(expr_ok, 3); reveal_with_fuel(expr_bytes, 3); }
    let _ = e.bytesize();
    // BitvectorDomain: wf, bytes sum <= MAXBYTES, the GUARDED clauses active (both Value) and inactive (Top)
    let va = BitvectorDomain::Value(a);
    let vb = BitvectorDomain::Value(b);
    let v1 = BitvectorDomain::Value(one);
    let vq = BitvectorDomain::Value(q);
    let top = BitvectorDomain::new_top(ByteSize(1));
    let _ = va.bytesize();
    let _ = top.bytesize();
    let _ = va.top();
    let _ = va.is_top();
    let _ = va.merge(&vb);
    let _ = va.merge(&top);
    let mut m = BitvectorDomain::Value(a);
    let _ = m.merge_with(&vb);
    let _ = va.bin_op_bytesize(bop, &vb);
    let _ = va.bin_op(bop, &vb);
    let _ = top.bin_op(bop, &vb);
    let _ = v1.un_op(uop);
    let _ = top.un_op(uop);
    let _ = vq.subpiece(ByteSize(1), ByteSize(2));
    let _ = top.subpiece(ByteSize(1), ByteSize(2));
    let _ = va.cast(kind, two);
    let _ = top.cast(kind, two);
}
