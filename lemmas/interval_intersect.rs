// ---------------------------------------------------------------------------
// lemmas/interval_intersect.rs -- proved number theory for C04 (intersection):
// truncating division of Rust, gcd symmetry / Euclid step, Bezout bounds of the
// extended Euclidean algorithm, lcm and the Chinese remainder theorem.
// All lemmas are over plain ints (no Bitvector / Interval), names prefixed ii_.
// ---------------------------------------------------------------------------

// ---- Rust's `%` and `/` on signed integers (vstd: rust_rem / rust_div), positive divisor ----

pub open spec fn ii_rem(a: int, m: int) -> int { vstd::arithmetic::div_mod::rust_rem(a, m) }
pub open spec fn ii_div(a: int, m: int) -> int { vstd::arithmetic::div_mod::rust_div(a, m) }

pub proof fn lemma_ii_rust_divrem(a: int, m: int)
    requires m > 0
    ensures a == m * ii_div(a, m) + ii_rem(a, m),
            -m < ii_rem(a, m) < m,
            a >= 0 ==> ii_rem(a, m) == a % m && ii_div(a, m) == a / m && 0 <= ii_rem(a, m) && 0 <= ii_div(a, m) <= a,
            a <= 0 ==> ii_rem(a, m) <= 0 && a <= ii_div(a, m) <= 0,
            divides(m, a - ii_rem(a, m)),
            divides(m, a) <==> ii_rem(a, m) == 0,
{
    vstd::arithmetic::div_mod::lemma_small_mod(0, m as nat);
    vstd::arithmetic::div_mod::lemma_div_basics_1(m);
    let (q, r) = (ii_div(a, m), ii_rem(a, m));
    if a >= 0 {
        lemma_div_pos(a, m);
        assert(q == a / m && r == a % m);
    } else {
        lemma_div_pos(-a, m);
        let (q1, r1) = ((-a) / m, (-a) % m);
        assert(q == -q1 && r == -r1);
        assert(m * (-q1) == -(m * q1)) by (nonlinear_arith);
    }
    assert(a - r == m * q);
    lemma_divides_mul(m, q);
    // divides(m, a) <==> r == 0
    if r == 0 { assert(divides(m, a)); }
    if divides(m, a) {
        lemma_divides_add(m, a, a - r);
        assert(divides(m, r));
        if r > 0 { vstd::arithmetic::div_mod::lemma_small_mod(r as nat, m as nat); }
        if r < 0 {
            lemma_divides_add(m, r, r);
            assert(divides(m, -r));
            vstd::arithmetic::div_mod::lemma_small_mod((-r) as nat, m as nat);
        }
    }
}

/// the idiom `(a % m + m) % m` computes the Euclidean remainder
pub proof fn lemma_ii_posmod(a: int, m: int)
    requires m > 0
    ensures ii_rem(ii_rem(a, m) + m, m) == a % m, 0 <= a % m < m, divides(m, a - a % m),
{
    lemma_ii_rust_divrem(a, m);
    let d = ii_rem(a, m);
    lemma_ii_rust_divrem(d + m, m);
    vstd::arithmetic::div_mod::lemma_mod_bound(a, m);
    vstd::arithmetic::div_mod::lemma_fundamental_div_mod(a, m);
    lemma_divides_mul(m, a / m);
    // d + m in (0, 2m): its remainder is d (d >= 0) or d + m (d < 0); both are congruent to a
    let e = ii_rem(d + m, m);
    // a - e = (a - d) + (d + m - e) - m, all multiples of m
    lemma_divides_mul(m, 1);
    lemma_divides_add(m, a - d, d + m - e);
    lemma_divides_add(m, (a - d) + (d + m - e), m);
    assert(divides(m, a - e));
    lemma_divides_add(m, a - e, a - a % m);
    assert(divides(m, (a - e) - (a - a % m)));
    lemma_ii_small_multiple(m, a % m - e);
}

/// a multiple of m strictly between -m and m is 0
pub proof fn lemma_ii_small_multiple(m: int, x: int)
    requires m > 0, -m < x < m, divides(m, x)
    ensures x == 0,
{
    if x > 0 { vstd::arithmetic::div_mod::lemma_small_mod(x as nat, m as nat); }
    if x < 0 {
        lemma_divides_add(m, x, x);
        vstd::arithmetic::div_mod::lemma_small_mod((-x) as nat, m as nat);
    }
}

// ---- gcd: symmetry and the Euclid step used by extended_gcd ----

pub proof fn lemma_ii_gcd_sym(a: nat, b: nat)
    ensures spec_gcd(a, b) == spec_gcd(b, a),
{
    reveal_with_fuel(spec_gcd, 3);
    if a == b {
    } else if a < b {
        vstd::arithmetic::div_mod::lemma_small_mod(a, b);
        if a == 0 { vstd::arithmetic::div_mod::lemma_small_mod(0, b); }
    } else {
        vstd::arithmetic::div_mod::lemma_small_mod(b, a);
        if b == 0 { vstd::arithmetic::div_mod::lemma_small_mod(0, a); }
    }
}

pub proof fn lemma_ii_gcd_step(a: nat, b: nat)
    requires a > 0
    ensures spec_gcd(a, b) == spec_gcd(b % a, a), b % a < a,
{
    reveal_with_fuel(spec_gcd, 2);
    vstd::arithmetic::div_mod::lemma_mod_bound(b as int, a as int);
    vstd::arithmetic::div_mod::lemma_small_mod(b % a, a);
    // spec_gcd(b % a, a) == spec_gcd(a, (b % a) % a) == spec_gcd(a, b % a) == spec_gcd(b, a)
    lemma_ii_gcd_sym(a, b);
}

// ---- extended Euclid: one recursion step ----

/// what extended_gcd guarantees about the Bezout coefficients (x, y) of (a, b)
pub open spec fn ii_bezout_bounds(a: int, b: int, g: int, x: int, y: int) -> bool {
    &&& a == 0 ==> x == 0 && y == 1 && g == b
    &&& a > 0 && b % a == 0 ==> x == 1 && y == 0 && g == a
    &&& a > 0 && b % a != 0 ==> 2 * (iabs(x) * g) <= b && 2 * (iabs(y) * g) <= a && g > 0
}

pub proof fn lemma_ii_egcd_step(a: int, b: int, g: int, x1: int, y1: int)
    requires 0 < a, 0 <= b,
        g == x1 * (b % a) + y1 * a,
        g == spec_gcd((b % a) as nat, a as nat),
        ii_bezout_bounds(b % a, a, g, x1, y1),
    ensures ({
        let x = y1 - (b / a) * x1;
        let y = x1;
        &&& g == x * a + y * b
        &&& g == spec_gcd(a as nat, b as nat)
        &&& ii_bezout_bounds(a, b, g, x, y)
        &&& 0 <= b % a < a && 0 <= b / a <= b
        &&& iabs((b / a) * x1) <= b && iabs(y1) <= a && iabs(x1) <= a && 0 < g <= a
    }),
{
    let (q, r) = (b / a, b % a);
    lemma_div_pos(b, a);
    lemma_ii_gcd_step(a as nat, b as nat);
    lemma_gcd(a as nat, b as nat);
    lemma_gcd_bound(r as nat, a as nat);
    assert(0 < g <= a);
    let x = y1 - q * x1;
    assert(x * a + x1 * b == g) by (nonlinear_arith)
        requires x == y1 - q * x1, b == a * q + r, g == x1 * r + y1 * a;
    if r == 0 {
        assert(q * x1 == 0) by (nonlinear_arith) requires x1 == 0;
    } else if a % r == 0 {
        // x1 == 1, y1 == 0, g == r; r | a and r < a, hence a >= 2r
        assert(g == r) by (nonlinear_arith) requires g == x1 * r + y1 * a, x1 == 1, y1 == 0;
        assert(q * x1 == q) by (nonlinear_arith) requires x1 == 1;
        lemma_div_pos(a, r);
        assert(a >= 2 * r) by (nonlinear_arith) requires a == r * (a / r), r < a, r > 0, a / r >= 0;
        assert(2 * (q * r) + r <= b) by (nonlinear_arith) requires b == a * q + r, a >= 2 * r, r > 0, q >= 0;
        assert(iabs(x) * g == q * r);
        assert(iabs(x1) * g == r) by (nonlinear_arith) requires x1 == 1, g == r;
    } else {
        let (ax, ay) = (iabs(x1), iabs(y1));
        let (gx, gy) = (ax * g, ay * g);
        assert(ax <= a && ay <= a) by (nonlinear_arith) requires 2 * (ax * g) <= a, 2 * (ay * g) <= r, r < a, g >= 1, ax >= 0, ay >= 0;
        assert(iabs(q * x1) == q * ax) by (nonlinear_arith) requires q >= 0, ax == iabs(x1);
        assert(q * ax <= b) by (nonlinear_arith) requires 2 * (ax * g) <= a, g >= 1, q >= 0, ax >= 0, b == a * q + r, r >= 0;
        assert(iabs(x) <= ay + q * ax);
        assert(iabs(x) * g <= gy + q * gx) by (nonlinear_arith)
            requires iabs(x) <= ay + q * ax, gx == ax * g, gy == ay * g, g >= 1, iabs(x) >= 0;
        assert(2 * (q * gx) <= q * a) by (nonlinear_arith) requires 2 * gx <= a, q >= 0;
        assert(q * a == a * q) by (nonlinear_arith);
        assert(2 * (iabs(x) * g) <= b);
    }
}

/// linear consequences of the Bezout bounds (what callers use)
pub proof fn lemma_ii_bezout_linear(a: int, b: int, g: int, x: int, y: int)
    requires 0 <= a, 0 <= b, ii_bezout_bounds(a, b, g, x, y),
    ensures -b <= x <= b || (b == 0 && (x == 1 || x == 0)),
            -a <= y <= a || (a == 0 && (y == 1 || y == 0)),
            a > 0 && b > 0 ==> g > 0 && iabs(x) * g <= b && iabs(y) * g <= a,
{
    if a > 0 {
        lemma_div_pos(b, a);
        if b % a == 0 {
            if b > 0 {
                assert(b >= a) by (nonlinear_arith) requires b == a * (b / a), b > 0, a > 0, b / a >= 0;
            }
            assert(iabs(x) * g == a) by (nonlinear_arith) requires x == 1, g == a;
            assert(iabs(y) * g == 0) by (nonlinear_arith) requires y == 0;
        } else {
            let (ax, ay) = (iabs(x), iabs(y));
            assert(ax <= b && ay <= a && ax * g <= b && ay * g <= a) by (nonlinear_arith)
                requires 2 * (ax * g) <= b, 2 * (ay * g) <= a, g >= 1, ax >= 0, ay >= 0;
        }
    }
}

// ---- lcm and the Chinese remainder theorem ----

/// lcm of two strides as the code computes it: (a / gcd) * b  (0 when a stride is 0)
pub open spec fn ii_lcm(a: int, b: int) -> int {
    if a <= 0 || b <= 0 { 0 } else { (a / (spec_gcd(a as nat, b as nat) as int)) * b }
}

pub proof fn lemma_ii_lcm(sl: int, sr: int)
    requires sl > 0, sr > 0
    ensures ({
        let g = spec_gcd(sl as nat, sr as nat) as int;
        let l = ii_lcm(sl, sr);
        &&& 0 < g <= sl && g <= sr
        &&& sl == g * (sl / g) && sr == g * (sr / g) && sl / g >= 1 && sr / g >= 1
        &&& l == (sl / g) * sr && l == sl * (sr / g) && g * l == sl * sr
        &&& l >= sl && l >= sr && l <= sl * sr
        &&& divides(sl, l) && divides(sr, l) && divides(g, sl) && divides(g, sr)
    }),
{
    let g = spec_gcd(sl as nat, sr as nat) as int;
    lemma_gcd(sl as nat, sr as nat);
    lemma_gcd_bound(sl as nat, sr as nat);
    lemma_ii_gcd_sym(sl as nat, sr as nat);
    lemma_gcd_bound(sr as nat, sl as nat);
    assert(g > 0);
    lemma_divides_witness(g, sl); lemma_divides_witness(g, sr);
    let (k, n) = (sl / g, sr / g);
    lemma_div_pos(sl, g); lemma_div_pos(sr, g);
    assert(k >= 1) by (nonlinear_arith) requires sl == g * k, sl > 0, g > 0, k >= 0;
    assert(n >= 1) by (nonlinear_arith) requires sr == g * n, sr > 0, g > 0, n >= 0;
    assert(g <= sl) by (nonlinear_arith) requires sl == g * k, k >= 1, g > 0;
    assert(g <= sr) by (nonlinear_arith) requires sr == g * n, n >= 1, g > 0;
    let l = k * sr;
    assert(l == sl * n) by (nonlinear_arith) requires l == k * sr, sl == g * k, sr == g * n;
    assert(g * l == sl * sr) by (nonlinear_arith) requires l == k * sr, sl == g * k;
    assert(l >= sr) by (nonlinear_arith) requires l == k * sr, k >= 1, sr > 0;
    assert(l >= sl) by (nonlinear_arith) requires l == sl * n, n >= 1, sl > 0;
    assert(l <= sl * sr) by (nonlinear_arith) requires g * l == sl * sr, g >= 1, l >= 0;
    lemma_divides_mul(sl, n); lemma_divides_mul(sr, k);
}

/// a common multiple of both strides is a multiple of their lcm (via Bezout)
pub proof fn lemma_ii_common_multiple(sl: int, sr: int, li: int, ri: int, x: int)
    requires sl > 0, sr > 0,
        spec_gcd(sl as nat, sr as nat) == li * sl + ri * sr,
        divides(sl, x), divides(sr, x),
    ensures divides(ii_lcm(sl, sr), x),
{
    let g = spec_gcd(sl as nat, sr as nat) as int;
    let l = ii_lcm(sl, sr);
    lemma_ii_lcm(sl, sr);
    lemma_divides_witness(sl, x); lemma_divides_witness(sr, x);
    let (u, v) = (x / sl, x / sr);
    let c = li * v + ri * u;
    // g*x == li*sl*x + ri*sr*x == li*sl*(sr*v) + ri*sr*(sl*u) == (sl*sr) * c == g*l*c
    assert(g * x == (li * sl) * x + (ri * sr) * x) by (nonlinear_arith) requires g == li * sl + ri * sr;
    assert((li * sl) * x == (sl * sr) * (li * v)) by (nonlinear_arith) requires x == sr * v;
    assert((ri * sr) * x == (sl * sr) * (ri * u)) by (nonlinear_arith) requires x == sl * u;
    assert((sl * sr) * (li * v) + (sl * sr) * (ri * u) == (sl * sr) * c) by (nonlinear_arith) requires c == li * v + ri * u;
    assert(g * x == g * (l * c)) by (nonlinear_arith) requires g * x == (sl * sr) * c, g * l == sl * sr;
    assert(x == l * c) by (nonlinear_arith) requires g * x == g * (l * c), g > 0;
    lemma_divides_mul(l, c);
}

/// one summand of the CRT formula: t = (d * (xa * ma)) % l vanishes mod ma and is d*g mod mb
pub proof fn lemma_ii_crt_term(ma: int, mb: int, l: int, g: int, xa: int, xb: int, d: int)
    requires ma > 0, mb > 0, l > 0, divides(ma, l), divides(mb, l), g == xa * ma + xb * mb,
    ensures ({
        let t = ii_rem(d * (xa * ma), l);
        divides(ma, t) && divides(mb, t - d * g) && -l < t < l
    }),
{
    let p = d * (xa * ma);
    let t = ii_rem(p, l);
    lemma_ii_rust_divrem(p, l);
    assert(p == ma * (d * xa)) by (nonlinear_arith) requires p == d * (xa * ma);
    lemma_divides_mul(ma, d * xa);
    lemma_divides_trans(ma, l, p - t);
    lemma_divides_add(ma, p, p - t);
    assert(p - (p - t) == t);
    assert(p - d * g == mb * (-(d * xb))) by (nonlinear_arith) requires p == d * (xa * ma), g == xa * ma + xb * mb;
    lemma_divides_mul(mb, -(d * xb));
    lemma_divides_trans(mb, l, p - t);
    lemma_divides_add(mb, p - t, p - d * g);
    assert((p - t) - (p - d * g) == d * g - t);
    lemma_divides_add(mb, d * g - t, d * g - t);
    assert(-(d * g - t) == t - d * g);
}

/// the value the code computes (non-negative bases), as a spec expression
pub open spec fn ii_crt_p1(sl: int, sr: int, br: int, g: int, li: int) -> int {
    ii_div(ii_rem(br, ii_lcm(sl, sr)), g) * (li * sl)
}
pub open spec fn ii_crt_p2(sl: int, sr: int, bl: int, g: int, ri: int) -> int {
    ii_div(ii_rem(bl, ii_lcm(sl, sr)), g) * (ri * sr)
}
pub open spec fn ii_crt_rc0(sl: int, sr: int, bl: int, br: int, g: int, li: int, ri: int) -> int {
    ii_rem(ii_crt_p1(sl, sr, br, g, li), ii_lcm(sl, sr)) + ii_rem(ii_crt_p2(sl, sr, bl, g, ri), ii_lcm(sl, sr)) + ii_rem(bl, g)
}
pub open spec fn ii_crt_rc(sl: int, sr: int, bl: int, br: int, g: int, li: int, ri: int) -> int {
    ii_rem(ii_rem(ii_crt_rc0(sl, sr, bl, br, g, li, ri), ii_lcm(sl, sr)) + ii_lcm(sl, sr), ii_lcm(sl, sr))
}

/// magnitude of the two products: no i128 overflow as long as the lcm fits into 64 bits
pub proof fn lemma_ii_crt_no_overflow(sl: int, sr: int, bl: int, br: int, g: int, li: int, ri: int)
    requires sl > 0, sr > 0, 0 <= bl < sl, 0 <= br < sr,
        g == spec_gcd(sl as nat, sr as nat), g == li * sl + ri * sr,
        ii_bezout_bounds(sl, sr, g, li, ri),
        ii_lcm(sl, sr) <= u64::MAX,
    ensures ({
        let l = ii_lcm(sl, sr);
        &&& ii_rem(br, l) == br && ii_rem(bl, l) == bl
        &&& 0 <= ii_div(br, g) <= br && 0 <= ii_div(bl, g) <= bl
        &&& iabs(li * sl) <= l && iabs(ri * sr) <= l
        &&& iabs(ii_crt_p1(sl, sr, br, g, li)) <= i128::MAX
        &&& iabs(ii_crt_p2(sl, sr, bl, g, ri)) <= i128::MAX
    }),
{
    let l = ii_lcm(sl, sr);
    lemma_ii_lcm(sl, sr);
    lemma_ii_rust_divrem(br, l); lemma_ii_rust_divrem(bl, l);
    vstd::arithmetic::div_mod::lemma_small_mod(br as nat, l as nat);
    vstd::arithmetic::div_mod::lemma_small_mod(bl as nat, l as nat);
    lemma_ii_rust_divrem(br, g); lemma_ii_rust_divrem(bl, g);
    let (d1, d2) = (ii_div(br, g), ii_div(bl, g));
    let (k, n) = (sl / g, sr / g);
    let m: int = 0x1_0000_0000_0000_0000;
    assert(l < m);
    lemma_div_pos(sr, sl);
    if sr % sl == 0 {
        // li == 1, ri == 0, g == sl
        assert(li * sl == sl) by (nonlinear_arith) requires li == 1;
        assert(ri * sr == 0) by (nonlinear_arith) requires ri == 0;
        assert(d2 * (ri * sr) == 0) by (nonlinear_arith) requires ri * sr == 0;
        assert(0 <= d1 * sl <= br) by (nonlinear_arith) requires br == g * d1 + ii_rem(br, g), ii_rem(br, g) >= 0, g == sl, d1 >= 0, sl > 0;
    } else {
        let (ax, ay) = (iabs(li), iabs(ri));
        // 2*|li|*sl <= l, 2*|ri|*sr <= l
        assert(2 * (ax * sl) <= l) by (nonlinear_arith)
            requires 2 * (ax * g) <= sr, sl == g * k, l == k * sr, k >= 1, ax >= 0, g > 0;
        assert(2 * (ay * sr) <= l) by (nonlinear_arith)
            requires 2 * (ay * g) <= sl, sr == g * n, l == sl * n, n >= 1, ay >= 0, g > 0;
        assert(iabs(li * sl) == ax * sl) by (nonlinear_arith) requires ax == iabs(li), sl > 0;
        assert(iabs(ri * sr) == ay * sr) by (nonlinear_arith) requires ay == iabs(ri), sr > 0;
        let (a1, a2) = (iabs(li * sl), iabs(ri * sr));
        assert(iabs(d1 * (li * sl)) == d1 * a1) by (nonlinear_arith) requires d1 >= 0, a1 == iabs(li * sl);
        assert(iabs(d2 * (ri * sr)) == d2 * a2) by (nonlinear_arith) requires d2 >= 0, a2 == iabs(ri * sr);
        assert(2 * (d1 * a1) <= m * m - 2) by (nonlinear_arith) requires 0 <= d1 < m - 1, 0 <= 2 * a1 <= m - 1, m > 2;
        assert(2 * (d2 * a2) <= m * m - 2) by (nonlinear_arith) requires 0 <= d2 < m - 1, 0 <= 2 * a2 <= m - 1, m > 2;
        assert(m * m == 0x1_0000_0000_0000_0000_0000_0000_0000_0000) by (compute);
    }
}

/// the computed residue class is the CRT solution: in [0, lcm), congruent to both bases
/// (so the final self-check of the code always passes)
pub proof fn lemma_ii_crt(sl: int, sr: int, bl: int, br: int, g: int, li: int, ri: int)
    requires sl > 0, sr > 0, 0 <= bl < sl, 0 <= br < sr,
        g == spec_gcd(sl as nat, sr as nat), g == li * sl + ri * sr,
        ii_rem(bl, g) == ii_rem(br, g),
    ensures ({
        let l = ii_lcm(sl, sr);
        let rc0 = ii_crt_rc0(sl, sr, bl, br, g, li, ri);
        let rc = ii_crt_rc(sl, sr, bl, br, g, li, ri);
        &&& -(3 * l) < rc0 < 3 * l && -l < ii_rem(rc0, l) < l
        &&& 0 <= rc < l
        &&& ii_rem(l, sl) == 0 && ii_rem(l, sr) == 0
        &&& divides(sl, bl - rc) && divides(sr, br - rc)
        &&& ii_rem(bl - rc, sl) == 0 && ii_rem(br - rc, sr) == 0
    }),
{
    let l = ii_lcm(sl, sr);
    lemma_ii_lcm(sl, sr);
    lemma_ii_rust_divrem(br, l); lemma_ii_rust_divrem(bl, l);
    vstd::arithmetic::div_mod::lemma_small_mod(br as nat, l as nat);
    vstd::arithmetic::div_mod::lemma_small_mod(bl as nat, l as nat);
    lemma_ii_rust_divrem(br, g); lemma_ii_rust_divrem(bl, g);
    let (d1, d2) = (ii_div(br, g), ii_div(bl, g));
    let rho = ii_rem(bl, g);
    assert(ii_crt_p1(sl, sr, br, g, li) == d1 * (li * sl));
    assert(ii_crt_p2(sl, sr, bl, g, ri) == d2 * (ri * sr));
    let t1 = ii_rem(d1 * (li * sl), l);
    let t2 = ii_rem(d2 * (ri * sr), l);
    lemma_ii_crt_term(sl, sr, l, g, li, ri, d1);   // sl | t1, sr | t1 - d1*g
    lemma_ii_crt_term(sr, sl, l, g, ri, li, d2);   // sr | t2, sl | t2 - d2*g
    let rc0 = t1 + t2 + rho;
    assert(rc0 == ii_crt_rc0(sl, sr, bl, br, g, li, ri));
    assert(g * d1 == d1 * g && g * d2 == d2 * g) by (nonlinear_arith);
    // mod sl: rc0 - bl == t1 + (t2 - d2*g)
    lemma_divides_add(sl, t1, t2 - d2 * g);
    assert(t1 + (t2 - d2 * g) == rc0 - bl);
    // mod sr: rc0 - br == (t1 - d1*g) + t2
    lemma_divides_add(sr, t1 - d1 * g, t2);
    assert((t1 - d1 * g) + t2 == rc0 - br);
    // rc == rc0 mod l
    lemma_ii_posmod(rc0, l);
    lemma_ii_rust_divrem(rc0, l);
    let rc = rc0 % l;
    assert(rc == ii_crt_rc(sl, sr, bl, br, g, li, ri));
    lemma_divides_trans(sl, l, rc0 - rc); lemma_divides_trans(sr, l, rc0 - rc);
    lemma_divides_add(sl, rc0 - rc, rc0 - bl);
    assert((rc0 - rc) - (rc0 - bl) == bl - rc);
    lemma_divides_add(sr, rc0 - rc, rc0 - br);
    assert((rc0 - rc) - (rc0 - br) == br - rc);
    lemma_ii_rust_divrem(bl - rc, sl); lemma_ii_rust_divrem(br - rc, sr);
    lemma_ii_rust_divrem(l, sl); lemma_ii_rust_divrem(l, sr);
}

/// no common member when the bases differ modulo the gcd
pub proof fn lemma_ii_crt_none(sl: int, sr: int, bl: int, br: int, v: int)
    requires sl > 0, sr > 0, 0 <= bl, 0 <= br,
        divides(sl, v - bl), divides(sr, v - br),
    ensures ({
        let g = spec_gcd(sl as nat, sr as nat) as int;
        g > 0 && ii_rem(bl, g) == ii_rem(br, g)
    }),
{
    let g = spec_gcd(sl as nat, sr as nat) as int;
    lemma_ii_lcm(sl, sr);
    lemma_divides_trans(g, sl, v - bl); lemma_divides_trans(g, sr, v - br);
    lemma_divides_add(g, v - br, v - bl);
    assert((v - br) - (v - bl) == bl - br);
    lemma_ii_rust_divrem(bl, g); lemma_ii_rust_divrem(br, g);
    let (r1, r2) = (ii_rem(bl, g), ii_rem(br, g));
    // r1 - r2 == (bl - br) - (bl - r1) + (br - r2)
    lemma_divides_add(g, bl - br, bl - r1);
    lemma_divides_add(g, (bl - br) - (bl - r1), br - r2);
    assert(((bl - br) - (bl - r1)) + (br - r2) == r1 - r2);
    lemma_ii_small_multiple(g, r1 - r2);
}

/// a value in both residue classes lies in the class of the CRT solution modulo the lcm
pub proof fn lemma_ii_crt_member(sl: int, sr: int, li: int, ri: int, bl: int, br: int, rc: int, v: int)
    requires sl > 0, sr > 0,
        spec_gcd(sl as nat, sr as nat) == li * sl + ri * sr,
        divides(sl, v - bl), divides(sr, v - br),
        divides(sl, bl - rc), divides(sr, br - rc),
    ensures divides(ii_lcm(sl, sr), v - rc),
{
    lemma_divides_add(sl, v - bl, bl - rc);
    lemma_divides_add(sr, v - br, br - rc);
    assert((v - bl) + (bl - rc) == v - rc && (v - br) + (br - rc) == v - rc);
    lemma_ii_common_multiple(sl, sr, li, ri, v - rc);
}

/// strides of intervals of at most 32 bit: the lcm always fits into 64 bit
pub proof fn lemma_ii_lcm_small(sl: int, sr: int)
    requires 0 < sl < 0x1_0000_0000, 0 < sr < 0x1_0000_0000
    ensures ii_lcm(sl, sr) <= u64::MAX,
{
    lemma_ii_lcm(sl, sr);
    assert(sl * sr < 0x1_0000_0000 * 0x1_0000_0000) by (nonlinear_arith) requires 0 < sl < 0x1_0000_0000, 0 < sr < 0x1_0000_0000;
}

/// a positive divisor of a positive number is not larger than it
pub proof fn lemma_ii_divisor_le(s: int, d: int)
    requires s > 0, d > 0, divides(s, d)
    ensures s <= d,
{
    lemma_divides_witness(s, d);
    lemma_div_pos(d, s);
    assert(s <= d) by (nonlinear_arith) requires d == s * (d / s), d > 0, s > 0, d / s >= 0;
}

// ---- glue between the interval vocabulary and the number theory above ----

/// members of a strided interval are congruent to the normalised start `start mod stride`
pub proof fn lemma_ii_member_class(i: Interval, v: Bitvector)
    requires i.stride != 0, i.gamma(v)
    ensures divides(i.stride as int, v.s() - i.start.s() % (i.stride as int)),
            0 <= i.start.s() % (i.stride as int) < i.stride,
{
    let m = i.stride as int;
    lemma_ii_posmod(i.start.s(), m);
    lemma_divides_add(m, v.s() - i.start.s(), i.start.s() - i.start.s() % m);
}

/// one side is a single value: the residue class of the other side is kept
pub proof fn lemma_ii_one_sided(i: Interval)
    requires i.stride != 0, i.start.wf(), i.start.w@ <= 64,
    ensures ({
        let m = i.stride as int;
        let s = i.start.s();
        &&& -m < ii_rem(s, m) < m && ii_rem(ii_rem(s, m) + m, m) == s % m && 0 <= s % m < m
        &&& forall|v: Bitvector| i.gamma(v) ==> #[trigger] on_stride(i.stride, v.s() - s % m)
    }),
{
    let m = i.stride as int;
    lemma_ii_rust_divrem(i.start.s(), m);
    lemma_ii_posmod(i.start.s(), m);
    assert forall|v: Bitvector| i.gamma(v) implies #[trigger] on_stride(i.stride, v.s() - i.start.s() % m) by {
        lemma_ii_member_class(i, v);
    }
}

/// strides of intervals of at most 32 bit are below 2^32
pub proof fn lemma_ii_stride_small(i: Interval)
    requires i.inv(), i.stride != 0, i.w() <= 32
    ensures i.stride < 0x1_0000_0000,
{
    let w = i.w();
    lemma_p2_consts(); lemma_p2_mono(w, 32);
    lemma_sval(w, i.start.u@); lemma_sval(w, i.end.u@);
    lemma_ii_divisor_le(i.stride as int, i.end.s() - i.start.s());
}

/// the intermediate values of the CRT computation in the shape of the executable code
pub open spec fn ii_crt_t1(sl: int, sr: int, br: int, g: int, li: int) -> int { ii_rem(ii_crt_p1(sl, sr, br, g, li), ii_lcm(sl, sr)) }
pub open spec fn ii_crt_t2(sl: int, sr: int, bl: int, g: int, ri: int) -> int { ii_rem(ii_crt_p2(sl, sr, bl, g, ri), ii_lcm(sl, sr)) }

/// everything compute_intersection_residue_class needs after the call of extended_gcd
pub proof fn lemma_ii_residue_class(a: Interval, b: Interval, g: int, li: int, ri: int)
    requires a.inv(), b.inv(), a.w() == b.w(), a.w() <= 64, a.stride != 0, b.stride != 0,
        a.w() <= 32 || ii_lcm(a.stride as int, b.stride as int) <= u64::MAX,
        g == spec_gcd(a.stride as nat, b.stride as nat), g == li * a.stride + ri * b.stride,
        ii_bezout_bounds(a.stride as int, b.stride as int, g, li, ri),
    ensures ({
        let (sl, sr) = (a.stride as int, b.stride as int);
        let (bl, br) = (a.start.s() % sl, b.start.s() % sr);
        let l = ii_lcm(sl, sr);
        let rc0 = ii_crt_rc0(sl, sr, bl, br, g, li, ri);
        let rc = ii_crt_rc(sl, sr, bl, br, g, li, ri);
        &&& 0 <= bl < sl && 0 <= br < sr && 0 < g
        &&& -g < ii_rem(bl, g) < g && -g < ii_rem(br, g) < g
        &&& ii_div(sl, g) * sr == l && 0 < l <= u64::MAX
        &&& ii_rem(bl, g) != ii_rem(br, g) ==> (forall|v: Bitvector| !(a.gamma(v) && b.gamma(v)))
        &&& ii_rem(bl, g) == ii_rem(br, g) ==> {
            &&& -l <= li * sl <= l && -l <= ri * sr <= l
            &&& -(i128::MAX as int) <= ii_crt_p1(sl, sr, br, g, li) <= i128::MAX
            &&& -(i128::MAX as int) <= ii_crt_p2(sl, sr, bl, g, ri) <= i128::MAX
            &&& -l < ii_crt_t1(sl, sr, br, g, li) < l && -l < ii_crt_t2(sl, sr, bl, g, ri) < l
            &&& rc0 == ii_crt_t1(sl, sr, br, g, li) + ii_crt_t2(sl, sr, bl, g, ri) + ii_rem(bl, g)
            &&& -l < ii_rem(rc0, l) < l
            &&& 0 <= rc < l
            &&& ii_rem(l, sl) == 0 && ii_rem(l, sr) == 0
            &&& ii_rem(bl - rc, sl) == 0 && ii_rem(br - rc, sr) == 0
            &&& forall|v: Bitvector| a.gamma(v) && b.gamma(v) ==> #[trigger] on_stride(l as u64, v.s() - rc)
        }
    }),
{
    let (sl, sr) = (a.stride as int, b.stride as int);
    let (bl, br) = (a.start.s() % sl, b.start.s() % sr);
    let l = ii_lcm(sl, sr);
    lemma_ii_posmod(a.start.s(), sl); lemma_ii_posmod(b.start.s(), sr);
    lemma_ii_lcm(sl, sr);
    if a.w() <= 32 {
        lemma_ii_stride_small(a); lemma_ii_stride_small(b);
        lemma_ii_lcm_small(sl, sr);
    }
    lemma_ii_rust_divrem(bl, g); lemma_ii_rust_divrem(br, g);
    lemma_ii_rust_divrem(sl, g);
    if ii_rem(bl, g) != ii_rem(br, g) {
        assert forall|v: Bitvector| !(a.gamma(v) && b.gamma(v)) by {
            if a.gamma(v) && b.gamma(v) {
                lemma_ii_member_class(a, v); lemma_ii_member_class(b, v);
                lemma_ii_crt_none(sl, sr, bl, br, v.s());
            }
        }
    } else {
        lemma_ii_crt_no_overflow(sl, sr, bl, br, g, li, ri);
        lemma_ii_crt(sl, sr, bl, br, g, li, ri);
        let rc = ii_crt_rc(sl, sr, bl, br, g, li, ri);
        lemma_ii_rust_divrem(ii_crt_p1(sl, sr, br, g, li), l);
        lemma_ii_rust_divrem(ii_crt_p2(sl, sr, bl, g, ri), l);
        assert forall|v: Bitvector| a.gamma(v) && b.gamma(v) implies #[trigger] on_stride(l as u64, v.s() - rc) by {
            lemma_ii_member_class(a, v); lemma_ii_member_class(b, v);
            lemma_ii_crt_member(sl, sr, li, ri, bl, br, rc, v.s());
        }
    }
}
