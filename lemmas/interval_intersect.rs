// ---------------------------------------------------------------------------
// lemmas/interval_intersect.rs -- proved number theory for C04 (intersection):
// truncating division of Rust, gcd symmetry / Euclid step, Bezout bounds of the
// extended Euclidean algorithm, lcm and the Chinese remainder theorem.
// All lemmas are over plain ints (no Bitvector / Interval), names prefixed ii_.
// ---------------------------------------------------------------------------

// ---- Rust's `%` and `/` on signed integers (vstd: rust_rem / rust_div), positive divisor ----

pub open spec fn ii_rem(a: int, m: int) -> int { vstd::arithmetic::div_mod::rust_rem(a, m) }
pub open spec fn ii_div(a: int, m: int) -> int { vstd::arithmetic::div_mod::rust_div(a, m) }

pub proof fn lemma_ii_rust_divrem(a: int, m: int)
    requires m > 0
    ensures a == m * ii_div(a, m) + ii_rem(a, m),
            -m < ii_rem(a, m) < m,
            a >= 0 ==> ii_rem(a, m) == a % m && ii_div(a, m) == a / m && 0 <= ii_rem(a, m) && 0 <= ii_div(a, m) <= a,
            a <= 0 ==> ii_rem(a, m) <= 0 && a <= ii_div(a, m) <= 0,
            divides(m, a - ii_rem(a, m)),
            divides(m, a) <==> ii_rem(a, m) == 0,
{
    vstd::arithmetic::div_mod::lemma_small_mod(0, m as nat);
    vstd::arithmetic::div_mod::lemma_div_basics_1(m);
    let (q, r) = (ii_div(a, m), ii_rem(a, m));
    if a >= 0 {
        lemma_div_pos(a, m);
        assert(q == a / m && r == a % m);
    } else {
        lemma_div_pos(-a, m);
        let (q1, r1) = ((-a) / m, (-a) % m);
        assert(q == -q1 && r == -r1);
        assert(m * (-q1) == -(m * q1)) by (nonlinear_arith);
    }
    assert(a - r == m * q);
    lemma_divides_mul(m, q);
    // divides(m, a) <==> r == 0
    if r == 0 { assert(divides(m, a)); }
    if divides(m, a) {
        lemma_divides_add(m, a, a - r);
        assert(divides(m, r));
        if r > 0 { vstd::arithmetic::div_mod::lemma_small_mod(r as nat, m as nat); }
        if r < 0 {
            lemma_divides_add(m, r, r);
            assert(divides(m, -r));
            vstd::arithmetic::div_mod::lemma_small_mod((-r) as nat, m as nat);
        }
    }
}

/// the idiom `(a % m + m) % m` computes the Euclidean remainder
pub proof fn lemma_ii_posmod(a: int, m: int)
    requires m > 0
    ensures ii_rem(ii_rem(a, m) + m, m) == a % m, 0 <= a % m < m, divides(m, a - a % m),
{
    lemma_ii_rust_divrem(a, m);
    let d = ii_rem(a, m);
    lemma_ii_rust_divrem(d + m, m);
    vstd::arithmetic::div_mod::lemma_mod_bound(a, m);
    vstd::arithmetic::div_mod::lemma_fundamental_div_mod(a, m);
    lemma_divides_mul(m, a / m);
    // d + m in (0, 2m): its remainder is d (d >= 0) or d + m (d < 0); both are congruent to a
    let e = ii_rem(d + m, m);
    // a - e = (a - d) + (d + m - e) - m, all multiples of m
    lemma_divides_mul(m, 1);
    lemma_divides_add(m, a - d, d + m - e);
    lemma_divides_add(m, (a - d) + (d + m - e), m);
    assert(divides(m, a - e));
    lemma_divides_add(m, a - e, a - a % m);
    assert(divides(m, (a - e) - (a - a % m)));
    lemma_ii_small_multiple(m, a % m - e);
}

/// a multiple of m strictly between -m and m is 0
pub proof fn lemma_ii_small_multiple(m: int, x: int)
    requires m > 0, -m < x < m, divides(m, x)
    ensures x == 0,
{
    if x > 0 { vstd::arithmetic::div_mod::lemma_small_mod(x as nat, m as nat); }
    if x < 0 {
        lemma_divides_add(m, x, x);
        vstd::arithmetic::div_mod::lemma_small_mod((-x) as nat, m as nat);
    }
}

// ---- gcd: symmetry and the Euclid step used by extended_gcd ----

pub proof fn lemma_ii_gcd_sym(a: nat, b: nat)
    ensures spec_gcd(a, b) == spec_gcd(b, a),
{
    reveal_with_fuel(spec_gcd, 3);
    if a == b {
    } else if a < b {
        vstd::arithmetic::div_mod::lemma_small_mod(a, b);
        if a == 0 { vstd::arithmetic::div_mod::lemma_small_mod(0, b); }
    } else {
        vstd::arithmetic::div_mod::lemma_small_mod(b, a);
        if b == 0 { vstd::arithmetic::div_mod::lemma_small_mod(0, a); }
    }
}

pub proof fn lemma_ii_gcd_step(a: nat, b: nat)
    requires a > 0
    ensures spec_gcd(a, b) == spec_gcd(b % a, a), b % a < a,
{
    reveal_with_fuel(spec_gcd, 2);
    vstd::arithmetic::div_mod::lemma_mod_bound(b as int, a as int);
    vstd::arithmetic::div_mod::lemma_small_mod(b % a, a);
    // spec_gcd(b % a, a) == spec_gcd(a, (b % a) % a) == spec_gcd(a, b % a) == spec_gcd(b, a)
    lemma_ii_gcd_sym(a, b);
}

// ---- extended Euclid: one recursion step ----

/// what extended_gcd guarantees about the Bezout coefficients (x, y) of (a, b)
pub open spec fn ii_bezout_bounds(a: int, b: int, g: int, x: int, y: int) -> bool {
    &&& a == 0 ==> x == 0 && y == 1 && g == b
    &&& a > 0 && b % a == 0 ==> x == 1 && y == 0 && g == a
    &&& a > 0 && b % a != 0 ==> iabs(x) * g <= b && iabs(y) * g <= a && g > 0
}

pub proof fn lemma_ii_egcd_step(a: int, b: int, g: int, x1: int, y1: int)
    requires 0 < a, 0 <= b,
        g == x1 * (b % a) + y1 * a,
        g == spec_gcd((b % a) as nat, a as nat),
        ii_bezout_bounds(b % a, a, g, x1, y1),
    ensures ({
        let x = y1 - (b / a) * x1;
        let y = x1;
        &&& g == x * a + y * b
        &&& g == spec_gcd(a as nat, b as nat)
        &&& ii_bezout_bounds(a, b, g, x, y)
        &&& 0 <= b % a < a && 0 <= b / a <= b
        &&& iabs((b / a) * x1) <= b && iabs(y1) <= a && iabs(x1) <= a && 0 < g <= a
    }),
{
    let (q, r) = (b / a, b % a);
    lemma_div_pos(b, a);
    lemma_ii_gcd_step(a as nat, b as nat);
    lemma_gcd(a as nat, b as nat);
    lemma_gcd_bound(r as nat, a as nat);
    assert(0 < g <= a);
    let x = y1 - q * x1;
    assert(x * a + x1 * b == g) by (nonlinear_arith)
        requires x == y1 - q * x1, b == a * q + r, g == x1 * r + y1 * a;
    if r == 0 {
        assert(q * x1 == 0) by (nonlinear_arith) requires x1 == 0;
    } else if a % r == 0 {
        // x1 == 1, y1 == 0, g == r
        assert(g == r) by (nonlinear_arith) requires g == x1 * r + y1 * a, x1 == 1, y1 == 0;
        assert(q * x1 == q) by (nonlinear_arith) requires x1 == 1;
        assert(q * r <= b) by (nonlinear_arith) requires b == a * q + r, 0 < r < a, q >= 0;
        assert(iabs(x) * g == q * r);
    } else {
        let (ax, ay) = (iabs(x1), iabs(y1));
        assert(ax <= a && ay <= a) by (nonlinear_arith) requires ax * g <= a, ay * g <= r, r < a, g >= 1, ax >= 0, ay >= 0;
        assert(iabs(q * x1) == q * ax) by (nonlinear_arith) requires q >= 0, ax == iabs(x1);
        assert(q * ax <= b) by (nonlinear_arith) requires ax * g <= a, g >= 1, q >= 0, ax >= 0, b == a * q + r, r >= 0;
        assert(iabs(x) <= ay + q * ax);
        assert(iabs(x) * g <= b) by (nonlinear_arith)
            requires iabs(x) <= ay + q * ax, ax * g <= a, ay * g <= r, b == a * q + r, q >= 0, g >= 1, iabs(x) >= 0;
    }
}

/// linear consequences of the Bezout bounds (what callers use)
pub proof fn lemma_ii_bezout_linear(a: int, b: int, g: int, x: int, y: int)
    requires 0 <= a, 0 <= b, ii_bezout_bounds(a, b, g, x, y),
    ensures -b <= x <= b || (b == 0 && (x == 1 || x == 0)),
            -a <= y <= a || (a == 0 && (y == 1 || y == 0)),
            a > 0 && b > 0 ==> g > 0 && iabs(x) * g <= b && iabs(y) * g <= a,
{
    if a > 0 {
        lemma_div_pos(b, a);
        if b % a == 0 {
            if b > 0 {
                assert(b >= a) by (nonlinear_arith) requires b == a * (b / a), b > 0, a > 0, b / a >= 0;
            }
            assert(iabs(x) * g == a) by (nonlinear_arith) requires x == 1, g == a;
            assert(iabs(y) * g == 0) by (nonlinear_arith) requires y == 0;
        } else {
            let (ax, ay) = (iabs(x), iabs(y));
            assert(ax <= b && ay <= a) by (nonlinear_arith) requires ax * g <= b, ay * g <= a, g >= 1, ax >= 0, ay >= 0;
        }
    }
}
