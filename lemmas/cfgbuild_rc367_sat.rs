// ---------------------------------------------------------------------------
// lemmas/cfgbuild_rc367_sat.rs -- SATISFIABILITY WITNESSES of the preconditions of the units `cfgbuild` AND `cfgbuild_rc367`
// (nothing here is trusted).  The witnesses of unit cfgbuild are verified HERE, by the importing unit (lemmas/cfgbuild_sat.rs says
// why): every function of cfgbuild is present with the contract text of contracts/cfgbuild.vc, Verus checks it at each call.
//   (d)  cfg_key_hyp() = obeys_key_model::<Tid>() && obeys_key_model::<(Tid, Tid)>() && obeys_cmp::<Tid>(): vstd's uninterpreted
//        predicates.  lemma_sat_cfgbuild_key_hyp_open OPENS it: the eq half of obeys_cmp (obeys_eq::<Tid>(), eq_spec is `==`) is
//        PROVED, the rest is "the UNINTERPRETED cmp_spec / partial_cmp_spec of Tid are a total order whose Equal is `==`" + the
//        uninterpreted flags.  Every client below has cfg_key_hyp() as its ONLY `requires`.
//   (a') THE WITNESS PROGRAM (cfg_sat_prog, built in exec code by verif_sat_cfgbuild_program: struct literals, Vec::push,
//        BTreeMap::insert): ONE function `f` with TWO blocks, b0 = [Call f, return to b1] (a recursive direct call WITH
//        return target), b1 = [Return] with one indirect-jump target hint.  lemma_sat_cfgbuild_prog_wf PROVES cfg_prog_wf
//        (W1-W3) and cfg_positions_unique (W4) for it.  Clients of unit cfgbuild:
//          verif_sat_cfgbuild_get_cfg / _get_cfg_logs / _get_cfg_global / _new_build   the public functions + the stage-3 client
//          verif_sat_cfgbuild_drivers   new, add_program_blocks, add_subs_to_call_targets, add_jump_and_call_edges,
//                                       add_return_edges in the order of `build`, each on the state the previous one left
//          verif_sat_cfgbuild_steps     new, add_block x 2 (a NON-INITIAL state with 4 nodes: cfg_binv holds), add_subs_to_call_targets,
//                                       then add_intraprocedural_edge (untaken None and Some(CBranch)), add_indirect_jumps (one hint),
//                                       add_jump_edge (the call: a return address is PROVED to be registered), add_outgoing_edges,
//                                       add_call_return_node_and_edges (on a state with a registered return address)
//        Clients of unit cfgbuild_rc367 (its two contracted items are @raw: lemma_cfg_rc367_pre `requires cfg_graph_shape(g)`,
//        cfg_rc367_get_program_cfg `requires cfg_key_hyp(), cfg_prog_wf` -- it passes both on, it is not a witness itself):
//          verif_sat_cfgbuild_rc367_empty   UNCONDITIONAL: the empty graph (DiGraph::new) has cfg_graph_shape (degenerate: no edge)
//          verif_sat_cfgbuild_rc367_built   the graph get_program_cfg returns for the witness program; cfg_rc367_get_program_cfg on it
// ---------------------------------------------------------------------------

/// (d) opened: the provable half of obeys_cmp::<Tid>() is proved, the rest is spelled out (text of vstd::laws_cmp, with
/// eq_spec of Tid unfolded to `==`); the two obeys_key_model instances are uninterpreted in vstd
pub proof fn lemma_sat_cfgbuild_key_hyp_open()
    ensures
        vstd::laws_eq::obeys_eq::<Tid>(),
        <Tid as vstd::std_specs::cmp::PartialEqSpec>::obeys_eq_spec(),
        forall |x: Tid, y: Tid| #[trigger] vstd::std_specs::cmp::PartialEqSpec::eq_spec(&x, &y) <==> x == y,
        cfg_key_hyp() <==> {
            &&& vstd::std_specs::hash::obeys_key_model::<Tid>()
            &&& vstd::std_specs::hash::obeys_key_model::<(Tid, Tid)>()
            &&& <Tid as vstd::std_specs::cmp::PartialOrdSpec>::obeys_partial_cmp_spec()
            &&& <Tid as vstd::std_specs::cmp::OrdSpec>::obeys_cmp_spec()
            &&& forall |x: Tid, y: Tid| (x == y) <==> #[trigger] x.partial_cmp_spec(&y) == Some(core::cmp::Ordering::Equal)
            &&& forall |x: Tid, y: Tid| #[trigger] x.partial_cmp_spec(&y) == Some(x.cmp_spec(&y))
            &&& forall |x: Tid, y: Tid| #[trigger] x.partial_cmp_spec(&y) == Some(core::cmp::Ordering::Less)
                    <==> y.partial_cmp_spec(&x) == Some(core::cmp::Ordering::Greater)
            &&& forall |x: Tid, y: Tid, z: Tid| x.partial_cmp_spec(&y) == Some(core::cmp::Ordering::Less)
                    && #[trigger] y.partial_cmp_spec(&z) == Some(core::cmp::Ordering::Less)
                    ==> #[trigger] x.partial_cmp_spec(&z) == Some(core::cmp::Ordering::Less)
            &&& forall |x: Tid, y: Tid, z: Tid| x.partial_cmp_spec(&y) == Some(core::cmp::Ordering::Greater)
                    && #[trigger] y.partial_cmp_spec(&z) == Some(core::cmp::Ordering::Greater)
                    ==> #[trigger] x.partial_cmp_spec(&z) == Some(core::cmp::Ordering::Greater)
        },
{
    reveal(vstd::laws_cmp::obeys_cmp);
    reveal(vstd::laws_cmp::obeys_cmp_ord);
    reveal(vstd::laws_cmp::obeys_cmp_partial_ord);
    reveal(vstd::laws_cmp::obeys_partial_cmp_spec_properties);
    reveal(vstd::laws_eq::obeys_eq_spec_properties);
}

/// THE WITNESS PROGRAM, as a predicate on the view of `Program::subs`: ONE function (key = tid = kf) with TWO blocks
///   block 0 (tid t0): one jump  Call { target: kf (the function itself), return_: Some(t1) }
///   block 1 (tid t1): one jump  Return(..);  indirect-jump target hints [t0]
pub open spec fn cfg_sat_prog(subs: Map<Tid, Term<Sub>>, kf: Tid, t0: Tid, t1: Tid) -> bool {
    &&& forall |k: Tid| #[trigger] subs.contains_key(k) <==> k == kf
    &&& subs[kf].tid == kf
    &&& subs[kf].term.blocks@.len() == 2
    &&& subs[kf].term.blocks@[0].tid == t0
    &&& subs[kf].term.blocks@[1].tid == t1
    &&& t0 != t1
    &&& subs[kf].term.blocks@[0].term.jmps@.len() == 1
    &&& subs[kf].term.blocks@[0].term.jmps@[0].term == (Jmp::Call { target: kf, return_: Some(t1) })
    &&& subs[kf].term.blocks@[1].term.jmps@.len() == 1
    &&& subs[kf].term.blocks@[1].term.jmps@[0].term is Return
    &&& subs[kf].term.blocks@[1].term.indirect_jmp_targets@ =~= seq![t0]
}

/// the witness program is a WELL-FORMED NORMALIZED PROGRAM (cfg_prog_wf = W1 + W2 + W3) with unique positions (W4)
pub proof fn lemma_sat_cfgbuild_prog_wf(subs: Map<Tid, Term<Sub>>, kf: Tid, t0: Tid, t1: Tid)
    requires cfg_sat_prog(subs, kf, t0, t1),
    ensures
        cfg_prog_wf(subs),
        cfg_positions_unique(subs),
        cfg_has_block(subs, t0),
        cfg_has_block(subs, t1),
        cfg_prog_sub(subs, subs[kf]),
        cfg_prog_block(subs, subs[kf].term.blocks@[0]),
        cfg_prog_block(subs, subs[kf].term.blocks@[1]),
{
    let f = subs[kf];
    assert(cfg_block_at(subs, kf, 0, f.term.blocks@[0]));
    assert(cfg_block_at(subs, kf, 1, f.term.blocks@[1]));
    assert(subs.contains_key(kf));
    assert forall |b: Term<Blk>| #[trigger] cfg_prog_block(subs, b) implies b == f.term.blocks@[0] || b == f.term.blocks@[1] by {
        let (k, i) = choose |k: Tid, i: int| #[trigger] cfg_block_at(subs, k, i, b);
        assert(k == kf);
    }
    assert(f.term.blocks@[1].term.indirect_jmp_targets@[0] == t0);
}

fn verif_sat_cfgbuild_tid(id: &str) -> (r: Tid)
    ensures r.id@ == id@,
{
    Tid { id: id.to_string(), address: "".to_string() }
}

/// (a') the witness program BUILT IN EXEC CODE (struct literals, Vec::push, BTreeMap::insert)
pub fn verif_sat_cfgbuild_program() -> (r: (Term<Program>, Tid, Tid, Tid))
    requires cfg_key_hyp(),
    ensures cfg_sat_prog(r.0.term.subs@, r.1, r.2, r.3),
{
    let kf = verif_sat_cfgbuild_tid("f");
    let t0 = verif_sat_cfgbuild_tid("b0");
    let t1 = verif_sat_cfgbuild_tid("b1");
    proof {
        reveal_strlit("b0"); reveal_strlit("b1");
        assert("b0"@[1] != "b1"@[1]);
    }
    let call = Term { tid: verif_sat_cfgbuild_tid("j0"), term: Jmp::Call { target: kf.clone(), return_: Some(t1.clone()) } };
    let ret = Term { tid: verif_sat_cfgbuild_tid("j1"),
                     term: Jmp::Return(Expression::Var(Variable { name: "lr".to_string(), size: ByteSize(8), is_temp: false })) };
    let mut jmps0: Vec<Term<Jmp>> = Vec::new();
    jmps0.push(call);
    let mut jmps1: Vec<Term<Jmp>> = Vec::new();
    jmps1.push(ret);
    let mut hints: Vec<Tid> = Vec::new();
    hints.push(t0.clone());
    let b0 = Term { tid: t0.clone(), term: Blk { defs: Vec::new(), jmps: jmps0, indirect_jmp_targets: Vec::new() } };
    let b1 = Term { tid: t1.clone(), term: Blk { defs: Vec::new(), jmps: jmps1, indirect_jmp_targets: hints } };
    let mut blocks: Vec<Term<Blk>> = Vec::new();
    blocks.push(b0);
    blocks.push(b1);
    let f = Term { tid: kf.clone(), term: Sub { name: "f".to_string(), blocks: blocks, calling_convention: None } };
    let mut subs: std::collections::BTreeMap<Tid, Term<Sub>> = std::collections::BTreeMap::new();
    subs.insert(kf.clone(), f);
    let program = Term {
        tid: verif_sat_cfgbuild_tid("prog"),
        term: Program { subs: subs, extern_symbols: std::collections::BTreeMap::new(), entry_points: BTreeSet::new(), address_base_offset: 0 },
    };
    (program, kf, t0, t1)
}

/// (a') get_program_cfg on the witness program, get_entry_nodes_of_subs on the graph that was built
pub fn verif_sat_cfgbuild_get_cfg()
    requires cfg_key_hyp(),
{
    let (program, kf, t0, t1) = verif_sat_cfgbuild_program();
    proof { lemma_sat_cfgbuild_prog_wf(program.term.subs@, kf, t0, t1); }
    let g = get_program_cfg(&program);
    let m = get_entry_nodes_of_subs(&g);
}

/// (a') get_program_cfg_with_logs on the witness program
pub fn verif_sat_cfgbuild_get_cfg_logs()
    requires cfg_key_hyp(),
{
    let (program, kf, t0, t1) = verif_sat_cfgbuild_program();
    proof { lemma_sat_cfgbuild_prog_wf(program.term.subs@, kf, t0, t1); }
    let (g, logs) = get_program_cfg_with_logs(&program);
}

/// (a') the stage-3 client cfg_get_program_cfg_global (cfg_prog_wf + cfg_positions_unique) on the witness program
pub fn verif_sat_cfgbuild_get_cfg_global()
    requires cfg_key_hyp(),
{
    // (the postcondition is not needed here: hidden, so that the negative control `assert(false)` fails fast)
    hide(cfg_global_post); hide(cfg_closed_post);
    let (program, kf, t0, t1) = verif_sat_cfgbuild_program();
    proof { lemma_sat_cfgbuild_prog_wf(program.term.subs@, kf, t0, t1); }
    let g = cfg_get_program_cfg_global(&program);
}

/// (a') GraphBuilder::new + build on the witness program; Node::get_block / get_sub on a BlkEnd node
pub fn verif_sat_cfgbuild_new_build()
    requires cfg_key_hyp(),
{
    let (program, kf, t0, t1) = verif_sat_cfgbuild_program();
    proof { lemma_sat_cfgbuild_prog_wf(program.term.subs@, kf, t0, t1); }
    let ext: std::collections::HashSet<Tid> = std::collections::HashSet::new();
    let mut b = GraphBuilder::new(&program, ext);
    let g = b.build();
    let f = program.term.subs.get(&kf).unwrap();
    let n = Node::BlkEnd(&f.term.blocks[1], f);
    let _ = n.get_block();
    let _ = n.get_sub();
}

/// (a') the four DRIVER LOOPS in the order of `build`, each on the state the previous one produced, on the witness program
pub fn verif_sat_cfgbuild_drivers()
    requires cfg_key_hyp(),
{
    broadcast use lemma_cfg_st_eq;
    let (program, kf, t0, t1) = verif_sat_cfgbuild_program();
    proof { lemma_sat_cfgbuild_prog_wf(program.term.subs@, kf, t0, t1); }
    let ghost subs = program.term.subs@;
    let ext: std::collections::HashSet<Tid> = std::collections::HashSet::new();
    let mut b = GraphBuilder::new(&program, ext);
    let ghost s0 = cfg_abs(b);
    proof { lemma_cfg_inv_empty(s0, subs); }
    // add_program_blocks: cfg_binv
    b.add_program_blocks();
    proof { lemma_cfg_firsts_registered(s0, cfg_abs(b), subs); }
    // add_subs_to_call_targets: cfg_binv, cfg_firsts_registered, cfg_sub_tids_unique
    b.add_subs_to_call_targets();
    // add_jump_and_call_edges: cfg_binv, cfg_blocks_wf
    b.add_jump_and_call_edges();
    // add_return_edges: cfg_binv
    b.add_return_edges();
}

/// (a') the SINGLE STEPS on a NON-INITIAL builder state: new, add_block for both blocks of the witness program, then every
/// inner step with a BlkEnd node of that state as source
pub fn verif_sat_cfgbuild_steps()
    requires cfg_key_hyp(),
{
    broadcast use lemma_cfg_st_eq;
    let (program, kf, t0, t1) = verif_sat_cfgbuild_program();
    proof { lemma_sat_cfgbuild_prog_wf(program.term.subs@, kf, t0, t1); }
    let ghost subs = program.term.subs@;
    let f = program.term.subs.get(&kf).unwrap();
    let b0 = &f.term.blocks[0];
    let b1 = &f.term.blocks[1];
    let call = &b0.term.jmps[0];
    let ret = &b1.term.jmps[0];
    // a conditional branch to hand over as "untaken conditional" (cfg_untaken_ok with Some(..))
    let cbr = Term { tid: verif_sat_cfgbuild_tid("j2"),
                     term: Jmp::CBranch { target: t0.clone(), condition: Expression::Var(Variable { name: "c".to_string(), size: ByteSize(1), is_temp: false }) } };
    let ext: std::collections::HashSet<Tid> = std::collections::HashSet::new();
    let mut b = GraphBuilder::new(&program, ext);
    proof { lemma_cfg_inv_empty(cfg_abs(b), subs); }
    let (s0, e0) = b.add_block(b0, f);
    let (s1, e1) = b.add_block(b1, f);
    let ghost st2 = cfg_abs(b);
    assert(st2.nodes.len() == 4 && st2.nodes[1] == Node::BlkEnd(b0, f) && st2.nodes[3] == Node::BlkEnd(b1, f));
    // add_subs_to_call_targets: cfg_binv, cfg_firsts_registered, cfg_sub_tids_unique
    assert(cfg_registered(st2, *b0, *f));
    b.add_subs_to_call_targets();
    assert(cfg_abs(b).ct.contains_key(kf)) by { assert(cfg_callable(subs, kf)); }
    // add_intraprocedural_edge: cfg_binv, cfg_is_end, cfg_has_block, cfg_untaken_ok
    b.add_intraprocedural_edge(e1, &t0, ret, None);
    b.add_intraprocedural_edge(e1, &t1, ret, Some(&cbr));
    // add_indirect_jumps: cfg_binv, cfg_is_end, cfg_targets_exist (the block of e1 has ONE target hint), cfg_untaken_ok
    b.add_indirect_jumps(e1, ret, None);
    // add_jump_edge: cfg_binv, cfg_is_end, cfg_jump_wf (a direct call with a return target), cfg_untaken_ok
    b.add_jump_edge(e0, call, None);
    // the call was linked to the function: a return address is registered, so the loop of add_call_return_node_and_edges runs
    assert(cfg_abs(b).ra.contains_key(kf) && cfg_abs(b).ra[kf].len() > 0);
    // add_outgoing_edges: cfg_binv, cfg_is_end, block of the node, cfg_block_wf
    b.add_outgoing_edges(e0, b0);
    // add_call_return_node_and_edges: cfg_binv, cfg_is_return_end
    b.add_call_return_node_and_edges(f, e1);
}

/// (a') unconditional: the empty graph satisfies the hypothesis of lemma_cfg_rc367_pre
pub fn verif_sat_cfgbuild_rc367_empty<'a>(Ghost(m): Ghost<Map<Tid, ExternSymbol>>, Ghost(pairs): Ghost<Seq<(String, String)>>)
{
    let g: Graph<'a> = DiGraph::new();
    proof { lemma_cfg_rc367_pre(g, m, pairs); }
}

/// (a') relative to (d): the graph built for the witness program satisfies it; the @raw client on the same program
pub fn verif_sat_cfgbuild_rc367_built(Ghost(m): Ghost<Map<Tid, ExternSymbol>>, Ghost(pairs): Ghost<Seq<(String, String)>>)
    requires cfg_key_hyp(),
{
    let (program, kf, t0, t1) = verif_sat_cfgbuild_program();
    proof { lemma_sat_cfgbuild_prog_wf(program.term.subs@, kf, t0, t1); }
    // lemma_cfg_rc367_pre: cfg_graph_shape(g)
    let g = get_program_cfg(&program);
    proof { lemma_cfg_rc367_pre(g, m, pairs); }
    // cfg_rc367_get_program_cfg: cfg_key_hyp(), cfg_prog_wf
    let g2 = cfg_rc367_get_program_cfg(&program);
}
