// ---------------------------------------------------------------------------
// lemmas/fixpoint_sat.rs -- SATISFIABILITY WITNESSES of the preconditions of unit `fixpoint` (nothing here is trusted).
//   (c) FxSatCtx: a toy Context (node values = bool, merge = ||, every edge transfer = identity) over an ARBITRARY
//       petgraph DiGraph; lemma_sat_fixpoint_lattice_ok PROVES the hypothesis lattice_ok for every such context.
//   (a) verif_sat_fixpoint_chain: a verified exec client WITHOUT preconditions that builds the identity priority list
//       of the context's graph and calls every contracted function of the unit; Verus checks the REAL `requires` at
//       each call.  Calls that need a node / an edge sit under `if node_count > 0` / `if let Some(..) = edge_endpoints(..)`:
//       the shim says nothing about which graphs exist (node_count_spec / edge_seq are uninterpreted), so "some graph
//       has a node / an edge" is outside the logic; no shim axiom bounds them from above except node_count <= u32::MAX.
//       verif_sat_fixpoint_clients: the same for the two verified clients verif_c07_client_compute / _max_steps (node 0).
// ---------------------------------------------------------------------------

pub struct FxSatCtx { pub g: DiGraph<u8, u8> }

impl Context for FxSatCtx {
    type EdgeLabel = u8;
    type NodeLabel = u8;
    type NodeValue = bool;

    open spec fn graph_spec(&self) -> DiGraph<u8, u8> { self.g }
    open spec fn merge_spec(&self, val1: bool, val2: bool) -> bool { val1 || val2 }
    open spec fn update_edge_spec(&self, value: bool, edge: EdgeIndex) -> Option<bool> { Some(value) }

    fn get_graph(&self) -> (r: &DiGraph<u8, u8>) { &self.g }
    fn merge(&self, val1: &bool, val2: &bool) -> (r: bool) { *val1 || *val2 }
    fn update_edge(&self, value: &bool, edge: EdgeIndex) -> (r: Option<bool>) { Some(*value) }
}

/// (c) the Context hypothesis of every contract of the unit holds for the toy context, whatever its graph
pub proof fn lemma_sat_fixpoint_lattice_ok(c: FxSatCtx)
    ensures lattice_ok(c), merge_laws(c), eq_is_spec_eq::<bool>(),
{
    reveal(merge_laws);
}

/// the identity priority list 0, 1, .., n-1 of the graph of `ctx`
fn verif_sat_fixpoint_identity_order(ctx: &FxSatCtx) -> (order: Vec<NodeIndex>)
    ensures is_node_permutation(order@, ctx.graph_spec().node_count_spec()),
{
    let n = ctx.g.node_count();
    let mut order: Vec<NodeIndex> = Vec::new();
    let mut i: usize = 0;
    while i < n
        invariant
            n == ctx.g.node_count_spec(), n <= u32::MAX, i <= n,
            order@.len() == i,
            forall |j: int| 0 <= j < i ==> (#[trigger] order@[j]).i == j,
        decreases n - i,
    {
        order.push(NodeIndex::new(i));
        i += 1;
    }
    proof {
        assert forall |k: int| 0 <= k < n implies #[trigger] takes_value(order@, k) by {
            assert(order@[k].i == k);
        }
    }
    order
}

/// (a) every contracted function of the unit is called once; no precondition on `ctx`
#[verifier::exec_allows_no_decreases_clause]
pub fn verif_sat_fixpoint_chain(ctx: FxSatCtx, ctx2: FxSatCtx, max_steps: u64)
{
    proof { lemma_sat_fixpoint_lattice_ok(ctx); lemma_sat_fixpoint_lattice_ok(ctx2); }
    let n = ctx.g.node_count();
    let first_edge = ctx.g.edge_endpoints(EdgeIndex::new(0));
    let order = verif_sat_fixpoint_identity_order(&ctx);
    // from_node_priority_list: is_node_permutation
    let mut c = Computation::from_node_priority_list(ctx, Some(false), order);
    // take_next_node_from_worklist: wf
    let _ = c.take_next_node_from_worklist();
    if n > 0 {
        // set_node_value / merge_node_value / update_node: wf, lattice_ok, node < nn
        c.set_node_value(NodeIndex::new(0), true);
        c.merge_node_value(NodeIndex::new(0), true);
        c.update_node(NodeIndex::new(0));
    }
    if let Some(_p) = first_edge {
        // update_edge: wf, lattice_ok, valid_edge
        c.update_edge(EdgeIndex::new(0));
    }
    // compute / compute_with_max_steps: wf, lattice_ok, closed_off(worklist) -- on fresh computations
    let order2 = verif_sat_fixpoint_identity_order(&ctx2);
    let mut c2 = Computation::from_node_priority_list(ctx2, Some(true), order2);
    c2.compute_with_max_steps(max_steps);
    c2.compute();
}

/// (a) the two verified CLIENTS of the unit (they pass lattice_ok / is_node_permutation / start_node < node_count on as `requires`)
#[verifier::exec_allows_no_decreases_clause]
pub fn verif_sat_fixpoint_clients(ctx: FxSatCtx, ctx2: FxSatCtx, max_steps: u64)
{
    proof { lemma_sat_fixpoint_lattice_ok(ctx); lemma_sat_fixpoint_lattice_ok(ctx2); }
    if ctx.g.node_count() > 0 && ctx2.g.node_count() > 0 {
        let order = verif_sat_fixpoint_identity_order(&ctx);
        let order2 = verif_sat_fixpoint_identity_order(&ctx2);
        let _ = verif_c07_client_compute(ctx, None, order, NodeIndex::new(0), true);
        let _ = verif_c07_client_max_steps(ctx2, Some(false), order2, NodeIndex::new(0), true, max_steps);
    }
}
