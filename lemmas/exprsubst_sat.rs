// ---------------------------------------------------------------------------
// lemmas/exprsubst_sat.rs -- SATISFIABILITY WITNESSES of the preconditions of unit `exprsubst` (nothing here is trusted).
//   The only precondition of the unit is `es_wf(e)` (well-sizedness of the recursive `Expression`), on 8 of its 9 functions.
//   (a') verif_sat_exprsubst_*: verified exec clients WITHOUT `requires` that BUILD a non-trivial expression (variables
//       `"x".to_string()` of 4 / 1 bytes, constants Bitvector::from_u32 / from_u8, Box::new children; depth up to 4) and CALL the
//       real function; Verus checks the REAL `requires es_wf(..)` at the call.  The expressions are chosen so that a rewrite of
//       the function FIRES when it is executed (x ^ x; x | 0 and b ^^ 1; 0 == x - y and (x <s y) || (x == y);
//       (a - b <s 0) != (a sborrow b); 1 + 2, (x + 1) + 2 and (x - 1) - 2; SUBPIECE(ZEXT(x)) next to y ^ y).  Firing itself is
//       not visible in the contracts (es_same says nothing about which rewrite was taken) except for
//       unpack_a_minus_b_less_than_zero, where `r is Some` is asserted.
//   Nothing stays conditional; no (d) hypothesis in this unit.  unpack_a_intsborrow_b has no precondition (called anyway).
// ---------------------------------------------------------------------------

/// the variable `name` of `size` bytes as an expression
fn verif_sat_exprsubst_var(name: &str, size: u64) -> (r: Expression)
    ensures r is Var, r->Var_0.size.0 == size, r->Var_0.name@ == name@,
{
    Expression::Var(Variable { name: name.to_string(), size: ByteSize(size), is_temp: false })
}

fn verif_sat_exprsubst_bin(op: BinOpType, lhs: Expression, rhs: Expression) -> (r: Expression)
    ensures r == (Expression::BinOp { op, lhs: Box::new(lhs), rhs: Box::new(rhs) }),
{
    Expression::BinOp { op, lhs: Box::new(lhs), rhs: Box::new(rhs) }
}

/// x ^ x (4 bytes): the `a xor a = 0` rewrite
pub fn verif_sat_exprsubst_lhs_equal_rhs()
{
    let x = verif_sat_exprsubst_var("x", 4);
    let x2 = x.clone();
    let mut e = verif_sat_exprsubst_bin(BinOpType::IntXOr, x, x2);
    proof { reveal_with_fuel(es_wf, 3); reveal_with_fuel(expr_bytes, 3); }
    e.substitute_binop_for_lhs_equal_rhs();
}

/// x | 0 (4 bytes) and b ^^ 1 (1 byte): `a or 0 = a`, `a xor 1 = !a`
pub fn verif_sat_exprsubst_const_bits()
{
    proof { reveal_with_fuel(es_wf, 3); reveal_with_fuel(expr_bytes, 3); }
    let x = verif_sat_exprsubst_var("x", 4);
    let mut e = verif_sat_exprsubst_bin(BinOpType::IntOr, x, Expression::Const(Bitvector::from_u32(0)));
    e.substitute_and_xor_or_with_constant();
    let b = verif_sat_exprsubst_var("b", 1);
    let mut e2 = verif_sat_exprsubst_bin(BinOpType::BoolXOr, b, Expression::Const(Bitvector::from_u8(1)));
    e2.substitute_and_xor_or_with_constant();
}

/// 0 == x - y and (x <s y) || (x == y)
pub fn verif_sat_exprsubst_cmp()
{
    proof { reveal_with_fuel(es_wf, 4); reveal_with_fuel(expr_bytes, 4); }
    let x = verif_sat_exprsubst_var("x", 4);
    let y = verif_sat_exprsubst_var("y", 4);
    let d = verif_sat_exprsubst_bin(BinOpType::IntSub, x.clone(), y.clone());
    let mut e = verif_sat_exprsubst_bin(BinOpType::IntEqual, Expression::Const(Bitvector::from_u32(0)), d);
    e.substitute_equivalent_comparison_ops();
    let lt = verif_sat_exprsubst_bin(BinOpType::IntSLess, x.clone(), y.clone());
    let eq = verif_sat_exprsubst_bin(BinOpType::IntEqual, x, y);
    let mut e2 = verif_sat_exprsubst_bin(BinOpType::BoolOr, lt, eq);
    e2.substitute_equivalent_comparison_ops();
}

/// (a - b <s 0) != (a sborrow b): both helpers answer Some, the rewrite to a <s b fires
pub fn verif_sat_exprsubst_sborrow()
{
    proof { reveal_with_fuel(es_wf, 5); reveal_with_fuel(expr_bytes, 5); }
    let a = verif_sat_exprsubst_var("a", 4);
    let b = verif_sat_exprsubst_var("b", 4);
    let d = verif_sat_exprsubst_bin(BinOpType::IntSub, a.clone(), b.clone());
    let lt0 = verif_sat_exprsubst_bin(BinOpType::IntSLess, d, Expression::Const(Bitvector::from_u32(0)));
    let r = unpack_a_minus_b_less_than_zero(&lt0);
    assert(r is Some);
    let sb = verif_sat_exprsubst_bin(BinOpType::IntSBorrow, a, b);
    let r2 = unpack_a_intsborrow_b(&sb);
    assert(r2 is Some);
    let mut e = verif_sat_exprsubst_bin(BinOpType::IntNotEqual, lt0, sb);
    e.substitute_complicated_a_less_than_b();
}

/// 1 + 2, (x + 1) + 2, (x - 1) - 2 (4 bytes)
pub fn verif_sat_exprsubst_arith()
{
    proof { reveal_with_fuel(es_wf, 4); reveal_with_fuel(expr_bytes, 4); }
    let mut e = verif_sat_exprsubst_bin(BinOpType::IntAdd, Expression::Const(Bitvector::from_u32(1)), Expression::Const(Bitvector::from_u32(2)));
    e.substitute_arithmetics_with_constants();
    let x = verif_sat_exprsubst_var("x", 4);
    let x1 = verif_sat_exprsubst_bin(BinOpType::IntAdd, x.clone(), Expression::Const(Bitvector::from_u32(1)));
    let mut e2 = verif_sat_exprsubst_bin(BinOpType::IntAdd, x1, Expression::Const(Bitvector::from_u32(2)));
    e2.substitute_arithmetics_with_constants();
    let xm1 = verif_sat_exprsubst_bin(BinOpType::IntSub, x, Expression::Const(Bitvector::from_u32(1)));
    let mut e3 = verif_sat_exprsubst_bin(BinOpType::IntSub, xm1, Expression::Const(Bitvector::from_u32(2)));
    e3.substitute_arithmetics_with_constants();
}

/// the five passes on (x <=u y) && (x != y)
pub fn verif_sat_exprsubst_binops()
{
    proof { reveal_with_fuel(es_wf, 4); reveal_with_fuel(expr_bytes, 4); }
    let x = verif_sat_exprsubst_var("x", 4);
    let y = verif_sat_exprsubst_var("y", 4);
    let le = verif_sat_exprsubst_bin(BinOpType::IntLessEqual, x.clone(), y.clone());
    let ne = verif_sat_exprsubst_bin(BinOpType::IntNotEqual, x, y);
    let mut e = verif_sat_exprsubst_bin(BinOpType::BoolAnd, le, ne);
    e.substitute_trivial_binops();
}

/// SUBPIECE(0, 4, ZEXT8(x)) & (y ^ y): recursion into both children, the subpiece-of-extension rewrite and x ^ x fire
pub fn verif_sat_exprsubst_main()
{
    proof { reveal_with_fuel(es_wf, 5); reveal_with_fuel(expr_bytes, 5); }
    let x = verif_sat_exprsubst_var("x", 4);
    let y = verif_sat_exprsubst_var("y", 4);
    let zx = Expression::Cast { op: CastOpType::IntZExt, size: ByteSize(8), arg: Box::new(x) };
    let sp = Expression::Subpiece { low_byte: ByteSize(0), size: ByteSize(4), arg: Box::new(zx) };
    let yy = verif_sat_exprsubst_bin(BinOpType::IntXOr, y.clone(), y);
    let mut e = verif_sat_exprsubst_bin(BinOpType::IntAnd, sp, yy);
    e.substitute_trivial_operations();
}
