// ---------------------------------------------------------------------------
// lemmas/domain_map.rs -- proof-only lemmas of unit `domain_map` (property C03 for keyed maps).  All proved.
// They derive the C03 clauses (over-approximation, stability) of each strategy, under that strategy's reading of a
// missing key, from the WHOLE-MAP specification of the strategy (dm_union_spec / dm_intersect_spec /
// dm_mergetop_spec) and the hypotheses on the value domain V (dm_merge_hyp, dm_top_is_max, dm_top_default).
// ---------------------------------------------------------------------------

// ---- iteration -----------------------------------------------------------------------------------------------------

/// one step of a loop over `m.iter()`
pub proof fn lemma_dm_iter_step<K, V>(s: Seq<(&K, &V)>, m: Map<K, V>, i: int)
    requires dm_iter_of(s, m), 0 <= i < s.len(),
    ensures
        !dm_iter_visited(s, i, *s[i].0),
        forall |k: K| dm_iter_visited(s, i + 1, k) <==> (dm_iter_visited(s, i, k) || k == *s[i].0),
{
    if dm_iter_visited(s, i, *s[i].0) {
        let j = choose |j: int| 0 <= j < i && *(#[trigger] s[j]).0 == *s[i].0;
        assert(m[*s[j].0] == *s[j].1);
        assert(m[*s[i].0] == *s[i].1);
        assert(*s[j].1 == *s[i].1);
        assert(s[j] == s[i]);
    }
    assert forall |k: K| dm_iter_visited(s, i + 1, k) <==> (dm_iter_visited(s, i, k) || k == *s[i].0) by {
        if dm_iter_visited(s, i + 1, k) {
            let j = choose |j: int| 0 <= j < i + 1 && *(#[trigger] s[j]).0 == k;
            if j < i { assert(dm_iter_visited(s, i, k)); }
        }
        if dm_iter_visited(s, i, k) {
            let j = choose |j: int| 0 <= j < i && *(#[trigger] s[j]).0 == k;
            assert(0 <= j < i + 1 && *s[j].0 == k);
        }
        if k == *s[i].0 { assert(0 <= i < i + 1 && *s[i].0 == k); }
    }
}

/// at the end of the iteration exactly the keys of the map have been visited
pub proof fn lemma_dm_iter_done<K, V>(s: Seq<(&K, &V)>, m: Map<K, V>)
    requires dm_iter_of(s, m),
    ensures forall |k: K| dm_iter_visited(s, s.len() as int, k) <==> m.contains_key(k),
{
    assert forall |k: K| dm_iter_visited(s, s.len() as int, k) <==> m.contains_key(k) by {
        if dm_iter_visited(s, s.len() as int, k) {
            let j = choose |j: int| 0 <= j < s.len() && *(#[trigger] s[j]).0 == k;
            assert(m.contains_key(*s[j].0));
        }
    }
}

/// one step of a loop over the key list of a map
pub proof fn lemma_dm_keys_step<K, V>(l: Seq<K>, m: Map<K, V>, i: int)
    requires dm_keys_of(l, m), 0 <= i < l.len(),
    ensures
        m.contains_key(l[i]),
        !dm_keys_visited(l, i, l[i]),
        forall |k: K| dm_keys_visited(l, i + 1, k) <==> (dm_keys_visited(l, i, k) || k == l[i]),
{
    if dm_keys_visited(l, i, l[i]) {
        let j = choose |j: int| 0 <= j < i && #[trigger] l[j] == l[i];
        assert(l[j] != l[i]);
    }
    assert forall |k: K| dm_keys_visited(l, i + 1, k) <==> (dm_keys_visited(l, i, k) || k == l[i]) by {
        if dm_keys_visited(l, i + 1, k) {
            let j = choose |j: int| 0 <= j < i + 1 && #[trigger] l[j] == k;
            if j < i { assert(dm_keys_visited(l, i, k)); }
        }
        if dm_keys_visited(l, i, k) {
            let j = choose |j: int| 0 <= j < i && #[trigger] l[j] == k;
            assert(0 <= j < i + 1 && l[j] == k);
        }
        if k == l[i] { assert(0 <= i < i + 1 && l[i] == k); }
    }
}

/// at the end of the key list exactly the keys of the map have been visited
pub proof fn lemma_dm_keys_done<K, V>(l: Seq<K>, m: Map<K, V>)
    requires dm_keys_of(l, m),
    ensures forall |k: K| dm_keys_visited(l, l.len() as int, k) <==> m.contains_key(k),
{
    assert forall |k: K| dm_keys_visited(l, l.len() as int, k) <==> m.contains_key(k) by {
        if dm_keys_visited(l, l.len() as int, k) {
            let j = choose |j: int| 0 <= j < l.len() && #[trigger] l[j] == k;
            assert(m.contains_key(l[j]));
        }
    }
}

// ---- the two hypotheses on V::merge, instantiated --------------------------------------------------------------------

/// (over) for one pair of values
pub proof fn lemma_dm_v_over<V: AbstractDomain>(x: V, y: V, c: V::Concrete)
    requires dm_merge_hyp::<V>(), x.merge_pre_spec(&y), x.gamma_spec(c) || y.gamma_spec(c),
    ensures x.merge_spec(&y).gamma_spec(c),
{
}

/// (stable) for one pair of values
pub proof fn lemma_dm_v_stable<V: AbstractDomain>(x: V, y: V, c: V::Concrete)
    requires
        dm_merge_hyp::<V>(), x.merge_pre_spec(&y),
        forall |d: V::Concrete| y.gamma_spec(d) ==> x.gamma_spec(d),
        x.merge_spec(&y).gamma_spec(c),
    ensures x.gamma_spec(c),
{
    let m = x.merge_spec(&y);
    assert(forall |d: V::Concrete| #[trigger] m.gamma_spec(d) ==> x.gamma_spec(d));
}

// ---- UnionMergeStrategy ------------------------------------------------------------------------------------------------

/// C03 for the union merge under the Union reading (a missing key has the bottom value)
pub proof fn lemma_dm_union_c03<K, V: AbstractDomain>(a: Map<K, V>, b: Map<K, V>)
    requires dm_merge_hyp::<V>(), dm_common_pre(a, b),
    ensures
        // every pair represented by either input is represented by the merge
        forall |k: K, c: V::Concrete| #![trigger dm_union_represents(dm_union_spec(a, b), k, c)]
            dm_union_represents(a, k, c) || dm_union_represents(b, k, c) ==> dm_union_represents(dm_union_spec(a, b), k, c),
        // merging with something already absorbed does not enlarge the represented set
        (forall |k: K, c: V::Concrete| #![trigger dm_union_represents(b, k, c)] dm_union_represents(b, k, c) ==> dm_union_represents(a, k, c))
            ==> (forall |k: K, c: V::Concrete| #![trigger dm_union_represents(dm_union_spec(a, b), k, c)]
                    dm_union_represents(dm_union_spec(a, b), k, c) ==> dm_union_represents(a, k, c)),
{
    let r = dm_union_spec(a, b);
    assert forall |k: K, c: V::Concrete| dm_union_represents(a, k, c) || dm_union_represents(b, k, c)
        implies #[trigger] dm_union_represents(r, k, c) by {
        assert(r.contains_key(k));
        if a.contains_key(k) && b.contains_key(k) { lemma_dm_v_over(a[k], b[k], c); }
    }
    if forall |k: K, c: V::Concrete| #![trigger dm_union_represents(b, k, c)] dm_union_represents(b, k, c) ==> dm_union_represents(a, k, c) {
        assert forall |k: K, c: V::Concrete| #[trigger] dm_union_represents(r, k, c) implies dm_union_represents(a, k, c) by {
            if a.contains_key(k) && b.contains_key(k) {
                assert forall |d: V::Concrete| b[k].gamma_spec(d) implies a[k].gamma_spec(d) by {
                    assert(dm_union_represents(b, k, d));
                }
                lemma_dm_v_stable(a[k], b[k], c);
            } else if b.contains_key(k) {
                assert(dm_union_represents(b, k, c));
            }
        }
    }
}

// ---- IntersectMergeStrategy --------------------------------------------------------------------------------------------

/// C03 for the intersect merge under the Intersect reading (a missing key has the maximal Top value)
pub proof fn lemma_dm_intersect_c03<K, V: AbstractDomain>(a: Map<K, V>, b: Map<K, V>)
    requires dm_merge_hyp::<V>(), dm_common_pre(a, b),
    ensures
        forall |k: K, c: V::Concrete| #![trigger dm_intersect_represents(dm_intersect_spec(a, b), k, c)]
            dm_intersect_represents(a, k, c) || dm_intersect_represents(b, k, c) ==> dm_intersect_represents(dm_intersect_spec(a, b), k, c),
        (dm_top_is_max::<V>() && (forall |k: K, c: V::Concrete| #![trigger dm_intersect_represents(b, k, c)] dm_intersect_represents(b, k, c) ==> dm_intersect_represents(a, k, c)))
            ==> (forall |k: K, c: V::Concrete| #![trigger dm_intersect_represents(dm_intersect_spec(a, b), k, c)]
                    dm_intersect_represents(dm_intersect_spec(a, b), k, c) ==> dm_intersect_represents(a, k, c)),
{
    let r = dm_intersect_spec(a, b);
    assert forall |k: K, c: V::Concrete| dm_intersect_represents(a, k, c) || dm_intersect_represents(b, k, c)
        implies #[trigger] dm_intersect_represents(r, k, c) by {
        if r.contains_key(k) {
            assert(dm_intersect_keeps(a, b, k));
            lemma_dm_v_over(a[k], b[k], c);
        }
    }
    if dm_top_is_max::<V>() && (forall |k: K, c: V::Concrete| #![trigger dm_intersect_represents(b, k, c)] dm_intersect_represents(b, k, c) ==> dm_intersect_represents(a, k, c)) {
        assert forall |k: K, c: V::Concrete| #[trigger] dm_intersect_represents(r, k, c) implies dm_intersect_represents(a, k, c) by {
            if a.contains_key(k) {
                if b.contains_key(k) {
                    let m = a[k].merge_spec(&b[k]);
                    assert forall |d: V::Concrete| b[k].gamma_spec(d) implies a[k].gamma_spec(d) by {
                        assert(dm_intersect_represents(b, k, d));
                    }
                    if m.is_top_spec() {
                        // dropped: the merged value represents everything and is absorbed by a[k]
                        assert(m.gamma_spec(c));
                    } else {
                        assert(dm_intersect_keeps(a, b, k));
                        assert(r.contains_key(k));
                    }
                    lemma_dm_v_stable(a[k], b[k], c);
                } else {
                    // b reads k as Top: a[k] absorbed everything
                    assert(dm_intersect_represents(b, k, c));
                }
            }
        }
    }
}

// ---- MergeTopStrategy --------------------------------------------------------------------------------------------------

/// C03 for the MergeTop merge (the code's rule) under the MergeTop reading (a missing key has the default value Top)
pub proof fn lemma_dm_mergetop_c03<K, V: AbstractDomain + HasTop>(a: Map<K, V>, b: Map<K, V>)
    requires dm_merge_hyp::<V>(), dm_top_default::<V>(), dm_mergetop_pre(a, b),
    ensures
        forall |k: K, c: V::Concrete| #![trigger dm_mergetop_represents(dm_mergetop_spec(a, b), k, c)]
            dm_mergetop_represents(a, k, c) || dm_mergetop_represents(b, k, c) ==> dm_mergetop_represents(dm_mergetop_spec(a, b), k, c),
        (forall |k: K, c: V::Concrete| #![trigger dm_mergetop_represents(b, k, c)] dm_mergetop_represents(b, k, c) ==> dm_mergetop_represents(a, k, c))
            ==> (forall |k: K, c: V::Concrete| #![trigger dm_mergetop_represents(dm_mergetop_spec(a, b), k, c)]
                    dm_mergetop_represents(dm_mergetop_spec(a, b), k, c) ==> dm_mergetop_represents(a, k, c)),
{
    let r = dm_mergetop_spec(a, b);
    assert forall |k: K, c: V::Concrete| dm_mergetop_represents(a, k, c) || dm_mergetop_represents(b, k, c)
        implies #[trigger] dm_mergetop_represents(r, k, c) by {
        lemma_dm_mergetop_key_over(a, b, k, c);
    }
    if forall |k: K, c: V::Concrete| #![trigger dm_mergetop_represents(b, k, c)] dm_mergetop_represents(b, k, c) ==> dm_mergetop_represents(a, k, c) {
        assert forall |k: K, c: V::Concrete| #[trigger] dm_mergetop_represents(r, k, c) implies dm_mergetop_represents(a, k, c) by {
            assert forall |d: V::Concrete| dm_mergetop_represents(b, k, d) implies dm_mergetop_represents(a, k, d) by {}
            lemma_dm_mergetop_key_stable(a, b, k, c);
        }
    }
}

/// (over) at one key
pub proof fn lemma_dm_mergetop_key_over<K, V: AbstractDomain + HasTop>(a: Map<K, V>, b: Map<K, V>, k: K, c: V::Concrete)
    requires
        dm_merge_hyp::<V>(), dm_top_default::<V>(), dm_mergetop_pre(a, b),
        dm_mergetop_represents(a, k, c) || dm_mergetop_represents(b, k, c),
    ensures dm_mergetop_represents(dm_mergetop_spec(a, b), k, c),
{
    let r = dm_mergetop_spec(a, b);
    if a.contains_key(k) {
        let f = dm_mergetop_first(a[k], b, k);
        if b.contains_key(k) {
            lemma_dm_v_over(a[k], b[k], c);
            assert(f.gamma_spec(c));
            if f.is_top_spec() {
                assert(dm_top_gamma::<V>(c));
                let t = b[k].top_spec();
                assert(t.is_top_spec());
                assert(t.gamma_spec(c));
                lemma_dm_v_over(t, b[k], c);
                let s = dm_mergetop_second(b, k);
                assert(s.gamma_spec(c));
                if s.is_top_spec() { assert(!r.contains_key(k)); } else { assert(dm_mergetop_keeps(a, b, k)); assert(r.contains_key(k)); assert(r[k] == s); }
            } else {
                assert(dm_mergetop_keeps(a, b, k)); assert(r.contains_key(k)); assert(r[k] == f);
            }
        } else {
            let t = a[k].top_spec();
            assert(t.is_top_spec());
            assert(t.gamma_spec(c) <==> dm_top_gamma::<V>(c));
            lemma_dm_v_over(a[k], t, c);
            assert(f.gamma_spec(c));
            if f.is_top_spec() { assert(!dm_mergetop_keeps(a, b, k)); assert(!r.contains_key(k)); }
            else { assert(dm_mergetop_keeps(a, b, k)); assert(r.contains_key(k)); assert(r[k] == f); }
        }
    } else if b.contains_key(k) {
        let t = b[k].top_spec();
        assert(t.is_top_spec());
        assert(t.gamma_spec(c) <==> dm_top_gamma::<V>(c));
        lemma_dm_v_over(t, b[k], c);
        let s = dm_mergetop_second(b, k);
        assert(s.gamma_spec(c));
        if s.is_top_spec() { assert(!dm_mergetop_keeps(a, b, k)); assert(!r.contains_key(k)); }
        else { assert(dm_mergetop_keeps(a, b, k)); assert(r.contains_key(k)); assert(r[k] == s); }
    } else {
        assert(!r.contains_key(k));
    }
}

/// (stable) at one key
pub proof fn lemma_dm_mergetop_key_stable<K, V: AbstractDomain + HasTop>(a: Map<K, V>, b: Map<K, V>, k: K, c: V::Concrete)
    requires
        dm_merge_hyp::<V>(), dm_top_default::<V>(), dm_mergetop_pre(a, b),
        forall |d: V::Concrete| dm_mergetop_represents(b, k, d) ==> dm_mergetop_represents(a, k, d),
        dm_mergetop_represents(dm_mergetop_spec(a, b), k, c),
    ensures dm_mergetop_represents(a, k, c),
{
    let r = dm_mergetop_spec(a, b);
    if a.contains_key(k) {
        let f = dm_mergetop_first(a[k], b, k);
        if b.contains_key(k) {
            assert forall |d: V::Concrete| b[k].gamma_spec(d) implies a[k].gamma_spec(d) by { assert(dm_mergetop_represents(b, k, d)); }
            if f.is_top_spec() {
                // a[k] absorbed b[k] and their merge is Top: a[k] represents exactly the default set
                assert forall |d: V::Concrete| dm_top_gamma::<V>(d) implies a[k].gamma_spec(d) by {
                    assert(f.gamma_spec(d));
                    lemma_dm_v_stable(a[k], b[k], d);
                }
                let t = b[k].top_spec();
                let s = dm_mergetop_second(b, k);
                assert(t.is_top_spec());
                if r.contains_key(k) {
                    assert(r[k] == s);
                    assert forall |d: V::Concrete| b[k].gamma_spec(d) implies t.gamma_spec(d) by {
                        lemma_dm_v_over(a[k], b[k], d);
                        assert(f.gamma_spec(d));
                        assert(dm_top_gamma::<V>(d));
                    }
                    lemma_dm_v_stable(t, b[k], c);
                    assert(t.gamma_spec(c));
                    assert(dm_top_gamma::<V>(c));
                } else {
                    assert(dm_top_gamma::<V>(c));
                }
            } else {
                assert(dm_mergetop_keeps(a, b, k)); assert(r.contains_key(k)); assert(r[k] == f);
                lemma_dm_v_stable(a[k], b[k], c);
            }
        } else {
            let t = a[k].top_spec();
            assert(t.is_top_spec());
            assert forall |d: V::Concrete| t.gamma_spec(d) implies a[k].gamma_spec(d) by {
                assert(dm_top_gamma::<V>(d));
                assert(dm_mergetop_represents(b, k, d));
            }
            if f.is_top_spec() {
                assert(!dm_mergetop_keeps(a, b, k)); assert(!r.contains_key(k));
                assert(dm_top_gamma::<V>(c));
                assert(dm_mergetop_represents(b, k, c));
            } else {
                assert(dm_mergetop_keeps(a, b, k)); assert(r.contains_key(k)); assert(r[k] == f);
                lemma_dm_v_stable(a[k], t, c);
            }
        }
    } else if b.contains_key(k) {
        let t = b[k].top_spec();
        let s = dm_mergetop_second(b, k);
        assert(t.is_top_spec());
        if r.contains_key(k) {
            assert(r[k] == s);
            assert forall |d: V::Concrete| b[k].gamma_spec(d) implies t.gamma_spec(d) by {
                assert(dm_mergetop_represents(b, k, d));
                assert(dm_top_gamma::<V>(d));
            }
            lemma_dm_v_stable(t, b[k], c);
            assert(t.gamma_spec(c));
        }
    } else {
        assert(!r.contains_key(k));
    }
}

/// the code's MergeTop rule coincides with the rule of the doc comment when "merge(x, y) is Top ==> merge(top(y), y) is Top"
/// holds on the common keys
pub proof fn lemma_dm_mergetop_doc<K, V: AbstractDomain + HasTop>(a: Map<K, V>, b: Map<K, V>)
    requires dm_mergetop_doc_cond(a, b),
    ensures dm_mergetop_spec(a, b) =~= dm_mergetop_doc_spec(a, b),
{
    let r = dm_mergetop_spec(a, b);
    let d = dm_mergetop_doc_spec(a, b);
    assert forall |k: K| r.contains_key(k) <==> d.contains_key(k) by {
        if a.contains_key(k) && b.contains_key(k) && a[k].merge_spec(&b[k]).is_top_spec() {
            assert(b[k].top_spec().merge_spec(&b[k]).is_top_spec());
        }
    }
    assert forall |k: K| r.contains_key(k) implies r[k] == d[k] by {
        if a.contains_key(k) && b.contains_key(k) && a[k].merge_spec(&b[k]).is_top_spec() {
            assert(b[k].top_spec().merge_spec(&b[k]).is_top_spec());
        }
    }
}

/// a map of length 0 has no key (vstd: finite maps)
pub proof fn lemma_dm_len0<K, V>(a: Map<K, V>)
    ensures a.len() == 0 <==> (forall |k: K| !a.contains_key(k)),
{
    if a.len() == 0 {
        assert forall |k: K| !a.contains_key(k) by {
            if a.contains_key(k) { assert(a.dom().contains(k)); assert(a.dom().len() != 0) by { if a.dom().len() == 0 { assert(a.dom() =~= Set::empty()); } } }
        }
    } else {
        if forall |k: K| !a.contains_key(k) { assert(a.dom() =~= Set::empty()); }
    }
}

// ---- the same clauses in the vocabulary of the restated strategy trait (`represents_spec` of each impl) ----------------------
// Pure bridging: `<S as MapMergeStrategySpec<K, V>>::represents_spec` IS the strategy's reading by definition; the clauses are
// restated so that their triggers match those of the contract of `MapMergeStrategy::merge_map_with`.

pub proof fn lemma_dm_union_c03_trait<K: Ord + Clone, V: AbstractDomain>(a: Map<K, V>, b: Map<K, V>, r: Map<K, V>)
    requires dm_merge_hyp::<V>(), dm_common_pre(a, b), r == dm_union_spec(a, b),
    ensures
        forall |k: K, c: V::Concrete| #![trigger <UnionMergeStrategy as MapMergeStrategySpec<K, V>>::represents_spec(r, k, c)]
            <UnionMergeStrategy as MapMergeStrategySpec<K, V>>::represents_spec(a, k, c) || <UnionMergeStrategy as MapMergeStrategySpec<K, V>>::represents_spec(b, k, c)
            ==> <UnionMergeStrategy as MapMergeStrategySpec<K, V>>::represents_spec(r, k, c),
        (forall |k: K, c: V::Concrete| #![trigger <UnionMergeStrategy as MapMergeStrategySpec<K, V>>::represents_spec(b, k, c)]
            <UnionMergeStrategy as MapMergeStrategySpec<K, V>>::represents_spec(b, k, c) ==> <UnionMergeStrategy as MapMergeStrategySpec<K, V>>::represents_spec(a, k, c))
        ==> (forall |k: K, c: V::Concrete| #![trigger <UnionMergeStrategy as MapMergeStrategySpec<K, V>>::represents_spec(r, k, c)]
            <UnionMergeStrategy as MapMergeStrategySpec<K, V>>::represents_spec(r, k, c) ==> <UnionMergeStrategy as MapMergeStrategySpec<K, V>>::represents_spec(a, k, c)),
{
    lemma_dm_union_c03(a, b);
    if forall |k: K, c: V::Concrete| #![trigger <UnionMergeStrategy as MapMergeStrategySpec<K, V>>::represents_spec(b, k, c)]
        <UnionMergeStrategy as MapMergeStrategySpec<K, V>>::represents_spec(b, k, c) ==> <UnionMergeStrategy as MapMergeStrategySpec<K, V>>::represents_spec(a, k, c) {
        assert forall |k: K, c: V::Concrete| #![trigger dm_union_represents(b, k, c)] dm_union_represents(b, k, c) implies dm_union_represents(a, k, c) by {
            assert(<UnionMergeStrategy as MapMergeStrategySpec<K, V>>::represents_spec(b, k, c) ==> <UnionMergeStrategy as MapMergeStrategySpec<K, V>>::represents_spec(a, k, c));
        }
    }
}

pub proof fn lemma_dm_intersect_c03_trait<K: Ord + Clone, V: AbstractDomain>(a: Map<K, V>, b: Map<K, V>, r: Map<K, V>)
    requires dm_merge_hyp::<V>(), dm_common_pre(a, b), r == dm_intersect_spec(a, b),
    ensures
        forall |k: K, c: V::Concrete| #![trigger <IntersectMergeStrategy as MapMergeStrategySpec<K, V>>::represents_spec(r, k, c)]
            <IntersectMergeStrategy as MapMergeStrategySpec<K, V>>::represents_spec(a, k, c) || <IntersectMergeStrategy as MapMergeStrategySpec<K, V>>::represents_spec(b, k, c)
            ==> <IntersectMergeStrategy as MapMergeStrategySpec<K, V>>::represents_spec(r, k, c),
        (dm_top_is_max::<V>() && (forall |k: K, c: V::Concrete| #![trigger <IntersectMergeStrategy as MapMergeStrategySpec<K, V>>::represents_spec(b, k, c)]
            <IntersectMergeStrategy as MapMergeStrategySpec<K, V>>::represents_spec(b, k, c) ==> <IntersectMergeStrategy as MapMergeStrategySpec<K, V>>::represents_spec(a, k, c)))
        ==> (forall |k: K, c: V::Concrete| #![trigger <IntersectMergeStrategy as MapMergeStrategySpec<K, V>>::represents_spec(r, k, c)]
            <IntersectMergeStrategy as MapMergeStrategySpec<K, V>>::represents_spec(r, k, c) ==> <IntersectMergeStrategy as MapMergeStrategySpec<K, V>>::represents_spec(a, k, c)),
{
    lemma_dm_intersect_c03(a, b);
    if forall |k: K, c: V::Concrete| #![trigger <IntersectMergeStrategy as MapMergeStrategySpec<K, V>>::represents_spec(b, k, c)]
        <IntersectMergeStrategy as MapMergeStrategySpec<K, V>>::represents_spec(b, k, c) ==> <IntersectMergeStrategy as MapMergeStrategySpec<K, V>>::represents_spec(a, k, c) {
        assert forall |k: K, c: V::Concrete| #![trigger dm_intersect_represents(b, k, c)] dm_intersect_represents(b, k, c) implies dm_intersect_represents(a, k, c) by {
            assert(<IntersectMergeStrategy as MapMergeStrategySpec<K, V>>::represents_spec(b, k, c) ==> <IntersectMergeStrategy as MapMergeStrategySpec<K, V>>::represents_spec(a, k, c));
        }
    }
}

pub proof fn lemma_dm_mergetop_c03_trait<K: Ord + Clone, V: AbstractDomain + HasTop>(a: Map<K, V>, b: Map<K, V>, r: Map<K, V>)
    requires dm_merge_hyp::<V>(), dm_top_default::<V>(), dm_mergetop_pre(a, b), r == dm_mergetop_spec(a, b),
    ensures
        forall |k: K, c: V::Concrete| #![trigger <MergeTopStrategy as MapMergeStrategySpec<K, V>>::represents_spec(r, k, c)]
            <MergeTopStrategy as MapMergeStrategySpec<K, V>>::represents_spec(a, k, c) || <MergeTopStrategy as MapMergeStrategySpec<K, V>>::represents_spec(b, k, c)
            ==> <MergeTopStrategy as MapMergeStrategySpec<K, V>>::represents_spec(r, k, c),
        (forall |k: K, c: V::Concrete| #![trigger <MergeTopStrategy as MapMergeStrategySpec<K, V>>::represents_spec(b, k, c)]
            <MergeTopStrategy as MapMergeStrategySpec<K, V>>::represents_spec(b, k, c) ==> <MergeTopStrategy as MapMergeStrategySpec<K, V>>::represents_spec(a, k, c))
        ==> (forall |k: K, c: V::Concrete| #![trigger <MergeTopStrategy as MapMergeStrategySpec<K, V>>::represents_spec(r, k, c)]
            <MergeTopStrategy as MapMergeStrategySpec<K, V>>::represents_spec(r, k, c) ==> <MergeTopStrategy as MapMergeStrategySpec<K, V>>::represents_spec(a, k, c)),
{
    lemma_dm_mergetop_c03(a, b);
    if forall |k: K, c: V::Concrete| #![trigger <MergeTopStrategy as MapMergeStrategySpec<K, V>>::represents_spec(b, k, c)]
        <MergeTopStrategy as MapMergeStrategySpec<K, V>>::represents_spec(b, k, c) ==> <MergeTopStrategy as MapMergeStrategySpec<K, V>>::represents_spec(a, k, c) {
        assert forall |k: K, c: V::Concrete| #![trigger dm_mergetop_represents(b, k, c)] dm_mergetop_represents(b, k, c) implies dm_mergetop_represents(a, k, c) by {
            assert(<MergeTopStrategy as MapMergeStrategySpec<K, V>>::represents_spec(b, k, c) ==> <MergeTopStrategy as MapMergeStrategySpec<K, V>>::represents_spec(a, k, c));
        }
    }
}

/// from pairs to functions: if every pair represented by `a` is represented by `r` (the pointwise clauses of the contracts),
/// then every function from keys to concrete values represented by `a` is represented by `r`
pub proof fn lemma_dm_fn_lift<K: Ord + Clone, V: AbstractDomain, S: MapMergeStrategySpec<K, V>>(a: Map<K, V>, r: Map<K, V>, f: Map<K, V::Concrete>)
    requires
        forall |k: K, c: V::Concrete| #![trigger S::represents_spec(r, k, c)] S::represents_spec(a, k, c) ==> S::represents_spec(r, k, c),
        dm_fn_represented::<K, V, S>(a, f),
    ensures dm_fn_represented::<K, V, S>(r, f),
{
    assert forall |k: K| #[trigger] f.contains_key(k) implies S::represents_spec(r, k, f[k]) by {
        assert(S::represents_spec(a, k, f[k]));
    }
}
