// ---------------------------------------------------------------------------
// lemmas/domain_map_sat.rs -- SATISFIABILITY WITNESSES of the preconditions of unit `domain_map` (nothing here is trusted).
//   (c)  the hypothesis predicates dm_key_ok / dm_clone_ok / dm_eq_ok / dm_merge_hyp / dm_top_is_max / dm_top_default are PROVED at
//        K = u64, V = VerifToy by the unit's own lemma_dm_toy_hyps (contracts/domain_map.vc); obeys_cmp::<u64>() is proved by vstd
//        (not a hypothesis at this instance).  lemma_sat_domain_map_top_preds: the three `forall v: V` predicates about Top
//        (dm_top_gamma, dm_top_is_max, dm_top_default) hold TOGETHER at VerifToy and give the ground fact "every u8 is a default value".
//   (a') verif_sat_domain_map_maps builds two NON-EMPTY BTreeMap<u64, VerifToy> (common key with different values, common key with
//        equal values, a key on either side only, a stored Top); the clients below have NO `requires` and call, on these maps:
//        the three strategies' merge_map_with (contract = restated trait MapMergeStrategy), the trait default merge_map at each
//        strategy, DomainMap::from / new / default / deref / deref_mut / is_top, DomainMap::merge_with and DomainMap::merge at each
//        of the three strategies, on DIFFERENT maps (the `!=` branch of the precondition) and on EQUAL maps.
//        Verus checks the real `requires` at every call.
//   Nothing stays conditional and nothing is (d) at this instance.  For a GENERIC K the conjunct obeys_cmp::<K>() of dm_key_ok is
//   vstd's uninterpreted predicate (d): see the report of the audit.
// ---------------------------------------------------------------------------

/// (c) the three Top predicates at the toy instance, jointly, with a ground consequence (no clash of the mr_domain_ok kind:
/// dm_top_gamma is DEFINED as "some value answering is_top() represents c", so dm_top_default says "all Top values represent the
/// same set" and dm_top_is_max says "that set is everything"; both hold for VerifToy::Top, the only value answering is_top())
pub proof fn lemma_sat_domain_map_top_preds()
    ensures
        dm_top_is_max::<VerifToy>(), dm_top_default::<VerifToy>(),
        forall |c: u8| dm_top_gamma::<VerifToy>(c),
        !VerifToy::Val(3).is_top_spec() && VerifToy::Val(3).gamma_spec(3u8) && !VerifToy::Val(3).gamma_spec(4u8),
{
    lemma_dm_toy_hyps();
    assert forall |c: u8| dm_top_gamma::<VerifToy>(c) by {
        assert(VerifToy::Top.is_top_spec() && VerifToy::Top.gamma_spec(c));
    }
}

/// two non-empty maps:  left = {1: Val(3), 2: Top, 4: Val(9)}   right = {1: Val(4), 3: Val(5), 4: Val(9)}
pub fn verif_sat_domain_map_maps() -> (r: (BTreeMap<u64, VerifToy>, BTreeMap<u64, VerifToy>))
    ensures
        r.0@ == Map::<u64, VerifToy>::empty().insert(1u64, VerifToy::Val(3)).insert(2u64, VerifToy::Top).insert(4u64, VerifToy::Val(9)),
        r.1@ == Map::<u64, VerifToy>::empty().insert(1u64, VerifToy::Val(4)).insert(3u64, VerifToy::Val(5)).insert(4u64, VerifToy::Val(9)),
        r.0@ != r.1@,
{
    let mut l: BTreeMap<u64, VerifToy> = BTreeMap::new();
    l.insert(1u64, VerifToy::Val(3));
    l.insert(2u64, VerifToy::Top);
    l.insert(4u64, VerifToy::Val(9));
    let mut r: BTreeMap<u64, VerifToy> = BTreeMap::new();
    r.insert(1u64, VerifToy::Val(4));
    r.insert(3u64, VerifToy::Val(5));
    r.insert(4u64, VerifToy::Val(9));
    proof { assert(l@.contains_key(2u64) && !r@.contains_key(2u64)); }
    (l, r)
}

/// (a') the three `merge_map_with` (contract in the restated trait MapMergeStrategy: dm_key_ok, dm_clone_ok, merge_map_pre_spec)
/// and the trait default `merge_map` at each strategy
pub fn verif_sat_domain_map_strategies()
{
    proof { lemma_dm_toy_hyps(); }
    // UnionMergeStrategy: merge_map_pre_spec = dm_common_pre
    let (mut l, r) = verif_sat_domain_map_maps();
    <UnionMergeStrategy as MapMergeStrategy<u64, VerifToy>>::merge_map_with(&mut l, &r);
    proof {
        // the contract's result is the expected one at a common key with different values, and at one-sided keys
        assert(l@.contains_key(1u64) && l@[1u64] == VerifToy::Top);
        assert(l@.contains_key(3u64) && l@[3u64] == VerifToy::Val(5));
        assert(l@.contains_key(4u64) && l@[4u64] == VerifToy::Val(9));
    }
    // IntersectMergeStrategy: merge_map_pre_spec = dm_common_pre
    let (mut l, r) = verif_sat_domain_map_maps();
    <IntersectMergeStrategy as MapMergeStrategy<u64, VerifToy>>::merge_map_with(&mut l, &r);
    proof {
        assert(!l@.contains_key(1u64) && !l@.contains_key(2u64) && !l@.contains_key(3u64));
        assert(l@.contains_key(4u64) && l@[4u64] == VerifToy::Val(9));
    }
    // MergeTopStrategy: merge_map_pre_spec = dm_mergetop_pre (three conjuncts, incl. the merges with top())
    let (mut l, r) = verif_sat_domain_map_maps();
    <MergeTopStrategy as MapMergeStrategy<u64, VerifToy>>::merge_map_with(&mut l, &r);
    proof {
        assert(!l@.contains_key(1u64) && !l@.contains_key(2u64) && !l@.contains_key(3u64));
        assert(l@.contains_key(4u64) && l@[4u64] == VerifToy::Val(9));
    }
    // MapMergeStrategy::merge_map (trait default, extension trait MapMergeStrategyDefaults) at each strategy
    let (l, r) = verif_sat_domain_map_maps();
    // shim verif_dm_keys (R9 target of `retain`): requires vstd::laws_cmp::obeys_cmp::<K>()
    let ks = verif_dm_keys(&l);
    proof { assert(l@.contains_key(1u64)); assert(ks@.len() > 0); }
    let u = <UnionMergeStrategy as MapMergeStrategyDefaults<u64, VerifToy>>::merge_map(&l, &r);
    let i = <IntersectMergeStrategy as MapMergeStrategyDefaults<u64, VerifToy>>::merge_map(&l, &r);
    let t = <MergeTopStrategy as MapMergeStrategyDefaults<u64, VerifToy>>::merge_map(&l, &r);
    proof {
        assert(u@.contains_key(2u64) && u@[2u64] == VerifToy::Top);
        assert(i@.contains_key(4u64) && !i@.contains_key(1u64));
        assert(t@.contains_key(4u64) && !t@.contains_key(3u64));
    }
}

/// (a') DomainMap: from / new / default / deref / deref_mut / is_top (no precondition) and merge_with / merge at strategy S = Union
pub fn verif_sat_domain_map_dm_union()
{
    proof { lemma_dm_toy_hyps(); }
    let (l, r) = verif_sat_domain_map_maps();
    let mut a: DomainMap<u64, VerifToy, UnionMergeStrategy> = DomainMap::from(l);
    let b: DomainMap<u64, VerifToy, UnionMergeStrategy> = DomainMap::from(r);
    let e: DomainMap<u64, VerifToy, UnionMergeStrategy> = DomainMap::new();
    let d: DomainMap<u64, VerifToy, UnionMergeStrategy> = DomainMap::default();
    let t0 = a.is_top();
    let t1 = e.is_top();
    let _m = a.deref();
    proof { assert(a.inner@.contains_key(1u64)); assert(!t0 && t1); }
    // merge: different maps (the `!=` branch of the precondition: S::merge_map_pre_spec) and equal maps
    let m1 = a.merge(&b);
    let m2 = a.merge(&a);
    let m3 = e.merge(&d);
    proof {
        assert(m1.inner@.contains_key(1u64) && m1.inner@[1u64] == VerifToy::Top);
        assert(m1.inner@.contains_key(3u64));
        assert(m2 == a);
    }
    // deref_mut, then merge_with on different maps and on equal maps
    {
        let mm = a.deref_mut();
        mm.insert(7u64, VerifToy::Val(1));
    }
    proof { assert(a.inner@.contains_key(7u64) && !b.inner@.contains_key(7u64)); }
    let _ = a.merge_with(&b);
    proof { assert(a.inner@.contains_key(7u64) && a.inner@.contains_key(3u64)); }
    let mut c: DomainMap<u64, VerifToy, UnionMergeStrategy> = DomainMap::new();
    let _ = c.merge_with(&e);
}

/// (a') DomainMap::merge_with / merge at S = IntersectMergeStrategy
pub fn verif_sat_domain_map_dm_intersect()
{
    proof { lemma_dm_toy_hyps(); }
    let (l, r) = verif_sat_domain_map_maps();
    let mut a: DomainMap<u64, VerifToy, IntersectMergeStrategy> = DomainMap::from(l);
    let b: DomainMap<u64, VerifToy, IntersectMergeStrategy> = DomainMap::from(r);
    let m1 = a.merge(&b);
    let m2 = b.merge(&b);
    proof {
        assert(m1.inner@.contains_key(4u64) && m1.inner@[4u64] == VerifToy::Val(9));
        assert(!m1.inner@.contains_key(1u64));
        assert(m2 == b);
    }
    let _ = a.merge_with(&b);
    proof { assert(a.inner@.contains_key(4u64) && !a.inner@.contains_key(2u64)); }
    let _ = a.merge_with(&m1);
}

/// (a') DomainMap::merge_with / merge at S = MergeTopStrategy
pub fn verif_sat_domain_map_dm_mergetop()
{
    proof { lemma_dm_toy_hyps(); }
    let (l, r) = verif_sat_domain_map_maps();
    let mut a: DomainMap<u64, VerifToy, MergeTopStrategy> = DomainMap::from(l);
    let b: DomainMap<u64, VerifToy, MergeTopStrategy> = DomainMap::from(r);
    let m1 = a.merge(&b);
    let m2 = a.merge(&a);
    proof {
        assert(m1.inner@.contains_key(4u64) && m1.inner@[4u64] == VerifToy::Val(9));
        assert(!m1.inner@.contains_key(3u64));
        assert(m2 == a);
    }
    let _ = a.merge_with(&b);
    proof { assert(a.inner@.contains_key(4u64) && !a.inner@.contains_key(1u64)); }
    // the existing clients of the unit (no `requires` either) on the constructed non-empty maps
    let _ = verif_dm_client_mergetop(&a, &b);
}
