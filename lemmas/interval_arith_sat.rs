// ---------------------------------------------------------------------------
// lemmas/interval_arith_sat.rs -- SATISFIABILITY WITNESSES of the preconditions of unit `interval_arith`
// (nothing here is trusted: no external_body / assume / admit / axiom).
//   (a') verif_sat_interval_arith_chain: exec client WITHOUT requires that calls every contracted function of the unit
//        on 8 bit [-4, 11] stride 3 / [-4, 10] stride 2 / [0, 9] stride 3, 64 bit [-16, 33] stride 4 and 128 bit
//        values (builders of lemmas/interval_base_sat.rs): Verus checks the REAL requires at each call.  The guarded
//        clause `stride >= 2 ==> end.s() - start.s() <= i64::MAX` of new / adjust_end / adjust_start is ACTIVE
//        (strides 3, 4), at 64 bit with a negative start; stride 0 and 1 are called too.
//   nothing conditional, no (d) hypothesis in this unit.
// ---------------------------------------------------------------------------

/// (a') every contracted function of the unit is called; no precondition
pub fn verif_sat_interval_arith_chain()
{
    proof { lemma_p2_consts(); }
    // adjust_end / adjust_start: wf, equal widths, start.s() <= end.s(), byte_w, w <= 64, stride >= 2 ==> span <= i64::MAX
    let mut x = verif_sat_interval_base_iv8(252, 11, 3);
    x.adjust_end_to_value_in_stride();
    let mut y = verif_sat_interval_base_iv64(0xffff_ffff_ffff_fff0, 33, 4);
    y.adjust_end_to_value_in_stride();
    let mut x2 = verif_sat_interval_base_iv8(252, 11, 3);
    x2.adjust_start_to_value_in_stride();
    let mut y2 = verif_sat_interval_base_iv64(0xffff_ffff_ffff_fff0, 33, 4);
    y2.adjust_start_to_value_in_stride();
    let mut z = verif_sat_interval_base_iv8(3, 9, 0);
    z.adjust_end_to_value_in_stride();
    // new: the same precondition on (start, end, stride)
    let _ = Interval::new(Bitvector::from_u8(252), Bitvector::from_u8(11), 3);
    let _ = Interval::new(Bitvector::from_u64(0xffff_ffff_ffff_fff0), Bitvector::from_u64(33), 4);
    let _ = Interval::new(Bitvector::from_u8(0), Bitvector::from_u8(9), 1);
    // sub / signed_mul / signed_merge: inv, inv, equal widths, byte_w;  int_2_comp / bitwise_not: inv, byte_w
    let a = verif_sat_interval_base_iv8(252, 10, 2);
    let b = verif_sat_interval_base_iv8(0, 9, 3);
    let q = verif_sat_interval_base_iv64(0xffff_ffff_ffff_fff0, 32, 4);
    let h = verif_sat_interval_base_iv128(0xffff_ffff_ffff_ffff_ffff_ffff_ffff_fff0, 32, 4);
    let _ = a.sub(&b);
    let _ = q.sub(&q);
    let _ = a.signed_mul(&b);
    let _ = h.signed_mul(&h);
    let _ = a.signed_merge(&b);
    let _ = q.signed_merge(&q);
    let _ = h.signed_merge(&h);
    let _ = a.int_2_comp();
    let _ = q.int_2_comp();
    let _ = b.bitwise_not();
    let _ = h.bitwise_not();
}
