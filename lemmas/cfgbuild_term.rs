// ---------------------------------------------------------------------------
// lemmas/cfgbuild_term.rs -- unit `cfgbuild`: TERMINATION of the worklist loop of add_jump_and_call_edges (all proved).
// Measure (lexicographic): (number of (block tid, function tid) pairs of the program not yet registered in jump_targets,
// length of the worklist).  A round takes one entry off the worklist; a step of add_outgoing_edges pushes an entry only
// when it registers a new pair of the (finite) universe.
// ---------------------------------------------------------------------------

/// the key of a program block in a program function belongs to the universe
pub proof fn lemma_cfg_universe_contains(subs: Map<Tid, Term<Sub>>, b: Term<Blk>, f: Term<Sub>)
    requires cfg_prog_block(subs, b), cfg_prog_sub(subs, f),
    ensures cfg_universe(subs).contains((b.tid, f.tid)),
{
    let (k, i) = choose |k: Tid, i: int| #[trigger] cfg_block_at(subs, k, i, b);
    let k2 = choose |k2: Tid| #[trigger] subs.contains_key(k2) && subs[k2] == f;
    // the function tid
    assert(subs.dom().contains(k2));
    assert(cfg_sub_tids(subs).contains(subs[k2].tid));
    // the block tid
    let tids = subs[k].term.blocks@.map_values(|b: Term<Blk>| b.tid);
    assert(tids[i] == b.tid);
    assert(tids.to_set().contains(b.tid));
    assert(subs.dom().contains(k));
    assert(subs.dom().map(|k: Tid| subs[k].term.blocks@.map_values(|b: Term<Blk>| b.tid).to_set()).contains(tids.to_set()));
    assert(cfg_blk_tids(subs).contains(b.tid));
    // the pair
    let inner = cfg_sub_tids(subs).map(|st: Tid| (b.tid, st));
    assert(inner.contains((b.tid, f.tid)));
    assert(cfg_blk_tids(subs).map(|bt: Tid| cfg_sub_tids(subs).map(|st: Tid| (bt, st))).contains(inner));
}

/// registering a new pair of the universe lowers the number of unregistered pairs
pub proof fn lemma_cfg_unreg_insert(subs: Map<Tid, Term<Sub>>, jt: Map<(Tid, Tid), (NodeIndex, NodeIndex)>, key: (Tid, Tid), v: (NodeIndex, NodeIndex))
    requires cfg_universe(subs).contains(key), !jt.contains_key(key),
    ensures cfg_unregistered(subs, jt.insert(key, v)) < cfg_unregistered(subs, jt),
{
    let u = cfg_universe(subs);
    assert(u.difference(jt.insert(key, v).dom()) =~= u.difference(jt.dom()).remove(key));
    assert(u.difference(jt.dom()).contains(key));
}

pub proof fn lemma_cfg_progress_ensure<'a>(st: CfgSt<'a>, subs: Map<Tid, Term<Sub>>, tid: Tid, f: &'a Term<Sub>)
    requires cfg_prog_sub(subs, *f), !st.jt.contains_key((tid, f.tid)) ==> cfg_has_block(subs, tid),
    ensures cfg_progress(st, cfg_ensure(st, subs, tid, f).0, subs),
{
    if !st.jt.contains_key((tid, f.tid)) {
        broadcast use lemma_cfg_find_block_ok;
        let b = cfg_find_block::<'a>(subs, tid)->Some_0;
        lemma_cfg_universe_contains(subs, *b, *f);
        lemma_cfg_unreg_insert(subs, st.jt, (b.tid, f.tid), (cfg_ni(st.nodes.len() as int), cfg_ni(st.nodes.len() as int + 1)));
    }
}

pub proof fn lemma_cfg_progress_intra<'a>(st: CfgSt<'a>, subs: Map<Tid, Term<Sub>>, source: NodeIndex, tid: Tid, jump: &'a Term<Jmp>, uc: Option<&'a Term<Jmp>>)
    requires cfg_inv(st, subs), cfg_is_end(st, source), cfg_has_block(subs, tid),
    ensures cfg_progress(st, cfg_intra(st, subs, source, tid, jump, uc), subs),
{
    assert(cfg_node_ok(subs, st.nodes[source.i as int]));
    lemma_cfg_progress_ensure(st, subs, tid, cfg_sub(st.nodes[source.i as int]));
}

pub proof fn lemma_cfg_progress_return_site<'a>(st: CfgSt<'a>, subs: Map<Tid, Term<Sub>>, source: NodeIndex, return_: Option<Tid>)
    requires cfg_inv(st, subs), cfg_is_end(st, source), return_ is Some ==> cfg_has_block(subs, return_->Some_0),
    ensures cfg_progress(st, cfg_return_site(st, subs, source, return_).0, subs),
{
    assert(cfg_node_ok(subs, st.nodes[source.i as int]));
    if return_ is Some { lemma_cfg_progress_ensure(st, subs, return_->Some_0, cfg_sub(st.nodes[source.i as int])); }
}

/// add_jump_edge for every jump except an indirect branch (that case is the loop of add_indirect_jumps, which carries the
/// progress statement in its invariant)
pub proof fn lemma_cfg_progress_jump_edge<'a>(st: CfgSt<'a>, subs: Map<Tid, Term<Sub>>, ext: Set<Tid>, source: NodeIndex, jump: &'a Term<Jmp>, uc: Option<&'a Term<Jmp>>)
    requires
        cfg_inv(st, subs), cfg_is_end(st, source), !(jump.term is BranchInd),
        cfg_jump_targets_exist(subs, *cfg_blk(st.nodes[source.i as int]), *jump),
    ensures cfg_progress(st, cfg_jump_edge(st, subs, ext, source, jump, uc), subs),
{
    match jump.term {
        Jmp::Branch(tid) => { lemma_cfg_progress_intra(st, subs, source, tid, jump, uc); },
        Jmp::CBranch { target, condition } => { lemma_cfg_progress_intra(st, subs, source, target, jump, uc); },
        Jmp::BranchInd(e) => {},
        Jmp::Call { target, return_ } => { lemma_cfg_progress_return_site(st, subs, source, return_); },
        Jmp::CallInd { target, return_ } => { lemma_cfg_progress_return_site(st, subs, source, return_); },
        Jmp::CallOther { description, return_ } => {},
        Jmp::Return(e) => {},
    }
}
