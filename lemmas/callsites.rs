// lemmas/callsites.rs -- proved lemmas of unit `callsites` (nothing trusted)

/// vstd states the order of `BTreeMap::iter()` as `increasing_seq` of the key projection; unfolded to cs_tid_lt.
/// Broadcast so that the loop invariant cs_keys_sorted(it.seq()) holds on loop entry.
pub broadcast proof fn lemma_cs_iter_sorted<V>(s: Seq<(&Tid, &V)>)
    requires vstd::laws_cmp::obeys_cmp::<Tid>(), vstd::std_specs::btree::increasing_seq(s.map_values(|kv: (&Tid, &V)| *kv.0))
    ensures #[trigger] cs_keys_sorted(s)
{
    let ks = s.map_values(|kv: (&Tid, &V)| *kv.0);
    vstd::std_specs::btree::axiom_increasing_seq_meaning(ks);
    assert forall |i: int, j: int| 0 <= i < j < s.len() implies cs_tid_lt(*(#[trigger] s[i]).0, *(#[trigger] s[j]).0) by {
        assert(ks[i] == *s[i].0); assert(ks[j] == *s[j].0);
        assert(vstd::std_specs::cmp::OrdSpec::cmp_spec(&ks[i], &ks[j]) == core::cmp::Ordering::Less);
    }
}

/// find_symbol: the entry at position `i` of the ascending iteration is the FIRST symbol named `name` when no earlier
/// entry has that name (stated as an implication so that it can be called at the loop head, whatever the body does).
pub proof fn lemma_cs_first_found(s: Seq<(&Tid, &ExternSymbol)>, m: Map<Tid, ExternSymbol>, i: int, name: Seq<char>)
    requires cs_iter_of(s, m), 0 <= i < s.len(),
    ensures
        ((forall |j: int| 0 <= j < i ==> (#[trigger] s[j]).1.name@ != name) && s[i].1.name@ == name)
            ==> cs_first_named(m, name, *s[i].0),
{
    if (forall |j: int| 0 <= j < i ==> (#[trigger] s[j]).1.name@ != name) && s[i].1.name@ == name {
        let k = *s[i].0;
        assert forall |k2: Tid| m.contains_key(k2) && #[trigger] m[k2].name@ == name && k2 != k implies cs_tid_lt(k, k2) by {
            let j = choose |j: int| 0 <= j < s.len() && *(#[trigger] s[j]).0 == k2;
            assert(m[*s[j].0] == *s[j].1);
            if j < i { assert(s[j].1.name@ != name); }
            assert(j > i);
        }
    }
}

/// exit clause of the loops over `subs.values()`: a witnessed post is a post.  Quantified over the iteration and the call
/// list so that it can be called at function entry (no anchor to lose); fires on the goal `cs_prog_calls_post(..)` once
/// `cs_iter_of(seq, subs)` is around.
pub proof fn lemma_cs_prog_calls_exit<'a>(subs: Map<Tid, Term<Sub>>, m: Map<&'a Tid, &'a str>)
    ensures forall |s: Seq<(&Tid, &Term<Sub>)>, v: Seq<(&'a str, &'a Tid, &'a str)>|
        #![trigger cs_iter_of(s, subs), cs_prog_calls_post(v, subs, m)]
        cs_prog_calls_wit(s, v, subs, m) ==> cs_prog_calls_post(v, subs, m)
{
}

/// on a list of Strings "some entry equals x" (specification equality) and "some entry has the characters of x" are the same
pub proof fn lemma_cs_among_on_list(l: Seq<String>, x: String)
    ensures cs_str_among(l, l.len() as int, x) <==> cs_on_list(l, x@)
{
    if cs_on_list(l, x@) {
        let j = choose |j: int| 0 <= j < l.len() && (#[trigger] l[j])@ == x@;
        axiom_cs_string_ext(l[j], x);
        assert(l[j] == x);
    }
    if cs_str_among(l, l.len() as int, x) {
        let j = choose |j: int| 0 <= j < l.len() && #[trigger] l[j] == x;
        assert(l[j]@ == x@);
    }
}

/// exit clause of the second loop of resolve_symbols (callable at function entry: quantified over iteration and map)
pub proof fn lemma_cs_resolved_exit<'a>(ext: Map<Tid, ExternSymbol>, l: Seq<String>)
    ensures forall |s: Seq<(&Tid, &ExternSymbol)>, r: Map<&'a Tid, &'a str>|
        #![trigger cs_iter_of(s, ext), cs_resolved(r, ext, l)]
        cs_iter_of(s, ext) && cs_resolved_partial(r, ext, l, s, s.len() as int) ==> cs_resolved(r, ext, l)
{
    assert forall |s: Seq<(&Tid, &ExternSymbol)>, r: Map<&'a Tid, &'a str>|
        cs_iter_of(s, ext) && cs_resolved_partial(r, ext, l, s, s.len() as int) implies cs_resolved(r, ext, l) by {
        assert forall |t: Tid| #[trigger] r.contains_key(&t) <==> ext.contains_key(t) && cs_on_list(l, ext[t].name@) by {
            lemma_cs_among_on_list(l, ext[t].name);
            if ext.contains_key(t) {
                let j = choose |j: int| 0 <= j < s.len() && *(#[trigger] s[j]).0 == t;
                assert(cs_visited(s, s.len() as int, t));
            }
            if cs_visited(s, s.len() as int, t) {
                let j = choose |j: int| 0 <= j < s.len() && *(#[trigger] s[j]).0 == t;
                assert(ext.contains_key(*s[j].0));
            }
        }
    }
}

/// hit lists only depend on the extension of the predicate (spec_fn extensionality) -- stated for the case needed:
/// the key set of a symbol map that agrees with a predicate
pub proof fn lemma_cs_in_syms_is<'a>(m: Map<&'a Tid, &'a str>, p: spec_fn(Tid) -> bool)
    requires forall |t: Tid| #[trigger] m.contains_key(&t) <==> p(t)
    ensures cs_in_syms(m) == p
{
    assert(cs_in_syms(m) =~= p);
}

/// warnings made one per entry of a call list that stands for a hit list are warnings for the hits
pub proof fn lemma_cs_warns_calls_hits<'a>(ws: Seq<CweWarning>, v: Seq<(&'a str, &'a Tid, &'a str)>, h: Seq<CsHit>, m: Map<&'a Tid, &'a str>)
    requires cs_warns_for_calls(ws, v), cs_calls_are(v, h, m)
    ensures cs_warns_for_hits(ws, h)
{
    assert forall |i: int| 0 <= i < ws.len() implies cs_warn_for(#[trigger] ws[i], h[i].sub_name, h[i].jmp_tid) by {
        assert(v[i].0@ == h[i].sub_name);
    }
}

/// COMPOSITION of cwe_676::check_cwe (callable at function entry; fires on the three callee postconditions)
pub proof fn lemma_cs_676_compose<'a>(subs: Map<Tid, Term<Sub>>, ext: Map<Tid, ExternSymbol>, l: Seq<String>)
    ensures forall |m: Map<&'a Tid, &'a str>, v: Seq<(&'a str, &'a Tid, &'a str)>, ws: Seq<CweWarning>|
        #![trigger cs_resolved(m, ext, l), cs_prog_calls_post(v, subs, m), cs_warns_for_calls(ws, v)]
        cs_resolved(m, ext, l) && cs_prog_calls_post(v, subs, m) && cs_warns_for_calls(ws, v)
            ==> cs_warns_per_call(ws, subs, cs_dangerous(ext, l))
{
    assert forall |m: Map<&'a Tid, &'a str>, v: Seq<(&'a str, &'a Tid, &'a str)>, ws: Seq<CweWarning>|
        #![trigger cs_resolved(m, ext, l), cs_prog_calls_post(v, subs, m), cs_warns_for_calls(ws, v)]
        cs_resolved(m, ext, l) && cs_prog_calls_post(v, subs, m) && cs_warns_for_calls(ws, v)
        implies cs_warns_per_call(ws, subs, cs_dangerous(ext, l)) by {
        let s = choose |s: Seq<(&Tid, &Term<Sub>)>| #[trigger] cs_prog_calls_wit(s, v, subs, m);
        lemma_cs_in_syms_is(m, cs_dangerous(ext, l));
        lemma_cs_warns_calls_hits(ws, v, cs_subs_hits(s, cs_dangerous(ext, l), s.len() as int), m);
        assert(cs_warns_per_call_wit(s, ws, subs, cs_dangerous(ext, l)));
    }
}

/// exit clause of the loops that make warnings while iterating `subs.values()` (callable before the loop), and the
/// case of a program without functions (needed for "the invariant holds before the loop")
pub proof fn lemma_cs_warns_exit(subs: Map<Tid, Term<Sub>>, p: spec_fn(Tid) -> bool, ws0: Seq<CweWarning>)
    ensures
        forall |s: Seq<(&Tid, &Term<Sub>)>, ws: Seq<CweWarning>|
            #![trigger cs_iter_of(s, subs), cs_warns_per_call(ws, subs, p)]
            cs_warns_per_call_wit(s, ws, subs, p) ==> cs_warns_per_call(ws, subs, p),
        forall |s: Seq<(&Tid, &Term<Sub>)>| #[trigger] cs_iter_of(s, subs) && s.len() == 0 && ws0.len() == 0 ==> cs_warns_per_call(ws0, subs, p),
{
    assert forall |s: Seq<(&Tid, &Term<Sub>)>| #[trigger] cs_iter_of(s, subs) && s.len() == 0 && ws0.len() == 0 implies cs_warns_per_call(ws0, subs, p) by {
        assert(cs_warns_per_call_wit(s, ws0, subs, p));
    }
}

/// COMPOSITION of the checks built on find_symbol + "calls to that one symbol" (cwe_782): callable at function entry
pub proof fn lemma_cs_named_compose<'a>(subs: Map<Tid, Term<Sub>>, ext: Map<Tid, ExternSymbol>, name: Seq<char>)
    ensures forall |m: Map<&'a Tid, &'a str>, t: &'a Tid, n: &'a str, ws: Seq<CweWarning>|
        #![trigger cs_find_symbol_post(ext, name, Some((t, n))), cs_warns_per_call(ws, subs, cs_in_syms(m))]
        cs_find_symbol_post(ext, name, Some((t, n))) && (forall |x: Tid| #[trigger] m.contains_key(&x) <==> x == *t)
            && cs_warns_per_call(ws, subs, cs_in_syms(m)) ==> cs_warns_calls_to_named(ws, subs, ext, name)
{
    assert forall |m: Map<&'a Tid, &'a str>, t: &'a Tid, n: &'a str, ws: Seq<CweWarning>|
        #![trigger cs_find_symbol_post(ext, name, Some((t, n))), cs_warns_per_call(ws, subs, cs_in_syms(m))]
        cs_find_symbol_post(ext, name, Some((t, n))) && (forall |x: Tid| #[trigger] m.contains_key(&x) <==> x == *t)
            && cs_warns_per_call(ws, subs, cs_in_syms(m)) implies cs_warns_calls_to_named(ws, subs, ext, name) by {
        let k = choose |k: Tid| #[trigger] cs_first_named(ext, name, k) && *t == ext[k].tid && n@ == name;
        lemma_cs_in_syms_is(m, cs_is_tid(ext[k].tid));
        assert(cs_named(ext, name));
    }
}

// ---- find_symbol as a function: the first symbol with a name is unique ------------------------------------------------------

pub proof fn lemma_cs_first_unique(ext: Map<Tid, ExternSymbol>, name: Seq<char>, k1: Tid, k2: Tid)
    requires vstd::laws_cmp::obeys_cmp::<Tid>(), cs_first_named(ext, name, k1), cs_first_named(ext, name, k2)
    ensures k1 == k2
{
    if k1 != k2 {
        assert(cs_tid_lt(k1, k2));
        assert(cs_tid_lt(k2, k1));
        reveal(vstd::laws_cmp::obeys_cmp);
        reveal(vstd::laws_cmp::obeys_cmp_ord);
        reveal(vstd::laws_cmp::obeys_cmp_partial_ord);
        reveal(vstd::laws_cmp::obeys_partial_cmp_spec_properties);
        reveal(vstd::laws_eq::obeys_eq_spec_properties);
    }
}

/// what a result of find_symbol says about cs_found_tid (callable at function entry: fires on the postcondition of find_symbol)
pub proof fn lemma_cs_found_one<'a>(ext: Map<Tid, ExternSymbol>, name: Seq<char>)
    requires vstd::laws_cmp::obeys_cmp::<Tid>()
    ensures forall |r: Option<(&'a Tid, &'a str)>| #[trigger] cs_find_symbol_post(ext, name, r) ==> match r {
        Some((t0, n0)) => cs_named(ext, name) && (forall |t: Tid| #[trigger] cs_found_tid(ext, name, t) <==> t == *t0),
        None => !cs_named(ext, name) && (forall |t: Tid| !#[trigger] cs_found_tid(ext, name, t)),
    }
{
    assert forall |r: Option<(&'a Tid, &'a str)>| #[trigger] cs_find_symbol_post(ext, name, r) implies match r {
        Some((t0, n0)) => cs_named(ext, name) && (forall |t: Tid| #[trigger] cs_found_tid(ext, name, t) <==> t == *t0),
        None => !cs_named(ext, name) && (forall |t: Tid| !#[trigger] cs_found_tid(ext, name, t)),
    } by {
        match r {
            Some((t0, n0)) => {
                let k0 = choose |k: Tid| #[trigger] cs_first_named(ext, name, k) && *t0 == ext[k].tid && n0@ == name;
                assert(cs_named(ext, name));
                assert forall |t: Tid| #[trigger] cs_found_tid(ext, name, t) <==> t == *t0 by {
                    if cs_found_tid(ext, name, t) {
                        let k = choose |k: Tid| #[trigger] cs_first_named(ext, name, k) && t == ext[k].tid;
                        lemma_cs_first_unique(ext, name, k, k0);
                    }
                }
            },
            None => {
                assert forall |t: Tid| !#[trigger] cs_found_tid(ext, name, t) by {
                    if cs_found_tid(ext, name, t) {
                        let k = choose |k: Tid| #[trigger] cs_first_named(ext, name, k) && t == ext[k].tid;
                        assert(cs_named(ext, name));
                    }
                }
            },
        }
    }
}

/// one step of the loop of cwe_426 over the configured names
pub proof fn lemma_cs_found_step<'a>(ext: Map<Tid, ExternSymbol>, l: Seq<String>, i: int)
    requires vstd::laws_cmp::obeys_cmp::<Tid>(), 0 <= i < l.len()
    ensures forall |r: Option<(&'a Tid, &'a str)>| #[trigger] cs_find_symbol_post(ext, l[i]@, r) ==> match r {
        Some((t0, n0)) => cs_named(ext, l[i]@) && (forall |t: Tid| #[trigger] cs_found_any_tid(ext, l, i + 1, t) <==> cs_found_any_tid(ext, l, i, t) || t == *t0),
        None => !cs_named(ext, l[i]@) && (forall |t: Tid| #[trigger] cs_found_any_tid(ext, l, i + 1, t) <==> cs_found_any_tid(ext, l, i, t)),
    },
        cs_any_named(ext, l, i + 1) <==> cs_any_named(ext, l, i) || cs_named(ext, l[i]@),
{
    if cs_any_named(ext, l, i + 1) {
        let j = choose |j: int| 0 <= j < i + 1 && cs_named(ext, (#[trigger] l[j])@);
        if j < i { assert(cs_any_named(ext, l, i)); }
    }
    if cs_any_named(ext, l, i) {
        let j = choose |j: int| 0 <= j < i && cs_named(ext, (#[trigger] l[j])@);
        assert(0 <= j < i + 1);
    }
    lemma_cs_found_one(ext, l[i]@);
    assert forall |r: Option<(&'a Tid, &'a str)>| #[trigger] cs_find_symbol_post(ext, l[i]@, r) implies match r {
        Some((t0, n0)) => cs_named(ext, l[i]@) && (forall |t: Tid| #[trigger] cs_found_any_tid(ext, l, i + 1, t) <==> cs_found_any_tid(ext, l, i, t) || t == *t0),
        None => !cs_named(ext, l[i]@) && (forall |t: Tid| #[trigger] cs_found_any_tid(ext, l, i + 1, t) <==> cs_found_any_tid(ext, l, i, t)),
    } by {
        assert forall |t: Tid| #[trigger] cs_found_any_tid(ext, l, i + 1, t) <==> cs_found_any_tid(ext, l, i, t) || cs_found_tid(ext, l[i]@, t) by {
            if cs_found_any_tid(ext, l, i + 1, t) {
                let j = choose |j: int| 0 <= j < i + 1 && cs_found_tid(ext, (#[trigger] l[j])@, t);
                if j < i { assert(cs_found_any_tid(ext, l, i, t)); }
            }
            if cs_found_any_tid(ext, l, i, t) {
                let j = choose |j: int| 0 <= j < i && cs_found_tid(ext, (#[trigger] l[j])@, t);
                assert(0 <= j < i + 1);
            }
        }
    }
}


/// exit clause of the loop of cwe_426 over `subs.values()`
pub proof fn lemma_cs_per_sub_exit(subs: Map<Tid, Term<Sub>>, p1: spec_fn(Tid) -> bool, p2: spec_fn(Tid) -> bool)
    ensures
        forall |s: Seq<(&Tid, &Term<Sub>)>, ws: Seq<CweWarning>|
            #![trigger cs_iter_of(s, subs), cs_warns_per_sub(ws, subs, p1, p2)]
            cs_warns_per_sub_wit(s, ws, subs, p1, p2) ==> cs_warns_per_sub(ws, subs, p1, p2),
{
}

// ---- nothing is found => nothing is hit => nobody is flagged ------------------------------------------------------------------

pub proof fn lemma_cs_jmps_no_hits(sub_name: Seq<char>, jmps: Seq<Term<Jmp>>, p: spec_fn(Tid) -> bool, n: int)
    requires forall |t: Tid| !#[trigger] p(t)
    ensures cs_jmps_hits(sub_name, jmps, p, n).len() == 0
    decreases n
{
    if n > 0 { lemma_cs_jmps_no_hits(sub_name, jmps, p, n - 1); }
}

pub proof fn lemma_cs_blks_no_hits(sub_name: Seq<char>, blks: Seq<Term<Blk>>, p: spec_fn(Tid) -> bool, n: int)
    requires forall |t: Tid| !#[trigger] p(t)
    ensures cs_blks_hits(sub_name, blks, p, n).len() == 0
    decreases n
{
    if n > 0 {
        lemma_cs_blks_no_hits(sub_name, blks, p, n - 1);
        lemma_cs_jmps_no_hits(sub_name, blks[n - 1].term.jmps@, p, blks[n - 1].term.jmps@.len() as int);
    }
}

pub proof fn lemma_cs_none_flagged(s: Seq<(&Tid, &Term<Sub>)>, p1: spec_fn(Tid) -> bool, p2: spec_fn(Tid) -> bool, n: int)
    requires (forall |t: Tid| !#[trigger] p1(t)) || (forall |t: Tid| !#[trigger] p2(t))
    ensures cs_flagged(s, p1, p2, n).len() == 0
    decreases n
{
    if n > 0 {
        lemma_cs_none_flagged(s, p1, p2, n - 1);
        let sub = *s[n - 1].1;
        if forall |t: Tid| !#[trigger] p1(t) {
            lemma_cs_blks_no_hits(sub.term.name@, sub.term.blocks@, p1, sub.term.blocks@.len() as int);
        } else {
            lemma_cs_blks_no_hits(sub.term.name@, sub.term.blocks@, p2, sub.term.blocks@.len() as int);
        }
    }
}

/// cwe_426: when "system" or every configured name is absent, a warning list that is "one per flagged function" is empty
/// (so the early exit `if !system_symbol.is_empty() && !privilege_changing_symbols.is_empty()` is only an optimisation)
pub proof fn lemma_cs_426_absent(subs: Map<Tid, Term<Sub>>, ext: Map<Tid, ExternSymbol>, l: Seq<String>)
    ensures
        !(cs_named(ext, "system"@) && cs_any_named(ext, l, l.len() as int)) ==>
            forall |ws: Seq<CweWarning>| #[trigger] cs_warns_per_sub(ws, subs, cs_found(ext, "system"@), cs_found_any(ext, l)) ==> ws.len() == 0,
{
    if !(cs_named(ext, "system"@) && cs_any_named(ext, l, l.len() as int)) {
        let p1 = cs_found(ext, "system"@);
        let p2 = cs_found_any(ext, l);
        if !cs_named(ext, "system"@) {
            assert forall |t: Tid| !#[trigger] p1(t) by {
                if cs_found_tid(ext, "system"@, t) {
                    let k = choose |k: Tid| #[trigger] cs_first_named(ext, "system"@, k) && t == ext[k].tid;
                    assert(cs_named(ext, "system"@));
                }
            }
        } else {
            assert forall |t: Tid| !#[trigger] p2(t) by {
                if cs_found_any_tid(ext, l, l.len() as int, t) {
                    let j = choose |j: int| 0 <= j < l.len() && cs_found_tid(ext, (#[trigger] l[j])@, t);
                    let k = choose |k: Tid| #[trigger] cs_first_named(ext, l[j]@, k) && t == ext[k].tid;
                    assert(cs_named(ext, l[j]@));
                    assert(cs_any_named(ext, l, l.len() as int));
                }
            }
        }
        assert forall |ws: Seq<CweWarning>| #[trigger] cs_warns_per_sub(ws, subs, p1, p2) implies ws.len() == 0 by {
            let s = choose |s: Seq<(&Tid, &Term<Sub>)>| #[trigger] cs_warns_per_sub_wit(s, ws, subs, p1, p2);
            lemma_cs_none_flagged(s, p1, p2, s.len() as int);
        }
    }
}
