// lemmas/callsites.rs -- proved lemmas of unit `callsites` (nothing trusted)

/// vstd states the order of `BTreeMap::iter()` as `increasing_seq` of the key projection; unfolded to cs_tid_lt.
/// Broadcast so that the loop invariant cs_keys_sorted(it.seq()) holds on loop entry.
pub broadcast proof fn lemma_cs_iter_sorted<V>(s: Seq<(&Tid, &V)>)
    requires vstd::laws_cmp::obeys_cmp::<Tid>(), vstd::std_specs::btree::increasing_seq(s.map_values(|kv: (&Tid, &V)| *kv.0))
    ensures #[trigger] cs_keys_sorted(s)
{
    let ks = s.map_values(|kv: (&Tid, &V)| *kv.0);
    vstd::std_specs::btree::axiom_increasing_seq_meaning(ks);
    assert forall |i: int, j: int| 0 <= i < j < s.len() implies cs_tid_lt(*(#[trigger] s[i]).0, *(#[trigger] s[j]).0) by {
        assert(ks[i] == *s[i].0); assert(ks[j] == *s[j].0);
        assert(vstd::std_specs::cmp::OrdSpec::cmp_spec(&ks[i], &ks[j]) == core::cmp::Ordering::Less);
    }
}

/// find_symbol: the entry at position `i` of the ascending iteration is the FIRST symbol named `name` when no earlier
/// entry has that name (stated as an implication so that it can be called at the loop head, whatever the body does).
pub proof fn lemma_cs_first_found(s: Seq<(&Tid, &ExternSymbol)>, m: Map<Tid, ExternSymbol>, i: int, name: Seq<char>)
    requires cs_iter_of(s, m), 0 <= i < s.len(),
    ensures
        ((forall |j: int| 0 <= j < i ==> (#[trigger] s[j]).1.name@ != name) && s[i].1.name@ == name)
            ==> cs_first_named(m, name, *s[i].0),
{
    if (forall |j: int| 0 <= j < i ==> (#[trigger] s[j]).1.name@ != name) && s[i].1.name@ == name {
        let k = *s[i].0;
        assert forall |k2: Tid| m.contains_key(k2) && #[trigger] m[k2].name@ == name && k2 != k implies cs_tid_lt(k, k2) by {
            let j = choose |j: int| 0 <= j < s.len() && *(#[trigger] s[j]).0 == k2;
            assert(m[*s[j].0] == *s[j].1);
            if j < i { assert(s[j].1.name@ != name); }
            assert(j > i);
        }
    }
}
