// ---------------------------------------------------------------------------
// lemmas/instantiate_domain_map_sat.rs -- SATISFIABILITY WITNESSES of the preconditions of unit `instantiate_domain_map`
// (nothing here is trusted).  The unit extracts no function; what carries a `requires` is: the two trait impls
// `impl AbstractDomain for BitvectorDomain / Taint` (merge / merge_with under merge_pre_spec), lemma_inst_bvd_two_members,
// lemma_inst_dm_eq_ok, and the two clients verif_inst_bounds_merge / verif_inst_taint_merge (which PASS ON dm_key_ok::<K>(),
// inst_dm_eq_ok_k::<K>() and a value-level condition on common keys, so they are not witnesses themselves).
//   (c)  existing: lemma_inst_dm_bvd_hyps / lemma_inst_dm_taint_hyps PROVE dm_clone_ok, the V half of dm_eq_ok and dm_merge_hyp at the two
//        real value domains.  New: lemma_sat_instantiate_domain_map_key_u64 PROVES the remaining hypotheses on the key type
//        (dm_key_ok, inst_dm_eq_ok_k, hence dm_eq_ok) at K = u64 -- they are satisfiable; at the real key types (Variable,
//        AbstractIdentifier) they stay hypotheses (d).
//   (a') verif_sat_instantiate_domain_map_bvd_chain / .._taint_chain: exec clients WITHOUT `requires` that build concrete values
//        (Value(from_u8(3)), Top(1 byte); Tainted(4), Top(4)), call the trait impls' merge / merge_with / is_top at them (merge_pre_spec:
//        both well-formed, equal byte size / equal size), build NON-EMPTY BTreeMap<u64, V> with a common key, call the Union and
//        Intersect strategies' merge_map_with of unit domain_map AT THE REAL V (merge_map_pre_spec = dm_common_pre on these maps) and
//        the unit's two clients at K = u64.  MergeTopStrategy needs V: HasTop, which neither V implements here (not instantiated).
//   (b)  lemma_sat_instantiate_domain_map_pre: the value-level preconditions as `exists`, and that they are not trivially true.
// ---------------------------------------------------------------------------

/// (c) the hypotheses on the KEY type hold at K = u64 (obeys_cmp::<u64>() and u64::clone are vstd's), and with the proved V halves
/// they give dm_eq_ok at both real value domains.  Also calls the two lemmas of the unit that have a `requires`.
pub proof fn lemma_sat_instantiate_domain_map_key_u64()
    ensures
        dm_key_ok::<u64>(), inst_dm_eq_ok_k::<u64>(),
        dm_clone_ok::<BitvectorDomain>(), dm_eq_ok::<u64, BitvectorDomain>(), dm_merge_hyp::<BitvectorDomain>(),
        dm_clone_ok::<Taint>(), dm_eq_ok::<u64, Taint>(), dm_merge_hyp::<Taint>(),
{
    lemma_inst_dm_bvd_hyps();
    lemma_inst_dm_taint_hyps();
    // lemma_inst_dm_eq_ok: requires inst_dm_eq_ok_k::<K>(), inst_dm_eq_ok_v::<V>()
    lemma_inst_dm_eq_ok::<u64, BitvectorDomain>();
    lemma_inst_dm_eq_ok::<u64, Taint>();
    // lemma_inst_bvd_two_members: requires 1 <= s.0 <= MAXBYTES()
    lemma_inst_bvd_two_members(ByteSize(1));
}

/// (b) value-level preconditions: merge_pre_spec of the two trait impls (satisfiable, and not by everything)
pub proof fn lemma_sat_instantiate_domain_map_pre()
    ensures
        exists |a: BitvectorDomain, b: BitvectorDomain| a != b && inst_bvd_merge_pre(a, b),
        exists |a: BitvectorDomain, b: BitvectorDomain| a.wf() && b.wf() && !inst_bvd_merge_pre(a, b),
        exists |a: Taint, b: Taint| a != b && AbstractDomain::merge_pre_spec(&a, &b),
{
    let a = BitvectorDomain::Value(bv(8, 3));
    let b = BitvectorDomain::Top(ByteSize(1));
    let c = BitvectorDomain::Top(ByteSize(2));
    lemma_p2_consts();
    assert(a.wf() && b.wf() && c.wf() && a.bytes() == 1 && b.bytes() == 1 && c.bytes() == 2);
    assert(a != b && inst_bvd_merge_pre(a, b));
    assert(a.wf() && c.wf() && !inst_bvd_merge_pre(a, c));
    let t = Taint::Tainted(ByteSize(4));
    let u = Taint::Top(ByteSize(4));
    assert(t != u && AbstractDomain::merge_pre_spec(&t, &u));
}

/// left = {1: Value(3 as u8), 2: Top(1 byte)}   right = {1: Value(4 as u8), 3: Top(2 bytes)}: the common key 1 holds two different
/// well-formed one-byte values
pub fn verif_sat_instantiate_domain_map_mk_bvd() -> (r: (std::collections::BTreeMap<u64, BitvectorDomain>, std::collections::BTreeMap<u64, BitvectorDomain>))
    ensures
        r.0@ == Map::<u64, BitvectorDomain>::empty().insert(1u64, BitvectorDomain::Value(bv(8, 3))).insert(2u64, BitvectorDomain::Top(ByteSize(1))),
        r.1@ == Map::<u64, BitvectorDomain>::empty().insert(1u64, BitvectorDomain::Value(bv(8, 4))).insert(3u64, BitvectorDomain::Top(ByteSize(2))),
        r.0@ != r.1@,
{
    let mut l: std::collections::BTreeMap<u64, BitvectorDomain> = std::collections::BTreeMap::new();
    l.insert(1u64, BitvectorDomain::Value(Bitvector::from_u8(3)));
    l.insert(2u64, BitvectorDomain::Top(ByteSize(1)));
    let mut r: std::collections::BTreeMap<u64, BitvectorDomain> = std::collections::BTreeMap::new();
    r.insert(1u64, BitvectorDomain::Value(Bitvector::from_u8(4)));
    r.insert(3u64, BitvectorDomain::Top(ByteSize(2)));
    proof { assert(l@.contains_key(2u64) && !r@.contains_key(2u64)); }
    (l, r)
}

/// (a') V = BitvectorDomain: the trait impl, the two strategies that need no HasTop, the client verif_inst_bounds_merge at K = u64
pub fn verif_sat_instantiate_domain_map_bvd_chain()
{
    proof { lemma_sat_instantiate_domain_map_key_u64(); lemma_p2_consts(); }
    // impl AbstractDomain for BitvectorDomain: merge / merge_with require merge_pre_spec = inst_bvd_merge_pre
    let a = BitvectorDomain::Value(Bitvector::from_u8(3));
    let b = BitvectorDomain::Top(ByteSize(1));
    let m = <BitvectorDomain as AbstractDomain>::merge(&a, &b);
    let mut c = BitvectorDomain::Value(Bitvector::from_u8(3));
    let d = BitvectorDomain::Value(Bitvector::from_u8(4));
    let _ = <BitvectorDomain as AbstractDomain>::merge_with(&mut c, &d);
    let t = <BitvectorDomain as AbstractDomain>::is_top(&c);
    proof { assert(m == BitvectorDomain::Top(ByteSize(1))); assert(t && c == BitvectorDomain::Top(ByteSize(1))); }
    // the strategies of unit domain_map at the real V: dm_key_ok::<u64>(), dm_clone_ok::<BitvectorDomain>(), dm_common_pre(l, r)
    let (mut l, r) = verif_sat_instantiate_domain_map_mk_bvd();
    <UnionMergeStrategy as MapMergeStrategy<u64, BitvectorDomain>>::merge_map_with(&mut l, &r);
    proof {
        assert(l@.contains_key(1u64) && l@[1u64] == BitvectorDomain::Top(ByteSize(1)));
        assert(l@.contains_key(3u64) && l@.contains_key(2u64));
    }
    let (mut l, r) = verif_sat_instantiate_domain_map_mk_bvd();
    <IntersectMergeStrategy as MapMergeStrategy<u64, BitvectorDomain>>::merge_map_with(&mut l, &r);
    proof { assert(!l@.contains_key(1u64) && !l@.contains_key(2u64) && !l@.contains_key(3u64)); }
    let (l, r) = verif_sat_instantiate_domain_map_mk_bvd();
    let u = <UnionMergeStrategy as MapMergeStrategyDefaults<u64, BitvectorDomain>>::merge_map(&l, &r);
    // the client of the unit: dm_key_ok::<K>(), inst_dm_eq_ok_k::<K>(), common keys hold well-formed bounds of the same byte size
    let x: DomainMap<u64, BitvectorDomain, UnionMergeStrategy> = DomainMap::from(l);
    let y: DomainMap<u64, BitvectorDomain, UnionMergeStrategy> = DomainMap::from(r);
    let z = verif_inst_bounds_merge::<u64>(&x, &y);
    let z2 = verif_inst_bounds_merge::<u64>(&x, &x);
    proof {
        assert(dm_union_represents(x.inner@, 1u64, bv(8, 3)));
        assert(dm_union_represents(z.inner@, 1u64, bv(8, 3)));
        assert(z2 == x);
    }
}

/// left = {1: Tainted(4), 2: Top(4)}   right = {1: Top(4), 3: Tainted(1)}
pub fn verif_sat_instantiate_domain_map_mk_taint() -> (r: (std::collections::BTreeMap<u64, Taint>, std::collections::BTreeMap<u64, Taint>))
    ensures
        r.0@ == Map::<u64, Taint>::empty().insert(1u64, Taint::Tainted(ByteSize(4))).insert(2u64, Taint::Top(ByteSize(4))),
        r.1@ == Map::<u64, Taint>::empty().insert(1u64, Taint::Top(ByteSize(4))).insert(3u64, Taint::Tainted(ByteSize(1))),
        r.0@ != r.1@,
{
    let mut l: std::collections::BTreeMap<u64, Taint> = std::collections::BTreeMap::new();
    l.insert(1u64, Taint::Tainted(ByteSize(4)));
    l.insert(2u64, Taint::Top(ByteSize(4)));
    let mut r: std::collections::BTreeMap<u64, Taint> = std::collections::BTreeMap::new();
    r.insert(1u64, Taint::Top(ByteSize(4)));
    r.insert(3u64, Taint::Tainted(ByteSize(1)));
    proof { assert(l@.contains_key(2u64) && !r@.contains_key(2u64)); }
    (l, r)
}

/// (a') V = Taint: the trait impl, the two strategies that need no HasTop, the client verif_inst_taint_merge at K = u64
pub fn verif_sat_instantiate_domain_map_taint_chain()
{
    proof { lemma_sat_instantiate_domain_map_key_u64(); }
    // impl AbstractDomain for Taint: merge / merge_with require merge_pre_spec = equal sizes
    let a = Taint::Tainted(ByteSize(4));
    let b = Taint::Top(ByteSize(4));
    let m = <Taint as AbstractDomain>::merge(&b, &a);
    let mut c = Taint::Top(ByteSize(4));
    let _ = <Taint as AbstractDomain>::merge_with(&mut c, &a);
    let t = <Taint as AbstractDomain>::is_top(&b);
    proof { assert(m == a && c == a && t); }
    let (mut l, r) = verif_sat_instantiate_domain_map_mk_taint();
    <UnionMergeStrategy as MapMergeStrategy<u64, Taint>>::merge_map_with(&mut l, &r);
    proof {
        assert(l@.contains_key(1u64) && l@[1u64] == Taint::Tainted(ByteSize(4)));
        assert(l@.contains_key(3u64) && l@.contains_key(2u64));
    }
    let (mut l, r) = verif_sat_instantiate_domain_map_mk_taint();
    <IntersectMergeStrategy as MapMergeStrategy<u64, Taint>>::merge_map_with(&mut l, &r);
    proof { assert(l@.contains_key(1u64) && !l@.contains_key(2u64) && !l@.contains_key(3u64)); }
    let (l, r) = verif_sat_instantiate_domain_map_mk_taint();
    let x: DomainMap<u64, Taint, UnionMergeStrategy> = DomainMap::from(l);
    let y: DomainMap<u64, Taint, UnionMergeStrategy> = DomainMap::from(r);
    let z = verif_inst_taint_merge::<u64>(&x, &y);
    let z2 = verif_inst_taint_merge::<u64>(&y, &y);
    proof {
        assert(x.inner@.contains_key(1u64) && x.inner@[1u64].tainted());
        assert(z.inner@.contains_key(1u64) && z.inner@[1u64].tainted());
        assert(z2 == y);
    }
}
