// ---------------------------------------------------------------------------
// lemmas/interval_domain.rs -- proved facts for the IntervalDomain unit.
// ---------------------------------------------------------------------------


/// the idiom `((a % m) + m) % m` with Rust's truncating `%` is the Euclidean remainder
pub proof fn lemma_idom_posmod(a: int, m: int)
    requires m > 0
    ensures ({ let d = vstd::arithmetic::div_mod::rust_rem(a, m); let d2 = vstd::arithmetic::div_mod::rust_rem(d + m, m); 0 <= d2 < m && d2 == a % m }),
            -m < vstd::arithmetic::div_mod::rust_rem(a, m) < m,
{
    let d = vstd::arithmetic::div_mod::rust_rem(a, m);
    if a > 0 {
        vstd::arithmetic::div_mod::lemma_mod_bound(a, m);
        vstd::arithmetic::div_mod::lemma_fundamental_div_mod_converse(d + m, m, 1, d);
    } else if a == 0 {
        vstd::arithmetic::div_mod::lemma_fundamental_div_mod_converse(m, m, 1, 0);
        vstd::arithmetic::div_mod::lemma_fundamental_div_mod_converse(0, m, 0, 0);
    } else {
        let e = (-a) % m;
        vstd::arithmetic::div_mod::lemma_mod_bound(-a, m);
        vstd::arithmetic::div_mod::lemma_fundamental_div_mod(-a, m);
        let q = (-a) / m;
        if e == 0 {
            vstd::arithmetic::div_mod::lemma_fundamental_div_mod_converse(m, m, 1, 0);
            assert(a == m * (-q) + 0) by (nonlinear_arith) requires -a == m * q + e, e == 0;
            vstd::arithmetic::div_mod::lemma_fundamental_div_mod_converse(a, m, -q, 0);
        } else {
            vstd::arithmetic::div_mod::lemma_fundamental_div_mod_converse(m - e, m, 0, m - e);
            assert(a == (-q - 1) * m + (m - e)) by (nonlinear_arith) requires -a == m * q + e;
            vstd::arithmetic::div_mod::lemma_fundamental_div_mod_converse(a, m, -q - 1, m - e);
        }
    }
}

/// rounding s up to the residue class of ss modulo m: d = (ss - s) mod m is the least step
pub proof fn lemma_idom_round_up(ss: int, s: int, m: int)
    requires m > 0
    ensures ({
        let d = (ss - s) % m;
        &&& 0 <= d < m
        &&& (s + d - ss) % m == 0
        &&& forall|v: int| v >= s && #[trigger] ((v - ss) % m) == 0 ==> v >= s + d
    }),
{
    let d = (ss - s) % m;
    vstd::arithmetic::div_mod::lemma_mod_bound(ss - s, m);
    vstd::arithmetic::div_mod::lemma_fundamental_div_mod(ss - s, m);
    let q = (ss - s) / m;
    assert(s + d - ss == m * (-q)) by (nonlinear_arith) requires ss - s == m * q + d;
    lemma_divides_mul(m, -q);
    assert forall|v: int| v >= s && #[trigger] ((v - ss) % m) == 0 implies v >= s + d by {
        // v - s = (v - ss) + (ss - s) = m*k + m*q + d  with v - s >= 0  ->  k + q >= 0
        vstd::arithmetic::div_mod::lemma_fundamental_div_mod(v - ss, m);
        let k = (v - ss) / m;
        assert(v - s == m * (k + q) + d) by (nonlinear_arith) requires v - ss == m * k, ss - s == m * q + d;
        assert(k + q >= 0) by (nonlinear_arith) requires v - s == m * (k + q) + d, v - s >= 0, 0 <= d < m, m > 0;
        assert(m * (k + q) >= 0) by (nonlinear_arith) requires k + q >= 0, m > 0;
    }
}

/// rounding s down to the residue class of se modulo m: d = (s - se) mod m
pub proof fn lemma_idom_round_down(se: int, s: int, m: int)
    requires m > 0
    ensures ({
        let d = (s - se) % m;
        &&& 0 <= d < m
        &&& (s - d - se) % m == 0
        &&& forall|v: int| v <= s && #[trigger] ((v - se) % m) == 0 ==> v <= s - d
    }),
{
    let d = (s - se) % m;
    vstd::arithmetic::div_mod::lemma_mod_bound(s - se, m);
    vstd::arithmetic::div_mod::lemma_fundamental_div_mod(s - se, m);
    let q = (s - se) / m;
    assert(s - d - se == m * q) by (nonlinear_arith) requires s - se == m * q + d;
    lemma_divides_mul(m, q);
    assert forall|v: int| v <= s && #[trigger] ((v - se) % m) == 0 implies v <= s - d by {
        vstd::arithmetic::div_mod::lemma_fundamental_div_mod(v - se, m);
        let k = (v - se) / m;
        assert(s - v == m * (q - k) + d) by (nonlinear_arith) requires v - se == m * k, s - se == m * q + d;
        assert(q - k >= 0) by (nonlinear_arith) requires s - v == m * (q - k) + d, s - v >= 0, 0 <= d < m, m > 0;
        assert(m * (q - k) >= 0) by (nonlinear_arith) requires q - k >= 0, m > 0;
    }
}

/// residues of the same class: (x - a) % m == 0 and (a - b) % m == 0  ==>  (x - b) % m == 0
pub proof fn lemma_idom_same_class(x: int, a: int, b: int, m: int)
    requires m > 0, (a - b) % m == 0
    ensures ((x - a) % m == 0) == ((x - b) % m == 0),
{
    if (x - a) % m == 0 { lemma_divides_add(m, x - a, a - b); }
    if (x - b) % m == 0 { lemma_divides_add(m, x - b, a - b); assert((x - b) - (a - b) == x - a); }
}

/// truncating to `big` bits and then to w <= big bits is truncating to w bits
pub proof fn lemma_idom_trunc_trunc(w: nat, big: nat, x: int)
    requires w <= big
    ensures (trunc(big, x) as int) % (p2(w) as int) == trunc(w, x),
{
    lemma_trunc_range(big, x);
    lemma_p2_mono(w, big);
    let q = x / (p2(big) as int);
    let t = trunc(big, x) as int;
    let k = p2((big - w) as nat) as int;
    assert(x == t + (q * k) * p2(w)) by (nonlinear_arith)
        requires x == q * p2(big) + t, p2(big) == p2(w) * k;
    lemma_trunc_congruent(w, x, t, q * k);
    lemma_trunc_range(w, t);
}

/// with hi - lo on the stride: v is on the stride counted from lo iff it is counted down from hi
pub proof fn lemma_idom_stride_flip(st: u64, lo: int, hi: int, v: int)
    requires on_stride(st, hi - lo)
    ensures on_stride(st, hi - v) == on_stride(st, v - lo),
{
    if st > 0 {
        let m = st as int;
        if on_stride(st, hi - v) { lemma_divides_add(m, hi - lo, hi - v); assert((hi - lo) - (hi - v) == v - lo); }
        if on_stride(st, v - lo) { lemma_divides_add(m, hi - lo, v - lo); assert((hi - lo) - (v - lo) == hi - v); }
    }
}

/// two values on the stride: their difference is on the stride
pub proof fn lemma_idom_stride_diff(st: u64, a: int, b: int)
    requires on_stride(st, a), on_stride(st, b)
    ensures on_stride(st, a - b), on_stride(st, a + b), on_stride(st, b - a),
{
    if st > 0 { lemma_divides_add(st as int, a, b); lemma_divides_add(st as int, b, a); }
}

/// signed / unsigned reading of every well-formed value of width w (quantified form of lemma_sval)
pub proof fn lemma_idom_sval_all(w: nat)
    requires 1 <= w
    ensures forall|v: Bitvector| v.wf() && v.w@ == w ==> (
                smin(w) <= #[trigger] v.s() <= smax(w)
                && (v.s() >= 0) == (v.u@ < p2((w - 1) as nat))
                && (v.u@ < p2((w - 1) as nat) ==> v.s() == v.u@)
                && (v.u@ >= p2((w - 1) as nat) ==> v.s() == v.u@ - p2(w))),
            p2(w) == 2 * p2((w - 1) as nat), p2((w - 1) as nat) > 0,
{
    assert forall|v: Bitvector| v.wf() && v.w@ == w implies (
                smin(w) <= #[trigger] v.s() <= smax(w)
                && (v.s() >= 0) == (v.u@ < p2((w - 1) as nat))
                && (v.u@ < p2((w - 1) as nat) ==> v.s() == v.u@)
                && (v.u@ >= p2((w - 1) as nat) ==> v.s() == v.u@ - p2(w))) by {
        lemma_sval(w, v.u@);
    }
    lemma_p2(w); lemma_p2((w - 1) as nat);
}

/// same width, well-formed, same signed value ==> same bitvector
pub proof fn lemma_idom_sval_inj(a: Bitvector, b: Bitvector)
    requires a.wf(), b.wf(), a.w@ == b.w@, a.s() == b.s()
    ensures a == b,
{
    lemma_sval(a.w@, a.u@); lemma_sval(b.w@, b.u@);
}

/// positive multiple of m is at least m
pub proof fn lemma_idom_multiple_ge(m: int, d: int)
    requires m > 0, d > 0, d % m == 0
    ensures d >= m,
{
    vstd::arithmetic::div_mod::lemma_fundamental_div_mod(d, m);
    let q = d / m;
    assert(q >= 1) by (nonlinear_arith) requires d == m * q, d > 0, m > 0;
    assert(m * q >= m) by (nonlinear_arith) requires q >= 1, m > 0;
}

/// m1 | m2 and m2 | m1 for positive numbers: equal
pub proof fn lemma_idom_divides_antisym(m1: int, m2: int)
    requires m1 > 0, m2 > 0, m2 % m1 == 0, m1 % m2 == 0
    ensures m1 == m2,
{
    lemma_idom_multiple_ge(m1, m2); lemma_idom_multiple_ge(m2, m1);
}

/// the second member of a non-singleton interval: start + stride
pub proof fn lemma_idom_second_member(a: Interval) -> (v: Bitvector)
    requires a.inv(), a.stride > 0
    ensures a.gamma(v), v.s() == a.start.s() + a.stride,
{
    let w = a.w();
    lemma_sval(w, a.start.u@); lemma_sval(w, a.end.u@);
    lemma_idom_multiple_ge(a.stride as int, a.end.s() - a.start.s());
    let x = a.start.s() + a.stride;
    lemma_trunc_sval(w, x);
    let v = bv(w, trunc(w, x));
    lemma_divides_mul(a.stride as int, 1);
    v
}

/// intervals are canonical: same represented set ==> same interval
pub proof fn lemma_idom_canonical(a: Interval, b: Interval)
    requires a.inv(), b.inv(), a.w() == b.w(),
             forall|v: Bitvector| a.gamma(v) == b.gamma(v),
    ensures a == b,
{
    // bounds are members
    assert(a.gamma(a.start) && a.gamma(a.end) && b.gamma(b.start) && b.gamma(b.end)) by {
        if a.stride > 0 { lemma_divides_mul(a.stride as int, 0); }
        if b.stride > 0 { lemma_divides_mul(b.stride as int, 0); }
    }
    assert(b.gamma(a.start) && b.gamma(a.end) && a.gamma(b.start) && a.gamma(b.end));
    lemma_idom_sval_inj(a.start, b.start);
    lemma_idom_sval_inj(a.end, b.end);
    if a.stride > 0 {
        let va = lemma_idom_second_member(a);
        let vb = lemma_idom_second_member(b);
        assert(b.gamma(va) && a.gamma(vb));
        lemma_idom_divides_antisym(a.stride as int, b.stride as int);
    }
}
