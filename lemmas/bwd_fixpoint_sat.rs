// ---------------------------------------------------------------------------
// lemmas/bwd_fixpoint_sat.rs -- SATISFIABILITY WITNESSES of the preconditions of unit `bwd_fixpoint` (nothing here is trusted).
//   (c) BfSatCtx: a toy BACKWARD interprocedural Context<'a> (Value = u8, merge = max, transfers = identity; split_call_stub = None)
//       over an arbitrary Graph<'a>: the restated backward trait IS implementable; ff_clone_ok::<u8>() is PROVED by
//       lemma_sat_fwd_fixpoint_clone_ok (unit fwd_fixpoint).
//   (a') verif_sat_bwd_fixpoint_chain: no `requires`; constructs block / function / jumps from arbitrary Tids / Expressions / a name,
//       BUILDS the REVERSED toy graph of lemmas/fwd_fixpoint_sat.rs (verif_sat_fwd_fixpoint_graph(.., rev = true): one node of every
//       kind, one edge of every kind, DiGraph::new / add_node / add_edge), forms GeneralizedContext<BfSatCtx> on it and CALLS the
//       extracted update_edge on every edge (bf_edge_pre, all 8 arms) and merge on both variants, both also through the restated
//       solver-level trait GeneralFPContext (update_edge_pre / merge_pre), then lemma_bf_pre_from_shape / _shape_kept_edge /
//       _shape_kept_merge and lemma_bf_kinds_from_cfg_shape (g = the toy graph in CFG direction, which has cfg_graph_shape;
//       r = its reversal: bf_is_reversal is PROVED for the pair).  Nothing is conditional.
//       verif_sat_bwd_fixpoint_computations: BfFns::create_computation* (no precondition) at the toy.
// ---------------------------------------------------------------------------

pub struct BfSatCtx<'a> { pub g: Graph<'a> }

impl<'a> Context<'a> for BfSatCtx<'a> {
    type Value = u8;

    open spec fn graph_spec(&self) -> Graph<'a> { self.g }
    open spec fn merge_spec(&self, value1: u8, value2: u8) -> u8 { if value1 >= value2 { value1 } else { value2 } }
    open spec fn update_def_spec(&self, value: u8, def: Term<Def>) -> Option<u8> { Some(value) }
    open spec fn update_jumpsite_spec(&self, value_after_jump: u8, jump: Term<Jmp>, untaken_conditional: Option<Term<Jmp>>, jumpsite: Term<Blk>) -> Option<u8> { Some(value_after_jump) }
    open spec fn update_callsite_spec(&self, target_value: Option<u8>, return_value: Option<u8>, caller_sub: Term<Sub>, call: Term<Jmp>, return_: Term<Jmp>) -> Option<u8> { target_value }
    open spec fn split_call_stub_spec(&self, combined_value: u8) -> Option<u8> { None }
    open spec fn split_return_stub_spec(&self, combined_value: u8, returned_from_sub: Term<Sub>) -> Option<u8> { Some(combined_value) }
    open spec fn update_call_stub_spec(&self, value_after_call: u8, call: Term<Jmp>) -> Option<u8> { Some(value_after_call) }
    open spec fn specialize_conditional_spec(&self, value_after_jump: u8, condition: Expression, is_true: bool) -> Option<u8> { Some(value_after_jump) }

    fn get_graph(&self) -> (r: &Graph<'a>) { &self.g }
    fn merge(&self, value1: &u8, value2: &u8) -> (r: u8) { if *value1 >= *value2 { *value1 } else { *value2 } }
    fn update_def(&self, value: &u8, def: &Term<Def>) -> (r: Option<u8>) { Some(*value) }
    fn update_jumpsite(&self, value_after_jump: &u8, jump: &Term<Jmp>, untaken_conditional: Option<&Term<Jmp>>, jumpsite: &Term<Blk>) -> (r: Option<u8>) { Some(*value_after_jump) }
    fn update_callsite(&self, target_value: Option<&u8>, return_value: Option<&u8>, caller_sub: &Term<Sub>, call: &Term<Jmp>, return_: &Term<Jmp>) -> (r: Option<u8>) {
        match target_value { Some(t) => Some(*t), None => None }
    }
    fn split_call_stub(&self, combined_value: &u8) -> (r: Option<u8>) { None }
    fn split_return_stub(&self, combined_value: &u8, returned_from_sub: &Term<Sub>) -> (r: Option<u8>) { Some(*combined_value) }
    fn update_call_stub(&self, value_after_call: &u8, call: &Term<Jmp>) -> (r: Option<u8>) { Some(*value_after_call) }
    fn specialize_conditional(&self, value_after_jump: &u8, condition: &Expression, is_true: bool) -> (r: Option<u8>) { Some(*value_after_jump) }
}

/// the reversed toy graph IS the reversal (petgraph `Graph::reverse`) of the toy graph in CFG direction
pub proof fn lemma_sat_bwd_fixpoint_reversal<'a>(g: Graph<'a>, r: Graph<'a>, blk: &'a Term<Blk>, sub: &'a Term<Sub>, j: &'a Term<Jmp>, jc: &'a Term<Jmp>)
    requires
        ff_sat_graph(g, blk, sub, j, jc, false),
        ff_sat_graph(r, blk, sub, j, jc, true),
    ensures
        bf_is_reversal(g, r),
{
    assert forall |n: int| 0 <= n < g.node_count_spec() implies #[trigger] r.node_weight(n) == g.node_weight(n) by {
        if n == 0 {} else if n == 1 {} else if n == 2 {} else {}
    }
    assert forall |e: int| 0 <= e < g.edge_seq().len() implies (#[trigger] r.edge_seq()[e]) == (g.edge_seq()[e].1, g.edge_seq()[e].0) by {
        if e == 0 {} else if e == 1 {} else if e == 2 {} else if e == 3 {} else if e == 4 {} else if e == 5 {} else if e == 6 {}
        else if e == 7 {} else if e == 8 {} else {}
    }
    assert forall |e: int| 0 <= e < g.edge_seq().len() implies #[trigger] r.edge_weight(e) == g.edge_weight(e) by {
        if e == 0 {} else if e == 1 {} else if e == 2 {} else if e == 3 {} else if e == 4 {} else if e == 5 {} else if e == 6 {}
        else if e == 7 {} else if e == 8 {} else {}
    }
}

/// (a') every contracted function of the unit is called on the reversed toy graph; the arguments are arbitrary Tids /
/// Expressions / a name / a Def (plain values of transparent types, no `requires`)
#[verifier::exec_allows_no_decreases_clause]
pub fn verif_sat_bwd_fixpoint_chain(t1: Tid, t2: Tid, t3: Tid, t4: Tid, t5: Tid, t6: Tid, t7: Tid, t8: Tid, t9: Tid,
                                    cond: Expression, ret: Expression, name: String, d1: Term<Def>, d2: Term<Def>)
{
    proof { lemma_sat_fwd_fixpoint_clone_ok(); }
    // a block with two Defs and the jumps [direct call, return]; a function; a plain jump and a conditional branch
    let mut defs: Vec<Term<Def>> = Vec::new();
    defs.push(d1);
    defs.push(d2);
    let mut jmps: Vec<Term<Jmp>> = Vec::new();
    jmps.push(Term { tid: t1, term: Jmp::Call { target: t2, return_: None } });
    jmps.push(Term { tid: t3, term: Jmp::Return(ret) });
    let blk = Term { tid: t4, term: Blk { defs, jmps, indirect_jmp_targets: Vec::new() } };
    let sub = Term { tid: t5, term: Sub { name, blocks: Vec::new(), calling_convention: None } };
    let j = Term { tid: t6, term: Jmp::Branch(t7) };
    let jc = Term { tid: t8, term: Jmp::CBranch { target: t9, condition: cond } };
    let fwd = verif_sat_fwd_fixpoint_graph(&blk, &sub, &j, &jc, false);
    let r = verif_sat_fwd_fixpoint_graph(&blk, &sub, &j, &jc, true);
    let ghost gr = r;
    let gc = GeneralizedContext::new(BfSatCtx { g: r });
    let v: NodeValue<u8> = NodeValue::Value(7);
    let cf: NodeValue<u8> = NodeValue::CallFlowCombinator { call_stub: None, interprocedural_flow: Some(3) };
    let cf2: NodeValue<u8> = NodeValue::CallFlowCombinator { call_stub: Some(1), interprocedural_flow: Some(9) };

    // GeneralizedContext::merge (extracted body): ff_clone_ok, equal variants -- both variants
    let _ = gc.merge(&v, &v);
    let _ = gc.merge(&cf, &cf2);
    // ... and through the restated solver-level trait: merge_pre
    let _ = GeneralFPContext::merge(&gc, &v, &v);
    let _ = GeneralFPContext::merge(&gc, &cf2, &cf);

    // GeneralizedContext::update_edge (extracted body): ff_clone_ok, bf_edge_pre -- one call per edge kind
    let _ = gc.update_edge(&v, EdgeIndex { i: 0 });     // Block          BlkEnd -> BlkStart
    let _ = gc.update_edge(&cf, EdgeIndex { i: 1 });    // CallCombine    CallSource -> BlkEnd (a combinator value; the callsite block has a jump)
    let _ = gc.update_edge(&v, EdgeIndex { i: 2 });     // Call           BlkStart -> CallSource
    let _ = gc.update_edge(&v, EdgeIndex { i: 3 });     // CrCallStub     CallReturn -> CallSource
    let _ = gc.update_edge(&v, EdgeIndex { i: 4 });     // CrReturnStub   CallReturn -> BlkEnd
    let _ = gc.update_edge(&v, EdgeIndex { i: 5 });     // ReturnCombine  BlkStart -> CallReturn
    let _ = gc.update_edge(&v, EdgeIndex { i: 6 });     // ExternCallStub BlkStart -> BlkEnd
    let _ = gc.update_edge(&v, EdgeIndex { i: 7 });     // Jump(plain, None)
    let _ = gc.update_edge(&v, EdgeIndex { i: 8 });     // Jump(CBranch, None)
    let _ = gc.update_edge(&v, EdgeIndex { i: 9 });     // Jump(plain, Some(untaken CBranch))
    // ... and through the restated solver-level trait: update_edge_pre
    let _ = GeneralFPContext::update_edge(&gc, &v, EdgeIndex { i: 0 });
    let _ = GeneralFPContext::update_edge(&gc, &cf2, EdgeIndex { i: 1 });
    let _ = GeneralFPContext::get_graph(&gc);
    let _ = gc.get_context();
    let _ = gc.get_graph();

    // the lemmas of the unit that carry `requires`
    proof {
        let c = gc.context;
        assert(c.graph_spec() == gr);
        axiom_cg_digraph_bounds(gr);
        // lemma_bf_pre_from_shape / lemma_bf_shape_kept_edge: edge in range, bf_edge_kinds_ok, bf_shape of the source
        lemma_bf_pre_from_shape(gr, v, 0);
        lemma_bf_pre_from_shape(gr, cf, 1);
        lemma_bf_shape_kept_edge(c, v, 2);
        lemma_bf_shape_kept_edge(c, cf, 1);
        // lemma_bf_shape_kept_merge: both values have the shape of the same node
        lemma_bf_shape_kept_merge(c, gr.node_weight(2), cf, cf2);
        lemma_bf_shape_kept_merge(c, gr.node_weight(0), v, v);
        // lemma_bf_kinds_from_cfg_shape: cfg_graph_shape(g) and bf_is_reversal(g, r)
        lemma_sat_fwd_fixpoint_shape(fwd, &blk, &sub, &j, &jc);
        lemma_sat_bwd_fixpoint_reversal(fwd, gr, &blk, &sub, &j, &jc);
        lemma_bf_kinds_from_cfg_shape(fwd, gr);
    }
}

/// (a') the three constructors of the backward module at the toy context (no precondition; they discharge the `requires` of
/// Computation::from_node_priority_list with the worklists of unit fwd_fixpoint)
pub fn verif_sat_bwd_fixpoint_computations<'a>(blk: &'a Term<Blk>, sub: &'a Term<Sub>, j: &'a Term<Jmp>, jc: &'a Term<Jmp>)
{
    let c1 = BfFns::create_computation(BfSatCtx { g: verif_sat_fwd_fixpoint_graph(blk, sub, j, jc, true) }, Some(1u8));
    let c2 = BfFns::create_computation_with_bottom_up_worklist_order(BfSatCtx { g: verif_sat_fwd_fixpoint_graph(blk, sub, j, jc, true) }, Some(0u8));
    let c3 = BfFns::create_computation_with_top_down_worklist_order(BfSatCtx { g: verif_sat_fwd_fixpoint_graph(blk, sub, j, jc, true) }, None);
}
