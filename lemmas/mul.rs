// ---------------------------------------------------------------------------
// lemmas/mul.rs -- truncating division facts and the overflow test of
// signed multiplication (no assumptions).
// ---------------------------------------------------------------------------

pub open spec fn iabs(x: int) -> int { if x < 0 { -x } else { x } }

/// Euclidean facts for a non-negative dividend and a positive divisor
pub proof fn lemma_div_pos(x: int, y: int)
    requires x >= 0, y > 0
    ensures x == y * (x / y) + x % y, 0 <= x % y < y, 0 <= x / y <= x,
{
    vstd::arithmetic::div_mod::lemma_fundamental_div_mod(x, y);
    vstd::arithmetic::div_mod::lemma_mod_bound(x, y);
    vstd::arithmetic::div_mod::lemma_div_pos_is_pos(x, y);
    assert(x / y <= x) by (nonlinear_arith)
        requires x == y * (x / y) + x % y, 0 <= x % y, y >= 1, x / y >= 0;
}

pub proof fn lemma_tdiv_props(a: int, b: int)
    requires b != 0
    ensures a == b * tdiv(a, b) + trem(a, b),
            iabs(trem(a, b)) < iabs(b),
            a >= 0 ==> trem(a, b) >= 0,
            a <= 0 ==> trem(a, b) <= 0,
            iabs(tdiv(a, b)) <= iabs(a),
            (a >= 0 && b > 0 || a <= 0 && b < 0) ==> tdiv(a, b) >= 0,
            (a >= 0 && b < 0 || a <= 0 && b > 0) ==> tdiv(a, b) <= 0,
{
    if a >= 0 && b > 0 {
        lemma_div_pos(a, b);
    } else if a >= 0 && b < 0 {
        lemma_div_pos(a, -b);
        let q = a / (-b);
        assert(b * (-q) == (-b) * q) by (nonlinear_arith);
    } else if a < 0 && b > 0 {
        lemma_div_pos(-a, b);
        let q = (-a) / b;
        assert(b * (-q) == -(b * q)) by (nonlinear_arith);
    } else {
        lemma_div_pos(-a, -b);
        let q = (-a) / (-b);
        assert(b * q == -((-b) * q)) by (nonlinear_arith);
    }
}

/// exact division: (a*b) tdiv a == b
pub proof fn lemma_tdiv_exact(a: int, b: int)
    requires a != 0
    ensures tdiv(a * b, a) == b, trem(a * b, a) == 0,
{
    lemma_tdiv_props(a * b, a);
    let q = tdiv(a * b, a);
    let r = trem(a * b, a);
    assert(a * (b - q) == r) by (nonlinear_arith) requires a * b == a * q + r;
    if b != q {
        assert(iabs(a * (b - q)) >= iabs(a)) by (nonlinear_arith) requires b != q, a != 0;
    }
    assert(a * 0 == 0);
}

/// The overflow test of `signed_mult_with_overflow_flag` (with both quotient checks):
/// sr is the wrapped product.  The two checks pass exactly when the true product is representable.
pub proof fn lemma_mul_overflow_check(w: nat, sa: int, sb: int, sr: int, k: int)
    requires w >= 2, sa != 0,
             smin(w) <= sa <= smax(w), smin(w) <= sb <= smax(w), smin(w) <= sr <= smax(w),
             sa * sb == sr + k * p2(w),
    ensures ({
        let ok1 = trunc(w, tdiv(sr, sa)) == trunc(w, sb);
        let ok2 = sb == 0 || trunc(w, tdiv(sr, sb)) == trunc(w, sa);
        let fits = smin(w) <= sa * sb <= smax(w);
        &&& (ok1 && ok2) == fits
        &&& fits ==> sr == sa * sb
    }),
{
    let p = p2(w) as int;
    let h = p2((w - 1) as nat) as int;
    lemma_p2(w); lemma_p2((w - 1) as nat); lemma_p2((w - 2) as nat);
    assert(p == 2 * h && h >= 2);
    let fits = smin(w) <= sa * sb <= smax(w);
    if fits {
        // both in range and congruent -> equal
        assert(k == 0) by (nonlinear_arith)
            requires sa * sb == sr + k * p, -h <= sa * sb < h, -h <= sr < h, p == 2 * h, h > 0;
        assert(sr == sa * sb);
        lemma_tdiv_exact(sa, sb);
        if sb != 0 {
            assert(sa * sb == sb * sa) by (nonlinear_arith);
            lemma_tdiv_exact(sb, sa);
        }
    } else {
        // show: ok1 && ok2 is impossible
        let q1 = tdiv(sr, sa);
        lemma_tdiv_props(sr, sa);
        if trunc(w, q1) == trunc(w, sb) {
            if q1 <= smax(w) {
                // q1 in range (|q1| <= |sr| <= h), so q1 == sb
                lemma_trunc_sval(w, q1); lemma_trunc_sval(w, sb);
                assert(q1 == sb);
                let r = trem(sr, sa);
                // sr == sa*sb + r,  sa*sb == sr + k*p  ->  r == -k*p, |r| < |sa| <= h < p -> k == 0
                assert(k == 0) by (nonlinear_arith)
                    requires sr == sa * sb + r, sa * sb == sr + k * p, iabs(r) < iabs(sa), iabs(sa) <= h, p == 2 * h, h > 0;
                assert(false);
            } else {
                // q1 == h: only for sr == -h and sa == -1; then sb == -h and the second check fails
                assert(q1 == h);
                assert(iabs(sr) == h && iabs(sa) == 1) by (nonlinear_arith)
                    requires sr == sa * q1 + trem(sr, sa), q1 == h, iabs(trem(sr, sa)) < iabs(sa), -h <= sr < h, sa != 0, h > 0,
                             sr >= 0 ==> trem(sr, sa) >= 0, sr <= 0 ==> trem(sr, sa) <= 0;
                assert(sr == -h);
                assert(sa == -1) by {
                    if sa == 1 { assert(tdiv(-h, 1) == -(h / 1)); assert(h / 1 == h) by { vstd::arithmetic::div_mod::lemma_div_basics_3(h); } }
                }
                lemma_trunc_unique(w, h, 0, h);
                lemma_trunc_sval(w, sb);
                assert(sb == -h);
                // second check: tdiv(-h, -h) == 1, trunc(1) == 1 != trunc(-1) == p - 1
                assert(tdiv(sr, sb) == 1) by { vstd::arithmetic::div_mod::lemma_div_basics_3(h); assert(h / h == 1) by { vstd::arithmetic::div_mod::lemma_div_by_self(h); } }
                lemma_trunc_id(w, 1);
                lemma_trunc_sval(w, sa);
                assert(trunc(w, sa) == p - 1);
            }
        }
    }
}

pub proof fn lemma_trunc_eq_congruent(w: nat, x: int, y: int)
    requires trunc(w, x) == trunc(w, y)
    ensures x == y + ((x - y) / (p2(w) as int)) * p2(w),
{
    lemma_trunc_range(w, x); lemma_trunc_range(w, y);
    let p = p2(w) as int;
    let (qx, qy) = (x / p, y / p);
    assert(x - y == (qx - qy) * p + 0) by (nonlinear_arith)
        requires x == qx * p + trunc(w, x), y == qy * p + trunc(w, y), trunc(w, x) == trunc(w, y);
    lemma_p2(w);
    vstd::arithmetic::div_mod::lemma_fundamental_div_mod_converse(x - y, p, qx - qy, 0);
}

/// what `signed_mult_with_overflow_flag` needs to know about its operands
pub proof fn lemma_mul_flag_facts(a: Bitvector, b: Bitvector)
    requires a.wf(), b.wf(), a.w@ == b.w@, a.w@ >= 2
    ensures ({
        let w = a.w@;
        let r = bv_mul(a, b);
        let fits = smin(w) <= a.s() * b.s() <= smax(w);
        let ok1 = trunc(w, tdiv(r.s(), a.s())) == b.u@;
        let ok2 = b.u@ == 0 || trunc(w, tdiv(r.s(), b.s())) == a.u@;
        &&& r.wf()
        &&& (a.u@ == 0) == (a.s() == 0) && (b.u@ == 0) == (b.s() == 0)
        &&& a.u@ != 0 ==> (ok1 && ok2) == fits
        &&& a.u@ == 0 ==> fits && r.u@ == 0
        &&& fits ==> r.s() == a.s() * b.s()
    }),
{
    let w = a.w@;
    let r = bv_mul(a, b);
    lemma_sval(w, a.u@); lemma_sval(w, b.u@);
    lemma_trunc_range(w, (a.u@ * b.u@) as int);
    lemma_sval(w, r.u@);
    // trunc(sa*sb) == trunc(ua*ub) == ur == trunc(sr)
    lemma_trunc_mul(w, a.s(), b.s());
    lemma_trunc_eq_congruent(w, a.s() * b.s(), r.s());
    let k = (a.s() * b.s() - r.s()) / (p2(w) as int);
    if a.u@ != 0 {
        lemma_mul_overflow_check(w, a.s(), b.s(), r.s(), k);
    } else {
        assert(a.s() * b.s() == 0) by (nonlinear_arith) requires a.s() == 0;
        assert(a.u@ * b.u@ == 0) by (nonlinear_arith) requires a.u@ == 0;
        lemma_trunc_id(w, 0);
        lemma_p2((w - 1) as nat);
    }
}
