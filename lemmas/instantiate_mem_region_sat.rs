// ---------------------------------------------------------------------------
// lemmas/instantiate_mem_region_sat.rs -- SATISFIABILITY WITNESSES of the preconditions of unit `instantiate_mem_region`
// (nothing here is trusted).
//   (c)  mr_domain_ok / mr_eq_is_spec_eq / mr_merge_idem at T = BitvectorDomain: lemma_inst_mr_domain_ok_bvd (the unit; no hypothesis);
//        mr_domain_ok at T = Data: lemma_inst_mr_domain_ok_data, RELATIVE TO (d) dd_id_ok = vstd::laws_cmp::obeys_cmp::<AbstractIdentifier>();
//        mr_eq_is_spec_eq at T = Data: lemma_inst_mr_eq_data, RELATIVE TO inst_id_eq_ok (obeys_eq_spec of the OPAQUE external type
//        AbstractIdentifier + "eq_spec is ==": both uninterpreted for an external_body struct with external_derive -- treated as (d)).
//   (a') verif_sat_instantiate_mem_region_bvd_chain: NO `requires`; a MemRegion<BitvectorDomain> with address size 8 and the two cells
//        0 -> Value(5: 32 bit), 16 -> Value(9: 64 bit) is built by new / add; the restated trait methods of the instance (merge /
//        bytesize / top: precondition wf) are called on constructed values; verif_inst_mr_bvd_write_read, and -- contracts of unit
//        mem_region AT THE REAL INSTANCE -- get, remove, merge_write_top, mark_all_values_as_top, add_offset_to_all_indices, merge
//        (mr_merge_pre = both cells wf, from mr_cells_inv) are called on the non-empty region.
//   (a') verif_sat_instantiate_mem_region_data_chain: `requires dd_id_ok(), inst_id_eq_ok()` ONLY (relative to (d)); values are built by
//        DataDomain::from(IntervalDomain::from(Bitvector::from_u32/from_u64(..))) (an absolute constant, no targets, not top) and
//        DataDomain::new_top; the restated trait methods of the instance (merge under inst_data_merge_pre: two constants of equal width),
//        verif_inst_mr_data_write_read and verif_inst_mr_data_merge on two regions that hold a cell of equal size at a COMMON offset
//        (so the `forall k` hypothesis inst_data_merge_pre of that client is exercised on a real pair, not vacuously).
//   NOT constructible in exec code here: a Data value WITH targets (AbstractIdentifier is opaque, no constructor in any shim), so the
//        `forall id` conjunct of inst_data_merge_pre is witnessed only by values without targets.
// ---------------------------------------------------------------------------

/// (a') a MemRegion<BitvectorDomain> with address size 8 and exactly the two cells 0 -> Value(5: 32 bit), 16 -> Value(9: 64 bit)
pub fn verif_sat_instantiate_mem_region_bvd_two_cells() -> (r: MemRegion<BitvectorDomain>)
    ensures
        r.ok(), r.inner.address_bytesize == ByteSize(8),
        r.cells() =~= Map::<i64, BitvectorDomain>::empty().insert(0i64, BitvectorDomain::Value(bv(32, 5))).insert(16i64, BitvectorDomain::Value(bv(64, 9))),
{
    proof { lemma_inst_mr_domain_ok_bvd(); lemma_p2_consts(); }
    let mut r: MemRegion<BitvectorDomain> = MemRegion::new(ByteSize(8));
    let p0 = Bitvector::from_u64(0);
    let p16 = Bitvector::from_u64(16);
    assert(p0.s() == 0 && p16.s() == 16);
    r.add(BitvectorDomain::Value(Bitvector::from_u32(5)), p0);
    r.add(BitvectorDomain::Value(Bitvector::from_u64(9)), p16);
    r
}

/// (a') the instance T = BitvectorDomain: restated trait methods, the unit's client, contracts of unit mem_region on a non-empty region
#[verifier::exec_allows_no_decreases_clause]
pub fn verif_sat_instantiate_mem_region_bvd_chain()
{
    proof { lemma_inst_mr_domain_ok_bvd(); lemma_p2_consts(); }
    let p0 = Bitvector::from_u64(0);
    let p4 = Bitvector::from_u64(4);
    let p16 = Bitvector::from_u64(16);
    let p40 = Bitvector::from_u64(40);
    let s8 = Bitvector::from_u64(8);
    assert(p0.s() == 0 && p4.s() == 4 && p16.s() == 16 && p40.s() == 40 && s8.s() == 8);
    let v = BitvectorDomain::Value(Bitvector::from_u32(5));
    let w = BitvectorDomain::Value(Bitvector::from_u32(6));
    let t = BitvectorDomain::Top(ByteSize(4));

    // restated traits at the instance: merge_pre_spec = both wf; bytesize_pre_spec = top_pre_spec = wf
    let m1 = <BitvectorDomain as inst_mr::AbstractDomain>::merge(&v, &w);
    let m2 = <BitvectorDomain as inst_mr::AbstractDomain>::merge(&v, &t);
    assert(m1 == BitvectorDomain::Top(ByteSize(4)) && m2 == m1);
    let b1 = <BitvectorDomain as inst_mr::SizedDomain>::bytesize(&v);
    let b2 = <BitvectorDomain as inst_mr::SizedDomain>::bytesize(&t);
    assert(b1.0 == 4 && b2.0 == 4);
    let _ = <BitvectorDomain as inst_mr::HasTop>::top(&v);
    let _ = <BitvectorDomain as inst_mr::HasTop>::top(&t);

    // the client of the unit: value.wf(), value is Value, position bounds
    let mut a = verif_sat_instantiate_mem_region_bvd_two_cells();
    let c = verif_inst_mr_bvd_write_read(&mut a, BitvectorDomain::Value(Bitvector::from_u8(3)), p40);
    assert(c == BitvectorDomain::Value(bv(8, 3)));

    // contracts of unit mem_region at the real instance, on the non-empty region
    let a = verif_sat_instantiate_mem_region_bvd_two_cells();
    let g = a.get(p0, ByteSize(4));
    assert(g == BitvectorDomain::Value(bv(32, 5)));
    let mut a = verif_sat_instantiate_mem_region_bvd_two_cells();
    a.remove(p4, s8);
    assert(a.cells().contains_key(0) && a.cells().contains_key(16));
    let mut a = verif_sat_instantiate_mem_region_bvd_two_cells();
    a.merge_write_top(p16, ByteSize(8));
    assert(a.cells().contains_key(0) && !a.cells().contains_key(16));
    let mut a = verif_sat_instantiate_mem_region_bvd_two_cells();
    a.mark_all_values_as_top();
    let mut a = verif_sat_instantiate_mem_region_bvd_two_cells();
    a.add_offset_to_all_indices(-100);
    assert(a.cells().contains_key(-100i64) && a.cells().contains_key(-84i64));
    // merge: mr_merge_pre on the two common offsets 0 and 16 (equal sizes) = the cells are wf
    let a = verif_sat_instantiate_mem_region_bvd_two_cells();
    let mut b = verif_sat_instantiate_mem_region_bvd_two_cells();
    b.add(BitvectorDomain::Value(Bitvector::from_u64(10)), p16);
    assert(a.cells().contains_key(16) && b.cells().contains_key(16) && a.cells()[16] != b.cells()[16]);
    let m = a.merge(&b);
    assert(inst_mr::mr_merge_keeps(a.cells(), b.cells(), 0));
    assert(m.cells().contains_key(0) && !m.cells().contains_key(16));
}

/// (a') relative to (d): the instance T = Data.  Values: absolute constants (no targets) and new_top.
#[verifier::exec_allows_no_decreases_clause]
pub fn verif_sat_instantiate_mem_region_data_chain()
    requires dd_id_ok(), inst_id_eq_ok(),
{
    proof { lemma_inst_mr_domain_ok_data(); lemma_inst_mr_eq_data(); lemma_p2_consts(); }
    let p0 = Bitvector::from_u64(0);
    let p16 = Bitvector::from_u64(16);
    let p40 = Bitvector::from_u64(40);
    assert(p0.s() == 0 && p16.s() == 16 && p40.s() == 40);
    let i5 = IntervalDomain::from(Bitvector::from_u32(5));
    let i6 = IntervalDomain::from(Bitvector::from_u32(6));
    let i9 = IntervalDomain::from(Bitvector::from_u64(9));
    proof {
        lemma_inst_iv_bytesize_fn(i5); lemma_inst_iv_bytesize_fn(i6); lemma_inst_iv_bytesize_fn(i9);
        assert(i5.inv() && i6.inv() && i9.inv());
    }
    let d5 = DataDomain::from(i5);
    let d6 = DataDomain::from(i6);
    let d9 = DataDomain::from(i9);
    let dt = DataDomain::<IntervalDomain>::new_top(ByteSize(4));
    assert(d5.size.0 == 4 && d6.size.0 == 4 && d9.size.0 == 8);
    assert(inst_data_merge_pre(d5, d6));
    assert(!inst_data_is_top(d5) && inst_data_is_top(dt));

    // restated traits at the instance: merge_pre_spec = dd_id_ok && inst_data_merge_pre; bytesize / top are total
    let _ = <DataDomain<IntervalDomain> as inst_mr::AbstractDomain>::merge(&d5, &d6);
    let _ = <DataDomain<IntervalDomain> as inst_mr::AbstractDomain>::merge(&d5, &dt);
    let _ = <DataDomain<IntervalDomain> as inst_mr::SizedDomain>::bytesize(&d5);
    let _ = <DataDomain<IntervalDomain> as inst_mr::HasTop>::top(&d5);

    // a = {0 -> d5, 16 -> d9}; b = {0 -> d6, 16 -> d9}
    let mut a: MemRegion<DataDomain<IntervalDomain>> = MemRegion::new(ByteSize(8));
    a.add(d5.clone(), p0);
    a.add(d9.clone(), p16);
    let mut b: MemRegion<DataDomain<IntervalDomain>> = MemRegion::new(ByteSize(8));
    b.add(d6.clone(), p0);
    b.add(d9.clone(), p16);
    assert(a.cells().contains_key(0) && a.cells()[0] == d5 && a.cells().contains_key(16) && a.cells()[16] == d9);
    assert(b.cells().contains_key(0) && b.cells()[0] == d6 && b.cells().contains_key(16) && b.cells()[16] == d9);

    // verif_inst_mr_data_merge: the `forall k` hypothesis on the two common offsets (equal sizes)
    assert(inst_data_merge_pre(d9, d9));
    let _ = verif_inst_mr_data_merge(&a, &b);

    // NOT DEGENERATE: at T = Data a cell merged with top() is NOT the unknown value (it keeps its absolute part), so the
    // "replaced by merge(cell, top)" branch of the contracts of unit mem_region is inhabited (at MrToy / BitvectorDomain it is not)
    b.mark_all_values_as_top();
    assert(b.cells().contains_key(0) && b.cells().contains_key(16) && b.cells()[0] != d6);

    // verif_inst_mr_data_write_read: size <= 2^25, not top, position bounds -- on the non-empty region
    let r = verif_inst_mr_data_write_read(&mut a, d6, p40);
    assert(r == d6);
}
