// ---------------------------------------------------------------------------
// lemmas/reachcheck_sat.rs -- SATISFIABILITY WITNESSES of unit `reachcheck` (nothing here is trusted; the one call of the
// existing shim axiom axiom_cg_digraph_bounds is marked).
//   is_sink_call_reachable_from_source_call has NO precondition; the only `requires` of the unit is RcEdges::next (wf()).
//   (a') verif_sat_reachcheck_chain: exec client WITHOUT preconditions over an ARBITRARY graph / start node / pair of tids
//        (DiGraph is opaque: parameter); calls the real search, verif_rc_edges and RcEdges::next (twice: wf() is preserved).
//        Also an (a) witness exists already: the verified search itself calls next() in its inner loop.
//   MODEL of the trusted contract of verif_rc_edges (its `ensures` is an existence claim about the uninterpreted views
//        edge_seq / edge_weight): lemma_sat_reachcheck_out_edges_exist PROVES that for EVERY graph and node a list of
//        references with rc_out_edges_ok exists whose length is at most edge_seq().len() (so a Vec can hold it, given
//        axiom_cg_digraph_bounds: <= u32::MAX) -- the contract cannot clash with any bound on the views.
// ---------------------------------------------------------------------------

/// the reference that denotes edge number `e` of `g`
pub open spec fn rc_sat_ref<'a, N, E>(g: &'a DiGraph<N, E>, e: int) -> RcEdgeReference<'a, E> {
    RcEdgeReference { e: EdgeIndex { i: e as usize }, src: g.edge_seq()[e].0, tgt: g.edge_seq()[e].1, w: &g.edge_weight(e) }
}

/// references of the out-edges of `a` among the first `n` edges, in index order
pub open spec fn rc_sat_out_refs<'a, N, E>(g: &'a DiGraph<N, E>, a: NodeIndex, n: int) -> Seq<RcEdgeReference<'a, E>>
    decreases n
{
    if n <= 0 {
        Seq::empty()
    } else if g.edge_seq()[n - 1].0 == a {
        rc_sat_out_refs(g, a, n - 1).push(rc_sat_ref(g, n - 1))
    } else {
        rc_sat_out_refs(g, a, n - 1)
    }
}

pub proof fn lemma_sat_reachcheck_out_refs<'a, N, E>(g: &'a DiGraph<N, E>, a: NodeIndex, n: int)
    requires 0 <= n <= g.edge_seq().len(), g.edge_seq().len() <= usize::MAX,
    ensures
        rc_sat_out_refs(g, a, n).len() <= n,
        forall |k: int| 0 <= k < rc_sat_out_refs(g, a, n).len() ==> rc_ref_of(*g, #[trigger] rc_sat_out_refs(g, a, n)[k]) && rc_sat_out_refs(g, a, n)[k].src == a,
        forall |e: int| 0 <= e < n && (#[trigger] g.edge_seq()[e]).0 == a
            ==> exists |k: int| 0 <= k < rc_sat_out_refs(g, a, n).len() && (#[trigger] rc_sat_out_refs(g, a, n)[k]).e.i == e,
    decreases n,
{
    if n > 0 {
        lemma_sat_reachcheck_out_refs(g, a, n - 1);
        let p = rc_sat_out_refs(g, a, n - 1);
        let r = rc_sat_out_refs(g, a, n);
        if g.edge_seq()[n - 1].0 == a {
            assert(r == p.push(rc_sat_ref(g, n - 1)));
            assert(rc_ref_of(*g, rc_sat_ref(g, n - 1)));
            assert forall |e: int| 0 <= e < n && (#[trigger] g.edge_seq()[e]).0 == a
                implies exists |k: int| 0 <= k < r.len() && (#[trigger] r[k]).e.i == e by {
                if e == n - 1 {
                    assert(r[p.len() as int].e.i == e);
                } else {
                    let k = choose |k: int| 0 <= k < p.len() && (#[trigger] p[k]).e.i == e;
                    assert(r[k] == p[k]);
                }
            }
        }
    }
}

/// MODEL of the contract of the trusted verif_rc_edges: for every graph and node SOME list satisfies rc_out_edges_ok
pub proof fn lemma_sat_reachcheck_out_edges_exist<'a, N, E>(g: &'a DiGraph<N, E>, a: NodeIndex)
    ensures exists |r: Seq<RcEdgeReference<'a, E>>| #[trigger] rc_out_edges_ok(*g, a, r) && r.len() <= g.edge_seq().len(),
{
    axiom_cg_digraph_bounds(*g);   // existing shim axiom (unit callgraph): edge_seq().len() <= u32::MAX
    lemma_sat_reachcheck_out_refs(g, a, g.edge_seq().len() as int);
    let r = rc_sat_out_refs(g, a, g.edge_seq().len() as int);
    assert(rc_out_edges_ok(*g, a, r));
}

/// (a') every contracted function of the unit is called once; no precondition
#[verifier::exec_allows_no_decreases_clause]
pub fn verif_sat_reachcheck_chain<'a>(graph: &'a Graph<'a>, start: usize, check: &Tid, use_: &Tid) -> (r: Option<Tid>)
    ensures rc_answer_ok(*graph, NodeIndex { i: start }, *check, *use_, r),
{
    let node = NodeIndex { i: start };
    // RcEdges::next: wf()
    let mut it = verif_rc_edges(graph, node);
    let _x = it.next();
    let _y = it.next();
    // the search: no precondition
    let r = is_sink_call_reachable_from_source_call(graph, node, check, use_);
    r
}
