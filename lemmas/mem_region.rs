// ---------------------------------------------------------------------------
// lemmas/mem_region.rs -- proof-only lemmas of unit `mem_region` (property C05).  All proved.
// ---------------------------------------------------------------------------

/// vstd states the order of `BTreeMap::iter()` as `increasing_seq` of the key projection (a `cmp_spec` statement);
/// for i64 keys that is `<`.  Broadcast, so that a loop invariant `mr_keys_sorted(it.seq())` holds on loop entry.
pub broadcast proof fn lemma_mr_iter_sorted<V>(s: Seq<(&i64, &V)>)
    requires vstd::std_specs::btree::increasing_seq(s.map_values(|kv: (&i64, &V)| *kv.0))
    ensures #[trigger] mr_keys_sorted(s)
{
    let ks = s.map_values(|kv: (&i64, &V)| *kv.0);
    vstd::std_specs::btree::axiom_increasing_seq_meaning(ks);
    assert forall |i: int, j: int| 0 <= i < j < s.len() implies *(#[trigger] s[i]).0 < *(#[trigger] s[j]).0 by {
        assert(ks[i] == *s[i].0); assert(ks[j] == *s[j].0);
        assert(vstd::std_specs::cmp::OrdSpec::cmp_spec(&ks[i], &ks[j]) == core::cmp::Ordering::Less);
    }
}

/// position of an offset relative to the ascending iteration s of the map m
pub proof fn lemma_mr_visited<V>(s: Seq<(&i64, &V)>, m: Map<i64, V>, i: int, k: i64)
    requires mr_iter_of(s, m), 0 <= i < s.len(), m.contains_key(k)
    ensures
        mr_iter_visited(s, i, k) <==> k < *s[i].0,
        mr_iter_visited(s, i + 1, k) <==> k <= *s[i].0,
        mr_iter_visited(s, s.len() as int, k),
{
    let j = choose |j: int| 0 <= j < s.len() && *(#[trigger] s[j]).0 == k;
    assert(*s[j].0 == k);
    if j < i { assert(*s[j].0 < *s[i].0); }
    if j > i { assert(*s[i].0 < *s[j].0); }
    if mr_iter_visited(s, i, k) {
        let j2 = choose |j2: int| 0 <= j2 < i && *(#[trigger] s[j2]).0 == k;
        assert(*s[j2].0 < *s[i].0);
    }
    if mr_iter_visited(s, i + 1, k) {
        let j2 = choose |j2: int| 0 <= j2 < i + 1 && *(#[trigger] s[j2]).0 == k;
        if j2 < i { assert(*s[j2].0 < *s[i].0); }
    }
}

/// THE CORE OF merge_inner: for the offset x of the zipped map, with mre = the largest end of a cell (of either
/// input) at a smaller offset, the three tests of the code decide the merge rule of the property.
pub proof fn lemma_mr_merge_step<T: AbstractDomain + SizedDomain + HasTop>(a: Map<i64, T>, b: Map<i64, T>, x: i64, mre: int)
    requires
        mr_domain_ok::<T>(), mr_cells_ok(a), mr_cells_ok(b),
        a.contains_key(x) || b.contains_key(x),
        forall |k: i64| #[trigger] a.contains_key(k) && k < x ==> k + a[k].bytesize_spec() <= mre,
        forall |k: i64| #[trigger] b.contains_key(k) && k < x ==> k + b[k].bytesize_spec() <= mre,
        mre == i64::MIN
            || (exists |k: i64| #[trigger] a.contains_key(k) && k < x && k + a[k].bytesize_spec() == mre)
            || (exists |k: i64| #[trigger] b.contains_key(k) && k < x && k + b[k].bytesize_spec() == mre),
    ensures
        ({
            let z = mr_zip_entry(a, b, x);
            let e = mr_range_end(x as int, z.0, z.1);
            (x >= mre && mr_no_later(a, x, e) && mr_no_later(b, x, e) && mr_merge_pair(z.0, z.1) is Some) <==> mr_merge_keeps(a, b, x)
        }),
        mr_merge_pair(mr_zip_entry(a, b, x).0, mr_zip_entry(a, b, x).1) is Some
            ==> mr_merge_pair(mr_zip_entry(a, b, x).0, mr_zip_entry(a, b, x).1)->Some_0 == mr_merge_val(a, b, x),
{
    let z = mr_zip_entry(a, b, x);
    let e = mr_range_end(x as int, z.0, z.1);
    if a.contains_key(x) && b.contains_key(x) {
        if a[x].bytesize_spec() == b[x].bytesize_spec() {
            assert(x >= mre);
            assert(mr_no_later(a, x, e));
            assert(mr_no_later(b, x, e));
        }
    } else if a.contains_key(x) {
        lemma_mr_merge_single(a, b, x, mre);
    } else {
        lemma_mr_merge_single(b, a, x, mre);
    }
}

/// the case "only one input holds a cell at x" (c holds it, d does not)
pub proof fn lemma_mr_merge_single<T: AbstractDomain + SizedDomain + HasTop>(c: Map<i64, T>, d: Map<i64, T>, x: i64, mre: int)
    requires
        mr_domain_ok::<T>(), mr_cells_ok(c), mr_cells_ok(d),
        c.contains_key(x), !d.contains_key(x),
        forall |k: i64| #[trigger] c.contains_key(k) && k < x ==> k + c[k].bytesize_spec() <= mre,
        forall |k: i64| #[trigger] d.contains_key(k) && k < x ==> k + d[k].bytesize_spec() <= mre,
        mre == i64::MIN
            || (exists |k: i64| #[trigger] c.contains_key(k) && k < x && k + c[k].bytesize_spec() == mre)
            || (exists |k: i64| #[trigger] d.contains_key(k) && k < x && k + d[k].bytesize_spec() == mre),
    ensures
        (x >= mre && mr_no_later(c, x, x + c[x].bytesize_spec()) && mr_no_later(d, x, x + c[x].bytesize_spec()))
            <==> mr_free(d, x as int, mr_size(c[x])),
{
    let sz = c[x].bytesize_spec() as int;
    assert(mr_no_later(c, x, x + sz));
    if x >= mre && mr_no_later(d, x, x + sz) {
        assert forall |j: i64| #[trigger] d.contains_key(j) implies !mr_cell_meets(d, j, x as int, sz) by {
            if j < x { } else { assert(j > x); }
        }
    }
    if mr_free(d, x as int, sz) {
        assert forall |k: i64| #[trigger] d.contains_key(k) && k > x implies k >= x + sz by {
            assert(!mr_cell_meets(d, k, x as int, sz));
        }
        if mre != i64::MIN {
            if exists |k: i64| #[trigger] c.contains_key(k) && k < x && k + c[k].bytesize_spec() == mre {
            } else {
                let k = choose |k: i64| #[trigger] d.contains_key(k) && k < x && k + d[k].bytesize_spec() == mre;
                assert(!mr_cell_meets(d, k, x as int, sz));
            }
        }
    }
}

/// T's preconditions of the calls merge_inner makes for the offset x (compute_range_end: bytesize of the cells present;
/// merge_or_merge_with_top: bytesize, merge of two equally sized cells, merge of a single cell with the new_top of its size)
pub proof fn lemma_mr_merge_call_pre<T: AbstractDomain + SizedDomain + HasTop>(a: Map<i64, T>, b: Map<i64, T>, x: i64)
    requires mr_domain_ok::<T>(), mr_merge_inputs_inv(a, b),
    ensures
        a.contains_key(x) ==> a[x].inv_spec() && a[x].bytesize_pre_spec() && a[x].bytesize_spec() <= MAXBYTES()
            && a[x].merge_pre_spec(&T::new_top_spec(ByteSize(a[x].bytesize_spec() as u64))),
        b.contains_key(x) ==> b[x].inv_spec() && b[x].bytesize_pre_spec() && b[x].bytesize_spec() <= MAXBYTES()
            && b[x].merge_pre_spec(&T::new_top_spec(ByteSize(b[x].bytesize_spec() as u64))),
        (a.contains_key(x) && b.contains_key(x) && a[x].bytesize_spec() == b[x].bytesize_spec()) ==> a[x].merge_pre_spec(&b[x]),
{
    reveal(mr_merge_inputs_inv);
}

/// the merge rule yields a well-formed region
pub proof fn lemma_mr_merged_ok<T: AbstractDomain + SizedDomain + HasTop>(a: Map<i64, T>, b: Map<i64, T>)
    requires mr_domain_ok::<T>(), mr_cells_ok(a), mr_cells_ok(b), mr_in_range(a), mr_in_range(b), mr_cells_inv(a), mr_cells_inv(b), mr_merge_pre(a, b),
    ensures mr_cells_ok(mr_merged(a, b)), mr_in_range(mr_merged(a, b)), mr_cells_inv(mr_merged(a, b)),
{
    let r = mr_merged(a, b);
    assert forall |k: i64| #[trigger] r.contains_key(k) implies
        !r[k].is_top_spec() && r[k].bytesize_spec() > 0
        && r[k].bytesize_spec() == (if a.contains_key(k) { a[k].bytesize_spec() } else { b[k].bytesize_spec() })
        && k + r[k].bytesize_spec() <= i64::MAX && r[k].inv_spec() by {
        assert(mr_merge_keeps(a, b, k));
        if a.contains_key(k) { assert(a[k].inv_spec()); }
        if b.contains_key(k) { assert(b[k].inv_spec()); }
    }
    assert forall |k1: i64, k2: i64| #[trigger] r.contains_key(k1) && #[trigger] r.contains_key(k2) && k1 < k2
        implies k1 + r[k1].bytesize_spec() <= k2 by {
        assert(mr_merge_keeps(a, b, k1)); assert(mr_merge_keeps(a, b, k2));
        if a.contains_key(k1) && b.contains_key(k1) {
        } else if a.contains_key(k1) {
            if !a.contains_key(k2) { assert(!mr_cell_meets(b, k2, k1 as int, mr_size(a[k1]))); }
        } else {
            if !b.contains_key(k2) { assert(!mr_cell_meets(a, k2, k1 as int, mr_size(b[k1]))); }
        }
    }
}

/// merging a well-formed region with itself changes nothing (needs idempotence of the value merge)
pub proof fn lemma_mr_merged_idem<T: AbstractDomain + SizedDomain + HasTop>(a: Map<i64, T>)
    requires mr_merge_idem::<T>(), mr_cells_ok(a), mr_cells_inv(a),
    ensures mr_merged(a, a) =~= a,
{
    assert forall |k: i64| a.contains_key(k) implies #[trigger] mr_merge_keeps(a, a, k) && mr_merge_val(a, a, k) == a[k] by {
        assert(a[k].merge_spec(&a[k]) == a[k]);
    }
    assert forall |k: i64| mr_merged(a, a).contains_key(k) implies a.contains_key(k) by {
        assert(mr_merge_keeps(a, a, k));
    }
}

/// the two's-complement reading of an offset of at most 64 bits fits i64
pub proof fn lemma_mr_pos_range(p: Bitvector)
    requires p.wf(), p.w@ <= 64
    ensures i64::MIN <= p.s() <= i64::MAX
{
    lemma_sval(p.w@, p.u@);
    lemma_p2_mono((p.w@ - 1) as nat, 63);
    lemma_p2_consts();
}

/// mark_all_values_as_top is mark_interval_values_as_top / merge_values_intersecting_range_with_top for a range that every
/// cell meets (ties the vocabulary of the two contracts together; not used by a proof obligation of the unit)
pub proof fn lemma_mr_all_topped_is_topped<T: AbstractDomain + SizedDomain + HasTop>(m: Map<i64, T>, p: int, s: int)
    requires forall |k: i64| #[trigger] m.contains_key(k) ==> mr_cell_meets(m, k, p, s)
    ensures mr_all_topped(m) =~= mr_topped(m, p, s)
{
}

/// clear_top_values on top of the layout part of the invariant gives the invariant; on a well-formed region it is the identity
pub proof fn lemma_mr_without_tops_ok<T: AbstractDomain + SizedDomain + HasTop>(m: Map<i64, T>)
    ensures
        (mr_layout_ok(m) && mr_in_range(m)) ==> mr_cells_ok(mr_without_tops(m)) && mr_in_range(mr_without_tops(m)),
        mr_cells_inv(m) ==> mr_cells_inv(mr_without_tops(m)),
        mr_cells_ok(m) ==> mr_layout_ok(m) && mr_without_tops(m) =~= m,
{
}

/// merging every cell with the unknown value of its family keeps the layout (merge keeps the size of equally sized operands,
/// top() has the size of its argument)
pub proof fn lemma_mr_all_with_top_layout<T: AbstractDomain + SizedDomain + HasTop>(m: Map<i64, T>)
    requires mr_domain_ok::<T>(), mr_cells_ok(m), mr_in_range(m), mr_cells_inv(m),
    ensures
        mr_layout_ok(mr_all_with_top(m)), mr_in_range(mr_all_with_top(m)), mr_cells_inv(mr_all_with_top(m)),
        mr_without_tops(mr_all_with_top(m)) =~= mr_all_topped(m),
{
    assert forall |k: i64| #[trigger] m.contains_key(k) implies mr_with_top(m[k]).bytesize_spec() == m[k].bytesize_spec() by {
        assert(m[k].inv_spec());
        assert(m[k].top_spec().bytesize_spec() == m[k].bytesize_spec());
    }
}
