// ---------------------------------------------------------------------------
// lemmas/callsites_782_sat.rs -- SATISFIABILITY WITNESSES of the preconditions of unit `callsites_782` (nothing here is trusted).
//   handle_sub and check_cwe require ONLY cs_key_hyp() ((d): see lemmas/callsites_sat.rs, lemma_sat_callsites_key_hyp_open);
//   generate_cwe_warning has no precondition.
//   (a') relative to (d): verif_sat_callsites_782_chain builds AnalysisResults around the constructed two-function project of
//   verif_sat_callsites_project (unit callsites; its extern symbol "e" is named "ioctl" and the function "a" calls it once) and
//   calls the three functions; it checks that the postconditions are not degenerate there (handle_sub: ONE warning for "a";
//   check_cwe: "ioctl" is found, so the branch with warnings is the one described).
//   Parameters without any `requires`: values of opaque / unread types (RuntimeMemoryImage, Graph, Variable,
//   DatatypeProperties, the binary, the JSON parameters).
// ---------------------------------------------------------------------------

pub fn verif_sat_callsites_782_chain(rmi: RuntimeMemoryImage, sp: Variable, dp: DatatypeProperties, binary: &[u8], cfg: &Graph,
                                     params: &serde_json::Value)
    requires cs_key_hyp(),
{
    broadcast use vstd::std_specs::hash::group_hash_axioms;
    let (project, ta, tb, te) = verif_sat_callsites_project(rmi, sp, dp);
    proof { lemma_sat_callsites_tids_differ(ta, tb, te); }
    let ar = AnalysisResults {
        binary: binary, control_flow_graph: cfg, project: &project,
        function_signatures: None, pointer_inference: None, string_abstraction: None,
    };
    // check_cwe: cs_key_hyp()
    let r = check_cwe(&ar, params);
    proof {
        assert(project.program.term.extern_symbols@.contains_key(te));
        assert(cs_named(project.program.term.extern_symbols@, "ioctl"@));
    }
    // handle_sub: cs_key_hyp()
    let mut symbol: HashMap<&Tid, &str> = HashMap::new();
    symbol.insert(&te, "ioctl");
    let sub_a = project.program.term.subs.get(&ta).unwrap();
    let ws = handle_sub(sub_a, &symbol);
    proof {
        let p = cs_in_syms(symbol@);
        let jmps = sub_a.term.blocks@[0].term.jmps@;
        assert(p(te) && !p(tb));
        reveal_with_fuel(cs_jmps_hits, 3);
        reveal_with_fuel(cs_blks_hits, 2);
        assert(cs_jmp_hit(sub_a.term.name@, jmps[0], p).len() == 0);
        assert(cs_jmp_hit(sub_a.term.name@, jmps[1], p).len() == 1);
        assert(cs_sub_hits(*sub_a, p).len() == 1);
        assert(ws@.len() == 1);
    }
    // generate_cwe_warning: no precondition
    let calls = get_calls_to_symbols(sub_a, &symbol);
    let ws2 = generate_cwe_warning(calls.as_slice());
}
