// ---------------------------------------------------------------------------
// lemmas/callsites_426_sat.rs -- SATISFIABILITY WITNESSES of the preconditions of unit `callsites_426` (nothing here is trusted).
//   check_cwe requires ONLY cs_key_hyp() ((d): see lemmas/callsites_sat.rs, lemma_sat_callsites_key_hyp_open);
//   generate_cwe_warning has no precondition.
//   (a') relative to (d): verif_sat_callsites_426_chain builds AnalysisResults around the constructed two-function project of
//   verif_sat_callsites_project (unit callsites) and calls both functions (generate_cwe_warning on the function "a").
//   Parameters without any `requires`: values of opaque / unread types (RuntimeMemoryImage, Graph, Variable,
//   DatatypeProperties, the binary) and the JSON parameters (the Config is cs_parsed(params), uninterpreted).
// ---------------------------------------------------------------------------

pub fn verif_sat_callsites_426_chain(rmi: RuntimeMemoryImage, sp: Variable, dp: DatatypeProperties, binary: &[u8], cfg: &Graph,
                                     params: &serde_json::Value)
    requires cs_key_hyp(),
{
    let (project, ta, _tb, _te) = verif_sat_callsites_project(rmi, sp, dp);
    let ar = AnalysisResults {
        binary: binary, control_flow_graph: cfg, project: &project,
        function_signatures: None, pointer_inference: None, string_abstraction: None,
    };
    // check_cwe: cs_key_hyp()
    let r = check_cwe(&ar, params);
    // generate_cwe_warning: no precondition
    let sub_a = project.program.term.subs.get(&ta).unwrap();
    let w = generate_cwe_warning(sub_a);
}
