// ---------------------------------------------------------------------------
// lemmas/modsel_sat.rs -- SATISFIABILITY WITNESSES of the preconditions of unit `modsel` (nothing here is trusted).
// The unit has ONE exec precondition in its contracts (`ms_client_versions requires old(verif_out)@.len() == 0`), three in its
// shim (verif_iter_find / verif_vec_retain: closure hypotheses `forall i. f.requires((&v[i],))`; ms_panic_only_if: `allowed`),
// the obligation ms_panic_only_if(Ghost(ms_bad_piece(old(modules)@, partial_param@))) and NO hypothesis predicate.
//   (a') verif_sat_modsel_chain: no `requires`.  Builds a module list in exec code (struct literals of the restated CweModule,
//        `Vec::new` / `push`; a list with a DUPLICATE name and a name that is no known check) and calls every @fn / @frag /
//        @raw client: get_modules, filter_modules_for_partial_run, ms_select_modules (Some / None+lkm / None+default),
//        ms_print_versions (non-empty old trace), ms_client_partial, ms_client_select, ms_client_versions (empty ghost trace:
//        its `requires`), and the two closure-taking shims directly with closures without `requires`.
//        The partial-run parameter is a PARAMETER of the client (a literal with a piece that names no module would make the
//        call diverge: its postcondition is then `false` by design, see lemma_sat_modsel_bad_piece).
//   (b)  lemma_sat_modsel_bad_piece: the panic obligation is satisfiable (empty list, parameter "x") AND refutable
//        (parameter ""), i.e. ms_panic_only_if's `requires allowed` is neither vacuous nor always true.
//   (b)  lemma_sat_modsel_partial_post: ms_partial_post (what callers of filter_modules_for_partial_run get) is satisfiable
//        with a NON-EMPTY result.
//   (d)  nothing: no contract mentions a vstd-uninterpreted predicate (HashSet is modelled by ms_hs_texts, not by vstd's view).
// ---------------------------------------------------------------------------

/// (b) the obligation of the panic: some (list, parameter) allows the panic, some does not
pub proof fn lemma_sat_modsel_bad_piece()
    ensures
        exists |old: Seq<&CweModule>, s: Seq<char>| ms_bad_piece(old, s),
        exists |old: Seq<&CweModule>, s: Seq<char>| !ms_bad_piece(old, s),
{
    let old: Seq<&CweModule> = Seq::empty();
    let s: Seq<char> = seq!['x'];
    assert(ms_piece_at(s, ',', 0, 1));
    assert(s.subrange(0, 1) == s);
    assert(ms_is_piece(s, ',', s));
    assert(!ms_has_name(old, s));
    assert(ms_bad_piece(old, s));
    let e: Seq<char> = Seq::empty();
    assert forall |p: Seq<char>| #[trigger] ms_is_piece(e, ',', p) implies p.len() == 0 by {
        let (a, b) = choose |a: int, b: int| ms_piece_at(e, ',', a, b) && #[trigger] e.subrange(a, b) == p;
        assert(e.subrange(a, b).len() == 0);
    }
    assert(!ms_bad_piece(old, e));
}

/// (b) the postcondition handed to callers of filter_modules_for_partial_run is satisfiable with a non-empty result:
/// old == new == [m] with m.name == "x", parameter "x"
pub proof fn lemma_sat_modsel_partial_post()
    ensures exists |old: Seq<&CweModule>, new: Seq<&CweModule>, s: Seq<char>| new.len() > 0 && #[trigger] ms_partial_post(old, new, s),
{
    reveal_strlit("x");
    let m: &CweModule = &CweModule { name: "x", version: "x" };
    let old: Seq<&CweModule> = seq![m];
    let s: Seq<char> = "x"@;
    assert(s =~= seq!['x']);
    assert(ms_piece_at(s, ',', 0, 1));
    assert(s.subrange(0, 1) == s);
    assert(ms_is_piece(s, ',', s));
    assert(ms_first_of_name(old, 0));
    assert(ms_picked(old, s, old[0], 0));
    assert(ms_selected(old, s, old[0]));
    assert(ms_has_name(old, s));
    assert forall |p: Seq<char>| #[trigger] ms_is_piece(s, ',', p) && p.len() > 0 implies ms_has_name(old, p) by {
        let (a, b) = choose |a: int, b: int| ms_piece_at(s, ',', a, b) && #[trigger] s.subrange(a, b) == p;
        assert(a == 0 && b == 1);
    }
    assert(old.len() > 0 && ms_partial_post(old, old, s));
}

/// (a') every @fn / @frag / @raw client of the unit once, on lists built in exec code; no precondition
pub fn verif_sat_modsel_chain(partial_param: &str, partial: Option<String>, verif_trace: &mut Ghost<Seq<&'static CweModule>>)
{
    // a list with a duplicate name and an unknown name (the contracts are for EVERY list)
    let m1 = CweModule { name: "CWE78", version: "0.1" };
    let m2 = CweModule { name: "CWE467", version: "0.2" };
    let m3 = CweModule { name: "CWE467", version: "9.9" };
    let m4 = CweModule { name: "NoSuchCheck", version: "" };
    let mut v: Vec<&CweModule> = Vec::new();
    v.push(&m1); v.push(&m2); v.push(&m3); v.push(&m4);
    assert(v@.len() == 4);
    // shim closure hypotheses: closures without `requires`
    let found = verif_iter_find(&v, |m: &&&CweModule| -> (b: bool) ensures b == (m.version@.len() == 0) { m.version.is_empty() });
    let mut w: Vec<&CweModule> = Vec::new();
    w.push(&m1); w.push(&m4);
    verif_vec_retain(&mut w, |m: &&CweModule| -> (b: bool) ensures b == (m.version@.len() == 0) { m.version.is_empty() });
    // filter_modules_for_partial_run: no precondition (returns only if every non-empty piece names a module)
    let mut v1: Vec<&CweModule> = Vec::new();
    v1.push(&m1); v1.push(&m2); v1.push(&m3); v1.push(&m4);
    filter_modules_for_partial_run(&mut v1, partial_param);
    // ms_select_modules: the three modes
    let mut v2: Vec<&CweModule> = Vec::new();
    v2.push(&m1); v2.push(&m2); v2.push(&m3); v2.push(&m4);
    ms_select_modules(&mut v2, &partial, false);
    let none: Option<String> = None;
    let mut v3: Vec<&CweModule> = Vec::new();
    v3.push(&m1); v3.push(&m2); v3.push(&m3); v3.push(&m4);
    ms_select_modules(&mut v3, &none, true);
    let mut v4: Vec<&CweModule> = Vec::new();
    v4.push(&m1); v4.push(&m2); v4.push(&m3); v4.push(&m4);
    ms_select_modules(&mut v4, &none, false);
    // get_modules, ms_print_versions (on a trace that is NOT empty: no precondition)
    let all = get_modules();
    ms_print_versions(&all, verif_trace);
    let mut two: Vec<&'static CweModule> = Vec::new();
    two.push(&crate::checkers::cwe_78::CWE_MODULE);
    two.push(&crate::checkers::cwe_78::CWE_MODULE);
    ms_print_versions(&two, verif_trace);
    // the @raw clients
    let c1 = ms_client_partial(partial_param);
    let c2 = ms_client_select(&partial, true);
    let c3 = ms_client_select(&none, false);
    // ms_client_versions: old(verif_out)@.len() == 0
    let mut out: Ghost<Seq<&'static CweModule>> = Ghost(Seq::empty());
    ms_client_versions(&mut out);
    assert(out@.len() > 0) by {
        assert(ms_is_known("CWE78"@));
        assert(ms_has_name(out@, "CWE78"@));
    }
}
