// ---------------------------------------------------------------------------
// lemmas/reachcheck_367.rs -- proof-only lemmas of unit `reachcheck_367` (all proved by Verus, none trusted).
// ---------------------------------------------------------------------------

/// a pair whose functions are not both imported reports nowhere: the list stays correct over all its edges
pub broadcast proof fn lemma_rc367_skip<'a>(g: DiGraph<Node<'a>, Edge<'a>>, m: Map<Tid, ExternSymbol>, pairs: Seq<(String, String)>, p: int, e: int, w: Seq<CweWarning>)
    requires
        rc367_check_tid(m, pairs, p) is None || rc367_use_tid(m, pairs, p) is None,
        rc367_list(g, m, pairs, p, 0, w),
        0 <= e,
    ensures
        #[trigger] rc367_list(g, m, pairs, p, e, w),
    decreases e,
{
    if e > 0 { lemma_rc367_skip(g, m, pairs, p, e - 1, w); }
}

/// appending the warning of a reporting position
pub broadcast proof fn lemma_rc367_push<'a>(g: DiGraph<Node<'a>, Edge<'a>>, m: Map<Tid, ExternSymbol>, pairs: Seq<(String, String)>, p: int, e: int, w: Seq<CweWarning>, x: CweWarning)
    requires
        0 <= e,
        rc367_list(g, m, pairs, p, e, w),
        rc367_reports(g, m, pairs, p, e),
        rc367_warning_ok(g, m, pairs, p, e, x),
    ensures
        #[trigger] rc367_list(g, m, pairs, p, e + 1, w.push(x)),
{
    assert(w.push(x).drop_last() =~= w);
    assert(w.push(x).last() == x);
}

/// the same for the whole pair, phrased so that it fires on the loop invariant of the pair loop
pub broadcast proof fn lemma_rc367_skip_pair<'a>(g: DiGraph<Node<'a>, Edge<'a>>, m: Map<Tid, ExternSymbol>, pairs: Seq<(String, String)>, p: int, w: Seq<CweWarning>)
    requires
        rc367_check_tid(m, pairs, p) is None || rc367_use_tid(m, pairs, p) is None,
        #[trigger] rc367_list(g, m, pairs, p, 0, w),
        0 <= p,
    ensures
        rc367_list(g, m, pairs, p + 1, 0, w),
{
    lemma_rc367_skip(g, m, pairs, p, g.edge_seq().len() as int, w);
}

/// all edges of pair p done = nothing of pair p + 1 done yet
pub broadcast proof fn lemma_rc367_pair_done<'a>(g: DiGraph<Node<'a>, Edge<'a>>, m: Map<Tid, ExternSymbol>, pairs: Seq<(String, String)>, p: int, e: int, w: Seq<CweWarning>)
    requires
        e == g.edge_seq().len(),
        #[trigger] rc367_list(g, m, pairs, p, e, w),
        0 <= p,
    ensures
        rc367_list(g, m, pairs, p + 1, 0, w),
{
}
