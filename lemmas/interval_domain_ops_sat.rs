// ---------------------------------------------------------------------------
// lemmas/interval_domain_ops_sat.rs -- SATISFIABILITY WITNESSES of the preconditions of unit `interval_domain_ops`
// (nothing here is trusted: no external_body / assume / admit / axiom).
//   witnesses: those of lemmas/interval_domain_sat.rs (idsat_a8 / idsat_b8 / idsat_a64 / idsat_b64: strided intervals with both
//       widening hints, 8 and 64 bit; idsat_c8: the 8 bit constant 3) plus idosat_c128: the 128 bit constant 3 (a shift
//       amount wider than 64 bit, the only case in which the clause `amount < 2^64` says something).
//   (b) one lemma `lemma_sat_interval_domain_ops_<fn>` per contracted function: `exists |args| pre(args)` with the contract
//       text verbatim (`self` -> `s`); the precondition of the @closure contracts of a function is witnessed TOGETHER with
//       the function's precondition (the closure captures `self`).  Lines after "// shape:" are not contract text: they
//       pin the witness so that guarded clauses are active.  bin_op / un_op / cast: ONE lemma `forall |op| exists |..| pre`.
//   (a') verif_sat_interval_domain_ops_chain(op, uop, kind): exec client WITHOUT requires, ARBITRARY operation codes as
//       parameters, builds the values and calls every function of the unit: Verus checks the REAL requires at each call.
//   trusted shim item `u64::overflowing_shr` (shim/interval_domain_ops.rs): its postcondition defines the result of an exec fn
//       in closed form (realisable for every input, no spec fn constrained).  A realisability lemma is deliberately NOT kept
//       here: a spec fn using `>>` in this file made the whole-module proof of the real `cast` fail (brittle query).
//   nothing conditional, no (d) hypothesis in this unit.
// ---------------------------------------------------------------------------

/// 128 bit constant 3 without hints
pub open spec fn idosat_c128() -> IntervalDomain {
    IntervalDomain { interval: Interval { start: bv(128, 3), end: bv(128, 3), stride: 0 }, widening_upper_bound: None, widening_lower_bound: None, widening_delay: 0 }
}

pub proof fn lemma_idosat_witnesses()
    ensures idosat_c128().inv(), idosat_c128().w() == 128,
{
    lemma_p2_consts();
}

/// add, sub, signed_mul: same precondition; closures 1-4 of add / sub: `bound.wf(), bound.w@ == self.w()`
pub proof fn lemma_sat_interval_domain_ops_add()
    ensures
        exists |s: &IntervalDomain, rhs: &IntervalDomain| #![trigger s.inv(), rhs.inv()]
            s.inv() && rhs.inv() && s.w() == rhs.w()
            // shape: strides >= 2 and all four hints set, 8 bit
            && s.w() == 8 && s.interval.stride >= 2 && rhs.interval.stride >= 2
            && s.widening_lower_bound is Some && s.widening_upper_bound is Some
            && rhs.widening_lower_bound is Some && rhs.widening_upper_bound is Some,
        exists |s: &IntervalDomain, rhs: &IntervalDomain| #![trigger s.inv(), rhs.inv()]
            s.inv() && rhs.inv() && s.w() == rhs.w()
            // shape: the same at 64 bit
            && s.w() == 64 && s.interval.stride >= 2 && rhs.interval.stride >= 2
            && s.widening_lower_bound is Some && s.widening_upper_bound is Some
            && rhs.widening_lower_bound is Some && rhs.widening_upper_bound is Some,
        // function precondition + closure precondition
        exists |s: &IntervalDomain, rhs: &IntervalDomain, bound: &Bitvector| #![trigger s.inv(), rhs.inv(), bound.wf()]
            s.inv() && rhs.inv() && s.w() == rhs.w()
            && bound.wf() && bound.w@ == s.w()
            // shape: the closure argument is a hint of an operand
            && Some(*bound) == s.widening_lower_bound,
{
    lemma_idsat_witnesses();
    let (a8, b8, a64, b64) = (idsat_a8(), idsat_b8(), idsat_a64(), idsat_b64());
    assert((&a8).inv() && (&b8).inv());
    assert((&a64).inv() && (&b64).inv());
    let h = bv(8, 254);
    assert((&a8).inv() && (&b8).inv() && (&h).wf());
}

pub proof fn lemma_sat_interval_domain_ops_shift_left()
    ensures
        exists |s: &IntervalDomain, rhs: &IntervalDomain| #![trigger s.inv(), rhs.inv()]
            s.inv() && rhs.inv()
            && (rhs.interval.start == rhs.interval.end ==> rhs.interval.start.u@ < p2(64))
            // shape: a constant amount (guard active)
            && rhs.interval.start == rhs.interval.end,
        exists |s: &IntervalDomain, rhs: &IntervalDomain| #![trigger s.inv(), rhs.inv()]
            s.inv() && rhs.inv()
            && (rhs.interval.start == rhs.interval.end ==> rhs.interval.start.u@ < p2(64))
            // shape: a constant amount of 128 bit (the clause is not implied by rhs.inv() here)
            && rhs.interval.start == rhs.interval.end && rhs.w() == 128,
        exists |s: &IntervalDomain, rhs: &IntervalDomain| #![trigger s.inv(), rhs.inv()]
            s.inv() && rhs.inv()
            && (rhs.interval.start == rhs.interval.end ==> rhs.interval.start.u@ < p2(64))
            // shape: a non-constant amount
            && rhs.interval.start != rhs.interval.end,
{
    lemma_idsat_witnesses(); lemma_idosat_witnesses(); lemma_p2_consts();
    let (a8, b8, c8, c128) = (idsat_a8(), idsat_b8(), idsat_c8(), idosat_c128());
    assert((&a8).inv() && (&c8).inv());
    assert((&a8).inv() && (&c128).inv());
    assert((&a8).inv() && (&b8).inv());
}

/// sign_extend, zero_extend: same precondition; closures 1-2 of sign_extend: `bitvec.wf(), bitvec.w@ <= width.0 * 8, 1 <= width.0 <= MAXBYTES()`
pub proof fn lemma_sat_interval_domain_ops_extend()
    ensures
        exists |s: IntervalDomain, width: ByteSize| #![trigger s.inv(), width.0]
            s.inv() && s.w() <= width.0 * 8 && width.0 <= MAXBYTES()
            // shape: a proper extension 8 -> 16 bit of a value with hints
            && s.w() < width.0 * 8 && s.widening_lower_bound is Some && s.widening_upper_bound is Some,
        exists |s: IntervalDomain, width: ByteSize| #![trigger s.inv(), width.0]
            s.inv() && s.w() <= width.0 * 8 && width.0 <= MAXBYTES()
            // shape: 64 bit to the largest size
            && s.w() == 64 && width.0 == MAXBYTES(),
        exists |s: IntervalDomain, width: ByteSize, bitvec: Bitvector| #![trigger s.inv(), width.0, bitvec.wf()]
            s.inv() && s.w() <= width.0 * 8 && width.0 <= MAXBYTES()
            && bitvec.wf() && bitvec.w@ <= width.0 * 8 && 1 <= width.0 <= MAXBYTES()
            && bitvec == s.interval.start,
{
    lemma_idsat_witnesses(); lemma_p2_consts();
    assert(idsat_a8().inv() && ByteSize(2).0 == 2);
    assert(idsat_a64().inv() && ByteSize(0x200_0000).0 == 0x200_0000);
    assert(idsat_a8().inv() && ByteSize(2).0 == 2 && bv(8, 0).wf());
}

pub proof fn lemma_sat_interval_domain_ops_fits_into_size()
    ensures
        exists |s: &IntervalDomain, size: ByteSize| #![trigger s.inv(), size.0]
            s.inv() && 1 <= size.0
            // shape: a size below the width of the value
            && size.0 * 8 < s.w(),
{
    lemma_idsat_witnesses();
    let a64 = idsat_a64();
    assert((&a64).inv() && ByteSize(1).0 == 1);
}

/// un_op for EVERY operation code; closure 1 (`bound.wf()`)
pub proof fn lemma_sat_interval_domain_ops_un_op()
    ensures
        forall |op: UnOpType| #![trigger is_float_unop(op)] exists |s: &IntervalDomain| #![trigger s.inv()]
            s.inv()
            && (op is BoolNegate ==> s.w() == 8)
            // shape: stride >= 2 and both hints set
            && s.interval.stride >= 2 && s.widening_lower_bound is Some && s.widening_upper_bound is Some,
        // every code but BOOL_NEGATE: also at 64 bit
        forall |op: UnOpType| #![trigger is_float_unop(op)] !(op is BoolNegate) ==> exists |s: &IntervalDomain| #![trigger s.inv()]
            s.inv()
            && (op is BoolNegate ==> s.w() == 8)
            && s.w() == 64 && s.interval.stride >= 2,
        exists |s: &IntervalDomain, bound: Bitvector| #![trigger s.inv(), bound.wf()]
            s.inv() && bound.wf() && Some(bound) == s.widening_upper_bound,
{
    lemma_idsat_witnesses(); lemma_p2_consts();
    let (a8, a64) = (idsat_a8(), idsat_a64());
    assert((&a8).inv() && (&a64).inv());
    assert((&a8).inv() && bv(8, 12).wf());
}

pub proof fn lemma_sat_interval_domain_ops_subpiece_higher()
    ensures
        exists |s: IntervalDomain, low_byte: ByteSize| #![trigger s.inv(), low_byte.0]
            s.inv() && 1 <= low_byte.0 && low_byte.0 * 8 < s.w()
            // shape: value with hints and a non-zero delay (the shifted counter)
            && s.widening_lower_bound is Some && s.widening_upper_bound is Some && s.widening_delay > 0,
{
    lemma_idsat_witnesses();
    assert(idsat_a64().inv() && ByteSize(4).0 == 4);
}

pub proof fn lemma_sat_interval_domain_ops_subpiece_lower()
    ensures
        exists |s: IntervalDomain, size: ByteSize| #![trigger s.inv(), size.0]
            s.inv() && 1 <= size.0 && size.0 * 8 < s.w()
            && s.widening_lower_bound is Some && s.widening_upper_bound is Some,
{
    lemma_idsat_witnesses();
    assert(idsat_a64().inv() && ByteSize(4).0 == 4);
}

pub proof fn lemma_sat_interval_domain_ops_subpiece()
    ensures
        exists |s: &IntervalDomain, low_byte: ByteSize, size: ByteSize| #![trigger s.inv(), low_byte.0, size.0]
            s.inv()
            && 1 <= size.0 && low_byte.0 * 8 + size.0 * 8 <= s.w()
            // shape: a piece from the middle
            && 1 <= low_byte.0 && low_byte.0 * 8 + size.0 * 8 < s.w(),
        exists |s: &IntervalDomain, low_byte: ByteSize, size: ByteSize| #![trigger s.inv(), low_byte.0, size.0]
            s.inv()
            && 1 <= size.0 && low_byte.0 * 8 + size.0 * 8 <= s.w()
            // shape: the whole value
            && low_byte.0 == 0 && size.0 * 8 == s.w(),
{
    lemma_idsat_witnesses();
    let (a8, a64) = (idsat_a8(), idsat_a64());
    assert((&a64).inv() && ByteSize(2).0 == 2 && ByteSize(4).0 == 4);
    assert((&a8).inv() && ByteSize(0).0 == 0 && ByteSize(1).0 == 1);
}

/// cast for EVERY kind
pub proof fn lemma_sat_interval_domain_ops_cast()
    ensures
        forall |kind: CastOpType| #![trigger is_float_cast(kind)] exists |s: &IntervalDomain, width: ByteSize| #![trigger s.inv(), width.0]
            s.inv() && 1 <= width.0 <= MAXBYTES()
            && ((kind is IntZExt || kind is IntSExt) ==> s.w() <= width.0 * 8)
            && ((kind is PopCount || kind is LzCount) ==> width.0 <= 8 && s.w() < p2((width.0 * 8 - 1) as nat))
            // shape: 8 bit -> 1 byte
            && s.w() == 8 && width.0 == 1,
        forall |kind: CastOpType| #![trigger is_float_cast(kind)] exists |s: &IntervalDomain, width: ByteSize| #![trigger s.inv(), width.0]
            s.inv() && 1 <= width.0 <= MAXBYTES()
            && ((kind is IntZExt || kind is IntSExt) ==> s.w() <= width.0 * 8)
            && ((kind is PopCount || kind is LzCount) ==> width.0 <= 8 && s.w() < p2((width.0 * 8 - 1) as nat))
            // shape: 64 bit -> 8 byte (the largest output size the count clause admits), stride and hints
            && s.w() == 64 && width.0 == 8 && s.interval.stride >= 2 && s.widening_lower_bound is Some,
        // the count clause with its guard active (spelled out)
        exists |s: &IntervalDomain, width: ByteSize, kind: CastOpType| #![trigger s.inv(), width.0, is_float_cast(kind)]
            s.inv() && 1 <= width.0 <= MAXBYTES()
            && ((kind is IntZExt || kind is IntSExt) ==> s.w() <= width.0 * 8)
            && ((kind is PopCount || kind is LzCount) ==> width.0 <= 8 && s.w() < p2((width.0 * 8 - 1) as nat))
            && kind is PopCount && s.w() == 64 && width.0 == 1,
{
    lemma_idsat_witnesses(); lemma_p2_consts();
    let (a8, a64) = (idsat_a8(), idsat_a64());
    assert((&a8).inv() && ByteSize(1).0 == 1);
    assert((&a64).inv() && ByteSize(8).0 == 8);
    assert((&a64).inv() && ByteSize(1).0 == 1 && !is_float_cast(CastOpType::PopCount));
}

/// piece and bin_op_bytesize: same precondition (`other` -> `rhs` in bin_op_bytesize)
pub proof fn lemma_sat_interval_domain_ops_piece()
    ensures
        exists |s: &IntervalDomain, other: &IntervalDomain| #![trigger s.inv(), other.inv()]
            s.inv() && other.inv() && s.w() + other.w() <= MAXW()
            // shape: a constant upper part and a lower part with hints (the case in which hints survive)
            && s.interval.start == s.interval.end && other.widening_lower_bound is Some && other.widening_upper_bound is Some,
        exists |s: &IntervalDomain, other: &IntervalDomain| #![trigger s.inv(), other.inv()]
            s.inv() && other.inv() && s.w() + other.w() <= MAXW()
            // shape: different widths 64 + 8
            && s.w() == 64 && other.w() == 8,
{
    lemma_idsat_witnesses();
    let (a8, c8, a64) = (idsat_a8(), idsat_c8(), idsat_a64());
    assert((&c8).inv() && (&a8).inv());
    assert((&a64).inv() && (&a8).inv());
}

/// bin_op for EVERY operation code
pub proof fn lemma_sat_interval_domain_ops_bin_op()
    ensures
        forall |op: BinOpType| #![trigger is_shift_binop(op)] exists |s: &IntervalDomain, rhs: &IntervalDomain| #![trigger s.inv(), rhs.inv()]
            s.inv() && rhs.inv()
            && ido_wellsized(op, s.w(), rhs.w()) && s.w() + rhs.w() <= MAXW()
            && ((is_shift_binop(op) && rhs.interval.start == rhs.interval.end) ==> rhs.interval.start.u@ < p2(64))
            // shape: 8 bit (the only width the BOOL_* codes admit), constant right operand (guard of the shift clause active)
            && rhs.interval.start == rhs.interval.end && s.interval.stride >= 2,
        // every code but BOOL_*: also at 64 bit with two strided operands with hints
        forall |op: BinOpType| #![trigger is_shift_binop(op)] !(op is BoolAnd || op is BoolOr || op is BoolXOr) ==>
            exists |s: &IntervalDomain, rhs: &IntervalDomain| #![trigger s.inv(), rhs.inv()]
            s.inv() && rhs.inv()
            && ido_wellsized(op, s.w(), rhs.w()) && s.w() + rhs.w() <= MAXW()
            && ((is_shift_binop(op) && rhs.interval.start == rhs.interval.end) ==> rhs.interval.start.u@ < p2(64))
            && s.w() == 64 && s.interval.stride >= 2 && rhs.interval.stride >= 2 && rhs.widening_lower_bound is Some,
        // the shifts with an amount of 128 bit (the clause is not implied by rhs.inv() here)
        forall |op: BinOpType| #![trigger is_shift_binop(op)] is_shift_binop(op) ==>
            exists |s: &IntervalDomain, rhs: &IntervalDomain| #![trigger s.inv(), rhs.inv()]
            s.inv() && rhs.inv()
            && ido_wellsized(op, s.w(), rhs.w()) && s.w() + rhs.w() <= MAXW()
            && ((is_shift_binop(op) && rhs.interval.start == rhs.interval.end) ==> rhs.interval.start.u@ < p2(64))
            && rhs.interval.start == rhs.interval.end && rhs.w() == 128,
{
    lemma_idsat_witnesses(); lemma_idosat_witnesses(); lemma_p2_consts();
    let (a8, c8, a64, b64, c128) = (idsat_a8(), idsat_c8(), idsat_a64(), idsat_b64(), idosat_c128());
    assert((&a8).inv() && (&c8).inv());
    assert((&a64).inv() && (&b64).inv());
    assert((&a8).inv() && (&c128).inv());
}

// ---- (a') the same values built in exec code; every function of the unit is called, Verus checks the real `requires` ----

#[verifier::exec_allows_no_decreases_clause]
pub fn verif_sat_interval_domain_ops_chain(op: BinOpType, uop: UnOpType, kind: CastOpType)
{
    proof { lemma_idsat_witnesses(); lemma_idosat_witnesses(); lemma_p2_consts(); }
    let a8 = verif_sat_interval_domain_mk8(0, 10, 2, 254, 12, 3);
    let b8 = verif_sat_interval_domain_mk8(4, 16, 4, 0, 20, 1);
    let a64 = verif_sat_interval_domain_mk64(0, 12, 4, 0xFFFF_FFFF_FFFF_FFFC, 16, 3);
    let b64 = verif_sat_interval_domain_mk64(0, 12, 6, 0xFFFF_FFFF_FFFF_FFFA, 18, 1);
    let c8 = IntervalDomain { interval: Interval { start: Bitvector::from_u8(3), end: Bitvector::from_u8(3), stride: 0 }, widening_upper_bound: None, widening_lower_bound: None, widening_delay: 0 };
    let c128 = IntervalDomain { interval: Interval { start: Bitvector::from_u128(3), end: Bitvector::from_u128(3), stride: 0 }, widening_upper_bound: None, widening_lower_bound: None, widening_delay: 0 };
    assert(a8 == idsat_a8() && b8 == idsat_b8() && a64 == idsat_a64() && b64 == idsat_b64() && c8 == idsat_c8() && c128 == idosat_c128());
    // bin_ops.rs
    let _ = a8.add(&b8);
    let _ = a64.sub(&b64);
    let _ = a64.signed_mul(&b64);
    let _ = a8.shift_left(&c8);
    let _ = a8.shift_left(&c128);
    let _ = a8.shift_left(&b8);
    // extensions, size test, subpieces, piece
    let _ = a8.clone().sign_extend(ByteSize(2));
    let _ = a8.clone().zero_extend(ByteSize(2));
    let _ = a64.fits_into_size(ByteSize(1));
    let _ = a64.clone().subpiece_higher(ByteSize(4));
    let _ = a64.clone().subpiece_lower(ByteSize(4));
    let _ = a64.subpiece(ByteSize(2), ByteSize(4));
    let _ = c8.piece(&a8);
    let _ = a64.piece(&a8);
    // RegisterDomain: ARBITRARY operation codes
    let _ = a8.un_op(uop);
    let _ = a8.cast(kind, ByteSize(1));
    let _ = a64.cast(kind, ByteSize(8));
    let _ = a8.bin_op_bytesize(op, &c8);
    let _ = a8.bin_op(op, &c8);
}
