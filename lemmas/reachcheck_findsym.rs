// ---------------------------------------------------------------------------
// lemmas/reachcheck_findsym.rs -- proof-only lemmas for find_symbol inside unit `reachcheck_243` (all proved by Verus, none
// trusted).  lemma_rc_iter_sorted / lemma_rc_first_found / lemma_rc_first_unique are the lemmas of lemmas/callsites.rs (unit
// callsites) under rc_ names; lemma_rc_first_found_all is the entry-callable form of the second; lemma_rc_find_symbol_bridge
// BRIDGES the result proved in the loop ("the tid field of the first symbol of that name") to the contract the chroot
// check was written against (rc_find_symbol_post over rc_find_symbol).
// ---------------------------------------------------------------------------

/// vstd states the order of `BTreeMap::iter()` as `increasing_seq` of the key projection; unfolded to rc_tid_lt.
/// Broadcast so that the loop invariant rc_keys_sorted(it.seq()) holds on loop entry.
pub broadcast proof fn lemma_rc_iter_sorted<V>(s: Seq<(&Tid, &V)>)
    requires vstd::laws_cmp::obeys_cmp::<Tid>(), vstd::std_specs::btree::increasing_seq(s.map_values(|kv: (&Tid, &V)| *kv.0))
    ensures #[trigger] rc_keys_sorted(s)
{
    let ks = s.map_values(|kv: (&Tid, &V)| *kv.0);
    vstd::std_specs::btree::axiom_increasing_seq_meaning(ks);
    assert forall |i: int, j: int| 0 <= i < j < s.len() implies rc_tid_lt(*(#[trigger] s[i]).0, *(#[trigger] s[j]).0) by {
        assert(ks[i] == *s[i].0); assert(ks[j] == *s[j].0);
        assert(vstd::std_specs::cmp::OrdSpec::cmp_spec(&ks[i], &ks[j]) == core::cmp::Ordering::Less);
    }
}

/// find_symbol: the entry at position `i` of the ascending iteration is the FIRST symbol named `name` when no earlier
/// entry has that name (stated as an implication so that it can be called at the loop head, whatever the body does).
pub proof fn lemma_rc_first_found(s: Seq<(&Tid, &ExternSymbol)>, m: Map<Tid, ExternSymbol>, i: int, name: Seq<char>)
    requires rc_iter_of(s, m), 0 <= i < s.len(),
    ensures
        ((forall |j: int| 0 <= j < i ==> (#[trigger] s[j]).1.name@ != name) && s[i].1.name@ == name)
            ==> rc_first_named(m, name, *s[i].0),
{
    if (forall |j: int| 0 <= j < i ==> (#[trigger] s[j]).1.name@ != name) && s[i].1.name@ == name {
        let k = *s[i].0;
        assert forall |k2: Tid| m.contains_key(k2) && #[trigger] m[k2].name@ == name && k2 != k implies rc_tid_lt(k, k2) by {
            let j = choose |j: int| 0 <= j < s.len() && *(#[trigger] s[j]).0 == k2;
            assert(m[*s[j].0] == *s[j].1);
            if j < i { assert(s[j].1.name@ != name); }
            assert(j > i);
        }
    }
}

/// the same for EVERY iteration and position: callable at function entry (no anchor in the loop body to lose); fires on
/// the loop invariant rc_iter_of(it.seq(), m) together with the current entry it.seq()[i]
pub proof fn lemma_rc_first_found_all(m: Map<Tid, ExternSymbol>, name: Seq<char>)
    ensures forall |s: Seq<(&Tid, &ExternSymbol)>, i: int| #![trigger rc_iter_of(s, m), s[i]]
        rc_iter_of(s, m) && 0 <= i < s.len() && (forall |j: int| 0 <= j < i ==> (#[trigger] s[j]).1.name@ != name) && s[i].1.name@ == name
            ==> rc_first_named(m, name, *s[i].0),
{
    assert forall |s: Seq<(&Tid, &ExternSymbol)>, i: int| #![trigger rc_iter_of(s, m), s[i]]
        rc_iter_of(s, m) && 0 <= i < s.len() && (forall |j: int| 0 <= j < i ==> (#[trigger] s[j]).1.name@ != name) && s[i].1.name@ == name
        implies rc_first_named(m, name, *s[i].0) by {
        lemma_rc_first_found(s, m, i, name);
    }
}

/// the first symbol of a name is unique (antisymmetry of a lawful order)
pub proof fn lemma_rc_first_unique(m: Map<Tid, ExternSymbol>, name: Seq<char>, k1: Tid, k2: Tid)
    requires rc_tid_ord_hyp(), rc_first_named(m, name, k1), rc_first_named(m, name, k2)
    ensures k1 == k2
{
    if k1 != k2 {
        assert(rc_tid_lt(k1, k2));
        assert(rc_tid_lt(k2, k1));
        reveal(vstd::laws_cmp::obeys_cmp);
        reveal(vstd::laws_cmp::obeys_cmp_ord);
        reveal(vstd::laws_cmp::obeys_cmp_partial_ord);
        reveal(vstd::laws_cmp::obeys_partial_cmp_spec_properties);
        reveal(vstd::laws_eq::obeys_eq_spec_properties);
    }
}

/// BRIDGE: what the loop of find_symbol establishes is the contract the chroot check uses.  Quantified over the result so
/// that it can be called at function entry (a proof about the value of the tail expression `symbol` has no place after it).
pub proof fn lemma_rc_find_symbol_bridge<'a>(m: Map<Tid, ExternSymbol>, name: Seq<char>)
    requires rc_tid_ord_hyp(),
    ensures forall |r: Option<(&'a Tid, &'a str)>| #[trigger] rc_first_found_post(m, name, r) ==> rc_find_symbol_post(m, name, r),
{
    reveal(rc_find_symbol);
    assert forall |r: Option<(&'a Tid, &'a str)>| #[trigger] rc_first_found_post(m, name, r) implies rc_find_symbol_post(m, name, r) by {
        match r {
            None => {
                assert forall |k: Tid| !rc_first_named(m, name, k) by {
                    if rc_first_named(m, name, k) { assert(m.contains_key(k) && m[k].name@ == name); }
                }
            },
            Some((t, n)) => {
                let k = choose |k: Tid| #[trigger] rc_first_named(m, name, k) && *t == m[k].tid && n@ == name;
                let c = choose |k: Tid| rc_first_named(m, name, k);
                lemma_rc_first_unique(m, name, k, c);
                assert(m.contains_key(k) && m[k].name@ == name && m[k].tid == *t);
                assert(rc_imported(m, name));
            },
        }
    }
}
