// ---------------------------------------------------------------------------
// lemmas/callsites_676_sat.rs -- SATISFIABILITY WITNESSES of the preconditions of unit `callsites_676` (nothing here is trusted).
//   get_calls requires cs_key_hyp(); resolve_symbols and check_cwe require cs_key_hyp() && obeys_key_model::<&String>();
//   generate_cwe_warnings has no precondition.
//   (d)  cs_key_hyp(): see lemmas/callsites_sat.rs (lemma_sat_callsites_key_hyp_open).  obeys_key_model::<&String>() is vstd's
//        uninterpreted predicate; no trusted item of the units mentions it (axiom_cs_string_ext speaks about `==` of Strings,
//        the four axiom_cs_*_ref_key about vstd's uninterpreted *_borrowed_key functions at Key = &K).
//   (a') relative to (d): verif_sat_callsites_676_chain builds AnalysisResults around the constructed two-function project of
//   verif_sat_callsites_project (unit callsites) and the one-entry list ["ioctl"], calls resolve_symbols -> get_calls ->
//   generate_cwe_warnings -> check_cwe and checks that resolve_symbols' postcondition is not degenerate there (the key of the
//   extern symbol "e" IS resolved).  Parameters without any `requires`: values of opaque / unread types (RuntimeMemoryImage,
//   Graph, Variable, DatatypeProperties, the binary, the JSON parameters).
// ---------------------------------------------------------------------------

pub fn verif_sat_callsites_676_chain(rmi: RuntimeMemoryImage, sp: Variable, dp: DatatypeProperties, binary: &[u8], cfg: &Graph,
                                     params: &serde_json::Value)
    requires cs_key_hyp(), vstd::std_specs::hash::obeys_key_model::<&String>(),
{
    let (project, ta, tb, te) = verif_sat_callsites_project(rmi, sp, dp);
    let mut list: Vec<String> = Vec::new();
    list.push("ioctl".to_owned());
    // resolve_symbols: cs_key_hyp(), obeys_key_model::<&String>()
    let resolved = resolve_symbols(&project.program.term.extern_symbols, list.as_slice());
    proof {
        assert(list@[0]@ == "ioctl"@);
        assert(cs_on_list(list@, project.program.term.extern_symbols@[te].name@));
        assert(resolved@.contains_key(&te));
    }
    // get_calls: cs_key_hyp()
    let calls = get_calls(&project.program.term.subs, &resolved);
    // generate_cwe_warnings: no precondition
    let ws = generate_cwe_warnings(calls);
    let ar = AnalysisResults {
        binary: binary, control_flow_graph: cfg, project: &project,
        function_signatures: None, pointer_inference: None, string_abstraction: None,
    };
    // check_cwe: cs_key_hyp(), obeys_key_model::<&String>()
    let r = check_cwe(&ar, params);
}
