// ---------------------------------------------------------------------------
// lemmas/trivpass.rs -- unit `trivpass`: all proved, nothing trusted.
//   lemma_tp_keys_done      exit clause of the loop over the function keys
//   lemma_tp_def_effect     (c) one def: related defs have the same effect in every state in which the old one has an effect
//   lemma_tp_run            (c) induction over a def list
//   lemma_tp_jmp_effect     (c) one jump: same condition / target value
//   lemma_tp_blk_behaves, lemma_tp_behaves   (a) + (b)  ==>  (c) for every block of every function
// ---------------------------------------------------------------------------

pub proof fn lemma_tp_keys_done(keys: Seq<Tid>, m0: Map<Tid, Term<Sub>>, m1: Map<Tid, Term<Sub>>)
    requires
        nz_keys_of(keys, m0),
        m1.dom() =~= m0.dom(),
        forall |j: int| 0 <= j < keys.len() ==> tp_sub_rel(m0[#[trigger] keys[j]], m1[keys[j]]),
    ensures
        tp_post(m0, m1),
{
    assert forall |k: Tid| #[trigger] m0.contains_key(k) implies tp_sub_rel(m0[k], m1[k]) by {
        let j = choose |j: int| 0 <= j < keys.len() && #[trigger] keys[j] == k;
        assert(tp_sub_rel(m0[keys[j]], m1[keys[j]]));
    }
}

pub proof fn lemma_tp_def_effect(d0: Def, d1: Def, s: TpState)
    requires
        tp_def_rel(d0, d1),
        tp_def_effect(d0, s) is Some,
    ensures
        tp_def_effect(d1, s) == tp_def_effect(d0, s),
{
    match (d0, d1) {
        (Def::Load { var: v0, address: a0 }, Def::Load { var: v1, address: a1 }) => {
            assert(es_val_kept(a0, a1, s.env));
        },
        (Def::Store { address: a0, value: x0 }, Def::Store { address: a1, value: x1 }) => {
            assert(es_val_kept(a0, a1, s.env));
            assert(es_val_kept(x0, x1, s.env));
        },
        (Def::Assign { var: v0, value: x0 }, Def::Assign { var: v1, value: x1 }) => {
            assert(es_val_kept(x0, x1, s.env));
        },
        _ => {},
    }
}

pub proof fn lemma_tp_run(defs0: Seq<Term<Def>>, defs1: Seq<Term<Def>>, n: int, s: TpState)
    requires
        defs1.len() == defs0.len(),
        forall |i: int| 0 <= i < defs0.len() ==> tp_def_term_rel(defs0[i], #[trigger] defs1[i]),
        0 <= n <= defs0.len(),
        tp_run(defs0, n, s) is Some,
    ensures
        tp_run(defs1, n, s) == tp_run(defs0, n, s),
    decreases n,
{
    if n > 0 {
        lemma_tp_run(defs0, defs1, n - 1, s);
        let s1 = tp_run(defs0, n - 1, s)->Some_0;
        assert(tp_def_term_rel(defs0[n - 1], defs1[n - 1]));
        lemma_tp_def_effect(defs0[n - 1].term, defs1[n - 1].term, s1);
    }
}

pub proof fn lemma_tp_jmp_effect(j0: Jmp, j1: Jmp, env: EsEnv)
    requires
        tp_jmp_rel(j0, j1),
        tp_jmp_effect(j0, env) is Some,
    ensures
        tp_jmp_effect(j1, env) == tp_jmp_effect(j0, env),
{
    match (j0, j1) {
        (Jmp::BranchInd(e0), Jmp::BranchInd(e1)) => { assert(es_val_kept(e0, e1, env)); },
        (Jmp::CBranch { target: t0, condition: c0 }, Jmp::CBranch { target: t1, condition: c1 }) => { assert(es_val_kept(c0, c1, env)); },
        (Jmp::CallInd { target: e0, return_: r0 }, Jmp::CallInd { target: e1, return_: r1 }) => { assert(es_val_kept(e0, e1, env)); },
        (Jmp::Return(e0), Jmp::Return(e1)) => { assert(es_val_kept(e0, e1, env)); },
        _ => {},
    }
}

pub proof fn lemma_tp_blk_behaves(b0: Term<Blk>, b1: Term<Blk>)
    requires
        tp_blk_rel(b0, b1),
    ensures
        tp_blk_behaves(b0, b1),
{
    assert forall |n: int, s: TpState| 0 <= n <= b0.term.defs@.len() && (#[trigger] tp_run(b0.term.defs@, n, s)) is Some
        implies tp_run(b1.term.defs@, n, s) == tp_run(b0.term.defs@, n, s) by {
        lemma_tp_run(b0.term.defs@, b1.term.defs@, n, s);
    }
    assert forall |j: int, env: EsEnv| 0 <= j < b0.term.jmps@.len() && (#[trigger] tp_jmp_effect(b0.term.jmps@[j].term, env)) is Some
        implies tp_jmp_effect(b1.term.jmps@[j].term, env) == tp_jmp_effect(b0.term.jmps@[j].term, env) by {
        assert(tp_jmp_term_rel(b0.term.jmps@[j], b1.term.jmps@[j]));
        lemma_tp_jmp_effect(b0.term.jmps@[j].term, b1.term.jmps@[j].term, env);
    }
}

pub proof fn lemma_tp_behaves(m0: Map<Tid, Term<Sub>>, m1: Map<Tid, Term<Sub>>)
    requires
        tp_post(m0, m1),
    ensures
        tp_behaves(m0, m1),
{
    assert forall |k: Tid| #[trigger] m0.contains_key(k) implies ({
            &&& m1[k].tid == m0[k].tid
            &&& m1[k].term.blocks@.len() == m0[k].term.blocks@.len()
            &&& forall |i: int| 0 <= i < m0[k].term.blocks@.len() ==> (#[trigger] m1[k].term.blocks@[i]).tid == m0[k].term.blocks@[i].tid
                    && tp_blk_behaves(m0[k].term.blocks@[i], m1[k].term.blocks@[i])
        }) by {
        assert(tp_sub_rel(m0[k], m1[k]));
        assert forall |i: int| 0 <= i < m0[k].term.blocks@.len() implies (#[trigger] m1[k].term.blocks@[i]).tid == m0[k].term.blocks@[i].tid
                    && tp_blk_behaves(m0[k].term.blocks@[i], m1[k].term.blocks@[i]) by {
            assert(tp_blk_rel(m0[k].term.blocks@[i], m1[k].term.blocks@[i]));
            lemma_tp_blk_behaves(m0[k].term.blocks@[i], m1[k].term.blocks@[i]);
        }
    }
}
