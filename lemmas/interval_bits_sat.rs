// ---------------------------------------------------------------------------
// lemmas/interval_bits_sat.rs -- SATISFIABILITY WITNESSES of the preconditions of unit `interval_bits`
// (nothing here is trusted: no external_body / assume / admit / axiom).
//   (a') verif_sat_interval_bits_chain: exec client WITHOUT requires that calls every contracted function of the unit
//        on 8 bit [-4, 10] stride 2, 64 bit [-16, 32] stride 4 and 128 bit values (builders of
//        lemmas/interval_base_sat.rs): Verus checks the REAL requires at each call.  Both disjuncts of
//        `start.w@ <= 64 || self.stride == 1` (adjust_to_stride_and_remainder) are exercised: 8 / 64 bit with an old
//        stride 2 / 4, and 128 bit with stride 1; that function does NOT require inv(): it is also called on a
//        value with start > end.
//   nothing conditional, no (d) hypothesis in this unit.
// ---------------------------------------------------------------------------

/// (a') every contracted function of the unit is called; no precondition
pub fn verif_sat_interval_bits_chain()
{
    proof { lemma_p2_consts(); }
    // adjust_to_stride_and_remainder: wf, equal widths, byte_w, stride > 0, w <= 64 || self.stride == 1
    let _ = verif_sat_interval_base_iv8(252, 10, 2).adjust_to_stride_and_remainder(3, 1);
    let _ = verif_sat_interval_base_iv64(0xffff_ffff_ffff_fff0, 32, 4).adjust_to_stride_and_remainder(6, 7);
    let _ = verif_sat_interval_base_iv128(0xffff_ffff_ffff_ffff_ffff_ffff_ffff_fff0, 32, 1).adjust_to_stride_and_remainder(3, 1);
    let _ = verif_sat_interval_base_iv8(10, 3, 5).adjust_to_stride_and_remainder(3, 1);
    // zero_extend: inv, byte_w, w <= width * 8, width <= MAXBYTES
    let _ = verif_sat_interval_base_iv8(252, 10, 2).zero_extend(ByteSize(2));
    let _ = verif_sat_interval_base_iv64(0xffff_ffff_ffff_fff0, 32, 4).zero_extend(ByteSize(8));
    // subpiece_higher: inv, byte_w, 1 <= low_byte, low_byte * 8 < w
    let _ = verif_sat_interval_base_iv64(0xffff_ffff_ffff_fff0, 32, 4).subpiece_higher(ByteSize(4));
    // subpiece_lower: inv, byte_w, 1 <= size, size * 8 < w
    let _ = verif_sat_interval_base_iv64(0xffff_ffff_ffff_fff0, 32, 4).subpiece_lower(ByteSize(2));
    // subpiece: inv, byte_w, 1 <= size, low_byte * 8 + size * 8 <= w
    let _ = verif_sat_interval_base_iv64(0xffff_ffff_ffff_fff0, 32, 4).subpiece(ByteSize(2), ByteSize(4));
    let _ = verif_sat_interval_base_iv8(252, 10, 2).subpiece(ByteSize(0), ByteSize(1));
    // piece: inv, inv, byte_w, byte_w, w + w' <= MAXW
    let a = verif_sat_interval_base_iv8(252, 10, 2);
    let q = verif_sat_interval_base_iv64(0xffff_ffff_ffff_fff0, 32, 4);
    let _ = a.piece(&q);
    let _ = q.piece(&a);
}
