// ---------------------------------------------------------------------------
// lemmas/cfgbuild_global.rs -- STAGE 3 of unit `cfgbuild`: global invariants of the abstract construction (all proved, pure
// specification-level lemmas over CfgSt and the step functions of spec/cfgbuild.rs; nothing trusted, no exec code).
//   cfg_pairs_inv   one start node, one end node, one Block edge per registered pair; registered pairs <-> keys
//   cfg_gstep       the builder only grows; registered pairs / call targets never change
//   cfg_accounted   every BlkEnd node is on the worklist or processed, exactly once
// ---------------------------------------------------------------------------

pub proof fn lemma_cfg_gstep_refl<'a>(a: CfgSt<'a>)
    ensures cfg_gstep(a, a),
{
}

pub proof fn lemma_cfg_wl_grows_trans<'a>(a: CfgSt<'a>, b: CfgSt<'a>, c: CfgSt<'a>)
    requires
        cfg_wl_grows(a, b), cfg_wl_grows(b, c),
        a.nodes.len() <= b.nodes.len() <= c.nodes.len(),
        forall |i: int| 0 <= i < b.nodes.len() ==> #[trigger] c.nodes[i] == b.nodes[i],
    ensures cfg_wl_grows(a, c),
{
    assert forall |i: int| 0 <= i < a.wl.len() implies #[trigger] c.wl[i] == a.wl[i] by {
        assert(c.wl[i] == b.wl[i]);
    }
    assert forall |i: int| a.wl.len() <= i < c.wl.len() implies a.nodes.len() <= (#[trigger] c.wl[i]).i < c.nodes.len() && c.nodes[c.wl[i].i as int] is BlkEnd by {
        if i < b.wl.len() {
            assert(c.wl[i] == b.wl[i]);
            assert(c.nodes[b.wl[i].i as int] == b.nodes[b.wl[i].i as int]);
        }
    }
    assert forall |i: int, j: int| a.wl.len() <= i < j < c.wl.len() implies #[trigger] c.wl[i] != #[trigger] c.wl[j] by {
        if j < b.wl.len() {
            assert(c.wl[i] == b.wl[i] && c.wl[j] == b.wl[j]);
        } else if i < b.wl.len() {
            assert(c.wl[i] == b.wl[i]);
            assert(b.wl[i].i < b.nodes.len());
            assert(c.wl[j].i >= b.nodes.len());
        }
    }
    assert forall |n: int| a.nodes.len() <= n < c.nodes.len() && (#[trigger] c.nodes[n]) is BlkEnd implies
            exists |i: int| a.wl.len() <= i < c.wl.len() && (#[trigger] c.wl[i]).i == n by {
        if n < b.nodes.len() {
            assert(c.nodes[n] == b.nodes[n]);
            let i = choose |i: int| a.wl.len() <= i < b.wl.len() && (#[trigger] b.wl[i]).i == n;
            assert(c.wl[i] == b.wl[i]);
        } else {
            let i = choose |i: int| b.wl.len() <= i < c.wl.len() && (#[trigger] c.wl[i]).i == n;
            assert(a.wl.len() <= i);
        }
    }
}

pub proof fn lemma_cfg_gstep_trans<'a>(a: CfgSt<'a>, b: CfgSt<'a>, c: CfgSt<'a>)
    requires cfg_gstep(a, b), cfg_gstep(b, c),
    ensures cfg_gstep(a, c),
{
    lemma_cfg_wl_grows_trans(a, b, c);
    lemma_cfg_gstep0_trans(a, b, c);
}

pub proof fn lemma_cfg_gstep0_trans<'a>(a: CfgSt<'a>, b: CfgSt<'a>, c: CfgSt<'a>)
    requires cfg_gstep0(a, b), cfg_gstep0(b, c),
    ensures cfg_gstep0(a, c),
{
    assert forall |i: int| 0 <= i < a.nodes.len() implies #[trigger] c.nodes[i] == a.nodes[i] by { assert(c.nodes[i] == b.nodes[i]); }
    assert forall |i: int| 0 <= i < a.edges.len() implies #[trigger] c.edges[i] == a.edges[i] by { assert(c.edges[i] == b.edges[i]); }
    assert forall |k: (Tid, Tid)| #[trigger] a.jt.contains_key(k) implies c.jt.contains_key(k) && c.jt[k] == a.jt[k] by { assert(b.jt.contains_key(k)); }
    assert forall |t: Tid| #[trigger] a.ra.contains_key(t) implies c.ra.contains_key(t) && a.ra[t].len() <= c.ra[t].len()
            && forall |i: int| 0 <= i < a.ra[t].len() ==> #[trigger] c.ra[t][i] == a.ra[t][i] by {
        assert(b.ra.contains_key(t));
        assert forall |i: int| 0 <= i < a.ra[t].len() implies #[trigger] c.ra[t][i] == a.ra[t][i] by { assert(c.ra[t][i] == b.ra[t][i]); }
    }
}

/// add_block for an UNREGISTERED key keeps the pairs invariant
pub proof fn lemma_cfg_g_add_block<'a>(st: CfgSt<'a>, b: &'a Term<Blk>, f: &'a Term<Sub>)
    requires cfg_pairs_inv(st), !st.jt.contains_key((b.tid, f.tid)), st.nodes.len() + 2 <= usize::MAX,
    ensures cfg_pairs_inv(cfg_add_block(st, b, f)), cfg_gstep(st, cfg_add_block(st, b, f)),
{
    let r = cfg_add_block(st, b, f);
    let n = st.nodes.len() as int;
    assert(r.nodes[n] == Node::BlkStart(b, f));
    assert(r.nodes[n + 1] == Node::BlkEnd(b, f));
    assert forall |m: int| 0 <= m < r.nodes.len() && (#[trigger] r.nodes[m]) is BlkStart implies
            m + 1 < r.nodes.len() && r.nodes[m + 1] == Node::BlkEnd(cfg_blk(r.nodes[m]), cfg_sub(r.nodes[m]))
            && r.jt.contains_key(cfg_key_of(r.nodes[m])) && r.jt[cfg_key_of(r.nodes[m])] == (cfg_ni(m), cfg_ni(m + 1)) by {
        if m < n {
            assert(r.nodes[m] == st.nodes[m]);
            assert(r.nodes[m + 1] == st.nodes[m + 1]);
            assert(st.jt.contains_key(cfg_key_of(st.nodes[m])));
        }
    }
    assert forall |m: int| 0 <= m < r.nodes.len() && (#[trigger] r.nodes[m]) is BlkEnd implies m >= 1 && r.nodes[m - 1] is BlkStart by {
        if m < n { assert(r.nodes[m] == st.nodes[m]); assert(r.nodes[m - 1] == st.nodes[m - 1]); }
    }
    let ne = st.edges.len() as int;
    assert(r.edges[ne] == CfgEdge { src: cfg_ni(n), dst: cfg_ni(n + 1), w: Edge::Block });
    assert forall |e: int| 0 <= e < r.edges.len() && (#[trigger] r.edges[e]).w is Block implies
            r.edges[e].src.i < r.nodes.len() && r.nodes[r.edges[e].src.i as int] is BlkStart && r.edges[e].dst.i == r.edges[e].src.i + 1 by {
        if e < ne { assert(r.edges[e] == st.edges[e]); assert(r.nodes[st.edges[e].src.i as int] == st.nodes[st.edges[e].src.i as int]); }
    }
    assert forall |e1: int, e2: int| 0 <= e1 < e2 < r.edges.len() && (#[trigger] r.edges[e1]).w is Block && (#[trigger] r.edges[e2]).w is Block implies
            r.edges[e1].src != r.edges[e2].src by {
        assert(r.edges[e1] == st.edges[e1]);
        if e2 < ne { assert(r.edges[e2] == st.edges[e2]); } else { assert(st.edges[e1].src.i < n); }
    }
    assert forall |m: int| 0 <= m < r.nodes.len() && (#[trigger] r.nodes[m]) is BlkStart implies
            exists |e: int| 0 <= e < r.edges.len() && #[trigger] r.edges[e] == (CfgEdge { src: cfg_ni(m), dst: cfg_ni(m + 1), w: Edge::Block }) by {
        if m < n {
            assert(r.nodes[m] == st.nodes[m]);
            let e = choose |e: int| 0 <= e < st.edges.len() && #[trigger] st.edges[e] == (CfgEdge { src: cfg_ni(m), dst: cfg_ni(m + 1), w: Edge::Block });
            assert(r.edges[e] == st.edges[e]);
        } else {
            assert(m == n);
            assert(r.edges[ne] == (CfgEdge { src: cfg_ni(m), dst: cfg_ni(m + 1), w: Edge::Block }));
        }
    }
    // gstep
    assert forall |i: int| 0 <= i < st.wl.len() implies #[trigger] r.wl[i] == st.wl[i] by {}
    assert(r.wl[st.wl.len() as int] == cfg_ni(n + 1));
    assert forall |m: int| st.nodes.len() <= m < r.nodes.len() && (#[trigger] r.nodes[m]) is BlkEnd implies
            exists |i: int| st.wl.len() <= i < r.wl.len() && (#[trigger] r.wl[i]).i == m by {
        assert(m == n + 1);
        assert(r.wl[st.wl.len() as int].i == m);
    }
}

/// an edge that is not a Block edge
pub proof fn lemma_cfg_g_edge<'a>(st: CfgSt<'a>, src: NodeIndex, dst: NodeIndex, w: Edge<'a>)
    requires cfg_pairs_inv(st), !(w is Block),
    ensures cfg_pairs_inv(cfg_edge(st, src, dst, w)), cfg_gstep(st, cfg_edge(st, src, dst, w)),
{
    let r = cfg_edge(st, src, dst, w);
    let ne = st.edges.len() as int;
    assert forall |e: int| 0 <= e < r.edges.len() && (#[trigger] r.edges[e]).w is Block implies
            r.edges[e].src.i < r.nodes.len() && r.nodes[r.edges[e].src.i as int] is BlkStart && r.edges[e].dst.i == r.edges[e].src.i + 1 by {
        assert(r.edges[e] == st.edges[e]);
    }
    assert forall |e1: int, e2: int| 0 <= e1 < e2 < r.edges.len() && (#[trigger] r.edges[e1]).w is Block && (#[trigger] r.edges[e2]).w is Block implies
            r.edges[e1].src != r.edges[e2].src by {
        assert(r.edges[e1] == st.edges[e1]); assert(r.edges[e2] == st.edges[e2]);
    }
    assert forall |m: int| 0 <= m < r.nodes.len() && (#[trigger] r.nodes[m]) is BlkStart implies
            exists |e: int| 0 <= e < r.edges.len() && #[trigger] r.edges[e] == (CfgEdge { src: cfg_ni(m), dst: cfg_ni(m + 1), w: Edge::Block }) by {
        let e = choose |e: int| 0 <= e < st.edges.len() && #[trigger] st.edges[e] == (CfgEdge { src: cfg_ni(m), dst: cfg_ni(m + 1), w: Edge::Block });
        assert(r.edges[e] == st.edges[e]);
    }
}

/// a node that is neither BlkStart nor BlkEnd
pub proof fn lemma_cfg_g_node<'a>(st: CfgSt<'a>, w: Node<'a>)
    requires cfg_pairs_inv(st), !(w is BlkStart), !(w is BlkEnd),
    ensures cfg_pairs_inv(cfg_node(st, w)), cfg_gstep(st, cfg_node(st, w)),
{
    let r = cfg_node(st, w);
    let n = st.nodes.len() as int;
    assert forall |m: int| 0 <= m < r.nodes.len() && (#[trigger] r.nodes[m]) is BlkStart implies
            m + 1 < r.nodes.len() && r.nodes[m + 1] == Node::BlkEnd(cfg_blk(r.nodes[m]), cfg_sub(r.nodes[m]))
            && r.jt.contains_key(cfg_key_of(r.nodes[m])) && r.jt[cfg_key_of(r.nodes[m])] == (cfg_ni(m), cfg_ni(m + 1)) by {
        assert(m < n);
        assert(r.nodes[m] == st.nodes[m]);
        assert(r.nodes[m + 1] == st.nodes[m + 1]);
    }
    assert forall |m: int| 0 <= m < r.nodes.len() && (#[trigger] r.nodes[m]) is BlkEnd implies m >= 1 && r.nodes[m - 1] is BlkStart by {
        assert(r.nodes[m] == st.nodes[m]); assert(r.nodes[m - 1] == st.nodes[m - 1]);
    }
    assert forall |e: int| 0 <= e < r.edges.len() && (#[trigger] r.edges[e]).w is Block implies
            r.edges[e].src.i < r.nodes.len() && r.nodes[r.edges[e].src.i as int] is BlkStart && r.edges[e].dst.i == r.edges[e].src.i + 1 by {
        assert(r.nodes[st.edges[e].src.i as int] == st.nodes[st.edges[e].src.i as int]);
    }
    assert forall |m: int| 0 <= m < r.nodes.len() && (#[trigger] r.nodes[m]) is BlkStart implies
            exists |e: int| 0 <= e < r.edges.len() && #[trigger] r.edges[e] == (CfgEdge { src: cfg_ni(m), dst: cfg_ni(m + 1), w: Edge::Block }) by {
        assert(r.nodes[m] == st.nodes[m]);
    }
}

// ---- no step ever removes a node (no size hypothesis needed) ---------------------------------------------------------------------

pub proof fn lemma_cfg_len_intra<'a>(st: CfgSt<'a>, subs: Map<Tid, Term<Sub>>, source: NodeIndex, tid: Tid, jump: &'a Term<Jmp>, uc: Option<&'a Term<Jmp>>)
    ensures st.nodes.len() <= cfg_intra(st, subs, source, tid, jump, uc).nodes.len(),
{
}

pub proof fn lemma_cfg_len_indirect<'a>(st: CfgSt<'a>, subs: Map<Tid, Term<Sub>>, source: NodeIndex, jump: &'a Term<Jmp>, uc: Option<&'a Term<Jmp>>, targets: Seq<Tid>, n: int, m: int)
    requires 0 <= m <= n,
    ensures cfg_indirect_n(st, subs, source, jump, uc, targets, m).nodes.len() <= cfg_indirect_n(st, subs, source, jump, uc, targets, n).nodes.len(),
    decreases n - m
{
    if m < n {
        lemma_cfg_len_indirect(st, subs, source, jump, uc, targets, n, m + 1);
        lemma_cfg_len_intra(cfg_indirect_n(st, subs, source, jump, uc, targets, m), subs, source, targets[m], jump, uc);
    }
}

pub proof fn lemma_cfg_len_call<'a>(st: CfgSt<'a>, subs: Map<Tid, Term<Sub>>, ext: Set<Tid>, source: NodeIndex, jump: &'a Term<Jmp>, target: Tid, return_: Option<Tid>)
    ensures
        st.nodes.len() <= cfg_return_site(st, subs, source, return_).0.nodes.len() <= cfg_call(st, subs, ext, source, jump, target, return_).nodes.len(),
        cfg_return_site(st, subs, source, return_).0.nodes.len() <= cfg_callind(st, subs, source, jump, return_).nodes.len(),
{
}

pub proof fn lemma_cfg_len_jump_edge<'a>(st: CfgSt<'a>, subs: Map<Tid, Term<Sub>>, ext: Set<Tid>, source: NodeIndex, jump: &'a Term<Jmp>, uc: Option<&'a Term<Jmp>>)
    ensures st.nodes.len() <= cfg_jump_edge(st, subs, ext, source, jump, uc).nodes.len(),
{
    match jump.term {
        Jmp::BranchInd(e) => {
            let targets = cfg_blk(st.nodes[source.i as int]).term.indirect_jmp_targets@;
            lemma_cfg_len_indirect(st, subs, source, jump, uc, targets, targets.len() as int, 0);
        },
        Jmp::Call { target, return_ } => { lemma_cfg_len_call(st, subs, ext, source, jump, target, return_); },
        Jmp::CallInd { target, return_ } => { lemma_cfg_len_call(st, subs, ext, source, jump, arbitrary(), return_); },
        _ => {},
    }
}

pub proof fn lemma_cfg_len_outgoing<'a>(st: CfgSt<'a>, subs: Map<Tid, Term<Sub>>, ext: Set<Tid>, node: NodeIndex, block: &'a Term<Blk>)
    ensures
        st.nodes.len() <= cfg_outgoing(st, subs, ext, node, block).nodes.len(),
        block.term.jmps@.len() >= 2 ==> cfg_jump_edge(st, subs, ext, node, &block.term.jmps@[0], None).nodes.len() <= cfg_outgoing(st, subs, ext, node, block).nodes.len(),
{
    let jmps = block.term.jmps@;
    if jmps.len() == 1 {
        lemma_cfg_len_jump_edge(st, subs, ext, node, &jmps[0], None);
    } else if jmps.len() >= 2 {
        lemma_cfg_len_jump_edge(st, subs, ext, node, &jmps[0], None);
        lemma_cfg_len_jump_edge(cfg_jump_edge(st, subs, ext, node, &jmps[0], None), subs, ext, node, &jmps[1], Some(&jmps[0]));
    }
}

pub proof fn lemma_cfg_len_wl_steps<'a>(st: CfgSt<'a>, subs: Map<Tid, Term<Sub>>, ext: Set<Tid>, n: int, m: int)
    requires 0 <= m <= n,
    ensures cfg_wl_steps(st, subs, ext, m).nodes.len() <= cfg_wl_steps(st, subs, ext, n).nodes.len(),
    decreases n - m
{
    if m < n {
        lemma_cfg_len_wl_steps(st, subs, ext, n, m + 1);
        let s = cfg_wl_steps(st, subs, ext, m);
        let s1 = CfgSt { wl: s.wl.drop_last(), ..s };
        lemma_cfg_len_outgoing(s1, subs, ext, s.wl.last(), cfg_blk(s1.nodes[s.wl.last().i as int]));
    }
}

pub proof fn lemma_cfg_len_call_return_n<'a>(st: CfgSt<'a>, f_ret: &'a Term<Sub>, rs: NodeIndex, list: Seq<(NodeIndex, NodeIndex)>, n: int, m: int)
    requires 0 <= m <= n,
    ensures cfg_call_return_n(st, f_ret, rs, list, m).nodes.len() <= cfg_call_return_n(st, f_ret, rs, list, n).nodes.len(),
    decreases n - m
{
    if m < n { lemma_cfg_len_call_return_n(st, f_ret, rs, list, n, m + 1); }
}

pub proof fn lemma_cfg_len_returns_n<'a>(st: CfgSt<'a>, list: Seq<NodeIndex>, n: int, m: int)
    requires 0 <= m <= n,
    ensures cfg_returns_n(st, list, m).nodes.len() <= cfg_returns_n(st, list, n).nodes.len(),
    decreases n - m
{
    if m < n {
        lemma_cfg_len_returns_n(st, list, n, m + 1);
        let s = cfg_returns_n(st, list, m);
        let f = cfg_sub(st.nodes[list[m].i as int]);
        if s.ra.contains_key(f.tid) { lemma_cfg_len_call_return_n(s, f, list[m], s.ra[f.tid], s.ra[f.tid].len() as int, 0); }
    }
}

// ---- the composite steps keep cfg_ginv and only grow the builder ------------------------------------------------------------------

pub proof fn lemma_cfg_g_ensure<'a>(st: CfgSt<'a>, subs: Map<Tid, Term<Sub>>, tid: Tid, f: &'a Term<Sub>)
    requires
        cfg_ginv(st, subs), cfg_prog_sub(subs, *f), !st.jt.contains_key((tid, f.tid)) ==> cfg_has_block(subs, tid),
        cfg_small(cfg_ensure(st, subs, tid, f).0),
    ensures
        cfg_ginv(cfg_ensure(st, subs, tid, f).0, subs),
        cfg_gstep(st, cfg_ensure(st, subs, tid, f).0),
        cfg_ensure(st, subs, tid, f).1.i < cfg_ensure(st, subs, tid, f).0.nodes.len(),
        cfg_ensure(st, subs, tid, f).0.nodes[cfg_ensure(st, subs, tid, f).1.i as int] is BlkStart,
        cfg_ensure(st, subs, tid, f).0.ra == st.ra,
{
    lemma_cfg_inv_ensure(st, subs, tid, f);
    if !st.jt.contains_key((tid, f.tid)) {
        broadcast use lemma_cfg_find_block_ok;
        let b = cfg_find_block::<'a>(subs, tid)->Some_0;
        lemma_cfg_g_add_block(st, b, f);
    }
}

pub proof fn lemma_cfg_g_intra<'a>(st: CfgSt<'a>, subs: Map<Tid, Term<Sub>>, source: NodeIndex, tid: Tid, jump: &'a Term<Jmp>, uc: Option<&'a Term<Jmp>>)
    requires
        cfg_ginv(st, subs), cfg_is_end(st, source), cfg_has_block(subs, tid), cfg_untaken_ok(uc),
        cfg_small(cfg_intra(st, subs, source, tid, jump, uc)),
    ensures
        cfg_ginv(cfg_intra(st, subs, source, tid, jump, uc), subs),
        cfg_gstep(st, cfg_intra(st, subs, source, tid, jump, uc)),
        cfg_intra(st, subs, source, tid, jump, uc).ra == st.ra,
{
    let f = cfg_sub(st.nodes[source.i as int]);
    assert(cfg_node_ok(subs, st.nodes[source.i as int]));
    lemma_cfg_g_ensure(st, subs, tid, f);
    lemma_cfg_inv_intra(st, subs, source, tid, jump, uc);
    let (st1, t) = cfg_ensure(st, subs, tid, f);
    lemma_cfg_g_edge(st1, source, t, Edge::Jump(jump, uc));
    lemma_cfg_gstep_trans(st, st1, cfg_edge(st1, source, t, Edge::Jump(jump, uc)));
}

pub proof fn lemma_cfg_g_indirect<'a>(st: CfgSt<'a>, subs: Map<Tid, Term<Sub>>, source: NodeIndex, jump: &'a Term<Jmp>, uc: Option<&'a Term<Jmp>>, targets: Seq<Tid>, n: int)
    requires
        cfg_ginv(st, subs), cfg_is_end(st, source), 0 <= n <= targets.len(), cfg_targets_exist(subs, targets), cfg_untaken_ok(uc),
        cfg_small(cfg_indirect_n(st, subs, source, jump, uc, targets, n)),
    ensures
        cfg_ginv(cfg_indirect_n(st, subs, source, jump, uc, targets, n), subs),
        cfg_gstep(st, cfg_indirect_n(st, subs, source, jump, uc, targets, n)),
        cfg_indirect_n(st, subs, source, jump, uc, targets, n).ra == st.ra,
    decreases n
{
    if n > 0 {
        let s1 = cfg_indirect_n(st, subs, source, jump, uc, targets, n - 1);
        lemma_cfg_len_indirect(st, subs, source, jump, uc, targets, n, n - 1);
        lemma_cfg_g_indirect(st, subs, source, jump, uc, targets, n - 1);
        assert(s1.nodes[source.i as int] == st.nodes[source.i as int]);
        lemma_cfg_g_intra(s1, subs, source, targets[n - 1], jump, uc);
        lemma_cfg_gstep_trans(st, s1, cfg_indirect_n(st, subs, source, jump, uc, targets, n));
    } else {
        lemma_cfg_gstep_refl(st);
    }
}

pub proof fn lemma_cfg_g_return_site<'a>(st: CfgSt<'a>, subs: Map<Tid, Term<Sub>>, source: NodeIndex, return_: Option<Tid>)
    requires
        cfg_ginv(st, subs), cfg_is_end(st, source), return_ is Some ==> cfg_has_block(subs, return_->Some_0),
        cfg_small(cfg_return_site(st, subs, source, return_).0),
    ensures
        cfg_ginv(cfg_return_site(st, subs, source, return_).0, subs),
        cfg_gstep(st, cfg_return_site(st, subs, source, return_).0),
        cfg_return_site(st, subs, source, return_).0.ra == st.ra,
        cfg_return_site(st, subs, source, return_).1 is Some <==> return_ is Some,
        cfg_return_site(st, subs, source, return_).1 is Some ==> {
            let rn = cfg_return_site(st, subs, source, return_).1->Some_0;
            rn.i < cfg_return_site(st, subs, source, return_).0.nodes.len() && cfg_return_site(st, subs, source, return_).0.nodes[rn.i as int] is BlkStart
        },
{
    assert(cfg_node_ok(subs, st.nodes[source.i as int]));
    if return_ is Some {
        lemma_cfg_g_ensure(st, subs, return_->Some_0, cfg_sub(st.nodes[source.i as int]));
    } else {
        lemma_cfg_gstep_refl(st);
    }
}

/// registering one more return address
pub proof fn lemma_cfg_g_ra_push<'a>(st: CfgSt<'a>, target: Tid, v: (NodeIndex, NodeIndex))
    requires cfg_pairs_inv(st),
    ensures
        cfg_pairs_inv(CfgSt { ra: cfg_ra_push(st.ra, target, v), ..st }),
        cfg_gstep(st, CfgSt { ra: cfg_ra_push(st.ra, target, v), ..st }),
{
    let r = CfgSt { ra: cfg_ra_push(st.ra, target, v), ..st };
    assert forall |t: Tid| #[trigger] st.ra.contains_key(t) implies r.ra.contains_key(t) && st.ra[t].len() <= r.ra[t].len()
            && forall |i: int| 0 <= i < st.ra[t].len() ==> #[trigger] r.ra[t][i] == st.ra[t][i] by {
    }
}

pub proof fn lemma_cfg_g_call<'a>(st: CfgSt<'a>, subs: Map<Tid, Term<Sub>>, ext: Set<Tid>, source: NodeIndex, jump: &'a Term<Jmp>, target: Tid, return_: Option<Tid>)
    requires
        cfg_ginv(st, subs), cfg_is_end(st, source), cfg_has_call(*cfg_blk(st.nodes[source.i as int])),
        return_ is Some ==> cfg_has_block(subs, return_->Some_0),
        cfg_small(cfg_call(st, subs, ext, source, jump, target, return_)),
    ensures
        cfg_ginv(cfg_call(st, subs, ext, source, jump, target, return_), subs),
        cfg_gstep(st, cfg_call(st, subs, ext, source, jump, target, return_)),
{
    lemma_cfg_len_call(st, subs, ext, source, jump, target, return_);
    lemma_cfg_g_return_site(st, subs, source, return_);
    lemma_cfg_inv_call(st, subs, ext, source, jump, target, return_);
    let b = cfg_blk(st.nodes[source.i as int]);
    let f = cfg_sub(st.nodes[source.i as int]);
    let (st1, rn_opt) = cfg_return_site(st, subs, source, return_);
    if ext.contains(target) {
        if rn_opt is Some {
            lemma_cfg_g_edge(st1, source, rn_opt->Some_0, Edge::ExternCallStub(jump));
            lemma_cfg_gstep_trans(st, st1, cfg_edge(st1, source, rn_opt->Some_0, Edge::ExternCallStub(jump)));
        }
    } else if st1.ct.contains_key(target) {
        let tn = st1.ct[target].0;
        let cs = cfg_ni(st1.nodes.len() as int);
        let w = Node::CallSource { source: (b, f), target: (cfg_blk(st1.nodes[tn.i as int]), cfg_sub(st1.nodes[tn.i as int])) };
        let st2 = cfg_node(st1, w);
        lemma_cfg_g_node(st1, w);
        let st2b = cfg_edge(st2, source, cs, Edge::CallCombine(jump));
        lemma_cfg_g_edge(st2, source, cs, Edge::CallCombine(jump));
        let st3 = cfg_edge(st2b, cs, tn, Edge::Call(jump));
        lemma_cfg_g_edge(st2b, cs, tn, Edge::Call(jump));
        lemma_cfg_gstep_trans(st, st1, st2);
        lemma_cfg_gstep_trans(st, st2, st2b);
        lemma_cfg_gstep_trans(st, st2b, st3);
        if rn_opt is Some {
            let rn = rn_opt->Some_0;
            lemma_cfg_g_ra_push(st3, target, (cs, rn));
            lemma_cfg_gstep_trans(st, st3, CfgSt { ra: cfg_ra_push(st3.ra, target, (cs, rn)), ..st3 });
        }
    }
}

pub proof fn lemma_cfg_g_jump_edge<'a>(st: CfgSt<'a>, subs: Map<Tid, Term<Sub>>, ext: Set<Tid>, source: NodeIndex, jump: &'a Term<Jmp>, uc: Option<&'a Term<Jmp>>)
    requires
        cfg_ginv(st, subs), cfg_is_end(st, source),
        cfg_jump_wf(subs, *cfg_blk(st.nodes[source.i as int]), *jump), cfg_untaken_ok(uc),
        cfg_small(cfg_jump_edge(st, subs, ext, source, jump, uc)),
    ensures
        cfg_ginv(cfg_jump_edge(st, subs, ext, source, jump, uc), subs),
        cfg_gstep(st, cfg_jump_edge(st, subs, ext, source, jump, uc)),
{
    match jump.term {
        Jmp::Branch(tid) => { lemma_cfg_g_intra(st, subs, source, tid, jump, uc); },
        Jmp::CBranch { target, condition } => { lemma_cfg_g_intra(st, subs, source, target, jump, uc); },
        Jmp::BranchInd(e) => {
            let targets = cfg_blk(st.nodes[source.i as int]).term.indirect_jmp_targets@;
            lemma_cfg_g_indirect(st, subs, source, jump, uc, targets, targets.len() as int);
        },
        Jmp::Call { target, return_ } => { lemma_cfg_g_call(st, subs, ext, source, jump, target, return_); },
        Jmp::CallInd { target, return_ } => {
            lemma_cfg_g_return_site(st, subs, source, return_);
            let (st1, rn_opt) = cfg_return_site(st, subs, source, return_);
            if rn_opt is Some {
                lemma_cfg_inv_edge(st1, subs, source, rn_opt->Some_0, Edge::ExternCallStub(jump));
                lemma_cfg_g_edge(st1, source, rn_opt->Some_0, Edge::ExternCallStub(jump));
                lemma_cfg_gstep_trans(st, st1, cfg_edge(st1, source, rn_opt->Some_0, Edge::ExternCallStub(jump)));
            }
        },
        Jmp::CallOther { description, return_ } => { lemma_cfg_gstep_refl(st); },
        Jmp::Return(e) => { lemma_cfg_gstep_refl(st); },
    }
}

pub proof fn lemma_cfg_g_outgoing<'a>(st: CfgSt<'a>, subs: Map<Tid, Term<Sub>>, ext: Set<Tid>, node: NodeIndex, block: &'a Term<Blk>)
    requires
        cfg_ginv(st, subs), cfg_is_end(st, node), cfg_blk(st.nodes[node.i as int]) == block, cfg_block_wf(subs, *block),
        cfg_small(cfg_outgoing(st, subs, ext, node, block)),
    ensures
        cfg_ginv(cfg_outgoing(st, subs, ext, node, block), subs),
        cfg_gstep(st, cfg_outgoing(st, subs, ext, node, block)),
{
    let jmps = block.term.jmps@;
    lemma_cfg_len_outgoing(st, subs, ext, node, block);
    if jmps.len() == 0 {
        lemma_cfg_gstep_refl(st);
    } else if jmps.len() == 1 {
        lemma_cfg_g_jump_edge(st, subs, ext, node, &jmps[0], None);
    } else {
        lemma_cfg_g_jump_edge(st, subs, ext, node, &jmps[0], None);
        let s1 = cfg_jump_edge(st, subs, ext, node, &jmps[0], None);
        assert(s1.nodes[node.i as int] == st.nodes[node.i as int]);
        lemma_cfg_g_jump_edge(s1, subs, ext, node, &jmps[1], Some(&jmps[0]));
        lemma_cfg_gstep_trans(st, s1, cfg_outgoing(st, subs, ext, node, block));
    }
}

// ---- worklist accounting -----------------------------------------------------------------------------------------------------------

pub proof fn lemma_cfg_accounted_gstep<'a>(a: CfgSt<'a>, b: CfgSt<'a>, done: Seq<NodeIndex>)
    requires cfg_accounted(a, done), cfg_gstep(a, b),
    ensures cfg_accounted(b, done),
{
    assert forall |i: int| 0 <= i < done.len() implies (#[trigger] done[i]).i < b.nodes.len() && b.nodes[done[i].i as int] is BlkEnd by {
        assert(b.nodes[done[i].i as int] == a.nodes[done[i].i as int]);
    }
    assert forall |i: int| 0 <= i < b.wl.len() implies (#[trigger] b.wl[i]).i < b.nodes.len() && b.nodes[b.wl[i].i as int] is BlkEnd by {
        if i < a.wl.len() { assert(b.wl[i] == a.wl[i]); assert(b.nodes[a.wl[i].i as int] == a.nodes[a.wl[i].i as int]); }
    }
    assert forall |i: int, j: int| 0 <= i < j < b.wl.len() implies #[trigger] b.wl[i] != #[trigger] b.wl[j] by {
        if j < a.wl.len() { assert(b.wl[i] == a.wl[i] && b.wl[j] == a.wl[j]); }
        else if i < a.wl.len() { assert(b.wl[i] == a.wl[i]); assert(a.wl[i].i < a.nodes.len()); }
    }
    assert forall |i: int, j: int| 0 <= i < b.wl.len() && 0 <= j < done.len() implies #[trigger] b.wl[i] != #[trigger] done[j] by {
        if i < a.wl.len() { assert(b.wl[i] == a.wl[i]); } else { assert(done[j].i < a.nodes.len()); }
    }
    assert forall |n: int| 0 <= n < b.nodes.len() && (#[trigger] b.nodes[n]) is BlkEnd implies
            (exists |i: int| 0 <= i < b.wl.len() && (#[trigger] b.wl[i]).i == n) || (exists |j: int| 0 <= j < done.len() && (#[trigger] done[j]).i == n) by {
        if n < a.nodes.len() {
            assert(b.nodes[n] == a.nodes[n]);
            if exists |i: int| 0 <= i < a.wl.len() && (#[trigger] a.wl[i]).i == n {
                let i = choose |i: int| 0 <= i < a.wl.len() && (#[trigger] a.wl[i]).i == n;
                assert(b.wl[i] == a.wl[i]);
            }
        } else {
            let i = choose |i: int| a.wl.len() <= i < b.wl.len() && (#[trigger] b.wl[i]).i == n;
            assert(0 <= i < b.wl.len());
        }
    }
}

pub proof fn lemma_cfg_accounted_pop<'a>(st: CfgSt<'a>, done: Seq<NodeIndex>)
    requires cfg_accounted(st, done), st.wl.len() > 0,
    ensures cfg_accounted(CfgSt { wl: st.wl.drop_last(), ..st }, done.push(st.wl.last())),
{
    let r = CfgSt { wl: st.wl.drop_last(), ..st };
    let d2 = done.push(st.wl.last());
    let last = st.wl.len() - 1;
    assert(st.wl[last] == st.wl.last());
    assert forall |i: int| 0 <= i < d2.len() implies (#[trigger] d2[i]).i < r.nodes.len() && r.nodes[d2[i].i as int] is BlkEnd by {
        if i < done.len() { assert(d2[i] == done[i]); }
    }
    assert forall |i: int| 0 <= i < r.wl.len() implies (#[trigger] r.wl[i]).i < r.nodes.len() && r.nodes[r.wl[i].i as int] is BlkEnd by {
        assert(r.wl[i] == st.wl[i]);
    }
    assert forall |i: int, j: int| 0 <= i < j < d2.len() implies #[trigger] d2[i] != #[trigger] d2[j] by {
        assert(d2[i] == done[i]);
        if j < done.len() { assert(d2[j] == done[j]); } else { assert(st.wl[last] != done[i]); }
    }
    assert forall |i: int, j: int| 0 <= i < j < r.wl.len() implies #[trigger] r.wl[i] != #[trigger] r.wl[j] by {
        assert(r.wl[i] == st.wl[i] && r.wl[j] == st.wl[j]);
    }
    assert forall |i: int, j: int| 0 <= i < r.wl.len() && 0 <= j < d2.len() implies #[trigger] r.wl[i] != #[trigger] d2[j] by {
        assert(r.wl[i] == st.wl[i]);
        if j < done.len() { assert(d2[j] == done[j]); } else { assert(st.wl[i] != st.wl[last]); }
    }
    assert forall |n: int| 0 <= n < r.nodes.len() && (#[trigger] r.nodes[n]) is BlkEnd implies
            (exists |i: int| 0 <= i < r.wl.len() && (#[trigger] r.wl[i]).i == n) || (exists |j: int| 0 <= j < d2.len() && (#[trigger] d2[j]).i == n) by {
        if exists |i: int| 0 <= i < st.wl.len() && (#[trigger] st.wl[i]).i == n {
            let i = choose |i: int| 0 <= i < st.wl.len() && (#[trigger] st.wl[i]).i == n;
            if i < last { assert(r.wl[i] == st.wl[i]); } else { assert(d2[done.len() as int].i == n); }
        } else {
            let j = choose |j: int| 0 <= j < done.len() && (#[trigger] done[j]).i == n;
            assert(d2[j] == done[j]);
        }
    }
}

/// the rounds of the worklist loop: the invariants hold after every round, every BlkEnd node is waiting or processed exactly
/// once, registered pairs / call targets / return addresses only grow
pub proof fn lemma_cfg_g_wl_steps<'a>(s2: CfgSt<'a>, subs: Map<Tid, Term<Sub>>, ext: Set<Tid>, n: int)
    requires
        cfg_ginv(s2, subs), cfg_blocks_wf(subs), cfg_wl_runs(s2, subs, ext, n), cfg_accounted(s2, Seq::empty()),
        cfg_small(cfg_wl_steps(s2, subs, ext, n)),
    ensures
        cfg_ginv(cfg_wl_steps(s2, subs, ext, n), subs),
        cfg_gstep0(s2, cfg_wl_steps(s2, subs, ext, n)),
        cfg_accounted(cfg_wl_steps(s2, subs, ext, n), cfg_done_n(s2, subs, ext, n)),
    decreases n
{
    if n > 0 {
        lemma_cfg_len_wl_steps(s2, subs, ext, n, n - 1);
        assert(cfg_wl_runs(s2, subs, ext, n - 1));
        lemma_cfg_g_wl_steps(s2, subs, ext, n - 1);
        let s = cfg_wl_steps(s2, subs, ext, n - 1);
        assert(s.wl.len() > 0);
        let node = s.wl.last();
        let s1 = CfgSt { wl: s.wl.drop_last(), ..s };
        lemma_cfg_inv_pop(s, subs);
        assert(cfg_pairs_inv(s1));
        let d1 = cfg_done_n(s2, subs, ext, n - 1);
        lemma_cfg_accounted_pop(s, d1);
        let blk = cfg_blk(s1.nodes[node.i as int]);
        let r = cfg_outgoing(s1, subs, ext, node, blk);
        assert(r == cfg_wl_steps(s2, subs, ext, n));
        lemma_cfg_g_outgoing(s1, subs, ext, node, blk);
        lemma_cfg_accounted_gstep(s1, r, d1.push(node));
        assert(cfg_done_n(s2, subs, ext, n) =~= d1.push(node));
        assert(cfg_gstep0(s, r));
        lemma_cfg_gstep0_trans(s2, s, r);
    } else {
        assert(cfg_done_n(s2, subs, ext, n) =~= Seq::<NodeIndex>::empty());
    }
}

// ---- add_program_blocks in a program whose positions have pairwise different keys ------------------------------------------------------

pub proof fn lemma_cfg_g_sub_blocks<'a>(st: CfgSt<'a>, subs: Map<Tid, Term<Sub>>, ks: Seq<Tid>, m: int, n: int)
    requires
        cfg_ginv(st, subs), cfg_key_order(ks, subs), cfg_positions_unique(subs), 0 <= m < ks.len(),
        0 <= n <= subs[ks[m]].term.blocks@.len(),
        cfg_keys_visited(st.jt, subs, ks, m, 0),
        cfg_small(cfg_sub_blocks_n(st, &subs[ks[m]], n)),
    ensures
        cfg_ginv(cfg_sub_blocks_n(st, &subs[ks[m]], n), subs),
        cfg_gstep(st, cfg_sub_blocks_n(st, &subs[ks[m]], n)),
        cfg_keys_visited(cfg_sub_blocks_n(st, &subs[ks[m]], n).jt, subs, ks, m, n),
    decreases n
{
    let f = &subs[ks[m]];
    if n > 0 {
        let s1 = cfg_sub_blocks_n(st, f, n - 1);
        let b = &f.term.blocks@[n - 1];
        let r = cfg_add_block(s1, b, f);
        assert(r == cfg_sub_blocks_n(st, f, n));
        assert(s1.nodes.len() <= r.nodes.len());
        lemma_cfg_g_sub_blocks(st, subs, ks, m, n - 1);
        assert(cfg_block_at(subs, ks[m], n - 1, *b));
        assert(cfg_prog_block(subs, *b));
        assert(subs.contains_key(ks[m]) && subs[ks[m]] == *f);
        // the key of position (m, n-1) is not registered yet: it would be the key of an earlier position
        if s1.jt.contains_key((b.tid, f.tid)) {
            let (j, i) = choose |j: int, i: int| #[trigger] cfg_pos_before(subs, ks, j, i, m, n - 1) && (b.tid, f.tid) == (subs[ks[j]].term.blocks@[i].tid, subs[ks[j]].tid);
            assert(cfg_block_at(subs, ks[j], i, subs[ks[j]].term.blocks@[i]));
            assert(cfg_block_at(subs, ks[m], n - 1, subs[ks[m]].term.blocks@[n - 1]));
            assert(ks[j] == ks[m] && i == n - 1);
            assert(false);
        }
        lemma_cfg_inv_add_block(s1, subs, b, f);
        lemma_cfg_g_add_block(s1, b, f);
        lemma_cfg_gstep_trans(st, s1, r);
        assert forall |key: (Tid, Tid)| #[trigger] r.jt.contains_key(key) implies
                exists |j: int, i: int| #[trigger] cfg_pos_before(subs, ks, j, i, m, n) && key == (subs[ks[j]].term.blocks@[i].tid, subs[ks[j]].tid) by {
            if key == (b.tid, f.tid) {
                assert(cfg_pos_before(subs, ks, m, n - 1, m, n));
            } else {
                assert(s1.jt.contains_key(key));
                let (j, i) = choose |j: int, i: int| #[trigger] cfg_pos_before(subs, ks, j, i, m, n - 1) && key == (subs[ks[j]].term.blocks@[i].tid, subs[ks[j]].tid);
                assert(cfg_pos_before(subs, ks, j, i, m, n));
            }
        }
    } else {
        lemma_cfg_gstep_refl(st);
    }
}

pub proof fn lemma_cfg_g_prog_blocks<'a>(st: CfgSt<'a>, subs: Map<Tid, Term<Sub>>, ks: Seq<Tid>, m: int)
    requires
        cfg_ginv(st, subs), cfg_key_order(ks, subs), cfg_positions_unique(subs), 0 <= m <= ks.len(),
        cfg_keys_visited(st.jt, subs, ks, 0, 0),
        cfg_small(cfg_prog_blocks_n(st, subs, ks, m)),
    ensures
        cfg_ginv(cfg_prog_blocks_n(st, subs, ks, m), subs),
        cfg_gstep(st, cfg_prog_blocks_n(st, subs, ks, m)),
        cfg_keys_visited(cfg_prog_blocks_n(st, subs, ks, m).jt, subs, ks, m, 0),
    decreases m
{
    if m > 0 {
        let s1 = cfg_prog_blocks_n(st, subs, ks, m - 1);
        let f = &subs[ks[m - 1]];
        let len = f.term.blocks@.len() as int;
        let r = cfg_sub_blocks_n(s1, f, len);
        assert(r == cfg_prog_blocks_n(st, subs, ks, m));
        lemma_cfg_len_sub_blocks(s1, f, len, 0);
        lemma_cfg_g_prog_blocks(st, subs, ks, m - 1);
        lemma_cfg_g_sub_blocks(s1, subs, ks, m - 1, len);
        lemma_cfg_gstep_trans(st, s1, r);
        assert forall |key: (Tid, Tid)| #[trigger] r.jt.contains_key(key) implies
                exists |j: int, i: int| #[trigger] cfg_pos_before(subs, ks, j, i, m, 0) && key == (subs[ks[j]].term.blocks@[i].tid, subs[ks[j]].tid) by {
            let (j, i) = choose |j: int, i: int| #[trigger] cfg_pos_before(subs, ks, j, i, m - 1, len) && key == (subs[ks[j]].term.blocks@[i].tid, subs[ks[j]].tid);
            assert(cfg_pos_before(subs, ks, j, i, m, 0));
        }
    } else {
        lemma_cfg_gstep_refl(st);
    }
}

pub proof fn lemma_cfg_len_sub_blocks<'a>(st: CfgSt<'a>, f: &'a Term<Sub>, n: int, m: int)
    requires 0 <= m <= n,
    ensures cfg_sub_blocks_n(st, f, m).nodes.len() <= cfg_sub_blocks_n(st, f, n).nodes.len(),
    decreases n - m
{
    if m < n { lemma_cfg_len_sub_blocks(st, f, n, m + 1); }
}

// ---- return linkage ------------------------------------------------------------------------------------------------------------------

pub proof fn lemma_cfg_g_call_return_1<'a>(st: CfgSt<'a>, subs: Map<Tid, Term<Sub>>, f_ret: &'a Term<Sub>, rs: NodeIndex, cn: NodeIndex, rn: NodeIndex)
    requires
        cfg_ginv(st, subs), cfg_is_return_end(st, rs), cfg_ret_ok(st.nodes, (cn, rn)),
        cfg_small(cfg_call_return_1(st, f_ret, rs, cn, rn)),
    ensures
        cfg_ginv(cfg_call_return_1(st, f_ret, rs, cn, rn), subs),
        cfg_gstep(st, cfg_call_return_1(st, f_ret, rs, cn, rn)),
        cfg_call_return_1(st, f_ret, rs, cn, rn).ra == st.ra,
{
    lemma_cfg_inv_call_return_step(st, subs, f_ret, rs, cn, rn);
    let call = st.nodes[cn.i as int]->CallSource_source;
    let cr = cfg_ni(st.nodes.len() as int);
    let w = Node::CallReturn { call: call, return_: (cfg_blk(st.nodes[rs.i as int]), f_ret) };
    lemma_cfg_g_node(st, w);
    let s1 = cfg_node(st, w);
    lemma_cfg_g_edge(s1, cn, cr, Edge::CrCallStub);
    let s2 = cfg_edge(s1, cn, cr, Edge::CrCallStub);
    lemma_cfg_g_edge(s2, rs, cr, Edge::CrReturnStub);
    let s3 = cfg_edge(s2, rs, cr, Edge::CrReturnStub);
    lemma_cfg_g_edge(s3, cr, rn, Edge::ReturnCombine(cfg_call_term(call.0)));
    let s4 = cfg_edge(s3, cr, rn, Edge::ReturnCombine(cfg_call_term(call.0)));
    lemma_cfg_gstep_trans(st, s1, s2);
    lemma_cfg_gstep_trans(st, s2, s3);
    lemma_cfg_gstep_trans(st, s3, s4);
}

pub proof fn lemma_cfg_g_call_return_n<'a>(st: CfgSt<'a>, subs: Map<Tid, Term<Sub>>, f_ret: &'a Term<Sub>, rs: NodeIndex, list: Seq<(NodeIndex, NodeIndex)>, n: int)
    requires
        cfg_ginv(st, subs), cfg_is_return_end(st, rs), 0 <= n <= list.len(),
        forall |i: int| 0 <= i < list.len() ==> cfg_ret_ok(st.nodes, #[trigger] list[i]),
        cfg_small(cfg_call_return_n(st, f_ret, rs, list, n)),
    ensures
        cfg_ginv(cfg_call_return_n(st, f_ret, rs, list, n), subs),
        cfg_gstep(st, cfg_call_return_n(st, f_ret, rs, list, n)),
        cfg_call_return_n(st, f_ret, rs, list, n).ra == st.ra,
    decreases n
{
    if n > 0 {
        lemma_cfg_len_call_return_n(st, f_ret, rs, list, n, n - 1);
        lemma_cfg_g_call_return_n(st, subs, f_ret, rs, list, n - 1);
        let s1 = cfg_call_return_n(st, f_ret, rs, list, n - 1);
        lemma_cfg_g_call_return_1(s1, subs, f_ret, rs, list[n - 1].0, list[n - 1].1);
        lemma_cfg_gstep_trans(st, s1, cfg_call_return_n(st, f_ret, rs, list, n));
    } else {
        lemma_cfg_gstep_refl(st);
    }
}

pub proof fn lemma_cfg_g_call_return<'a>(st: CfgSt<'a>, subs: Map<Tid, Term<Sub>>, f_ret: &'a Term<Sub>, rs: NodeIndex)
    requires cfg_ginv(st, subs), cfg_is_return_end(st, rs), cfg_small(cfg_call_return(st, f_ret, rs)),
    ensures
        cfg_ginv(cfg_call_return(st, f_ret, rs), subs),
        cfg_gstep(st, cfg_call_return(st, f_ret, rs)),
        cfg_call_return(st, f_ret, rs).ra == st.ra,
{
    if st.ra.contains_key(f_ret.tid) {
        let list = st.ra[f_ret.tid];
        assert forall |i: int| 0 <= i < list.len() implies cfg_ret_ok(st.nodes, #[trigger] list[i]) by {
            assert(cfg_ret_ok(st.nodes, st.ra[f_ret.tid][i]));
        }
        lemma_cfg_g_call_return_n(st, subs, f_ret, rs, list, list.len() as int);
    } else {
        lemma_cfg_gstep_refl(st);
    }
}

pub proof fn lemma_cfg_g_returns_n<'a>(st: CfgSt<'a>, subs: Map<Tid, Term<Sub>>, list: Seq<NodeIndex>, n: int)
    requires
        cfg_ginv(st, subs), 0 <= n <= list.len(),
        forall |i: int| 0 <= i < list.len() ==> cfg_is_return_end(st, #[trigger] list[i]),
        cfg_small(cfg_returns_n(st, list, n)),
    ensures
        cfg_ginv(cfg_returns_n(st, list, n), subs),
        cfg_gstep(st, cfg_returns_n(st, list, n)),
        cfg_returns_n(st, list, n).ra == st.ra,
    decreases n
{
    if n > 0 {
        lemma_cfg_len_returns_n(st, list, n, n - 1);
        lemma_cfg_g_returns_n(st, subs, list, n - 1);
        let s1 = cfg_returns_n(st, list, n - 1);
        lemma_cfg_g_call_return(s1, subs, cfg_sub(st.nodes[list[n - 1].i as int]), list[n - 1]);
        lemma_cfg_gstep_trans(st, s1, cfg_returns_n(st, list, n));
    } else {
        lemma_cfg_gstep_refl(st);
    }
}

/// the elements of cfg_return_nodes are existing BlkEnd nodes whose block contains a return instruction
pub proof fn lemma_cfg_return_nodes_bound<'a>(nodes: Seq<Node<'a>>, n: int)
    requires 0 <= n <= nodes.len(), nodes.len() <= usize::MAX,
    ensures forall |i: int| 0 <= i < cfg_return_nodes(nodes, n).len() ==> (#[trigger] cfg_return_nodes(nodes, n)[i]).i < n
        && nodes[cfg_return_nodes(nodes, n)[i].i as int] is BlkEnd
        && cfg_has_return_jmp(cfg_blk(nodes[cfg_return_nodes(nodes, n)[i].i as int]).term.jmps@),
    decreases n
{
    if n > 0 {
        lemma_cfg_return_nodes_bound(nodes, n - 1);
        let r0 = cfg_return_nodes(nodes, n - 1);
        let r = cfg_return_nodes(nodes, n);
        assert forall |i: int| 0 <= i < r.len() implies (#[trigger] r[i]).i < n && nodes[r[i].i as int] is BlkEnd
                && cfg_has_return_jmp(cfg_blk(nodes[r[i].i as int]).term.jmps@) by {
            if i < r0.len() { assert(r[i] == r0[i]); } else { assert(r[i] == cfg_ni(n - 1)); }
        }
    }
}

pub proof fn lemma_cfg_g_return_edges<'a>(st: CfgSt<'a>, subs: Map<Tid, Term<Sub>>)
    requires cfg_ginv(st, subs), cfg_small(cfg_return_edges(st)),
    ensures
        cfg_ginv(cfg_return_edges(st), subs),
        cfg_gstep(st, cfg_return_edges(st)),
        cfg_return_edges(st).ra == st.ra,
{
    let list = cfg_return_nodes(st.nodes, st.nodes.len() as int);
    lemma_cfg_len_returns_n(st, list, list.len() as int, 0);
    lemma_cfg_return_nodes_bound(st.nodes, st.nodes.len() as int);
    lemma_cfg_g_returns_n(st, subs, list, list.len() as int);
}

// ---- the global statement ------------------------------------------------------------------------------------------------------------

/// every intermediate state of the rounds only grows into the last one
pub proof fn lemma_cfg_g_wl_mono<'a>(s2: CfgSt<'a>, subs: Map<Tid, Term<Sub>>, ext: Set<Tid>, n: int, j: int)
    requires
        cfg_ginv(s2, subs), cfg_blocks_wf(subs), cfg_wl_runs(s2, subs, ext, n), cfg_accounted(s2, Seq::empty()),
        cfg_small(cfg_wl_steps(s2, subs, ext, n)), 0 <= j <= n,
    ensures cfg_gstep0(cfg_wl_steps(s2, subs, ext, j), cfg_wl_steps(s2, subs, ext, n)),
    decreases n - j
{
    if j < n {
        lemma_cfg_g_wl_mono(s2, subs, ext, n, j + 1);
        lemma_cfg_len_wl_steps(s2, subs, ext, n, j);
        lemma_cfg_len_wl_steps(s2, subs, ext, n, j + 1);
        assert(cfg_wl_runs(s2, subs, ext, j));
        lemma_cfg_g_wl_steps(s2, subs, ext, j);
        let s = cfg_wl_steps(s2, subs, ext, j);
        assert(s.wl.len() > 0);
        let node = s.wl.last();
        let s1 = CfgSt { wl: s.wl.drop_last(), ..s };
        lemma_cfg_inv_pop(s, subs);
        assert(cfg_pairs_inv(s1));
        let blk = cfg_blk(s1.nodes[node.i as int]);
        let r = cfg_outgoing(s1, subs, ext, node, blk);
        assert(r == cfg_wl_steps(s2, subs, ext, j + 1));
        lemma_cfg_g_outgoing(s1, subs, ext, node, blk);
        assert(cfg_gstep0(s, r));
        lemma_cfg_gstep0_trans(s, r, cfg_wl_steps(s2, subs, ext, n));
    } else {
        lemma_cfg_gstep_refl(cfg_wl_steps(s2, subs, ext, n));
    }
}

/// part 1: the state after add_program_blocks and add_subs_to_call_targets
#[verifier::rlimit(40)]
pub proof fn lemma_cfg_global_s2<'a>(subs: Map<Tid, Term<Sub>>, ks: Seq<Tid>, s2: CfgSt<'a>)
    requires
        cfg_key_order(ks, subs),
        cfg_call_targets_post(cfg_prog_blocks_n(cfg_empty(), subs, ks, ks.len() as int), s2, subs),
        cfg_prog_wf(subs), cfg_positions_unique(subs), cfg_small(s2),
    ensures
        cfg_ginv(s2, subs),
        cfg_accounted(s2, Seq::empty()),
        forall |k: Tid, i: int| #[trigger] cfg_block_at(subs, k, i, subs[k].term.blocks@[i]) ==> s2.jt.contains_key((subs[k].term.blocks@[i].tid, subs[k].tid)),
        forall |t: Tid| #[trigger] s2.ct.contains_key(t) <==> cfg_callable(subs, t),
        forall |k: Tid| #[trigger] subs.contains_key(k) && subs[k].term.blocks@.len() > 0 ==>
            s2.jt.contains_key((subs[k].term.blocks@[0].tid, subs[k].tid)) && s2.ct[subs[k].tid] == s2.jt[(subs[k].term.blocks@[0].tid, subs[k].tid)],
{
    let s0 = cfg_empty::<'a>();
    let s1 = cfg_prog_blocks_n(s0, subs, ks, ks.len() as int);
    assert(s2.nodes == s1.nodes);
    lemma_cfg_inv_empty(s0, subs);
    assert(cfg_pairs_inv(s0));
    lemma_cfg_g_prog_blocks(s0, subs, ks, ks.len() as int);
    assert(cfg_accounted(s0, Seq::empty()));
    lemma_cfg_accounted_gstep(s0, s1, Seq::empty());
    lemma_cfg_prog_blocks_keys(s0, subs, ks, ks.len() as int);
    assert(cfg_prog_blocks_post(s0, s1, subs));
    lemma_cfg_firsts_registered(s0, s1, subs);
    lemma_cfg_inv_call_targets(s1, s2, subs);
    assert(cfg_pairs_inv(s2));
    assert(cfg_accounted(s2, Seq::empty()));
    assert(s1.ct =~= s0.ct);
    assert forall |k: Tid, i: int| #[trigger] cfg_block_at(subs, k, i, subs[k].term.blocks@[i]) implies s2.jt.contains_key((subs[k].term.blocks@[i].tid, subs[k].tid)) by {
        let j = choose |j: int| 0 <= j < ks.len() && #[trigger] ks[j] == k;
        assert(s1.jt.contains_key((subs[ks[j]].term.blocks@[i].tid, subs[ks[j]].tid)));
    }
    assert forall |k: Tid| #[trigger] subs.contains_key(k) && subs[k].term.blocks@.len() > 0 implies
            s2.jt.contains_key((subs[k].term.blocks@[0].tid, subs[k].tid)) && s2.ct[subs[k].tid] == s2.jt[(subs[k].term.blocks@[0].tid, subs[k].tid)] by {
        assert(cfg_registered(s1, subs[k].term.blocks@[0], subs[k]));
    }
}

/// part 2: the rounds and the return linkage
pub proof fn lemma_cfg_global_s3<'a>(st: CfgSt<'a>, subs: Map<Tid, Term<Sub>>, ext: Set<Tid>, s2: CfgSt<'a>, n: int)
    requires
        cfg_ginv(s2, subs), cfg_accounted(s2, Seq::empty()), cfg_blocks_wf(subs),
        cfg_wl_runs(s2, subs, ext, n), cfg_wl_steps(s2, subs, ext, n).wl.len() == 0,
        st == cfg_return_edges(cfg_wl_steps(s2, subs, ext, n)), cfg_small(st),
    ensures
        cfg_ginv(st, subs),
        cfg_accounted(cfg_wl_steps(s2, subs, ext, n), cfg_done_n(s2, subs, ext, n)),
        cfg_gstep(cfg_wl_steps(s2, subs, ext, n), st),
        st.ra == cfg_wl_steps(s2, subs, ext, n).ra, st.jt == cfg_wl_steps(s2, subs, ext, n).jt, st.wl.len() == 0,
        forall |j: int| 0 <= j <= n ==> cfg_gstep0(#[trigger] cfg_wl_steps(s2, subs, ext, j), st),
{
    let s3 = cfg_wl_steps(s2, subs, ext, n);
    let list = cfg_return_nodes(s3.nodes, s3.nodes.len() as int);
    lemma_cfg_len_returns_n(s3, list, list.len() as int, 0);
    assert(s3.nodes.len() <= st.nodes.len());
    lemma_cfg_g_wl_steps(s2, subs, ext, n);
    lemma_cfg_g_return_edges(s3, subs);
    lemma_cfg_return_edges_frame(s3);
    assert forall |j: int| 0 <= j <= n implies cfg_gstep0(#[trigger] cfg_wl_steps(s2, subs, ext, j), st) by {
        lemma_cfg_g_wl_mono(s2, subs, ext, n, j);
        lemma_cfg_gstep0_trans(cfg_wl_steps(s2, subs, ext, j), s3, st);
    }
}

/// part 3: every BlkEnd node of the final state was processed
pub proof fn lemma_cfg_global_done<'a>(st: CfgSt<'a>, s3: CfgSt<'a>, done: Seq<NodeIndex>)
    requires cfg_accounted(s3, done), cfg_gstep(s3, st), s3.wl.len() == 0, st.wl.len() == 0,
    ensures
        forall |x: int| 0 <= x < st.nodes.len() && (#[trigger] st.nodes[x]) is BlkEnd ==> exists |j: int| 0 <= j < done.len() && (#[trigger] done[j]).i == x,
        forall |j: int| 0 <= j < done.len() ==> (#[trigger] done[j]).i < st.nodes.len() && st.nodes[done[j].i as int] is BlkEnd,
        forall |j1: int, j2: int| 0 <= j1 < j2 < done.len() ==> #[trigger] done[j1] != #[trigger] done[j2],
{
    assert forall |x: int| 0 <= x < st.nodes.len() && (#[trigger] st.nodes[x]) is BlkEnd implies exists |j: int| 0 <= j < done.len() && (#[trigger] done[j]).i == x by {
        if x >= s3.nodes.len() {
            // a new BlkEnd node would be on the worklist, which is empty
            let i = choose |i: int| s3.wl.len() <= i < st.wl.len() && (#[trigger] st.wl[i]).i == x;
            assert(false);
        }
        assert(st.nodes[x] == s3.nodes[x]);
    }
    assert forall |j: int| 0 <= j < done.len() implies (#[trigger] done[j]).i < st.nodes.len() && st.nodes[done[j].i as int] is BlkEnd by {
        assert(st.nodes[done[j].i as int] == s3.nodes[done[j].i as int]);
    }
}

pub proof fn lemma_cfg_global_sizes<'a>(st: CfgSt<'a>, subs: Map<Tid, Term<Sub>>, ext: Set<Tid>, s2: CfgSt<'a>, n: int)
    requires st == cfg_return_edges(cfg_wl_steps(s2, subs, ext, n)), 0 <= n,
    ensures s2.nodes.len() <= cfg_wl_steps(s2, subs, ext, n).nodes.len() <= st.nodes.len(),
{
    let s3 = cfg_wl_steps(s2, subs, ext, n);
    let list = cfg_return_nodes(s3.nodes, s3.nodes.len() as int);
    lemma_cfg_len_returns_n(s3, list, list.len() as int, 0);
    lemma_cfg_len_wl_steps(s2, subs, ext, n, 0);
}

#[verifier::rlimit(40)]
pub proof fn lemma_cfg_global_steps<'a>(st: CfgSt<'a>, subs: Map<Tid, Term<Sub>>, ext: Set<Tid>, ks: Seq<Tid>, s2: CfgSt<'a>, n: int)
    requires
        cfg_build_steps(ks, s2, n, st, subs, ext),
        cfg_prog_wf(subs), cfg_positions_unique(subs), cfg_small(st),
    ensures
        cfg_global(st, subs, ext, ks, s2, n),
{
    hide(cfg_inv); hide(cfg_pairs_inv); hide(cfg_accounted); hide(cfg_wl_grows); hide(cfg_wl_step); hide(cfg_returns_n);
    hide(cfg_call_targets_post); hide(cfg_prog_blocks_n); hide(cfg_return_nodes); hide(cfg_positions_unique); hide(cfg_blocks_wf);
    let s3 = cfg_wl_steps(s2, subs, ext, n);
    let done = cfg_done_n(s2, subs, ext, n);
    // sizes: nothing ever shrinks
    lemma_cfg_global_sizes(st, subs, ext, s2, n);
    lemma_cfg_global_s2(subs, ks, s2);
    lemma_cfg_global_s3(st, subs, ext, s2, n);
    lemma_cfg_global_done(st, s3, done);
    assert(cfg_gstep0(cfg_wl_steps(s2, subs, ext, 0), st));
    assert(cfg_gstep0(s2, st));
    assert forall |k: Tid, i: int| #[trigger] cfg_block_at(subs, k, i, subs[k].term.blocks@[i]) implies cfg_registered(st, subs[k].term.blocks@[i], subs[k]) by {
        assert(s2.jt.contains_key((subs[k].term.blocks@[i].tid, subs[k].tid)));
        lemma_cfg_registered(st, subs, subs[k].term.blocks@[i], subs[k]);
    }
}

/// add_return_edges touches neither the worklist nor the registered pairs
pub proof fn lemma_cfg_return_edges_frame<'a>(st: CfgSt<'a>)
    ensures cfg_return_edges(st).wl == st.wl, cfg_return_edges(st).jt == st.jt, cfg_return_edges(st).ct == st.ct,
{
    let list = cfg_return_nodes(st.nodes, st.nodes.len() as int);
    lemma_cfg_returns_frame(st, list, list.len() as int);
}

pub proof fn lemma_cfg_returns_frame<'a>(st: CfgSt<'a>, list: Seq<NodeIndex>, n: int)
    ensures cfg_returns_n(st, list, n).wl == st.wl, cfg_returns_n(st, list, n).jt == st.jt, cfg_returns_n(st, list, n).ct == st.ct,
    decreases n
{
    if n > 0 {
        lemma_cfg_returns_frame(st, list, n - 1);
        let s = cfg_returns_n(st, list, n - 1);
        let f = cfg_sub(st.nodes[list[n - 1].i as int]);
        if s.ra.contains_key(f.tid) { lemma_cfg_call_return_frame(s, f, list[n - 1], s.ra[f.tid], s.ra[f.tid].len() as int); }
    }
}

pub proof fn lemma_cfg_call_return_frame<'a>(st: CfgSt<'a>, f_ret: &'a Term<Sub>, rs: NodeIndex, list: Seq<(NodeIndex, NodeIndex)>, n: int)
    ensures
        cfg_call_return_n(st, f_ret, rs, list, n).wl == st.wl, cfg_call_return_n(st, f_ret, rs, list, n).jt == st.jt,
        cfg_call_return_n(st, f_ret, rs, list, n).ct == st.ct,
    decreases n
{
    if n > 0 { lemma_cfg_call_return_frame(st, f_ret, rs, list, n - 1); }
}

/// STAGE 3, top level: whatever `build` returns satisfies the global statement
pub proof fn lemma_cfg_global<'a>(st: CfgSt<'a>, subs: Map<Tid, Term<Sub>>, ext: Set<Tid>)
    requires cfg_build_post(st, subs, ext), cfg_prog_wf(subs), cfg_positions_unique(subs), cfg_small(st),
    ensures cfg_global_post(st, subs, ext),
{
    let (ks, s2, n) = choose |ks: Seq<Tid>, s2: CfgSt<'a>, n: int| #[trigger] cfg_build_steps(ks, s2, n, st, subs, ext);
    lemma_cfg_global_steps(st, subs, ext, ks, s2, n);
}

// ---- the shape invariant on the returned graph -----------------------------------------------------------------------------------------

/// the graph of a state that satisfies the representation invariant has the shape
pub broadcast proof fn lemma_cfg_graph_shape<'a>(g: Graph<'a>, st: CfgSt<'a>, subs: Map<Tid, Term<Sub>>)
    requires cfg_graph_of(g, st), cfg_inv(st, subs),
    ensures #![trigger cfg_graph_of(g, st), cfg_inv(st, subs)] cfg_graph_shape(g),
{
    assert forall |e: int| 0 <= e < g.edge_seq().len() implies
            cfg_edge_shape(cfg_nodes(g), CfgEdge { src: (#[trigger] g.edge_seq()[e]).0, dst: g.edge_seq()[e].1, w: g.edge_weight(e) }) by {
        assert(cfg_edges(g)[e] == st.edges[e]);
        assert(cfg_edge_shape(st.nodes, st.edges[e]));
    }
    assert forall |n: int| 0 <= n < g.node_count_spec() implies cfg_node_shape(#[trigger] g.node_weight(n)) by {
        assert(cfg_nodes(g)[n] == st.nodes[n]);
    }
}

/// EXPORTED: every graph get_program_cfg / get_program_cfg_with_logs / build returns (cfg_built) has the shape
pub proof fn lemma_cfg_built_shape<'a>(g: Graph<'a>, subs: Map<Tid, Term<Sub>>, ext: Set<Tid>)
    requires cfg_built(g, subs, ext),
    ensures cfg_graph_shape(g),
{
    let st = choose |st: CfgSt<'a>| #[trigger] cfg_build_post(st, subs, ext) && cfg_graph_of(g, st) && cfg_inv(st, subs);
    lemma_cfg_graph_shape(g, st, subs);
}
