// ---------------------------------------------------------------------------
// lemmas/cfgbuild_global.rs -- STAGE 3 of unit `cfgbuild`: global invariants of the abstract construction (all proved, pure
// specification-level lemmas over CfgSt and the step functions of spec/cfgbuild.rs; nothing trusted, no exec code).
//   cfg_pairs_inv   one start node, one end node, one Block edge per registered pair; registered pairs <-> keys
//   cfg_gstep       the builder only grows; registered pairs / call targets never change
//   cfg_accounted   every BlkEnd node is on the worklist or processed, exactly once
// ---------------------------------------------------------------------------

pub proof fn lemma_cfg_gstep_refl<'a>(a: CfgSt<'a>)
    ensures cfg_gstep(a, a),
{
}

pub proof fn lemma_cfg_wl_grows_trans<'a>(a: CfgSt<'a>, b: CfgSt<'a>, c: CfgSt<'a>)
    requires
        cfg_wl_grows(a, b), cfg_wl_grows(b, c),
        a.nodes.len() <= b.nodes.len() <= c.nodes.len(),
        forall |i: int| 0 <= i < b.nodes.len() ==> #[trigger] c.nodes[i] == b.nodes[i],
    ensures cfg_wl_grows(a, c),
{
    assert forall |i: int| 0 <= i < a.wl.len() implies #[trigger] c.wl[i] == a.wl[i] by {
        assert(c.wl[i] == b.wl[i]);
    }
    assert forall |i: int| a.wl.len() <= i < c.wl.len() implies a.nodes.len() <= (#[trigger] c.wl[i]).i < c.nodes.len() && c.nodes[c.wl[i].i as int] is BlkEnd by {
        if i < b.wl.len() {
            assert(c.wl[i] == b.wl[i]);
            assert(c.nodes[b.wl[i].i as int] == b.nodes[b.wl[i].i as int]);
        }
    }
    assert forall |i: int, j: int| a.wl.len() <= i < j < c.wl.len() implies #[trigger] c.wl[i] != #[trigger] c.wl[j] by {
        if j < b.wl.len() {
            assert(c.wl[i] == b.wl[i] && c.wl[j] == b.wl[j]);
        } else if i < b.wl.len() {
            assert(c.wl[i] == b.wl[i]);
            assert(b.wl[i].i < b.nodes.len());
            assert(c.wl[j].i >= b.nodes.len());
        }
    }
    assert forall |n: int| a.nodes.len() <= n < c.nodes.len() && (#[trigger] c.nodes[n]) is BlkEnd implies
            exists |i: int| a.wl.len() <= i < c.wl.len() && (#[trigger] c.wl[i]).i == n by {
        if n < b.nodes.len() {
            assert(c.nodes[n] == b.nodes[n]);
            let i = choose |i: int| a.wl.len() <= i < b.wl.len() && (#[trigger] b.wl[i]).i == n;
            assert(c.wl[i] == b.wl[i]);
        } else {
            let i = choose |i: int| b.wl.len() <= i < c.wl.len() && (#[trigger] c.wl[i]).i == n;
            assert(a.wl.len() <= i);
        }
    }
}

pub proof fn lemma_cfg_gstep_trans<'a>(a: CfgSt<'a>, b: CfgSt<'a>, c: CfgSt<'a>)
    requires cfg_gstep(a, b), cfg_gstep(b, c),
    ensures cfg_gstep(a, c),
{
    lemma_cfg_wl_grows_trans(a, b, c);
    assert forall |i: int| 0 <= i < a.nodes.len() implies #[trigger] c.nodes[i] == a.nodes[i] by { assert(c.nodes[i] == b.nodes[i]); }
    assert forall |i: int| 0 <= i < a.edges.len() implies #[trigger] c.edges[i] == a.edges[i] by { assert(c.edges[i] == b.edges[i]); }
    assert forall |k: (Tid, Tid)| #[trigger] a.jt.contains_key(k) implies c.jt.contains_key(k) && c.jt[k] == a.jt[k] by { assert(b.jt.contains_key(k)); }
    assert forall |t: Tid| #[trigger] a.ra.contains_key(t) implies c.ra.contains_key(t) && a.ra[t].len() <= c.ra[t].len()
            && forall |i: int| 0 <= i < a.ra[t].len() ==> #[trigger] c.ra[t][i] == a.ra[t][i] by {
        assert(b.ra.contains_key(t));
        assert forall |i: int| 0 <= i < a.ra[t].len() implies #[trigger] c.ra[t][i] == a.ra[t][i] by { assert(c.ra[t][i] == b.ra[t][i]); }
    }
}

/// add_block for an UNREGISTERED key keeps the pairs invariant
pub proof fn lemma_cfg_g_add_block<'a>(st: CfgSt<'a>, b: &'a Term<Blk>, f: &'a Term<Sub>)
    requires cfg_pairs_inv(st), !st.jt.contains_key((b.tid, f.tid)), st.nodes.len() + 2 <= usize::MAX,
    ensures cfg_pairs_inv(cfg_add_block(st, b, f)), cfg_gstep(st, cfg_add_block(st, b, f)),
{
    let r = cfg_add_block(st, b, f);
    let n = st.nodes.len() as int;
    assert(r.nodes[n] == Node::BlkStart(b, f));
    assert(r.nodes[n + 1] == Node::BlkEnd(b, f));
    assert forall |m: int| 0 <= m < r.nodes.len() && (#[trigger] r.nodes[m]) is BlkStart implies
            m + 1 < r.nodes.len() && r.nodes[m + 1] == Node::BlkEnd(cfg_blk(r.nodes[m]), cfg_sub(r.nodes[m]))
            && r.jt.contains_key(cfg_key_of(r.nodes[m])) && r.jt[cfg_key_of(r.nodes[m])] == (cfg_ni(m), cfg_ni(m + 1)) by {
        if m < n {
            assert(r.nodes[m] == st.nodes[m]);
            assert(r.nodes[m + 1] == st.nodes[m + 1]);
            assert(st.jt.contains_key(cfg_key_of(st.nodes[m])));
        }
    }
    assert forall |m: int| 0 <= m < r.nodes.len() && (#[trigger] r.nodes[m]) is BlkEnd implies m >= 1 && r.nodes[m - 1] is BlkStart by {
        if m < n { assert(r.nodes[m] == st.nodes[m]); assert(r.nodes[m - 1] == st.nodes[m - 1]); }
    }
    let ne = st.edges.len() as int;
    assert(r.edges[ne] == CfgEdge { src: cfg_ni(n), dst: cfg_ni(n + 1), w: Edge::Block });
    assert forall |e: int| 0 <= e < r.edges.len() && (#[trigger] r.edges[e]).w is Block implies
            r.edges[e].src.i < r.nodes.len() && r.nodes[r.edges[e].src.i as int] is BlkStart && r.edges[e].dst.i == r.edges[e].src.i + 1 by {
        if e < ne { assert(r.edges[e] == st.edges[e]); assert(r.nodes[st.edges[e].src.i as int] == st.nodes[st.edges[e].src.i as int]); }
    }
    assert forall |e1: int, e2: int| 0 <= e1 < e2 < r.edges.len() && (#[trigger] r.edges[e1]).w is Block && (#[trigger] r.edges[e2]).w is Block implies
            r.edges[e1].src != r.edges[e2].src by {
        assert(r.edges[e1] == st.edges[e1]);
        if e2 < ne { assert(r.edges[e2] == st.edges[e2]); } else { assert(st.edges[e1].src.i < n); }
    }
    assert forall |m: int| 0 <= m < r.nodes.len() && (#[trigger] r.nodes[m]) is BlkStart implies
            exists |e: int| 0 <= e < r.edges.len() && #[trigger] r.edges[e] == (CfgEdge { src: cfg_ni(m), dst: cfg_ni(m + 1), w: Edge::Block }) by {
        if m < n {
            assert(r.nodes[m] == st.nodes[m]);
            let e = choose |e: int| 0 <= e < st.edges.len() && #[trigger] st.edges[e] == (CfgEdge { src: cfg_ni(m), dst: cfg_ni(m + 1), w: Edge::Block });
            assert(r.edges[e] == st.edges[e]);
        } else {
            assert(m == n);
            assert(r.edges[ne] == (CfgEdge { src: cfg_ni(m), dst: cfg_ni(m + 1), w: Edge::Block }));
        }
    }
    // gstep
    assert forall |i: int| 0 <= i < st.wl.len() implies #[trigger] r.wl[i] == st.wl[i] by {}
    assert(r.wl[st.wl.len() as int] == cfg_ni(n + 1));
    assert forall |m: int| st.nodes.len() <= m < r.nodes.len() && (#[trigger] r.nodes[m]) is BlkEnd implies
            exists |i: int| st.wl.len() <= i < r.wl.len() && (#[trigger] r.wl[i]).i == m by {
        assert(m == n + 1);
        assert(r.wl[st.wl.len() as int].i == m);
    }
}

/// an edge that is not a Block edge
pub proof fn lemma_cfg_g_edge<'a>(st: CfgSt<'a>, src: NodeIndex, dst: NodeIndex, w: Edge<'a>)
    requires cfg_pairs_inv(st), !(w is Block),
    ensures cfg_pairs_inv(cfg_edge(st, src, dst, w)), cfg_gstep(st, cfg_edge(st, src, dst, w)),
{
    let r = cfg_edge(st, src, dst, w);
    let ne = st.edges.len() as int;
    assert forall |e: int| 0 <= e < r.edges.len() && (#[trigger] r.edges[e]).w is Block implies
            r.edges[e].src.i < r.nodes.len() && r.nodes[r.edges[e].src.i as int] is BlkStart && r.edges[e].dst.i == r.edges[e].src.i + 1 by {
        assert(r.edges[e] == st.edges[e]);
    }
    assert forall |e1: int, e2: int| 0 <= e1 < e2 < r.edges.len() && (#[trigger] r.edges[e1]).w is Block && (#[trigger] r.edges[e2]).w is Block implies
            r.edges[e1].src != r.edges[e2].src by {
        assert(r.edges[e1] == st.edges[e1]); assert(r.edges[e2] == st.edges[e2]);
    }
    assert forall |m: int| 0 <= m < r.nodes.len() && (#[trigger] r.nodes[m]) is BlkStart implies
            exists |e: int| 0 <= e < r.edges.len() && #[trigger] r.edges[e] == (CfgEdge { src: cfg_ni(m), dst: cfg_ni(m + 1), w: Edge::Block }) by {
        let e = choose |e: int| 0 <= e < st.edges.len() && #[trigger] st.edges[e] == (CfgEdge { src: cfg_ni(m), dst: cfg_ni(m + 1), w: Edge::Block });
        assert(r.edges[e] == st.edges[e]);
    }
}

/// a node that is neither BlkStart nor BlkEnd
pub proof fn lemma_cfg_g_node<'a>(st: CfgSt<'a>, w: Node<'a>)
    requires cfg_pairs_inv(st), !(w is BlkStart), !(w is BlkEnd),
    ensures cfg_pairs_inv(cfg_node(st, w)), cfg_gstep(st, cfg_node(st, w)),
{
    let r = cfg_node(st, w);
    let n = st.nodes.len() as int;
    assert forall |m: int| 0 <= m < r.nodes.len() && (#[trigger] r.nodes[m]) is BlkStart implies
            m + 1 < r.nodes.len() && r.nodes[m + 1] == Node::BlkEnd(cfg_blk(r.nodes[m]), cfg_sub(r.nodes[m]))
            && r.jt.contains_key(cfg_key_of(r.nodes[m])) && r.jt[cfg_key_of(r.nodes[m])] == (cfg_ni(m), cfg_ni(m + 1)) by {
        assert(m < n);
        assert(r.nodes[m] == st.nodes[m]);
        assert(r.nodes[m + 1] == st.nodes[m + 1]);
    }
    assert forall |m: int| 0 <= m < r.nodes.len() && (#[trigger] r.nodes[m]) is BlkEnd implies m >= 1 && r.nodes[m - 1] is BlkStart by {
        assert(r.nodes[m] == st.nodes[m]); assert(r.nodes[m - 1] == st.nodes[m - 1]);
    }
    assert forall |e: int| 0 <= e < r.edges.len() && (#[trigger] r.edges[e]).w is Block implies
            r.edges[e].src.i < r.nodes.len() && r.nodes[r.edges[e].src.i as int] is BlkStart && r.edges[e].dst.i == r.edges[e].src.i + 1 by {
        assert(r.nodes[st.edges[e].src.i as int] == st.nodes[st.edges[e].src.i as int]);
    }
    assert forall |m: int| 0 <= m < r.nodes.len() && (#[trigger] r.nodes[m]) is BlkStart implies
            exists |e: int| 0 <= e < r.edges.len() && #[trigger] r.edges[e] == (CfgEdge { src: cfg_ni(m), dst: cfg_ni(m + 1), w: Edge::Block }) by {
        assert(r.nodes[m] == st.nodes[m]);
    }
}
