// ---------------------------------------------------------------------------
// lemmas/logcollect.rs -- proof-only lemmas of unit `logcollect` (property C25).  All proved.
// ---------------------------------------------------------------------------

/// lc_last_idx is what its name says.
pub proof fn lemma_lc_last_idx(s: Seq<LogThreadMsg>, k: int, a: String, cwe: bool)
    requires 0 <= k <= s.len()
    ensures
        -1 <= lc_last_idx(s, k, a, cwe) < k,
        lc_last_idx(s, k, a, cwe) >= 0 ==> lc_key(s[lc_last_idx(s, k, a, cwe)], cwe) == Some(a),
        forall |j: int| lc_last_idx(s, k, a, cwe) < j < k ==> lc_key(#[trigger] s[j], cwe) != Some(a),
    decreases k
{
    if k > 0 && lc_key(s[k - 1], cwe) != Some(a) {
        lemma_lc_last_idx(s, k - 1, a, cwe);
    }
}

/// The last message of h for its key is found by lc_last_idx, and conversely.
pub proof fn lemma_lc_is_last_iff(s: Seq<LogThreadMsg>, n: int, i: int, cwe: bool)
    requires 0 <= n <= s.len(), 0 <= i < n, lc_key(s[i], cwe) is Some
    ensures lc_is_last(s, n, i, cwe) <==> lc_last_idx(s, n, lc_key(s[i], cwe)->0, cwe) == i
{
    let a = lc_key(s[i], cwe)->0;
    lemma_lc_last_idx(s, n, a, cwe);
    let li = lc_last_idx(s, n, a, cwe);
    if li < i { assert(lc_key(s[i], cwe) != Some(a)); }
    if li > i && lc_is_last(s, n, i, cwe) { assert(lc_key(s[li], cwe) != lc_key(s[i], cwe)); }
}

/// Values of the map in key order = h deduplicated, last one wins (clauses a-first-part and b).
pub proof fn lemma_lc_dedup<V>(s: Seq<LogThreadMsg>, n: int, m: Map<String, V>, wrap: spec_fn(V) -> LogThreadMsg,
                               ks: Seq<String>, vs: Seq<V>, cwe: bool)
    requires
        0 <= n <= s.len(),
        lc_map_ok(m, wrap, s, n, cwe),
        lc_values_in_key_order(m, ks, vs),
    ensures
        lc_dedup_ok(s, n, vs.map_values(wrap), cwe),
        forall |j: int| 0 <= j < vs.len() ==> lc_key(#[trigger] wrap(vs[j]), cwe) == Some(ks[j]),
{
    let part = vs.map_values(wrap);
    assert forall |j: int| 0 <= j < vs.len() implies
        lc_key(#[trigger] wrap(vs[j]), cwe) == Some(ks[j])
        && lc_is_last(s, n, lc_last_idx(s, n, ks[j], cwe), cwe)
        && s[lc_last_idx(s, n, ks[j], cwe)] == wrap(vs[j])
    by {
        let a = ks[j];
        assert(m.contains_key(a));
        lemma_lc_last_idx(s, n, a, cwe);
        let i = lc_last_idx(s, n, a, cwe);
        assert(s[i] == wrap(m[a]));
        lemma_lc_is_last_iff(s, n, i, cwe);
    }
    assert forall |j: int| 0 <= j < part.len() implies lc_some_last(s, n, #[trigger] part[j], cwe) by {
        let i = lc_last_idx(s, n, ks[j], cwe);
        assert(part[j] == wrap(vs[j]));
        assert(lc_is_last(s, n, i, cwe) && s[i] == part[j]);
    }
    assert forall |i: int| #[trigger] lc_is_last(s, n, i, cwe) implies exists |j: int| 0 <= j < part.len() && #[trigger] part[j] == s[i] by {
        let a = lc_key(s[i], cwe)->0;
        lemma_lc_is_last_iff(s, n, i, cwe);
        assert(m.contains_key(a));
        let j = choose |j: int| 0 <= j < ks.len() && #[trigger] ks[j] == a;
        assert(part[j] == wrap(vs[j]));
        assert(part[j] == s[i]);
    }
    assert forall |j1: int, j2: int| 0 <= j1 < j2 < part.len() implies lc_key(#[trigger] part[j1], cwe) != lc_key(#[trigger] part[j2], cwe) by {
        assert(part[j1] == wrap(vs[j1]));
        assert(part[j2] == wrap(vs[j2]));
        assert(ks[j1] != ks[j2]);
    }
    let addrs = part.map_values(lc_addr_of(cwe));
    assert(addrs =~= ks) by {
        assert forall |j: int| 0 <= j < ks.len() implies addrs[j] == ks[j] by {
            assert(part[j] == wrap(vs[j]));
        }
    }
}

/// Every address-less log of s[0..k) occurs in lc_general(s, k).
pub proof fn lemma_lc_general_has(s: Seq<LogThreadMsg>, k: int, i: int)
    requires 0 <= i < k <= s.len(), lc_is_general(s[i])
    ensures lc_general(s, k).contains(s[i]->Log_0)
    decreases k
{
    if i == k - 1 {
        let g = lc_general(s, k - 1);
        assert(g.push(s[i]->Log_0)[g.len() as int] == s[i]->Log_0);
    } else {
        lemma_lc_general_has(s, k - 1, i);
        let g = lc_general(s, k - 1);
        let j = choose |j: int| 0 <= j < g.len() && g[j] == s[i]->Log_0;
        if lc_is_general(s[k - 1]) {
            assert(g.push(s[k - 1]->Log_0)[j] == s[i]->Log_0);
        }
    }
}

/// From the state at loop exit and the (documented) behaviour of the two final iterator chains to the postcondition.
pub proof fn lemma_lc_finish(s: Seq<LogThreadMsg>, lm: Map<String, LogMessage>, gl: Seq<LogMessage>, cm: Map<String, CweWarning>,
                             logs: Seq<LogMessage>, cwes: Seq<CweWarning>)
    requires
        lc_state_ok(s, lc_hlen(s), lm, gl, cm),
        // contract of verif_values_cloned_chain_collect
        logs.len() == lc_key_order(lm).len() + gl.len(),
        lc_values_in_key_order(lm, lc_key_order(lm), logs.take(lc_key_order(lm).len() as int)),
        logs.skip(lc_key_order(lm).len() as int) == gl,
        // contract of verif_into_values_collect
        lc_values_in_key_order(cm, lc_key_order(cm), cwes),
    ensures
        lc_post(s, logs, cwes),
{
    let n = lc_hlen(s);
    let d = lc_key_order(lm).len() as int;
    let head = logs.take(d);
    lemma_lc_dedup(s, n, lm, lc_wrap_log(), lc_key_order(lm), head, false);
    lemma_lc_dedup(s, n, cm, lc_wrap_cwe(), lc_key_order(cm), cwes, true);
    assert(logs.len() - lc_general(s, n).len() == d);
    let lpart = head.map_values(lc_wrap_log());
    let cpart = cwes.map_values(lc_wrap_cwe());
    assert forall |i: int| 0 <= i < n implies match #[trigger] s[i] {
        LogThreadMsg::Log(l) => (l.location is None || lc_is_last(s, n, i, false)) ==> logs.contains(l),
        LogThreadMsg::Cwe(w) => w.addresses@.len() > 0 && (lc_is_last(s, n, i, true) ==> cwes.contains(w)),
        LogThreadMsg::Terminate => false,
    } by {
        match s[i] {
            LogThreadMsg::Log(l) => {
                if l.location is None {
                    lemma_lc_general_has(s, n, i);
                    let j = choose |j: int| 0 <= j < gl.len() && gl[j] == l;
                    assert(logs.skip(d)[j] == logs[d + j]);
                    assert(logs[d + j] == l);
                } else if lc_is_last(s, n, i, false) {
                    let j = choose |j: int| 0 <= j < lpart.len() && #[trigger] lpart[j] == s[i];
                    assert(lpart[j] == LogThreadMsg::Log(head[j]));
                    assert(logs[j] == l);
                }
            }
            LogThreadMsg::Cwe(w) => {
                if lc_is_last(s, n, i, true) {
                    let j = choose |j: int| 0 <= j < cpart.len() && #[trigger] cpart[j] == s[i];
                    assert(cpart[j] == LogThreadMsg::Cwe(cwes[j]));
                    assert(cwes[j] == w);
                }
            }
            LogThreadMsg::Terminate => {}
        }
    }
}
