// ---------------------------------------------------------------------------
// lemmas/bwd_fixpoint.rs -- proof-only lemmas of unit `bwd_fixpoint` (all PROVED): the shape invariant of the backward
// analysis (CallSource nodes carry a CallFlowCombinator, every other node a plain Value) implies the precondition of the
// backward edge transfer and is kept by the transfers and by merge.
// ---------------------------------------------------------------------------

pub proof fn lemma_bf_pre_from_shape<'a, V: PartialEq + Eq + Clone>(g: Graph<'a>, nv: NodeValue<V>, e: int)
    requires
        0 <= e < g.edge_seq().len(),
        bf_edge_kinds_ok(g, e),
        bf_shape(g.node_weight(g.edge_seq()[e].0.i as int), nv),
    ensures
        bf_edge_pre(g, nv, e),
{
}

pub proof fn lemma_bf_shape_kept_edge<'a, T: Context<'a>>(c: T, nv: NodeValue<T::Value>, e: int)
    requires
        0 <= e < c.graph_spec().edge_seq().len(),
        bf_edge_kinds_ok(c.graph_spec(), e),
        bf_shape(c.graph_spec().node_weight(c.graph_spec().edge_seq()[e].0.i as int), nv),
        bf_update_edge(c, nv, e) is Some,
    ensures
        bf_shape(c.graph_spec().node_weight(c.graph_spec().edge_seq()[e].1.i as int), bf_update_edge(c, nv, e)->Some_0),
{
}

pub proof fn lemma_bf_shape_kept_merge<'a, T: Context<'a>>(c: T, n: Node<'a>, a: NodeValue<T::Value>, b: NodeValue<T::Value>)
    requires
        bf_shape(n, a),
        bf_shape(n, b),
    ensures
        (a is Value) == (b is Value),
        bf_shape(n, bf_merge(c, a, b)),
{
}
