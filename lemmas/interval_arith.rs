// ---------------------------------------------------------------------------
// lemmas/interval_arith.rs -- proved facts for the unit interval_arith
// (Interval::{sub, int_2_comp, bitwise_not, adjust_*, new, signed_merge, signed_mul}).
// No assumptions.
// ---------------------------------------------------------------------------

/// Interval::sub, the non-overflowing case (mirror image of lemma_interval_add)
pub proof fn lemma_ia_interval_sub(a: Interval, b: Interval)
    requires a.inv(), b.inv(), a.w() == b.w(),
    ensures ({
        let r = Interval { start: bv_sub(a.start, b.end), end: bv_sub(a.end, b.start), stride: spec_gcd(a.stride as nat, b.stride as nat) as u64 };
        (r.start.s() == a.start.s() - b.end.s() && r.end.s() == a.end.s() - b.start.s()) ==>
            r.inv() && forall|x: Bitvector, y: Bitvector| a.gamma(x) && b.gamma(y) ==> #[trigger] r.gamma(bv_sub(x, y))
    }),
{
    let w = a.w();
    let r = Interval { start: bv_sub(a.start, b.end), end: bv_sub(a.end, b.start), stride: spec_gcd(a.stride as nat, b.stride as nat) as u64 };
    lemma_add_exact(a.start, b.end); lemma_add_exact(a.end, b.start);
    if r.start.s() == a.start.s() - b.end.s() && r.end.s() == a.end.s() - b.start.s() {
        // (a.end - b.start) - (a.start - b.end) == (a.end - a.start) + (b.end - b.start)
        lemma_gcd_on_stride(a.stride, b.stride, a.end.s() - a.start.s(), b.end.s() - b.start.s());
        lemma_sval(w, r.start.u@); lemma_sval(w, r.end.u@);
        assert(r.inv());
        assert forall|x: Bitvector, y: Bitvector| a.gamma(x) && b.gamma(y) implies #[trigger] r.gamma(bv_sub(x, y)) by {
            lemma_add_exact(x, y);
            // (x - y) - (a.start - b.end) == (x - a.start) + (b.end - y)
            lemma_gcd_on_stride(b.stride, b.stride, b.end.s() - b.start.s(), y.s() - b.start.s());
            lemma_ia_gcd_self(b.stride as nat);
            lemma_gcd_on_stride(a.stride, b.stride, x.s() - a.start.s(), b.end.s() - y.s());
        }
    }
}

pub proof fn lemma_ia_gcd_self(a: nat)
    ensures spec_gcd(a, a) == a,
{
    if a != 0 {
        assert(a % a == 0) by { vstd::arithmetic::div_mod::lemma_mod_self_0(a as int); }
        assert(spec_gcd(a, a) == spec_gcd(a, 0)) by { reveal_with_fuel(spec_gcd, 2); }
    }
}

// ---------------- adjust_end / adjust_start ---------------------------------

/// rounding D down to a multiple of s: D - D % s is the largest multiple of s in [0, D]
pub proof fn lemma_ia_round_down(d: int, s: int)
    requires d >= 0, s >= 1
    ensures 0 <= d % s < s, d % s <= d, (d - d % s) % s == 0, (d - d % s == 0) == (d < s),
{
    lemma_div_pos(d, s);
    let q = d / s;
    lemma_divides_mul(s, q);
    assert(s * q == d - d % s);
    if d < s { vstd::arithmetic::div_mod::lemma_small_mod(d as nat, s as nat); }
    else if q == 0 { assert(s * q == 0) by (nonlinear_arith) requires q == 0; }
}
pub proof fn lemma_ia_round_down_max(d: int, s: int, k: int)
    requires d >= 0, s >= 1, 0 <= k <= d, k % s == 0
    ensures k <= d - d % s,
{
    lemma_div_pos(d, s);
    lemma_divides_witness(s, k);
    let (q, j) = (d / s, k / s);
    assert(j <= q) by (nonlinear_arith) requires s * j <= s * q + d % s, d % s < s, s >= 1;
    assert(s * j <= s * q) by (nonlinear_arith) requires j <= q, s >= 1;
}

/// equality of equally wide well-formed bitvectors is equality of their signed readings
pub proof fn lemma_ia_eq_iff_s(a: Bitvector, b: Bitvector)
    requires a.wf(), b.wf(), a.w@ == b.w@
    ensures (a == b) == (a.s() == b.s()), (a.u@ == b.u@) == (a.s() == b.s()),
{
    lemma_sval(a.w@, a.u@); lemma_sval(b.w@, b.u@);
}

/// what adjust_end_to_value_in_stride computes on its general path (width <= 64)
pub proof fn lemma_ia_adjust_end(start: Bitvector, end: Bitvector, stride: u64)
    requires start.wf(), end.wf(), start.w@ == end.w@, start.w@ <= 64, start.s() <= end.s(), stride >= 1,
    ensures ({
        let w = start.w@;
        let dd = end.s() - start.s();
        let d = dd % (stride as int);
        let dbv = bv(w, (d as nat) % p2(w));
        let ne = bv_sub(end, dbv);
        &&& 0 <= d <= dd && d < stride && dd < p2(w) && p2(w) <= p2(64) && p2(64) == 0x1_0000_0000_0000_0000
        &&& dbv.wf() && dbv.u@ == d && ne.wf() && ne.s() == end.s() - d
        &&& on_stride(stride, ne.s() - start.s())
        &&& (start == ne) == (dd < stride) && (start.s() == ne.s()) == (dd < stride)
        &&& (start == end) == (dd == 0)
        &&& forall|v: Bitvector| v.wf() && v.w@ == w && start.s() <= v.s() <= end.s() && #[trigger] on_stride(stride, v.s() - start.s()) ==> v.s() <= ne.s()
    }),
{
    let w = start.w@;
    let dd = end.s() - start.s();
    let d = dd % (stride as int);
    let dbv = bv(w, (d as nat) % p2(w));
    let ne = bv_sub(end, dbv);
    lemma_p2_consts(); lemma_p2_mono(w, 64);
    lemma_sval(w, start.u@); lemma_sval(w, end.u@);
    lemma_ia_round_down(dd, stride as int);
    vstd::arithmetic::div_mod::lemma_small_mod(d as nat, p2(w));
    lemma_sval(w, dbv.u@);
    lemma_add_exact(end, dbv);
    // d < 2^w read as signed may be negative (d >= 2^(w-1)); the difference is exact either way
    lemma_binop_facts(end, dbv);
    lemma_ia_eq_iff_s(start, ne); lemma_ia_eq_iff_s(start, end);
    assert forall|v: Bitvector| v.wf() && v.w@ == w && start.s() <= v.s() <= end.s() && #[trigger] on_stride(stride, v.s() - start.s()) implies v.s() <= ne.s() by {
        lemma_ia_round_down_max(dd, stride as int, v.s() - start.s());
    }
}

/// what adjust_start_to_value_in_stride computes on its general path (width <= 64)
pub proof fn lemma_ia_adjust_start(start: Bitvector, end: Bitvector, stride: u64)
    requires start.wf(), end.wf(), start.w@ == end.w@, start.w@ <= 64, start.s() <= end.s(), stride >= 1,
    ensures ({
        let w = start.w@;
        let dd = end.s() - start.s();
        let d = dd % (stride as int);
        let dbv = bv(w, (d as nat) % p2(w));
        let ns = bv_add(start, dbv);
        &&& 0 <= d <= dd && d < stride && dd < p2(w) && p2(w) <= p2(64) && p2(64) == 0x1_0000_0000_0000_0000
        &&& dbv.wf() && dbv.u@ == d && ns.wf() && ns.s() == start.s() + d
        &&& on_stride(stride, end.s() - ns.s()) && on_stride(stride, 0)
        &&& (ns == end) == (dd < stride) && (ns.s() == end.s()) == (dd < stride)
        &&& (start == end) == (dd == 0)
        &&& forall|v: Bitvector| v.wf() && v.w@ == w && start.s() <= v.s() <= end.s() && #[trigger] on_stride(stride, end.s() - v.s()) ==> v.s() >= ns.s()
        &&& forall|v: Bitvector| #![trigger on_stride(stride, end.s() - v.s())] #![trigger on_stride(stride, v.s() - ns.s())]
                v.wf() && v.w@ == w ==> (on_stride(stride, end.s() - v.s()) <==> on_stride(stride, v.s() - ns.s()))
    }),
{
    let w = start.w@;
    let dd = end.s() - start.s();
    let d = dd % (stride as int);
    let dbv = bv(w, (d as nat) % p2(w));
    let ns = bv_add(start, dbv);
    lemma_p2_consts(); lemma_p2_mono(w, 64);
    lemma_sval(w, start.u@); lemma_sval(w, end.u@);
    lemma_ia_round_down(dd, stride as int);
    vstd::arithmetic::div_mod::lemma_small_mod(d as nat, p2(w));
    lemma_sval(w, dbv.u@);
    lemma_binop_facts(start, dbv);
    lemma_ia_eq_iff_s(ns, end); lemma_ia_eq_iff_s(start, end);
    lemma_divides_mul(stride as int, 0);
    assert forall|v: Bitvector| v.wf() && v.w@ == w && start.s() <= v.s() <= end.s() && #[trigger] on_stride(stride, end.s() - v.s()) implies v.s() >= ns.s() by {
        lemma_ia_round_down_max(dd, stride as int, end.s() - v.s());
    }
    assert forall|v: Bitvector| #![trigger on_stride(stride, end.s() - v.s())] #![trigger on_stride(stride, v.s() - ns.s())]
        v.wf() && v.w@ == w implies (on_stride(stride, end.s() - v.s()) <==> on_stride(stride, v.s() - ns.s())) by {
        // (end - ns) == (end - v) + (v - ns), and stride | end - ns
        if on_stride(stride, end.s() - v.s()) { lemma_divides_add(stride as int, end.s() - ns.s(), end.s() - v.s()); }
        if on_stride(stride, v.s() - ns.s()) { lemma_divides_add(stride as int, end.s() - ns.s(), v.s() - ns.s()); }
    }
}

// ---------------- int_2_comp ---------------------------------------------------

/// two's complement negation is exact except for the minimum
pub proof fn lemma_ia_neg_exact(x: Bitvector)
    requires x.wf()
    ensures bv_neg(x).wf(), bv_neg(x).w@ == x.w@,
            x.s() > smin(x.w@) ==> bv_neg(x).s() == -x.s(),
            x.s() == smin(x.w@) ==> bv_neg(x).s() == smin(x.w@),
{
    let w = x.w@;
    lemma_sval(w, x.u@);
    lemma_trunc_neg_case(w, x.u@);
    lemma_sval(w, bv_neg(x).u@);
}

/// Interval::int_2_comp, the branch without the minimum
pub proof fn lemma_ia_interval_neg(a: Interval)
    requires a.inv(), a.start.s() > smin(a.w()),
    ensures ({
        let r = Interval { start: bv_neg(a.end), end: bv_neg(a.start), stride: a.stride };
        r.inv() && r.w() == a.w() && forall|x: Bitvector| a.gamma(x) ==> #[trigger] r.gamma(bv_neg(x))
    }),
{
    let r = Interval { start: bv_neg(a.end), end: bv_neg(a.start), stride: a.stride };
    lemma_ia_neg_exact(a.start); lemma_ia_neg_exact(a.end);
    assert(r.inv());
    assert forall|x: Bitvector| a.gamma(x) implies #[trigger] r.gamma(bv_neg(x)) by {
        lemma_ia_neg_exact(x);
        // (-x) - (-end) == (end - start) - (x - start)
        if a.stride != 0 { lemma_divides_add(a.stride as int, a.end.s() - a.start.s(), x.s() - a.start.s()); }
    }
}

// ---------------- signed_merge ---------------------------------------------------

pub proof fn lemma_ia_divides_scale(d: int, x: int, k: int)
    requires d > 0, divides(d, x)
    ensures divides(d, x * k), divides(d, k * x),
{
    lemma_divides_witness(d, x);
    let q = x / d;
    assert(x * k == d * (q * k)) by (nonlinear_arith) requires x == d * q;
    assert(k * x == x * k) by (nonlinear_arith);
    lemma_divides_mul(d, q * k);
}

pub proof fn lemma_ia_divides_self(d: int)
    requires d > 0
    ensures divides(d, d), divides(d, 0),
{
    lemma_divides_mul(d, 1); lemma_divides_mul(d, 0);
}

/// a positive multiple of d is at least d
pub proof fn lemma_ia_divides_le(d: int, x: int)
    requires d > 0, x > 0, divides(d, x)
    ensures d <= x,
{
    if x < d { vstd::arithmetic::div_mod::lemma_small_mod(x as nat, d as nat); }
}

/// gcd is the greatest common divisor w.r.t. divisibility (divides(0, x) <==> x == 0)
pub proof fn lemma_ia_gcd_greatest(a: nat, b: nat, d: int)
    requires d >= 0, divides(d, a as int), divides(d, b as int)
    ensures divides(d, spec_gcd(a, b) as int),
    decreases b
{
    if b != 0 {
        // d > 0 because d | b and b != 0
        vstd::arithmetic::div_mod::lemma_fundamental_div_mod(a as int, b as int);
        let q = (a as int) / (b as int);
        lemma_ia_divides_scale(d, b as int, q);
        lemma_divides_add(d, a as int, (b as int) * q);
        lemma_ia_gcd_greatest(b, a % b, d);
    }
}

/// g | stride and the offset lies on the stride ==> g | offset
pub proof fn lemma_ia_on_stride_weaken(s: u64, g: int, x: int)
    requires g > 0, on_stride(s, x), divides(g, s as int)
    ensures divides(g, x), x % g == 0,
{
    if s == 0 { lemma_ia_divides_self(g); } else { lemma_divides_trans(g, s as int, x); }
}

/// the three-way gcd of signed_merge
pub proof fn lemma_ia_gcd3(sa: nat, sb: nat, dd: nat)
    ensures ({
        let g = spec_gcd(spec_gcd(sa, sb), dd);
        &&& (g == 0) == (sa == 0 && sb == 0 && dd == 0)
        &&& g <= (if sa > 0 { sa } else if sb > 0 { sb } else { dd })
        &&& g > 0 ==> divides(g as int, sa as int) && divides(g as int, sb as int) && divides(g as int, dd as int)
    }),
{
    let h = spec_gcd(sa, sb);
    let g = spec_gcd(h, dd);
    lemma_gcd(sa, sb); lemma_gcd(h, dd);
    if g > 0 {
        lemma_ia_divides_self(g as int);
        if h > 0 {
            lemma_divides_trans(g as int, h as int, sa as int);
            lemma_divides_trans(g as int, h as int, sb as int);
            if sa > 0 { lemma_ia_divides_le(g as int, sa as int); } else { lemma_ia_divides_le(g as int, sb as int); }
        } else {
            lemma_ia_divides_le(g as int, dd as int);
        }
    }
}

/// distance of two signed values as computed by the wrapping subtraction larger - smaller
pub proof fn lemma_ia_sub_abs(x: Bitvector, y: Bitvector)
    requires x.wf(), y.wf(), x.w@ == y.w@, x.s() >= y.s()
    ensures bv_sub(x, y).wf(), bv_sub(x, y).u@ == x.s() - y.s(),
{
    lemma_binop_facts(x, y);
}

pub open spec fn ia_merge_dist(a: Interval, b: Interval) -> nat {
    (if a.start.s() > b.start.s() { a.start.s() - b.start.s() } else { b.start.s() - a.start.s() }) as nat
}
pub open spec fn ia_merge_result(a: Interval, b: Interval, st: u64) -> Interval {
    Interval {
        start: if a.start.s() <= b.start.s() { a.start } else { b.start },
        end: if a.end.s() >= b.end.s() { a.end } else { b.end },
        stride: st,
    }
}

/// the stride signed_merge computes (start distances of 2^64 and more do not fit the u64 gcd: stride 1)
pub open spec fn ia_merge_stride(a: Interval, b: Interval) -> nat {
    if ia_merge_dist(a, b) < p2(64) { spec_gcd(spec_gcd(a.stride as nat, b.stride as nat), ia_merge_dist(a, b)) } else { 1 }
}

/// signed_merge: the result is well-formed and contains both arguments
pub proof fn lemma_ia_interval_merge(a: Interval, b: Interval, st: u64)
    requires a.inv(), b.inv(), a.w() == b.w(),
        st as nat == (if ia_merge_dist(a, b) < p2(64) { spec_gcd(spec_gcd(a.stride as nat, b.stride as nat), ia_merge_dist(a, b)) } else { 1 }),
    ensures ia_merge_result(a, b, st).inv(), ia_merge_result(a, b, st).w() == a.w(),
        forall|v: Bitvector| a.gamma(v) || b.gamma(v) ==> #[trigger] ia_merge_result(a, b, st).gamma(v),
{
    let r = ia_merge_result(a, b, st);
    let dd = ia_merge_dist(a, b);
    let g = st as int;
    let dab = a.start.s() - b.start.s();
    lemma_p2_consts();
    lemma_ia_eq_iff_s(a.start, b.start);
    if dd < p2(64) { lemma_ia_gcd3(a.stride as nat, b.stride as nat, dd); }
    else { lemma_divides_mul(1, a.stride as int); lemma_divides_mul(1, b.stride as int); lemma_divides_mul(1, dd as int); }
    if g > 0 {
        // g divides both strides and the distance of the starts
        lemma_ia_divides_self(g);
        lemma_divides_add(g, 0, dd as int);
        assert(divides(g, dab) && divides(g, -dab));
        lemma_ia_on_stride_weaken(a.stride, g, a.end.s() - a.start.s());
        lemma_ia_on_stride_weaken(b.stride, g, b.end.s() - b.start.s());
        lemma_divides_add(g, a.end.s() - a.start.s(), -dab);
        lemma_divides_add(g, b.end.s() - b.start.s(), dab);
        assert(on_stride(st, r.end.s() - r.start.s()));
        assert forall|v: Bitvector| a.gamma(v) || b.gamma(v) implies #[trigger] r.gamma(v) by {
            if a.gamma(v) {
                lemma_ia_on_stride_weaken(a.stride, g, v.s() - a.start.s());
                lemma_divides_add(g, v.s() - a.start.s(), -dab);
            } else {
                lemma_ia_on_stride_weaken(b.stride, g, v.s() - b.start.s());
                lemma_divides_add(g, v.s() - b.start.s(), dab);
            }
        }
    }
}

/// signed_merge is stable: if b is contained in a (and the distance of the starts fits u64),
/// the merged stride is a multiple of a's stride (so nothing is added)
pub proof fn lemma_ia_merge_stable(a: Interval, b: Interval, g: nat)
    requires a.inv(), b.inv(), a.w() == b.w(),
        forall|v: Bitvector| b.gamma(v) ==> a.gamma(v),
        g == spec_gcd(spec_gcd(a.stride as nat, b.stride as nat), ia_merge_dist(a, b))
            || g == spec_gcd(spec_gcd(b.stride as nat, a.stride as nat), ia_merge_dist(b, a)),
    ensures a.start.s() <= b.start.s() && b.end.s() <= a.end.s(),
        a.stride == 0 ==> g == 0,
        a.stride > 0 ==> g > 0 && divides(a.stride as int, g as int),
{
    let w = a.w();
    let (sa, sb) = (a.stride as int, b.stride as int);
    let dd = ia_merge_dist(a, b);
    assert(ia_merge_dist(b, a) == dd);
    if sb > 0 { lemma_ia_divides_self(sb); }
    assert(b.gamma(b.start) && b.gamma(b.end));
    assert(a.gamma(b.start) && a.gamma(b.end));
    assert(dd == b.start.s() - a.start.s());
    lemma_ia_gcd3(a.stride as nat, b.stride as nat, dd);
    lemma_ia_gcd3(b.stride as nat, a.stride as nat, dd);
    if sa > 0 {
        lemma_ia_divides_self(sa);
        // sa | sb: b.start and b.start + sb are members of b, hence of a
        if sb > 0 {
            lemma_ia_divides_le(sb, b.end.s() - b.start.s());
            lemma_sval(w, b.start.u@); lemma_sval(w, b.end.u@);
            let x = b.start.s() + sb;
            let v1 = bv(w, trunc(w, x));
            lemma_trunc_sval(w, x);
            assert(b.gamma(v1));
            assert(a.gamma(v1));
            lemma_divides_add(sa, x - a.start.s(), b.start.s() - a.start.s());
        }
        assert(divides(sa, sb));
        lemma_ia_gcd_greatest(a.stride as nat, b.stride as nat, sa);
        lemma_ia_gcd_greatest(b.stride as nat, a.stride as nat, sa);
        lemma_ia_gcd_greatest(spec_gcd(a.stride as nat, b.stride as nat), dd, sa);
        lemma_ia_gcd_greatest(spec_gcd(b.stride as nat, a.stride as nat), dd, sa);
    }
}

/// members of the merged interval are members of a when b is contained in a
pub proof fn lemma_ia_merge_stable_gamma(a: Interval, b: Interval, st: u64, swapped: bool)
    requires a.inv(), b.inv(), a.w() == b.w(),
        forall|v: Bitvector| b.gamma(v) ==> a.gamma(v),
        ia_merge_dist(a, b) < p2(64),
        st as nat == (if swapped { spec_gcd(spec_gcd(b.stride as nat, a.stride as nat), ia_merge_dist(b, a)) }
                      else { spec_gcd(spec_gcd(a.stride as nat, b.stride as nat), ia_merge_dist(a, b)) }),
    ensures forall|v: Bitvector| #[trigger] ia_merge_result(a, b, st).gamma(v) ==> a.gamma(v),
            forall|v: Bitvector| #[trigger] ia_merge_result(b, a, st).gamma(v) ==> a.gamma(v),
{
    lemma_ia_merge_stable(a, b, st as nat);
    lemma_ia_eq_iff_s(a.start, b.start); lemma_ia_eq_iff_s(a.end, b.end);
    assert(ia_merge_result(a, b, st) == ia_merge_result(b, a, st));
    let r = ia_merge_result(a, b, st);
    assert forall|v: Bitvector| #[trigger] r.gamma(v) implies a.gamma(v) by {
        if a.stride > 0 { lemma_divides_trans(a.stride as int, st as int, v.s() - a.start.s()); }
    }
}

// ---------------- signed_mul -----------------------------------------------------

pub open spec fn ia_min2(a: int, b: int) -> int { if a <= b { a } else { b } }
pub open spec fn ia_max2(a: int, b: int) -> int { if a >= b { a } else { b } }
pub open spec fn ia_smin_bv(x: Bitvector, y: Bitvector) -> Bitvector { if x.s() <= y.s() { x } else { y } }
pub open spec fn ia_smax_bv(x: Bitvector, y: Bitvector) -> Bitvector { if x.s() >= y.s() { x } else { y } }

/// x*y is monotone or antitone in x
pub proof fn lemma_ia_mul_between(lo: int, hi: int, x: int, y: int)
    requires lo <= x <= hi
    ensures (lo * y <= x * y <= hi * y) || (hi * y <= x * y <= lo * y),
            y * lo == lo * y, y * x == x * y, y * hi == hi * y,
{
    if y >= 0 {
        assert(lo * y <= x * y) by (nonlinear_arith) requires lo <= x, y >= 0;
        assert(x * y <= hi * y) by (nonlinear_arith) requires x <= hi, y >= 0;
    } else {
        assert(lo * y >= x * y) by (nonlinear_arith) requires lo <= x, y < 0;
        assert(x * y >= hi * y) by (nonlinear_arith) requires x <= hi, y < 0;
    }
    assert(y * lo == lo * y) by (nonlinear_arith);
    assert(y * x == x * y) by (nonlinear_arith);
    assert(y * hi == hi * y) by (nonlinear_arith);
}

/// the four corner products bound every product over the box [a0,a1] x [b0,b1]
pub proof fn lemma_ia_mul_corners(a0: int, a1: int, b0: int, b1: int, x: int, y: int)
    requires a0 <= x <= a1, b0 <= y <= b1
    ensures ia_min2(a0 * b0, ia_min2(a0 * b1, ia_min2(a1 * b0, a1 * b1))) <= x * y,
            x * y <= ia_max2(a0 * b0, ia_max2(a0 * b1, ia_max2(a1 * b0, a1 * b1))),
{
    lemma_ia_mul_between(a0, a1, x, y);   // x*y between a0*y and a1*y
    lemma_ia_mul_between(b0, b1, y, a0);  // a0*y between a0*b0 and a0*b1
    lemma_ia_mul_between(b0, b1, y, a1);  // a1*y between a1*b0 and a1*b1
}

/// g | x - a0 and g | y - b0  ==>  g | x*y - a0*b0
pub proof fn lemma_ia_mul_residue(g: int, a0: int, b0: int, x: int, y: int)
    requires g > 0, divides(g, x - a0), divides(g, y - b0)
    ensures divides(g, x * y - a0 * b0),
{
    lemma_ia_divides_scale(g, x - a0, y);
    lemma_ia_divides_scale(g, y - b0, a0);
    assert(x * y - a0 * b0 == (x - a0) * y + a0 * (y - b0)) by (nonlinear_arith);
    lemma_divides_add(g, (x - a0) * y, a0 * (y - b0));
}

pub open spec fn ia_mul_result(a: Interval, b: Interval) -> Interval {
    let v1 = bv_mul(a.start, b.start);
    let v2 = bv_mul(a.start, b.end);
    let v3 = bv_mul(a.end, b.start);
    let v4 = bv_mul(a.end, b.end);
    Interval {
        start: ia_smin_bv(v1, ia_smin_bv(v2, ia_smin_bv(v3, v4))),
        end: ia_smax_bv(v1, ia_smax_bv(v2, ia_smax_bv(v3, v4))),
        // (the `min == max` case was added by the repair of finding F1: before, the stride was always the gcd)
        stride: if ia_smin_bv(v1, ia_smin_bv(v2, ia_smin_bv(v3, v4))) == ia_smax_bv(v1, ia_smax_bv(v2, ia_smax_bv(v3, v4))) { 0 }
                else { spec_gcd(a.stride as nat, b.stride as nat) as u64 },
    }
}
pub open spec fn ia_mul_fits(x: Bitvector, y: Bitvector) -> bool {
    smin(x.w@) <= x.s() * y.s() <= smax(x.w@)
}

/// the wrapped product is a well-formed value of the operands' width
pub proof fn lemma_ia_mul_wf()
    ensures forall|x: Bitvector, y: Bitvector| x.wf() && y.wf() ==> (#[trigger] bv_mul(x, y)).wf() && bv_mul(x, y).w@ == x.w@,
{
    assert forall|x: Bitvector, y: Bitvector| x.wf() && y.wf() implies (#[trigger] bv_mul(x, y)).wf() && bv_mul(x, y).w@ == x.w@ by {
        lemma_trunc_range(x.w@, (x.u@ * y.u@) as int);
    }
}

/// the whole result of signed_mul
pub open spec fn ia_mul_exact(a: Interval, b: Interval, r: Interval) -> bool {
    if a.w() <= 64 && ia_mul_fits(a.start, b.start) && ia_mul_fits(a.start, b.end) && ia_mul_fits(a.end, b.start) && ia_mul_fits(a.end, b.end) {
        r == ia_mul_result(a, b)
    } else {
        // Top -- or, for two constants of at most 8 bytes, the constant that the wrapping multiplication yields
        r.is_full() || (a.w() <= 64 && a.start == a.end && b.start == b.end && r.start == r.end && r.stride == 0 && r.start == bv_mul(a.start, b.start))
    }
}

/// the bounds of the result are the minimum / maximum of the four corner products
pub proof fn lemma_ia_mul_corner_values(a: Interval, b: Interval)
    requires a.inv(), b.inv(), a.w() == b.w(), a.w() >= 2,
        ia_mul_fits(a.start, b.start), ia_mul_fits(a.start, b.end), ia_mul_fits(a.end, b.start), ia_mul_fits(a.end, b.end),
    ensures ({
        let r = ia_mul_result(a, b);
        let (a0, a1, b0, b1) = (a.start.s(), a.end.s(), b.start.s(), b.end.s());
        &&& r.start.wf() && r.end.wf() && r.start.w@ == a.w() && r.end.w@ == a.w()
        &&& r.start.s() == ia_min2(a0 * b0, ia_min2(a0 * b1, ia_min2(a1 * b0, a1 * b1)))
        &&& r.end.s() == ia_max2(a0 * b0, ia_max2(a0 * b1, ia_max2(a1 * b0, a1 * b1)))
        &&& smin(a.w()) <= r.start.s() && r.end.s() <= smax(a.w())
        &&& (r.stride == 0) == (r.start.s() == r.end.s() || spec_gcd(a.stride as nat, b.stride as nat) == 0)
        &&& r.stride != 0 ==> r.stride as nat == spec_gcd(a.stride as nat, b.stride as nat)
    }),
{
    let r = ia_mul_result(a, b);
    lemma_mul_flag_facts(a.start, b.start); lemma_mul_flag_facts(a.start, b.end);
    lemma_mul_flag_facts(a.end, b.start); lemma_mul_flag_facts(a.end, b.end);
    lemma_ia_eq_iff_s(r.start, r.end);
    lemma_gcd_bound(a.stride as nat, b.stride as nat);
}

/// all products of members lie in the residue class of the corner products modulo a common divisor of the strides
pub proof fn lemma_ia_mul_stride(g: int, a0: int, a1: int, b0: int, b1: int, x: int, y: int)
    requires g > 0, divides(g, x - a0), divides(g, y - b0), divides(g, a1 - a0), divides(g, b1 - b0)
    ensures divides(g, x * y - a0 * b0), divides(g, x * y - a0 * b1), divides(g, x * y - a1 * b0), divides(g, x * y - a1 * b1),
{
    lemma_ia_divides_self(g);
    lemma_ia_mul_residue(g, a0, b0, x, y);
    lemma_ia_mul_residue(g, a0, b0, a0, b1);
    lemma_ia_mul_residue(g, a0, b0, a1, b0);
    lemma_ia_mul_residue(g, a0, b0, a1, b1);
    let p = x * y;
    lemma_divides_add(g, p - a0 * b0, a0 * b1 - a0 * b0);
    lemma_divides_add(g, p - a0 * b0, a1 * b0 - a0 * b0);
    lemma_divides_add(g, p - a0 * b0, a1 * b1 - a0 * b0);
}

/// every product of members is a member of the result (no corner product overflows)
pub proof fn lemma_ia_interval_mul_gamma(a: Interval, b: Interval, x: Bitvector, y: Bitvector)
    requires a.inv(), b.inv(), a.w() == b.w(), a.w() >= 2,
        ia_mul_fits(a.start, b.start), ia_mul_fits(a.start, b.end), ia_mul_fits(a.end, b.start), ia_mul_fits(a.end, b.end),
        a.gamma(x), b.gamma(y),
    ensures ia_mul_result(a, b).gamma(bv_mul(x, y)), bv_mul(x, y).s() == x.s() * y.s(),
{
    let r = ia_mul_result(a, b);
    let (a0, a1, b0, b1) = (a.start.s(), a.end.s(), b.start.s(), b.end.s());
    let p = x.s() * y.s();
    lemma_ia_mul_corner_values(a, b);
    lemma_ia_mul_corners(a0, a1, b0, b1, x.s(), y.s());
    lemma_mul_flag_facts(x, y);
    assert(bv_mul(x, y).s() == p);
    if r.stride != 0 {
        let g = r.stride as int;
        lemma_gcd(a.stride as nat, b.stride as nat);
        lemma_ia_on_stride_weaken(a.stride, g, x.s() - a0);
        lemma_ia_on_stride_weaken(b.stride, g, y.s() - b0);
        lemma_ia_on_stride_weaken(a.stride, g, a1 - a0);
        lemma_ia_on_stride_weaken(b.stride, g, b1 - b0);
        lemma_ia_mul_stride(g, a0, a1, b0, b1, x.s(), y.s());
    } else if r.start.s() != r.end.s() {
        // both strides 0: x, y are the only members
        lemma_gcd(a.stride as nat, b.stride as nat);
    }
}

/// Interval::signed_mul, the case in which no corner product overflows
pub proof fn lemma_ia_interval_mul(a: Interval, b: Interval)
    requires a.inv(), b.inv(), a.w() == b.w(), a.w() >= 2,
        ia_mul_fits(a.start, b.start), ia_mul_fits(a.start, b.end), ia_mul_fits(a.end, b.start), ia_mul_fits(a.end, b.end),
    ensures ia_mul_result(a, b).w() == a.w(),
        forall|x: Bitvector, y: Bitvector| a.gamma(x) && b.gamma(y) ==> #[trigger] ia_mul_result(a, b).gamma(bv_mul(x, y)),
        ia_mul_result(a, b).inv(),
{
    let w = a.w();
    let r = ia_mul_result(a, b);
    let (a0, a1, b0, b1) = (a.start.s(), a.end.s(), b.start.s(), b.end.s());
    assert forall|x: Bitvector, y: Bitvector| a.gamma(x) && b.gamma(y) implies #[trigger] r.gamma(bv_mul(x, y)) by {
        lemma_ia_interval_mul_gamma(a, b, x, y);
    }
    let g = spec_gcd(a.stride as nat, b.stride as nat) as int;
    lemma_gcd(a.stride as nat, b.stride as nat);
    lemma_gcd_bound(a.stride as nat, b.stride as nat);
    if a.stride != 0 { lemma_ia_divides_self(a.stride as int); }
    if b.stride != 0 { lemma_ia_divides_self(b.stride as int); }
    assert(a.gamma(a.start) && a.gamma(a.end) && b.gamma(b.start) && b.gamma(b.end));
    // the corners are products of members
    lemma_ia_interval_mul_gamma(a, b, a.start, b.start); lemma_ia_interval_mul_gamma(a, b, a.start, b.end);
    lemma_ia_interval_mul_gamma(a, b, a.end, b.start); lemma_ia_interval_mul_gamma(a, b, a.end, b.end);
    assert(r.start.wf() && r.end.wf() && r.start.w@ == r.end.w@ && r.start.s() <= r.end.s());
    lemma_ia_eq_iff_s(r.start, r.end);
    assert(on_stride(r.stride, r.end.s() - r.start.s()));
    if g == 0 {
        assert(a0 == a1 && b0 == b1);
        assert(r.start.s() == r.end.s());
    }
}
