// ---------------------------------------------------------------------------
// lemmas/cfgbuild_sat.rs -- SATISFIABILITY WITNESSES of the preconditions of unit `cfgbuild`: WHERE THEY ARE.
// This file holds NO code on purpose.  The witnesses of unit cfgbuild (the hypothesis cfg_key_hyp opened; the witness program
// cfg_sat_prog -- one function, two blocks, a direct call with return target + a return -- built in exec code; cfg_prog_wf /
// cfg_positions_unique PROVED for it; verified clients verif_sat_cfgbuild_* that call EVERY contracted function of this unit,
// the inner builder steps on a non-initial builder state) live in lemmas/cfgbuild_rc367_sat.rs and are VERIFIED BY UNIT
// cfgbuild_rc367, which imports this unit: there every function of this unit is present with the contract text of
// contracts/cfgbuild.vc (`external_body // proved in unit cfgbuild`), so Verus checks the REAL `requires` at each call.
// WHY NOT HERE: Verus prunes the SMT context per module; anything added to the root module of this unit changes the context of
// all of its 153 obligations.  Measured (rlimit counts, full runs): +25 % on most lemmas, and the existing
// lemma_cfg_global_s2 (rlimit(40) = 120 M) moved chaotically from 4.3 M to 9 / 14 / 34 / 68 / 80 M depending on which
// witness functions were present (even with two spec-level lemmas only): the unit went from ~25 s to 45-70 s.
// ---------------------------------------------------------------------------
