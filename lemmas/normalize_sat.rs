// ---------------------------------------------------------------------------
// lemmas/normalize_sat.rs -- SATISFIABILITY WITNESSES of the preconditions of unit `normalize` (nothing here is trusted).
//   (d)  cfg_key_hyp() (vstd's uninterpreted obeys_key_model::<Tid>() / ::<(Tid, Tid)>() / obeys_cmp::<Tid>()) is opened in
//        lemmas/cfgbuild_sat.rs (lemma_sat_cfgbuild_key_hyp_open); no axiom / external_body of shim|spec|lemmas/normalize.rs or
//        contracts/normalize.vc mentions it.  Every client below has it as its ONLY `requires`.
//   (a') verif_sat_normalize_fill BUILDS in exec code (Tid = two Strings, Vec::push, BTreeMap::insert, struct literals) a program
//        with TWO functions, three blocks, a def, a branch F -> block of G (so pass 4 has something to copy), a call of a
//        no_return extern symbol (so pass 5 has something to retarget) into an ARBITRARY project (the opaque field types of
//        Project have no constructor) and PROVES for it: nz_unique, nz_sub_tids_alone, nz_keys_are_tids, nz_names_closed, and --
//        under the exec test `ok` -- nz_no_sink_names, nz_namespace.  CONDITIONAL on `ok`: the artificial-sink names nz_sink_sub() /
//        nz_sink_blk(..) are UNINTERPRETED, so no concrete tid is provably different from them; the test calls the (trusted, @nobody)
//        Tid::is_artificial_sink_sub / Tid::artificial_sink_block("") -- at run time it is true ("P" is not "Artificial Sink Sub").
//        verif_sat_normalize_basic: normalize_basic + nz_basic_client (all four hypotheses TOGETHER, under `ok`);
//        verif_sat_normalize_passes: passes 1, 2, 3, 5 and their helpers one by one (unconditional);
//        verif_sat_normalize_uniq / _dup: pass 4 and its five helpers; nz_dup_pre holds for NON-EMPTY maps (shown: block B is in the
//        contained set of F, not at home in F, a key of the block map -- the inner `forall` of nz_dup_pre has an instance).
//   MODEL of the two name axioms of shim/normalize.rs (the only constraints on the uninterpreted name functions): at the end of
//        the file, lemma_sat_normalize_names_model -- the string functions of term.rs satisfy both, and one-letter ids are no sink names.
// ---------------------------------------------------------------------------

/// a term identifier with the given id (exec construction: `Tid` is a struct of two `String`s)
fn verif_sat_normalize_tid(id: &str) -> (r: Tid)
    ensures r.id@ == id@,
{
    Tid { id: id.to_string(), address: "UNKNOWN".to_string() }
}

/// THE WITNESS PROGRAM: tid "P"; function "F" = [ block "A": def "D" (an assignment), jump "J" = Branch("B") ];
/// function "G" = [ block "B": jump "K" = Call { target: "E", return_: Some("C") }, hint "C";  block "C": nothing ];
/// both stored under their tids; ONE extern symbol "E" (no_return) stored under its tid.
/// Block "B" is at home in G and contained in F (so are "C"): pass 4 copies them; pass 5 retargets the call "K".
pub open spec fn nz_sat_shape(prog: Tid, subs: Map<Tid, Term<Sub>>, ext: Map<Tid, ExternSymbol>, f: Tid, g: Tid, a: Tid, b: Tid, c: Tid, e: Tid) -> bool {
    &&& f != g && a != b && a != c && b != c
    &&& forall |k: Tid| subs.contains_key(k) <==> k == f || k == g
    &&& forall |k: Tid| ext.contains_key(k) <==> k == e
    &&& ext[e].no_return
    &&& subs[f].tid == f && subs[f].term.blocks@.len() == 1 && subs[f].term.blocks@[0].tid == a
    &&& subs[f].term.blocks@[0].term.defs@.len() == 1 && subs[f].term.blocks@[0].term.indirect_jmp_targets@.len() == 0
    &&& subs[f].term.blocks@[0].term.jmps@.len() == 1 && subs[f].term.blocks@[0].term.jmps@[0].term == Jmp::Branch(b)
    &&& subs[g].tid == g && subs[g].term.blocks@.len() == 2 && subs[g].term.blocks@[0].tid == b && subs[g].term.blocks@[1].tid == c
    &&& subs[g].term.blocks@[0].term.defs@.len() == 0
    &&& subs[g].term.blocks@[0].term.indirect_jmp_targets@.len() == 1 && subs[g].term.blocks@[0].term.indirect_jmp_targets@[0] == c
    &&& subs[g].term.blocks@[0].term.jmps@.len() == 1 && subs[g].term.blocks@[0].term.jmps@[0].term == (Jmp::Call { target: e, return_: Some(c) })
    &&& subs[g].term.blocks@[1].term.defs@.len() == 0 && subs[g].term.blocks@[1].term.indirect_jmp_targets@.len() == 0
    &&& subs[g].term.blocks@[1].term.jmps@.len() == 0
}

/// what verif_sat_normalize_fill hands back: the exec test and the tids of the witness program
pub struct NzSatTids { pub ok: bool, pub f: Tid, pub g: Tid, pub a: Tid, pub b: Tid, pub c: Tid, pub e: Tid }

/// replaces the program of an arbitrary project by the witness program; `r.ok`: the exec test "none of the nine term tids is
/// the name of the artificial sink function / block" (Tid::is_artificial_sink_sub, == Tid::artificial_sink_block("")) came out true
fn verif_sat_normalize_fill(p: &mut Project) -> (r: NzSatTids)
    requires
        cfg_key_hyp(),
    ensures
        nz_sat_shape(final(p).program.tid, final(p).program.term.subs@, final(p).program.term.extern_symbols@, r.f, r.g, r.a, r.b, r.c, r.e),
        nz_unique(final(p).program.tid, final(p).program.term.subs@),
        nz_sub_tids_alone(final(p).program.tid, final(p).program.term.subs@),
        nz_keys_are_tids(final(p).program.term.subs@),
        nz_names_closed(final(p).program.term.subs@),
        r.ok ==> nz_no_sink_names(final(p).program.tid, final(p).program.term.subs@),
        r.ok ==> nz_namespace(final(p).program.term.subs@, final(p).program.term.extern_symbols@),
{
    let tp = verif_sat_normalize_tid("P");
    let tf = verif_sat_normalize_tid("F");
    let tg = verif_sat_normalize_tid("G");
    let ta = verif_sat_normalize_tid("A");
    let tb = verif_sat_normalize_tid("B");
    let tc = verif_sat_normalize_tid("C");
    let td = verif_sat_normalize_tid("D");
    let tj = verif_sat_normalize_tid("J");
    let tk = verif_sat_normalize_tid("K");
    let te = verif_sat_normalize_tid("E");
    proof {
        reveal_strlit("P"); reveal_strlit("F"); reveal_strlit("G"); reveal_strlit("A"); reveal_strlit("B"); reveal_strlit("C");
        reveal_strlit("D"); reveal_strlit("J"); reveal_strlit("K"); reveal_strlit("E"); reveal_strlit("");
        assert(tp.id@[0] == 'P' && tf.id@[0] == 'F' && tg.id@[0] == 'G' && ta.id@[0] == 'A' && tb.id@[0] == 'B' && tc.id@[0] == 'C'
            && td.id@[0] == 'D' && tj.id@[0] == 'J' && tk.id@[0] == 'K' && te.id@[0] == 'E');
        assert(""@ =~= Seq::<char>::empty());
    }
    // the exec test against the (uninterpreted) artificial-sink names
    let sink_blk = Tid::artificial_sink_block("");
    let ok = !tp.is_artificial_sink_sub() && !tf.is_artificial_sink_sub() && !tg.is_artificial_sink_sub()
        && !ta.is_artificial_sink_sub() && !tb.is_artificial_sink_sub() && !tc.is_artificial_sink_sub()
        && !td.is_artificial_sink_sub() && !tj.is_artificial_sink_sub() && !tk.is_artificial_sink_sub()
        && tp != sink_blk && tf != sink_blk && tg != sink_blk && ta != sink_blk && tb != sink_blk && tc != sink_blk
        && td != sink_blk && tj != sink_blk && tk != sink_blk;

    let var = Variable { name: "x".to_string(), size: ByteSize(8), is_temp: false };
    let var2 = Variable { name: "y".to_string(), size: ByteSize(8), is_temp: false };
    let mut defs_a: Vec<Term<Def>> = Vec::new();
    defs_a.push(Term { tid: td.clone(), term: Def::Assign { var: var, value: Expression::Var(var2) } });
    let mut jmps_a: Vec<Term<Jmp>> = Vec::new();
    jmps_a.push(Term { tid: tj.clone(), term: Jmp::Branch(tb.clone()) });
    let blk_a = Term { tid: ta.clone(), term: Blk { defs: defs_a, jmps: jmps_a, indirect_jmp_targets: Vec::new() } };
    let mut jmps_b: Vec<Term<Jmp>> = Vec::new();
    jmps_b.push(Term { tid: tk.clone(), term: Jmp::Call { target: te.clone(), return_: Some(tc.clone()) } });
    let mut hints_b: Vec<Tid> = Vec::new();
    hints_b.push(tc.clone());
    let blk_b = Term { tid: tb.clone(), term: Blk { defs: Vec::new(), jmps: jmps_b, indirect_jmp_targets: hints_b } };
    let blk_c = Term { tid: tc.clone(), term: Blk { defs: Vec::new(), jmps: Vec::new(), indirect_jmp_targets: Vec::new() } };
    let mut blocks_f: Vec<Term<Blk>> = Vec::new();
    blocks_f.push(blk_a);
    let mut blocks_g: Vec<Term<Blk>> = Vec::new();
    blocks_g.push(blk_b);
    blocks_g.push(blk_c);
    let sub_f = Term { tid: tf.clone(), term: Sub { name: "f".to_string(), blocks: blocks_f, calling_convention: None } };
    let sub_g = Term { tid: tg.clone(), term: Sub { name: "g".to_string(), blocks: blocks_g, calling_convention: None } };
    let mut subs: BTreeMap<Tid, Term<Sub>> = BTreeMap::new();
    subs.insert(tf.clone(), sub_f);
    subs.insert(tg.clone(), sub_g);
    let sym = ExternSymbol { tid: te.clone(), addresses: Vec::new(), name: "exit".to_string(), calling_convention: None,
        parameters: Vec::new(), return_values: Vec::new(), no_return: true, has_var_args: false };
    let mut syms: BTreeMap<Tid, ExternSymbol> = BTreeMap::new();
    syms.insert(te.clone(), sym);
    p.program.tid = tp;
    p.program.term.subs = subs;
    p.program.term.extern_symbols = syms;

    proof {
        let prog = p.program.tid;
        let s = p.program.term.subs@;
        let ext = p.program.term.extern_symbols@;
        assert(nz_sat_shape(prog, s, ext, tf, tg, ta, tb, tc, te));
        // nz_unique through the owner map (lemmas of the unit)
        let owner: Map<Tid, NzPos> = Map::empty().insert(prog, NzPos::Prog).insert(tf, NzPos::Sub(tf)).insert(tg, NzPos::Sub(tg))
            .insert(ta, NzPos::Blk(tf, 0)).insert(tb, NzPos::Blk(tg, 0)).insert(tc, NzPos::Blk(tg, 1))
            .insert(td, NzPos::Def(tf, 0, 0)).insert(tj, NzPos::Jmp(tf, 0, 0)).insert(tk, NzPos::Jmp(tg, 0, 0));
        assert(nz_sub_owned(owner, tf, s[tf]));
        assert(nz_sub_owned(owner, tg, s[tg]));
        lemma_nz_owner_all(owner, prog, s);
        lemma_nz_owner_unique(owner, prog, s);
        assert(nz_sub_tids_alone(prog, s));
        assert(nz_keys_are_tids(s));
        assert(nz_blk_at(s, tg, 0, tb) && nz_blk_at(s, tg, 1, tc));
        assert(nz_names_closed(s));
        if ok {
            assert(nz_no_sink_names(prog, s)) by {
                assert forall |q: NzPos| #[trigger] nz_pos_ok(s, q) implies
                    nz_tid_at(prog, s, q) != nz_sink_sub() && nz_tid_at(prog, s, q) != nz_sink_blk(Seq::<char>::empty()) by {
                    assert(owner.contains_key(nz_tid_at(prog, s, q)));
                }
            }
            assert(nz_namespace(s, ext));
        }
    }
    NzSatTids { ok, f: tf, g: tg, a: ta, b: tb, c: tc, e: te }
}

/// (a') relative to (d): normalize_basic and the client nz_basic_client on the witness program -- the FOUR hypotheses together
/// (nz_sub_tids_alone, nz_keys_are_tids, nz_no_sink_names, nz_namespace) are checked at the calls
pub fn verif_sat_normalize_basic(p1: Project, p2: Project)
    requires
        cfg_key_hyp(),
{
    let mut p1 = p1;
    let mut p2 = p2;
    let r1 = verif_sat_normalize_fill(&mut p1);
    if r1.ok {
        let _ = p1.normalize_basic();
    }
    let r2 = verif_sat_normalize_fill(&mut p2);
    if r2.ok {
        let _ = nz_basic_client(&mut p2);
    }
}

/// (a') relative to (d): passes 1, 2, 3, 5 and their helpers, called one by one on the witness program (no exec test needed)
pub fn verif_sat_normalize_passes(p: Project)
    requires
        cfg_key_hyp(),
{
    let mut p = p;
    let r = verif_sat_normalize_fill(&mut p);
    let _ = nz_keys(&p.program.term.subs);
    // remove_duplicate_tids: nz_sub_tids_alone
    let _ = p.remove_duplicate_tids();
    p.add_artifical_sink();
    let known = p.find_all_jump_targets();
    let mut jmp = Term { tid: r.a.clone(), term: Jmp::Branch(r.b.clone()) };
    let _ = jmp.retarget_nonexisting_jump_targets_to_artificial_sink(&known);
    let mut hints: Vec<Tid> = Vec::new();
    hints.push(r.b.clone());
    let mut blk = Term { tid: r.a.clone(), term: Blk { defs: Vec::new(), jmps: Vec::new(), indirect_jmp_targets: hints } };
    let _ = blk.remove_nonexisting_indirect_jump_targets(&known);
    let _ = p.remove_references_to_nonexisting_tids();
    let _ = p.find_non_returning_subs();
    let _ = p.retarget_non_returning_calls_to_artificial_sink();
}

/// (a') relative to (d): pass 4 on the witness program
pub fn verif_sat_normalize_uniq(p: Project)
    requires
        cfg_key_hyp(),
{
    let mut p = p;
    let r = verif_sat_normalize_fill(&mut p);
    // make_block_to_sub_mapping_unique: nz_unique, nz_names_closed
    make_block_to_sub_mapping_unique(&mut p);
}

/// (a') relative to (d): the helpers of pass 4 on the witness program; nz_dup_pre is met by NON-EMPTY maps: the set of
/// function F contains block tid B, which is not at home in F and is a key of the block map (the inner `forall` has an instance)
pub fn verif_sat_normalize_dup(p: Project)
    requires
        cfg_key_hyp(),
{
    // (nz_contained_ok -> nz_reachable -> nz_path -> nz_names -> nz_contained_ok is a matching loop once everything is unfolded:
    //  harmless for the proofs, but the negative control `assert(false)` would not terminate)
    hide(nz_reachable);
    let mut p = p;
    let r = verif_sat_normalize_fill(&mut p);
    let ghost prog = p.program.tid;
    let ghost s = p.program.term.subs@;
    // generate_tid_to_sub_tid_map: nz_unique
    let tid_to_sub_map = p.generate_tid_to_sub_tid_map();
    {
        let block_tid_to_block_map = p.generate_block_tid_to_block_term_map();
        proof { lemma_nz_unique_subs_distinct(prog, s); }
        // generate_sub_tid_to_contained_block_tids_map: nz_sub_tids_distinct
        let sub_to_blocks_map = p.generate_sub_tid_to_contained_block_tids_map(&block_tid_to_block_map);
        proof {
            lemma_nz_dup_pre(s, sub_to_blocks_map@, tid_to_sub_map@, block_tid_to_block_map@);
            // non-degenerate: B is contained in F, not at home in F, and a key of the block map
            let (tf, tg, ta, tb) = (r.f, r.g, r.a, r.b);
            let home = tid_to_sub_map@;
            let bm = block_tid_to_block_map@;
            let set = sub_to_blocks_map@[tf]@;
            assert(s.contains_key(tf) && s.contains_key(tg));
            assert(nz_pos_ok(s, NzPos::Blk(tf, 0)) && nz_pos_ok(s, NzPos::Blk(tg, 0)));
            assert(nz_blk_at(s, tf, 0, ta) && nz_blk_at(s, tg, 0, tb));
            assert(nz_contained_ok(set, s[tf], bm));
            assert(set.contains(ta));
            assert(bm.contains_key(ta));
            assert(*bm[ta] == s[tf].term.blocks@[0]) by {
                let (k, i) = choose |k: Tid, i: int| #[trigger] nz_blk_at(s, k, i, ta) && *bm[ta] == s[k].term.blocks@[i];
                assert(nz_pos_ok(s, NzPos::Blk(k, i)));
            }
            assert(nz_names(*bm[ta], tb)) by {
                assert(nz_intra_target(bm[ta].term.jmps@[0].term) == Some(tb));
            }
            assert(set.contains(tb));
            assert(home[tb] == tg && !nz_home_is(home, tb, tf)) by {
                assert(nz_tid_at(prog, s, NzPos::Blk(tg, 0)) == tb);
            }
            assert(bm.contains_key(tb));
        }
        // duplicate_blocks_contained_in_several_subs: nz_sub_tids_distinct, nz_dup_pre
        let _ = p.duplicate_blocks_contained_in_several_subs(&sub_to_blocks_map, &tid_to_sub_map, &block_tid_to_block_map);
    }
    p.append_jump_targets_with_sub_suffix_when_target_block_was_duplicated(&tid_to_sub_map);
}

// ---- a MODEL of the name axioms (shim/normalize.rs: axiom_nz_sink_blk_is, axiom_nz_sink_names_differ) -----------------------------
// The five name functions are uninterpreted and constrained by these two axioms ONLY (the @nobody contracts of the Tid helpers,
// Term<Sub>::id_suffix and verif_nz_sub_suffix each say "the result is THE function of the arguments": they constrain the exec
// functions, not the spec functions).  Here the string functions of term.rs, on pairs (id, address) of character sequences,
// are shown to satisfy both axioms, and the tids of the witness program are no artificial-sink names in this model
// (i.e. the exec test `ok` of verif_sat_normalize_fill is true in it).
pub open spec fn nz_sat_m_sink_sub() -> (Seq<char>, Seq<char>) { ("Artificial Sink Sub"@, "UNKNOWN"@) }
pub open spec fn nz_sat_m_sink_blk(s: Seq<char>) -> (Seq<char>, Seq<char>) { ("Artificial Sink Block"@ + s, "UNKNOWN"@) }
pub open spec fn nz_sat_m_is_sink_blk(t: (Seq<char>, Seq<char>), s: Seq<char>) -> bool {
    "Artificial Sink Block"@.is_prefix_of(t.0) && s.is_suffix_of(t.0) && t.1 == "UNKNOWN"@
}

pub proof fn lemma_sat_normalize_names_model()
    ensures
        // axiom_nz_sink_blk_is
        forall |s: Seq<char>| nz_sat_m_is_sink_blk(#[trigger] nz_sat_m_sink_blk(s), s),
        // axiom_nz_sink_names_differ
        nz_sat_m_sink_sub() != nz_sat_m_sink_blk(Seq::<char>::empty()),
        // a one-letter id is neither the artificial sink function nor an artificial sink block
        forall |id: Seq<char>, a: Seq<char>, s: Seq<char>| id.len() == 1 ==>
            (id, a) != nz_sat_m_sink_sub() && (id, a) != nz_sat_m_sink_blk(s) && !#[trigger] nz_sat_m_is_sink_blk((id, a), s),
{
    reveal_strlit("Artificial Sink Sub");
    reveal_strlit("Artificial Sink Block");
    let p = "Artificial Sink Block"@;
    assert("Artificial Sink Sub"@.len() == 19 && p.len() == 21);
    assert forall |s: Seq<char>| nz_sat_m_is_sink_blk(#[trigger] nz_sat_m_sink_blk(s), s) by {
        assert((p + s).subrange(0, p.len() as int) =~= p);
        assert((p + s).subrange((p + s).len() - s.len(), (p + s).len() as int) =~= s);
    }
    assert((p + Seq::<char>::empty()).len() == 21);
}
