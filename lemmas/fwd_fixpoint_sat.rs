// ---------------------------------------------------------------------------
// lemmas/fwd_fixpoint_sat.rs -- SATISFIABILITY WITNESSES of the preconditions of unit `fwd_fixpoint` (nothing here is trusted).
//   (c) FfSatCtx: a toy interprocedural Context<'a> (Value = bool, merge = ||, every transfer = identity) over an arbitrary
//       Graph<'a>: the restated trait IS implementable; lemma_sat_fwd_fixpoint_clone_ok PROVES ff_clone_ok::<bool>() / ::<u8>().
//   (a') verif_sat_fwd_fixpoint_graph BUILDS (DiGraph::new / add_node / add_edge of the shim, no precondition) a graph with one
//       node of every kind and one edge of every kind (three Jump edges: plain, taken CBranch, after an untaken CBranch), in
//       the direction of the CFG builder (rev = false) or reversed (rev = true, for unit bwd_fixpoint);
//       verif_sat_fwd_fixpoint_chain constructs the block / function / jumps from ARBITRARY Tids / Expressions / a name (plain
//       parameters, no `requires`), forms GeneralizedContext<FfSatCtx> on that graph and CALLS update_edge on every edge (inherent
//       = the extracted body, and through the restated trait GeneralFPContext: update_edge_pre / merge_pre), merge on both
//       variants, unwrap_value, merge_option (closure without `requires`), the lemmas of the unit with `requires`
//       (lemma_ff_pre_from_shape, _shape_kept_edge, _shape_kept_merge, lemma_ff_kinds_from_cfg_shape, lemma_ff_pre_on_built,
//       lemma_ff_partition_permutation): Verus checks the REAL `requires` at each call.  Nothing is conditional.
//       verif_sat_fwd_fixpoint_computations: create_computation* and Computation::{new, from_node_priority_list} at the toy.
//   (a') relative to (d): verif_sat_fwd_fixpoint_cfg `requires cfg_key_hyp()` (vstd's uninterpreted obeys_key_model / obeys_cmp,
//       hypothesis of unit cfgbuild) builds a program with ONE function of ONE block without jumps and calls
//       ff_get_program_cfg_shaped (cfg_prog_wf is PROVED for it).
// ---------------------------------------------------------------------------

pub struct FfSatCtx<'a> { pub g: Graph<'a> }

impl<'a> Context<'a> for FfSatCtx<'a> {
    type Value = bool;

    open spec fn graph_spec(&self) -> Graph<'a> { self.g }
    open spec fn merge_spec(&self, value1: bool, value2: bool) -> bool { value1 || value2 }
    open spec fn update_def_spec(&self, value: bool, def: Term<Def>) -> Option<bool> { Some(value) }
    open spec fn update_jump_spec(&self, value: bool, jump: Term<Jmp>, untaken_conditional: Option<Term<Jmp>>, target: Term<Blk>) -> Option<bool> { Some(value) }
    open spec fn update_call_spec(&self, value: bool, call: Term<Jmp>, target: Node<'a>, calling_convention: Option<String>) -> Option<bool> { Some(value) }
    open spec fn update_return_spec(&self, value: Option<bool>, value_before_call: Option<bool>, call_term: Term<Jmp>, return_term: Term<Jmp>, calling_convention: Option<String>) -> Option<bool> { Some(value is Some || value_before_call is Some) }
    open spec fn update_call_stub_spec(&self, value: bool, call: Term<Jmp>) -> Option<bool> { Some(value) }
    open spec fn specialize_conditional_spec(&self, value: bool, condition: Expression, block_before_condition: Term<Blk>, is_true: bool) -> Option<bool> { if is_true { Some(value) } else { None } }

    fn get_graph(&self) -> (r: &Graph<'a>) { &self.g }
    fn merge(&self, value1: &bool, value2: &bool) -> (r: bool) { *value1 || *value2 }
    fn update_def(&self, value: &bool, def: &Term<Def>) -> (r: Option<bool>) { Some(*value) }
    fn update_jump(&self, value: &bool, jump: &Term<Jmp>, untaken_conditional: Option<&Term<Jmp>>, target: &Term<Blk>) -> (r: Option<bool>) { Some(*value) }
    fn update_call(&self, value: &bool, call: &Term<Jmp>, target: &Node<'a>, calling_convention: &Option<String>) -> (r: Option<bool>) { Some(*value) }
    fn update_return(&self, value: Option<&bool>, value_before_call: Option<&bool>, call_term: &Term<Jmp>, return_term: &Term<Jmp>, calling_convention: &Option<String>) -> (r: Option<bool>) { Some(value.is_some() || value_before_call.is_some()) }
    fn update_call_stub(&self, value: &bool, call: &Term<Jmp>) -> (r: Option<bool>) { Some(*value) }
    fn specialize_conditional(&self, value: &bool, condition: &Expression, block_before_condition: &Term<Blk>, is_true: bool) -> (r: Option<bool>) { if is_true { Some(*value) } else { None } }
}

/// (c) the hypothesis on the value type: `clone()` returns its argument -- PROVED at bool and u8 (vstd specifies their clone)
pub proof fn lemma_sat_fwd_fixpoint_clone_ok()
    ensures ff_clone_ok::<bool>(), ff_clone_ok::<u8>(),
{
}

/// endpoints of the toy graph's edge a -> b, or b -> a in the reversed graph
pub open spec fn ff_sat_ends(rev: bool, a: int, b: int) -> (NodeIndex, NodeIndex) {
    if rev { (NodeIndex { i: b as usize }, NodeIndex { i: a as usize }) } else { (NodeIndex { i: a as usize }, NodeIndex { i: b as usize }) }
}

/// THE TOY GRAPH: nodes 0 BlkStart, 1 BlkEnd, 2 CallSource, 3 CallReturn (all of block `blk` in function `sub`); edges (CFG direction)
///   0 Block 0->1, 1 CallCombine 1->2, 2 Call 2->0, 3 CrCallStub 2->3, 4 CrReturnStub 1->3, 5 ReturnCombine 3->0,
///   6 ExternCallStub 1->0, 7 Jump(j, None) 1->0, 8 Jump(jc, None) 1->0, 9 Jump(j, Some(jc)) 1->0
pub open spec fn ff_sat_graph<'a>(g: Graph<'a>, blk: &'a Term<Blk>, sub: &'a Term<Sub>, j: &'a Term<Jmp>, jc: &'a Term<Jmp>, rev: bool) -> bool {
    &&& g.node_count_spec() == 4
    &&& g.node_weight(0) == Node::BlkStart(blk, sub)
    &&& g.node_weight(1) == Node::BlkEnd(blk, sub)
    &&& g.node_weight(2) == Node::CallSource { source: (blk, sub), target: (blk, sub) }
    &&& g.node_weight(3) == Node::CallReturn { call: (blk, sub), return_: (blk, sub) }
    &&& g.edge_seq().len() == 10
    &&& g.edge_seq()[0] == ff_sat_ends(rev, 0, 1) && g.edge_weight(0) == Edge::Block
    &&& g.edge_seq()[1] == ff_sat_ends(rev, 1, 2) && g.edge_weight(1) == Edge::CallCombine(j)
    &&& g.edge_seq()[2] == ff_sat_ends(rev, 2, 0) && g.edge_weight(2) == Edge::Call(j)
    &&& g.edge_seq()[3] == ff_sat_ends(rev, 2, 3) && g.edge_weight(3) == Edge::CrCallStub
    &&& g.edge_seq()[4] == ff_sat_ends(rev, 1, 3) && g.edge_weight(4) == Edge::CrReturnStub
    &&& g.edge_seq()[5] == ff_sat_ends(rev, 3, 0) && g.edge_weight(5) == Edge::ReturnCombine(j)
    &&& g.edge_seq()[6] == ff_sat_ends(rev, 1, 0) && g.edge_weight(6) == Edge::ExternCallStub(j)
    &&& g.edge_seq()[7] == ff_sat_ends(rev, 1, 0) && g.edge_weight(7) == Edge::Jump(j, None)
    &&& g.edge_seq()[8] == ff_sat_ends(rev, 1, 0) && g.edge_weight(8) == Edge::Jump(jc, None)
    &&& g.edge_seq()[9] == ff_sat_ends(rev, 1, 0) && g.edge_weight(9) == Edge::Jump(j, Some(jc))
}

/// (a') the toy graph is BUILT with the shim's constructors (no precondition; add_edge's `requires` is checked here)
pub fn verif_sat_fwd_fixpoint_graph<'a>(blk: &'a Term<Blk>, sub: &'a Term<Sub>, j: &'a Term<Jmp>, jc: &'a Term<Jmp>, rev: bool) -> (g: Graph<'a>)
    ensures ff_sat_graph(g, blk, sub, j, jc, rev),
{
    let mut g: Graph<'a> = DiGraph::new();
    let n0 = g.add_node(Node::BlkStart(blk, sub));
    let n1 = g.add_node(Node::BlkEnd(blk, sub));
    let n2 = g.add_node(Node::CallSource { source: (blk, sub), target: (blk, sub) });
    let n3 = g.add_node(Node::CallReturn { call: (blk, sub), return_: (blk, sub) });
    if rev {
        g.add_edge(n1, n0, Edge::Block);
        g.add_edge(n2, n1, Edge::CallCombine(j));
        g.add_edge(n0, n2, Edge::Call(j));
        g.add_edge(n3, n2, Edge::CrCallStub);
        g.add_edge(n3, n1, Edge::CrReturnStub);
        g.add_edge(n0, n3, Edge::ReturnCombine(j));
        g.add_edge(n0, n1, Edge::ExternCallStub(j));
        g.add_edge(n0, n1, Edge::Jump(j, None));
        g.add_edge(n0, n1, Edge::Jump(jc, None));
        g.add_edge(n0, n1, Edge::Jump(j, Some(jc)));
    } else {
        g.add_edge(n0, n1, Edge::Block);
        g.add_edge(n1, n2, Edge::CallCombine(j));
        g.add_edge(n2, n0, Edge::Call(j));
        g.add_edge(n2, n3, Edge::CrCallStub);
        g.add_edge(n1, n3, Edge::CrReturnStub);
        g.add_edge(n3, n0, Edge::ReturnCombine(j));
        g.add_edge(n1, n0, Edge::ExternCallStub(j));
        g.add_edge(n1, n0, Edge::Jump(j, None));
        g.add_edge(n1, n0, Edge::Jump(jc, None));
        g.add_edge(n1, n0, Edge::Jump(j, Some(jc)));
    }
    g
}

/// the toy graph in CFG direction, over a block with a direct call and a return instruction, has the builder's shape
pub proof fn lemma_sat_fwd_fixpoint_shape<'a>(g: Graph<'a>, blk: &'a Term<Blk>, sub: &'a Term<Sub>, j: &'a Term<Jmp>, jc: &'a Term<Jmp>)
    requires
        ff_sat_graph(g, blk, sub, j, jc, false),
        blk.term.jmps@.len() == 2, blk.term.jmps@[0].term is Call, blk.term.jmps@[1].term is Return,
        jc.term is CBranch,
    ensures
        cfg_graph_shape(g),
{
    assert(cfg_has_call(*blk));
    assert(cfg_has_return_jmp(blk.term.jmps@));
    assert forall |n: int| 0 <= n < g.node_count_spec() implies cfg_node_shape(#[trigger] g.node_weight(n)) by {
        if n == 0 {} else if n == 1 {} else if n == 2 {} else {}
    }
    assert forall |e: int| 0 <= e < g.edge_seq().len() implies
        cfg_edge_shape(cfg_nodes(g), CfgEdge { src: (#[trigger] g.edge_seq()[e]).0, dst: g.edge_seq()[e].1, w: g.edge_weight(e) }) by {
        if e == 0 {} else if e == 1 {} else if e == 2 {} else if e == 3 {} else if e == 4 {} else if e == 5 {} else if e == 6 {}
        else if e == 7 {} else if e == 8 {} else {}
    }
}

/// (a') every contracted function of the unit that speaks about node values / edges is called on the toy graph; the
/// arguments are arbitrary Tids / Expressions / a name / a Def (plain values of transparent types, no `requires`)
#[verifier::exec_allows_no_decreases_clause]
pub fn verif_sat_fwd_fixpoint_chain(t1: Tid, t2: Tid, t3: Tid, t4: Tid, t5: Tid, t6: Tid, t7: Tid, t8: Tid, t9: Tid,
                                    cond: Expression, ret: Expression, name: String, d: Term<Def>)
{
    proof { lemma_sat_fwd_fixpoint_clone_ok(); }
    // a block with one Def and the jumps [direct call, return]; a function; a plain jump and a conditional branch
    let mut defs: Vec<Term<Def>> = Vec::new();
    defs.push(d);
    let mut jmps: Vec<Term<Jmp>> = Vec::new();
    jmps.push(Term { tid: t1, term: Jmp::Call { target: t2, return_: None } });
    jmps.push(Term { tid: t3, term: Jmp::Return(ret) });
    let blk = Term { tid: t4, term: Blk { defs, jmps, indirect_jmp_targets: Vec::new() } };
    let sub = Term { tid: t5, term: Sub { name, blocks: Vec::new(), calling_convention: None } };
    let j = Term { tid: t6, term: Jmp::Branch(t7) };
    let jc = Term { tid: t8, term: Jmp::CBranch { target: t9, condition: cond } };
    let g = verif_sat_fwd_fixpoint_graph(&blk, &sub, &j, &jc, false);
    let ghost gg = g;
    let gc = GeneralizedContext::new(FfSatCtx { g });
    let v: NodeValue<bool> = NodeValue::Value(true);
    let cf: NodeValue<bool> = NodeValue::CallFlowCombinator { call_stub: Some(true), interprocedural_flow: None };
    let cf2: NodeValue<bool> = NodeValue::CallFlowCombinator { call_stub: Some(false), interprocedural_flow: Some(true) };

    // NodeValue::unwrap_value: *self is Value
    let _ = v.unwrap_value();
    // merge_option: forall |a, b| merge.requires((a, b)) -- a closure without `requires`
    let _ = merge_option(&Some(true), &Some(false), |a: &bool, b: &bool| -> (m: bool) { *a || *b });
    let _ = merge_option(&Some(true), &None, |a: &bool, b: &bool| -> (m: bool) { *a && *b });

    // GeneralizedContext::merge (extracted body): ff_clone_ok, equal variants -- both variants
    let _ = gc.merge(&v, &v);
    let _ = gc.merge(&cf, &cf2);
    // ... and through the restated solver-level trait: merge_pre
    let _ = GeneralFPContext::merge(&gc, &v, &v);
    let _ = GeneralFPContext::merge(&gc, &cf2, &cf);

    // GeneralizedContext::update_edge (extracted body): ff_clone_ok, ff_edge_pre -- one call per edge kind
    let _ = gc.update_edge(&v, EdgeIndex { i: 0 });     // Block
    let _ = gc.update_edge(&v, EdgeIndex { i: 1 });     // CallCombine
    let _ = gc.update_edge(&v, EdgeIndex { i: 2 });     // Call
    let _ = gc.update_edge(&v, EdgeIndex { i: 3 });     // CrCallStub
    let _ = gc.update_edge(&v, EdgeIndex { i: 4 });     // CrReturnStub
    let _ = gc.update_edge(&cf, EdgeIndex { i: 5 });    // ReturnCombine (a combinator value; the returned-from block has a jump)
    let _ = gc.update_edge(&v, EdgeIndex { i: 6 });     // ExternCallStub
    let _ = gc.update_edge(&v, EdgeIndex { i: 7 });     // Jump(plain, None)
    let _ = gc.update_edge(&v, EdgeIndex { i: 8 });     // Jump(CBranch, None)
    let _ = gc.update_edge(&v, EdgeIndex { i: 9 });     // Jump(plain, Some(untaken CBranch))
    // ... and through the restated solver-level trait: update_edge_pre
    let _ = GeneralFPContext::update_edge(&gc, &v, EdgeIndex { i: 0 });
    let _ = GeneralFPContext::update_edge(&gc, &cf2, EdgeIndex { i: 5 });
    let _ = GeneralFPContext::get_graph(&gc);

    // the lemmas of the unit that carry `requires`
    proof {
        let c = gc.context;
        assert(c.graph_spec() == gg);
        // the trusted petgraph axiom (edges connect existing nodes, u32 bounds) is in the context of the negative control too
        axiom_cg_digraph_bounds(gg);
        // lemma_ff_pre_from_shape / lemma_ff_shape_kept_edge: edge in range, ff_edge_kinds_ok, ff_shape of the source
        lemma_ff_pre_from_shape(gg, v, 0);
        lemma_ff_pre_from_shape(gg, cf, 5);
        lemma_ff_shape_kept_edge(c, v, 3);
        lemma_ff_shape_kept_edge(c, cf, 5);
        // lemma_ff_shape_kept_merge: both values have the shape of the same node
        lemma_ff_shape_kept_merge(c, gg.node_weight(3), cf, cf2);
        lemma_ff_shape_kept_merge(c, gg.node_weight(0), v, v);
        // lemma_ff_kinds_from_cfg_shape / lemma_ff_pre_on_built: cfg_graph_shape (unit cfgbuild) holds for the toy graph
        lemma_sat_fwd_fixpoint_shape(gg, &blk, &sub, &j, &jc);
        lemma_ff_kinds_from_cfg_shape(gg);
        lemma_ff_pre_on_built(gg, v, 7);
        lemma_ff_pre_on_built(gg, cf2, 5);
    }
}

/// (a') lemma_ff_partition_permutation (`requires ff_partition`) on the components [[1], [0, 2]] of three nodes, and the
/// two auxiliary lemmas on them
pub fn verif_sat_fwd_fixpoint_partition()
{
    let mut c0: Vec<NodeIndex> = Vec::new();
    c0.push(NodeIndex { i: 1 });
    let mut c1: Vec<NodeIndex> = Vec::new();
    c1.push(NodeIndex { i: 0 });
    c1.push(NodeIndex { i: 2 });
    let mut comps: Vec<Vec<NodeIndex>> = Vec::new();
    comps.push(c0);
    comps.push(c1);
    proof {
        assert(comps@[0]@[0].i == 1 && comps@[1]@[0].i == 0 && comps@[1]@[1].i == 2);
        assert(ff_in_comps(comps@, 0)) by { assert(comps@[1]@[0].i == 0); }
        assert(ff_in_comps(comps@, 1)) by { assert(comps@[0]@[0].i == 1); }
        assert(ff_in_comps(comps@, 2)) by { assert(comps@[1]@[1].i == 2); }
        lemma_ff_partition_permutation(comps@, 3);
        lemma_ff_concat_at(comps@, 2, 1, 1);
        let _ = lemma_ff_concat_pos(comps@, 2, 0);
    }
}

/// (a') the constructors of the solver's Computation at the toy context: create_computation* have no precondition;
/// Computation::from_node_priority_list: `requires ff_is_node_permutation` -- with the worklist of create_bottom_up_worklist
pub fn verif_sat_fwd_fixpoint_computations<'a>(blk: &'a Term<Blk>, sub: &'a Term<Sub>, j: &'a Term<Jmp>, jc: &'a Term<Jmp>)
{
    let c1 = create_computation(FfSatCtx { g: verif_sat_fwd_fixpoint_graph(blk, sub, j, jc, false) }, Some(true));
    let c2 = create_computation_with_bottom_up_worklist_order(FfSatCtx { g: verif_sat_fwd_fixpoint_graph(blk, sub, j, jc, false) }, Some(false));
    let c3 = create_computation_with_top_down_worklist_order(FfSatCtx { g: verif_sat_fwd_fixpoint_graph(blk, sub, j, jc, true) }, None);
    let g = verif_sat_fwd_fixpoint_graph(blk, sub, j, jc, false);
    let order = create_top_down_worklist(&g);
    let order2 = create_bottom_up_worklist(&g);
    let gc = GeneralizedContext::new(FfSatCtx { g });
    let _ = gc.get_context();
    let _ = gc.get_graph();
    let c4 = Computation::from_node_priority_list(gc, Some(NodeValue::Value(true)), order);
    let e: Graph<'a> = DiGraph::new();
    let c5 = Computation::new(GeneralizedContext::new(FfSatCtx { g: e }), None);
}

/// cfg_prog_wf (unit cfgbuild) of the program with one function `f` (stored under `k`) whose only block has no jumps
pub proof fn lemma_sat_fwd_fixpoint_prog_wf(subs: Map<Tid, Term<Sub>>, k: Tid, f: Term<Sub>)
    requires
        subs == Map::<Tid, Term<Sub>>::empty().insert(k, f),
        f.term.blocks@.len() == 1,
        f.term.blocks@[0].term.jmps@.len() == 0,
    ensures
        cfg_prog_wf(subs),
{
    assert forall |b: Term<Blk>| #[trigger] cfg_prog_block(subs, b) implies b == f.term.blocks@[0] by {
        let (kk, i) = choose |kk: Tid, i: int| #[trigger] cfg_block_at(subs, kk, i, b);
        assert(kk == k);
    }
}

/// (a') relative to (d) cfg_key_hyp: ff_get_program_cfg_shaped (`requires cfg_key_hyp(), cfg_prog_wf`) on a program with
/// one function of one block (built from the parts of an arbitrary program term: its maps of extern symbols / entry points
/// are kept, its functions are replaced)
pub fn verif_sat_fwd_fixpoint_cfg(p: Term<Program>, k: Tid, t1: Tid, t2: Tid, name: String)
    requires cfg_key_hyp(),
{
    let blk = Term { tid: t1, term: Blk { defs: Vec::new(), jmps: Vec::new(), indirect_jmp_targets: Vec::new() } };
    let mut blocks: Vec<Term<Blk>> = Vec::new();
    blocks.push(blk);
    let f = Term { tid: t2, term: Sub { name, blocks, calling_convention: None } };
    let ghost gf = f;
    let ghost gk = k;
    let mut subs: std::collections::BTreeMap<Tid, Term<Sub>> = std::collections::BTreeMap::new();
    subs.insert(k, f);
    let program = Term { tid: p.tid, term: Program { subs, extern_symbols: p.term.extern_symbols, entry_points: p.term.entry_points, address_base_offset: p.term.address_base_offset } };
    proof { lemma_sat_fwd_fixpoint_prog_wf(program.term.subs@, gk, gf); }
    let g = ff_get_program_cfg_shaped(&program);
}
