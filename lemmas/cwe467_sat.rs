// ---------------------------------------------------------------------------
// lemmas/cwe467_sat.rs -- SATISFIABILITY WITNESSES of unit `cwe467` (nothing here is trusted).
//   No function of /repo contracted in this unit has a precondition (check_for_pointer_sized_arg; @nobody compute_block_end_state,
//   State::eval_parameter_arg: `ensures` only).  The only `requires` met is Bitvector::try_to_u64 (wf(), shim/apint.rs of unit
//   bitvector), discharged in the real function by the TRUSTED `ensures` of Data::try_to_bitvec.
//   (a') verif_sat_cwe467_chain: exec client WITHOUT preconditions over an ARBITRARY project / block / symbol (opaque:
//        parameters); calls the decision function and, step by step, every trusted item it rests on (try_to_u64 also on a
//        constructed value).
//   MODELS of the trusted contracts (each constrains an uninterpreted function):
//     lemma_sat_cwe467_result_eq_model   axiom_c467_result_eq_ok_left: reading `eq_spec` as spec equality `==` and `obeys_eq_spec`
//                                        as true satisfies the `forall` (vstd gives no other meaning to them for Result).
//     lemma_sat_cwe467_try_to_bitvec_model   Data::try_to_bitvec: a result exists EXACTLY when the known value, if any, is
//                                        well-formed -- i.e. the contract says "c467_known_value(d) is Some(v) ==> v.wf()" for
//                                        every d it is called on; nothing else mentions c467_known_value, so e.g. `None` everywhere
//                                        or `Some(bv(64, 8))` everywhere are models.
//     lemma_sat_cwe467_decision_nontrivial   the decided predicate is neither constantly false nor constantly true under such models.
// ---------------------------------------------------------------------------

/// the model of `<Result<u64, Error> as PartialEqSpec>::eq_spec`: spec equality
pub open spec fn c467_sat_eq_model(x: Result<u64, Error>, y: Result<u64, Error>) -> bool { x == y }

/// MODEL of axiom_c467_result_eq_ok_left: spec equality has the property the axiom states of `eq_spec(&Ok(a), &b)`
/// (text of the axiom's `forall`, eq_spec replaced by the model)
pub proof fn lemma_sat_cwe467_result_eq_model()
    ensures
        forall|a: u64, b: Result<u64, Error>|
            #[trigger] c467_sat_eq_model(Ok(a), b) <==> (b is Ok && b->Ok_0 == a),
{
}

/// the `ensures` of the trusted Data::try_to_bitvec with `c467_known_value(*self)` replaced by `kv` (same conjunct order)
pub open spec fn c467_sat_try_to_bitvec_post(kv: Option<Bitvector>, r: Result<Bitvector, Error>) -> bool {
    &&& r is Ok <==> kv is Some
    &&& r is Ok ==> r->Ok_0 == kv->Some_0 && r->Ok_0.wf()
}

/// MODEL of Data::try_to_bitvec: a result exists iff the known value (if any) is well-formed
pub proof fn lemma_sat_cwe467_try_to_bitvec_model(kv: Option<Bitvector>, e: Error)
    ensures
        (kv is Some ==> kv->Some_0.wf()) <==> exists |r: Result<Bitvector, Error>| #[trigger] c467_sat_try_to_bitvec_post(kv, r),
        c467_sat_try_to_bitvec_post(None, Err(e)),
{
    if kv is Some ==> kv->Some_0.wf() {
        let r: Result<Bitvector, Error> = match kv { Some(v) => Ok(v), None => Err(e) };
        assert(c467_sat_try_to_bitvec_post(kv, r));
    }
}

/// the decided predicate takes both truth values for suitable values of the uninterpreted analysis functions
pub proof fn lemma_sat_cwe467_decision_nontrivial(project: Project, block: Term<Blk>, arg: Arg, d: Data)
    requires
        c467_param_value(c467_block_end_state(project, block), arg, project.runtime_memory_image) == Some(d),
    ensures
        c467_known_value(d) == Some(bv(64, 8)) && project.stack_pointer_register.size.0 == 8 ==> c467_param_is_pointer_sized(project, block, arg),
        c467_known_value(d) == Some(bv(64, 4)) && project.stack_pointer_register.size.0 == 8 ==> !c467_param_is_pointer_sized(project, block, arg),
        c467_known_value(d) is None ==> !c467_param_is_pointer_sized(project, block, arg),
{
    vstd::arithmetic::power2::lemma2_to64();   // pow2(64) == 0x1_0000_0000_0000_0000
}

/// (a') the decision function and every trusted item it rests on, called once; no precondition
#[verifier::exec_allows_no_decreases_clause]
pub fn verif_sat_cwe467_chain(project: &Project, block: &Term<Blk>, symbol: &ExternSymbol) -> (r: bool)
{
    let state = compute_block_end_state(project, block);
    if symbol.parameters.len() > 0 {
        if let Ok(param) = state.eval_parameter_arg(&symbol.parameters[0], &project.runtime_memory_image) {
            if let Ok(v) = param.try_to_bitvec() {
                // Bitvector::try_to_u64: wf() -- from the trusted `ensures` of try_to_bitvec
                let _u = v.try_to_u64();
            }
        }
    }
    // Bitvector::try_to_u64: wf() -- on a constructed value
    let _w = Bitvector::from_u64(8).try_to_u64();
    let r = check_for_pointer_sized_arg(project, block, symbol);
    r
}
