// ---------------------------------------------------------------------------
// lemmas/charincl.rs -- proved lemmas of unit `charincl` (property C06, character-inclusion domain).
// ---------------------------------------------------------------------------

/// chars(s + t) = chars(s) u chars(t)
pub proof fn lemma_ci_concat_chars(s: Seq<char>, t: Seq<char>)
    ensures
        forall |c: char| #[trigger] (s + t).contains(c) <==> (s.contains(c) || t.contains(c)),
{
    assert forall |c: char| #[trigger] (s + t).contains(c) <==> (s.contains(c) || t.contains(c)) by {
        if s.contains(c) {
            let i = choose |i: int| 0 <= i < s.len() && s[i] == c;
            assert((s + t)[i] == c);
        }
        if t.contains(c) {
            let i = choose |i: int| 0 <= i < t.len() && t[i] == c;
            assert((s + t)[s.len() + i] == c);
        }
        if (s + t).contains(c) {
            let i = choose |i: int| 0 <= i < (s + t).len() && (s + t)[i] == c;
            if i < s.len() { assert(s[i] == c); } else { assert(t[i - s.len()] == c); }
        }
    }
}

/// the same for all strings at once (entry hint of append_string_domain)
pub proof fn lemma_ci_concat_chars_all()
    ensures
        forall |s: Seq<char>, t: Seq<char>, c: char| #[trigger] (s + t).contains(c) <==> (s.contains(c) || t.contains(c)),
{
    assert forall |s: Seq<char>, t: Seq<char>, c: char| #[trigger] (s + t).contains(c) <==> (s.contains(c) || t.contains(c)) by {
        lemma_ci_concat_chars(s, t);
    }
}

/// a non-empty string contains its first character (entry hint of create_empty_string_domain)
pub proof fn lemma_ci_nonempty_has_char()
    ensures
        forall |s: Seq<char>| #![trigger s.len()] s.len() > 0 ==> s.contains(s[0]),
{
}
