// ---------------------------------------------------------------------------
// lemmas/normalize.rs -- proved lemmas of unit `normalize` (nothing here is trusted).
// ---------------------------------------------------------------------------

/// after a complete iteration the partial "known tids" are the function and block tids of the program
pub proof fn lemma_nz_known_all(s: Seq<(&Tid, &Term<Sub>)>, subs: Map<Tid, Term<Sub>>)
    requires
        nz_iter_of(s, subs),
    ensures
        forall |n: int, t: Tid| n == s.len() ==> (#[trigger] nz_known_n(s, n, -1, t) <==> nz_is_sub(subs, t) || nz_is_blk(subs, t)),
        forall |n: int, m: int, t: Tid| n + 1 == s.len() && m == s[n].1.term.blocks@.len() ==> (#[trigger] nz_known_n(s, n, m, t) <==> nz_is_sub(subs, t) || nz_is_blk(subs, t)),
{
    assert forall |n: int, m: int, t: Tid| n + 1 == s.len() && m == s[n].1.term.blocks@.len() implies (#[trigger] nz_known_n(s, n, m, t) <==> nz_known_n(s, n + 1, -1, t)) by {
        if nz_known_n(s, n, m, t) {
            if exists |i: int| 0 <= n < s.len() && 0 <= i < m && i < s[n].1.term.blocks@.len() && (#[trigger] s[n].1.term.blocks@[i]).tid == t {
                let i = choose |i: int| 0 <= n < s.len() && 0 <= i < m && i < s[n].1.term.blocks@.len() && (#[trigger] s[n].1.term.blocks@[i]).tid == t;
                assert(0 <= n < n + 1 && 0 <= i < s[n].1.term.blocks@.len() && s[n].1.term.blocks@[i].tid == t);
            }
        }
    }
    assert forall |n: int, t: Tid| n == s.len() implies (#[trigger] nz_known_n(s, n, -1, t) <==> nz_is_sub(subs, t) || nz_is_blk(subs, t)) by {
        if nz_known_n(s, s.len() as int, -1, t) {
            if exists |j: int| 0 <= j < s.len() && (#[trigger] s[j]).1.tid == t {
                let j = choose |j: int| 0 <= j < s.len() && (#[trigger] s[j]).1.tid == t;
                assert(subs.contains_key(*s[j].0) && subs[*s[j].0].tid == t);
            } else {
                let (j, i) = choose |j: int, i: int| 0 <= j < s.len() && 0 <= i < (#[trigger] s[j]).1.term.blocks@.len() && #[trigger] s[j].1.term.blocks@[i].tid == t;
                assert(nz_blk_at(subs, *s[j].0, i, t));
            }
        }
        if nz_is_sub(subs, t) {
            let k = choose |k: Tid| #[trigger] subs.contains_key(k) && subs[k].tid == t;
            let j = choose |j: int| 0 <= j < s.len() && *(#[trigger] s[j]).0 == k;
            assert(s[j].1.tid == t);
        }
        if nz_is_blk(subs, t) {
            let (k, i) = choose |k: Tid, i: int| #[trigger] nz_blk_at(subs, k, i, t);
            let j = choose |j: int| 0 <= j < s.len() && *(#[trigger] s[j]).0 == k;
            assert(s[j].1.term.blocks@[i].tid == t);
        }
    }
}

/// a complete iteration lists every key once
pub proof fn lemma_nz_keys_done<V>(s: Seq<(&Tid, &V)>, m: Map<Tid, V>)
    requires
        nz_iter_of(s, m),
    ensures
        forall |ks: Seq<Tid>| ks.len() == s.len() && (forall |j: int| 0 <= j < ks.len() ==> #[trigger] ks[j] == *s[j].0) ==> #[trigger] nz_keys_of(ks, m),
{
    assert forall |ks: Seq<Tid>| ks.len() == s.len() && (forall |j: int| 0 <= j < ks.len() ==> #[trigger] ks[j] == *s[j].0) implies #[trigger] nz_keys_of(ks, m) by {
        assert forall |i: int, j: int| 0 <= i < ks.len() && 0 <= j < ks.len() && i != j implies ks[i] != ks[j] by {
            if ks[i] == ks[j] {
                assert(*s[i].0 == *s[j].0);
                assert(m[*s[i].0] == *s[i].1 && m[*s[j].0] == *s[j].1);
                assert(s[i] == s[j]);
            }
        }
        assert forall |k: Tid| m.contains_key(k) implies exists |i: int| 0 <= i < ks.len() && #[trigger] ks[i] == k by {
            let i = choose |i: int| 0 <= i < s.len() && *(#[trigger] s[i]).0 == k;
            assert(ks[i] == k);
        }
    }
}

/// an owner map makes the tids unique
pub proof fn lemma_nz_owner_unique(owner: Map<Tid, NzPos>, prog: Tid, subs: Map<Tid, Term<Sub>>)
    requires
        nz_owner_of(owner, prog, subs),
    ensures
        nz_unique(prog, subs),
{
}

/// owner facts per function give the owner map of the program
pub proof fn lemma_nz_owner_all(owner: Map<Tid, NzPos>, prog: Tid, subs: Map<Tid, Term<Sub>>)
    requires
        owner.contains_key(prog) && owner[prog] == NzPos::Prog,
        forall |k: Tid| #[trigger] subs.contains_key(k) ==> nz_sub_owned(owner, k, subs[k]),
    ensures
        nz_owner_of(owner, prog, subs),
{
    assert forall |p: NzPos| #[trigger] nz_pos_ok(subs, p) implies owner.contains_key(nz_tid_at(prog, subs, p)) && owner[nz_tid_at(prog, subs, p)] == p by {
        match p {
            NzPos::Prog => {},
            NzPos::Sub(k) => { assert(nz_sub_owned(owner, k, subs[k])); },
            NzPos::Blk(k, i) => { assert(nz_sub_owned(owner, k, subs[k])); assert(nz_blk_owned(owner, k, i, subs[k].term.blocks@[i])); },
            NzPos::Def(k, i, j) => { assert(nz_sub_owned(owner, k, subs[k])); assert(nz_blk_owned(owner, k, i, subs[k].term.blocks@[i])); },
            NzPos::Jmp(k, i, j) => { assert(nz_sub_owned(owner, k, subs[k])); assert(nz_blk_owned(owner, k, i, subs[k].term.blocks@[i])); },
        }
    }
}

/// a NEW tid does not disturb what is owned already
pub proof fn lemma_nz_owned_insert(owner: Map<Tid, NzPos>, t: Tid, p: NzPos)
    requires
        !owner.contains_key(t),
    ensures
        forall |k: Tid, i: int, b: Term<Blk>| #[trigger] nz_blk_owned(owner, k, i, b) ==> nz_blk_owned(owner.insert(t, p), k, i, b),
        forall |k: Tid, s: Term<Sub>| #[trigger] nz_sub_owned(owner, k, s) ==> nz_sub_owned(owner.insert(t, p), k, s),
{
    let o2 = owner.insert(t, p);
    assert forall |k: Tid, i: int, b: Term<Blk>| #[trigger] nz_blk_owned(owner, k, i, b) implies nz_blk_owned(o2, k, i, b) by {
    }
    assert forall |k: Tid, s: Term<Sub>| #[trigger] nz_sub_owned(owner, k, s) implies nz_sub_owned(o2, k, s) by {
        assert forall |i: int| 0 <= i < s.term.blocks@.len() implies nz_blk_owned(o2, k, i, #[trigger] s.term.blocks@[i]) by {
            assert(nz_blk_owned(owner, k, i, s.term.blocks@[i]));
        }
    }
}

/// inserting the tid of a position that is not one of the later function / entry positions keeps those fresh
pub proof fn lemma_nz_later_insert(known: Set<Tid>, prog: Tid, subs0: Map<Tid, Term<Sub>>, ks: Seq<Tid>, n: int, p: NzPos)
    requires
        nz_later_fresh(known, prog, subs0, ks, n),
        nz_pos_ok(subs0, p),
        nz_not_later(p, ks, n),
    ensures
        nz_later_fresh(known.insert(nz_tid_at(prog, subs0, p)), prog, subs0, ks, n),
{
    let t = nz_tid_at(prog, subs0, p);
    assert forall |j: int| n <= j < ks.len() implies
        (nz_alone(prog, subs0, NzPos::Sub(#[trigger] ks[j])) ==> !known.insert(t).contains(subs0[ks[j]].tid))
        && (nz_alone(prog, subs0, NzPos::Blk(ks[j], 0)) ==> !known.insert(t).contains(subs0[ks[j]].term.blocks@[0].tid)) by {
        assert(p != NzPos::Sub(ks[j]) && p != NzPos::Blk(ks[j], 0));
        if nz_alone(prog, subs0, NzPos::Sub(ks[j])) {
            assert(nz_tid_at(prog, subs0, p) != nz_tid_at(prog, subs0, NzPos::Sub(ks[j])));
        }
        if nz_alone(prog, subs0, NzPos::Blk(ks[j], 0)) {
            assert(nz_tid_at(prog, subs0, p) != nz_tid_at(prog, subs0, NzPos::Blk(ks[j], 0)));
        }
    }
}

/// end of the duplicate removal: the per-function facts (in key order) give the postcondition
pub proof fn lemma_nz_dedup_done(ks: Seq<Tid>, prog: Tid, subs0: Map<Tid, Term<Sub>>, subs1: Map<Tid, Term<Sub>>, owner: Map<Tid, NzPos>)
    requires
        nz_keys_of(ks, subs0),
        subs1.dom() =~= subs0.dom(),
        owner.contains_key(prog) && owner[prog] == NzPos::Prog,
        forall |j: int| 0 <= j < ks.len() ==> nz_dedup_sub(subs0[#[trigger] ks[j]], subs1[ks[j]]),
        forall |j: int| 0 <= j < ks.len() && nz_alone(prog, subs0, NzPos::Blk(#[trigger] ks[j], 0)) ==>
            subs1[ks[j]].term.blocks@.len() > 0 && nz_dedup_blk(subs0[ks[j]].term.blocks@[0], subs1[ks[j]].term.blocks@[0]),
        forall |j: int| 0 <= j < ks.len() ==> nz_sub_owned(owner, #[trigger] ks[j], subs1[ks[j]]),
    ensures
        nz_dedup_post(subs0, subs1),
        nz_owner_of(owner, prog, subs1),
        nz_dedup_entries(prog, subs0, subs1),
{
    assert forall |k: Tid| #[trigger] subs0.contains_key(k) implies nz_dedup_sub(subs0[k], subs1[k]) && nz_sub_owned(owner, k, subs1[k])
        && (nz_alone(prog, subs0, NzPos::Blk(k, 0)) ==> subs1[k].term.blocks@.len() > 0 && nz_dedup_blk(subs0[k].term.blocks@[0], subs1[k].term.blocks@[0])) by {
        let j = choose |j: int| 0 <= j < ks.len() && #[trigger] ks[j] == k;
        assert(nz_dedup_sub(subs0[ks[j]], subs1[ks[j]]));
    }
    assert forall |k: Tid| #[trigger] subs1.contains_key(k) implies nz_sub_owned(owner, k, subs1[k]) by {
        assert(subs0.contains_key(k));
    }
    lemma_nz_owner_all(owner, prog, subs1);
}

/// after a complete iteration the partial set of non-returning functions is the set of the program
pub proof fn lemma_nz_nonret_all(s: Seq<(&Tid, &Term<Sub>)>, subs: Map<Tid, Term<Sub>>)
    requires
        nz_iter_of(s, subs),
    ensures
        forall |n: int, t: Tid| n == s.len() ==> (#[trigger] nz_nonret_n(s, n, t) <==> nz_nonret(subs, t)),
{
    assert forall |n: int, t: Tid| n == s.len() implies (#[trigger] nz_nonret_n(s, n, t) <==> nz_nonret(subs, t)) by {
        if nz_nonret_n(s, n, t) {
            let j = choose |j: int| 0 <= j < n && (#[trigger] s[j]).1.tid == t && !nz_blocks_return(s[j].1.term.blocks@) && t != nz_sink_sub();
            assert(subs.contains_key(*s[j].0) && subs[*s[j].0] == *s[j].1);
        }
        if nz_nonret(subs, t) {
            let k = choose |k: Tid| #[trigger] subs.contains_key(k) && subs[k].tid == t && !nz_blocks_return(subs[k].term.blocks@) && t != nz_sink_sub();
            let j = choose |j: int| 0 <= j < s.len() && *(#[trigger] s[j]).0 == k;
            assert(s[j].1.tid == t);
        }
    }
}

/// two block lists with the same tids have the same "has an artificial sink" verdict
pub proof fn lemma_nz_has_sink_same(l0: Seq<Term<Blk>>, l1: Seq<Term<Blk>>, s: Seq<char>)
    requires
        l0.len() == l1.len(),
        forall |i: int| 0 <= i < l0.len() ==> (#[trigger] l1[i]).tid == l0[i].tid,
    ensures
        nz_has_sink(l0, s) == nz_has_sink(l1, s),
{
    if nz_has_sink(l0, s) {
        let i = choose |i: int| 0 <= i < l0.len() && nz_is_sink_blk((#[trigger] l0[i]).tid, s);
        assert(nz_is_sink_blk(l1[i].tid, s));
    }
    if nz_has_sink(l1, s) {
        let i = choose |i: int| 0 <= i < l1.len() && nz_is_sink_blk((#[trigger] l1[i]).tid, s);
        assert(nz_is_sink_blk(l0[i].tid, s));
    }
}

/// coverage is monotone in the map
pub proof fn lemma_nz_cover_mono<V>(m0: Map<Tid, V>, m1: Map<Tid, V>)
    requires
        nz_grows(m0, m1),
    ensures
        forall |b: Term<Blk>| #[trigger] nz_cover_blk(m0, b) ==> nz_cover_blk(m1, b),
        forall |s: Term<Sub>| #[trigger] nz_cover_sub(m0, s) ==> nz_cover_sub(m1, s),
{
    assert forall |s: Term<Sub>| #[trigger] nz_cover_sub(m0, s) implies nz_cover_sub(m1, s) by {
        assert forall |i: int| 0 <= i < s.term.blocks@.len() implies nz_cover_blk(m1, #[trigger] s.term.blocks@[i]) by {
            assert(nz_cover_blk(m0, s.term.blocks@[i]));
        }
    }
}

/// entries that are right + every term covered + unique tids  ==>  the home map of the program
pub proof fn lemma_nz_home_done(home: Map<Tid, Tid>, prog: Tid, subs: Map<Tid, Term<Sub>>)
    requires
        nz_unique(prog, subs),
        nz_home_entries(home, prog, subs),
        forall |k: Tid| #[trigger] subs.contains_key(k) ==> nz_cover_sub(home, subs[k]),
    ensures
        nz_home_ok(home, prog, subs),
{
    assert forall |p: NzPos| #[trigger] nz_pos_ok(subs, p) && !(p is Prog) implies
        home.contains_key(nz_tid_at(prog, subs, p)) && home[nz_tid_at(prog, subs, p)] == subs[nz_pos_key(p)].tid by {
        let k = nz_pos_key(p);
        assert(subs.contains_key(k));
        assert(nz_cover_sub(home, subs[k]));
        match p {
            NzPos::Prog => {},
            NzPos::Sub(k) => {},
            NzPos::Blk(k, i) => { assert(nz_cover_blk(home, subs[k].term.blocks@[i])); },
            NzPos::Def(k, i, j) => { assert(nz_cover_blk(home, subs[k].term.blocks@[i])); },
            NzPos::Jmp(k, i, j) => { assert(nz_cover_blk(home, subs[k].term.blocks@[i])); },
        }
        let t = nz_tid_at(prog, subs, p);
        assert(home.contains_key(t));
        let q = choose |q: NzPos| #[trigger] nz_pos_ok(subs, q) && !(q is Prog) && nz_tid_at(prog, subs, q) == t && home[t] == subs[nz_pos_key(q)].tid;
        assert(p == q);
    }
}

/// worklist bookkeeping
pub broadcast proof fn lemma_nz_in_push(w: Seq<Tid>, x: Tid, u: Tid)
    ensures
        #[trigger] nz_in(w.push(x), u) <==> nz_in(w, u) || u == x,
{
    if nz_in(w, u) {
        let i = choose |i: int| 0 <= i < w.len() && #[trigger] w[i] == u;
        assert(w.push(x)[i] == u);
    }
    if u == x {
        assert(w.push(x)[w.len() as int] == u);
    }
    if nz_in(w.push(x), u) {
        let i = choose |i: int| 0 <= i < w.push(x).len() && #[trigger] w.push(x)[i] == u;
        if i < w.len() { assert(w[i] == u); }
    }
}

pub broadcast proof fn lemma_nz_in_drop_last(w: Seq<Tid>, u: Tid)
    requires
        w.len() > 0,
    ensures
        #[trigger] nz_in(w, u) <==> nz_in(w.drop_last(), u) || u == w.last(),
{
    if nz_in(w, u) {
        let i = choose |i: int| 0 <= i < w.len() && #[trigger] w[i] == u;
        if i < w.len() - 1 { assert(w.drop_last()[i] == u); }
    }
    if nz_in(w.drop_last(), u) {
        let i = choose |i: int| 0 <= i < w.drop_last().len() && #[trigger] w.drop_last()[i] == u;
        assert(w[i] == u);
    }
    if u == w.last() {
        assert(w[w.len() - 1] == u);
    }
}

/// a reachable tid that names another one makes that one reachable
pub proof fn lemma_nz_reach_step(s: Term<Sub>, bm: Map<Tid, &Term<Blk>>, t: Tid, u: Tid)
    requires
        nz_reachable(s, bm, t),
        bm.contains_key(t),
        nz_names(*bm[t], u),
    ensures
        nz_reachable(s, bm, u),
{
    let path = choose |path: Seq<Tid>| #[trigger] nz_path(s, bm, path) && path.last() == t;
    let p2 = path.push(u);
    assert forall |n: int| 0 <= n < p2.len() - 1 implies bm.contains_key(#[trigger] p2[n]) && nz_names(*bm[p2[n]], p2[n + 1]) by {
        if n < path.len() - 1 {
            assert(p2[n] == path[n] && p2[n + 1] == path[n + 1]);
        }
    }
    assert(p2[0] == path[0]);
    assert(nz_path(s, bm, p2));
    assert(p2.last() == u);
}

/// a listed block is reachable
pub proof fn lemma_nz_reach_start(s: Term<Sub>, bm: Map<Tid, &Term<Blk>>, i: int)
    requires
        0 <= i < s.term.blocks@.len(),
    ensures
        nz_reachable(s, bm, s.term.blocks@[i].tid),
{
    let path = Seq::<Tid>::empty().push(s.term.blocks@[i].tid);
    assert(path[0] == s.term.blocks@[i].tid);
    assert(nz_path(s, bm, path));
    assert(path.last() == s.term.blocks@[i].tid);
}

/// taking the last entry off the worklist
pub proof fn lemma_nz_wl_pop(set: Set<Tid>, w: Seq<Tid>, s: Term<Sub>, bm: Map<Tid, &Term<Blk>>)
    requires
        nz_wl_inv(set, w, s, bm, None),
        w.len() > 0,
    ensures
        nz_reachable(s, bm, w.last()),
        set.contains(w.last()) ==> nz_wl_inv(set, w.drop_last(), s, bm, None),
        !set.contains(w.last()) ==> nz_wl_inv(set.insert(w.last()), w.drop_last(), s, bm, Some(w.last())),
{
    reveal(nz_wl_inv);
    let x = w.last();
    let w1 = w.drop_last();
    let set1 = set.insert(x);
    assert(nz_in(w, x)) by { assert(w[w.len() - 1] == x); }
    assert(nz_seen(set, w, x));
    if set.contains(x) {
        assert forall |i: int| 0 <= i < s.term.blocks@.len() implies nz_seen(set, w1, (#[trigger] s.term.blocks@[i]).tid) by {
            assert(nz_seen(set, w, s.term.blocks@[i].tid));
            lemma_nz_in_drop_last(w, s.term.blocks@[i].tid);
        }
        assert forall |t: Tid, u: Tid| set.contains(t) && Some(t) != None::<Tid> && bm.contains_key(t) && #[trigger] nz_names(*bm[t], u) implies nz_seen(set, w1, u) by {
            assert(nz_seen(set, w, u));
            lemma_nz_in_drop_last(w, u);
        }
        assert forall |t: Tid| #[trigger] nz_seen(set, w1, t) implies nz_reachable(s, bm, t) by {
            lemma_nz_in_drop_last(w, t);
            assert(nz_seen(set, w, t));
        }
    } else {
        assert forall |i: int| 0 <= i < s.term.blocks@.len() implies nz_seen(set1, w1, (#[trigger] s.term.blocks@[i]).tid) by {
            assert(nz_seen(set, w, s.term.blocks@[i].tid));
            lemma_nz_in_drop_last(w, s.term.blocks@[i].tid);
        }
        assert forall |t: Tid, u: Tid| set1.contains(t) && Some(t) != Some(x) && bm.contains_key(t) && #[trigger] nz_names(*bm[t], u) implies nz_seen(set1, w1, u) by {
            assert(set.contains(t));
            assert(nz_seen(set, w, u));
            lemma_nz_in_drop_last(w, u);
        }
        assert forall |t: Tid| #[trigger] nz_seen(set1, w1, t) implies nz_reachable(s, bm, t) by {
            lemma_nz_in_drop_last(w, t);
            assert(nz_seen(set, w, t));
        }
    }
}

/// an empty worklist: the set is the set of contained block tids
pub proof fn lemma_nz_wl_done(set: Set<Tid>, w: Seq<Tid>, s: Term<Sub>, bm: Map<Tid, &Term<Blk>>)
    requires
        nz_wl_inv(set, w, s, bm, None),
        w.len() == 0,
    ensures
        nz_contained_ok(set, s, bm),
{
    reveal(nz_wl_inv);
    assert forall |i: int| 0 <= i < s.term.blocks@.len() implies set.contains((#[trigger] s.term.blocks@[i]).tid) by {
        assert(nz_seen(set, w, s.term.blocks@[i].tid));
    }
    assert forall |t: Tid, u: Tid| set.contains(t) && bm.contains_key(t) && #[trigger] nz_names(*bm[t], u) implies set.contains(u) by {
        assert(nz_seen(set, w, u));
    }
    assert forall |t: Tid| #[trigger] set.contains(t) implies nz_reachable(s, bm, t) by {
        assert(nz_seen(set, w, t));
    }
}

/// the block that was being expanded is done: everything it names has been seen
pub proof fn lemma_nz_wl_close(set: Set<Tid>, w: Seq<Tid>, s: Term<Sub>, bm: Map<Tid, &Term<Blk>>, cur: Tid)
    requires
        nz_wl_inv(set, w, s, bm, Some(cur)),
        bm.contains_key(cur) ==> forall |u: Tid| #[trigger] nz_names(*bm[cur], u) ==> nz_seen(set, w, u),
    ensures
        nz_wl_inv(set, w, s, bm, None),
{
    reveal(nz_wl_inv);
}

/// end of generate_sub_tid_to_contained_block_tids_map
pub proof fn lemma_nz_submap_done(s: Seq<(&Tid, &Term<Sub>)>, m: Map<Tid, HashSet<Tid>>, subs: Map<Tid, Term<Sub>>, bm: Map<Tid, &Term<Blk>>)
    requires
        nz_iter_of(s, subs),
        forall |j: int| 0 <= j < s.len() ==> m.contains_key((#[trigger] s[j]).1.tid) && nz_contained_ok(m[s[j].1.tid]@, *s[j].1, bm),
    ensures
        nz_submap_ok(m, subs, bm),
{
    assert forall |k: Tid| #[trigger] subs.contains_key(k) implies m.contains_key(subs[k].tid) && nz_contained_ok(m[subs[k].tid]@, subs[k], bm) by {
        let j = choose |j: int| 0 <= j < s.len() && *(#[trigger] s[j]).0 == k;
        assert(m.contains_key(s[j].1.tid));
    }
}

/// ... quantified over the map (called before the last insertion; the map after it is not nameable there)
pub proof fn lemma_nz_submap_done_all(s: Seq<(&Tid, &Term<Sub>)>, subs: Map<Tid, Term<Sub>>, bm: Map<Tid, &Term<Blk>>)
    requires
        nz_iter_of(s, subs),
    ensures
        forall |m: Map<Tid, HashSet<Tid>>| (forall |j: int| 0 <= j < s.len() ==> m.contains_key((#[trigger] s[j]).1.tid) && nz_contained_ok(m[s[j].1.tid]@, *s[j].1, bm))
            ==> #[trigger] nz_submap_ok(m, subs, bm),
{
    assert forall |m: Map<Tid, HashSet<Tid>>| (forall |j: int| 0 <= j < s.len() ==> m.contains_key((#[trigger] s[j]).1.tid) && nz_contained_ok(m[s[j].1.tid]@, *s[j].1, bm))
        implies #[trigger] nz_submap_ok(m, subs, bm) by {
        lemma_nz_submap_done(s, m, subs, bm);
    }
}

/// the worklist starts with the tids of the listed blocks
pub proof fn lemma_nz_wl_init(w: Seq<Tid>, s: Term<Sub>, bm: Map<Tid, &Term<Blk>>)
    requires
        w.len() == s.term.blocks@.len(),
        forall |i: int| 0 <= i < w.len() ==> #[trigger] w[i] == s.term.blocks@[i].tid,
    ensures
        nz_wl_inv(Set::<Tid>::empty(), w, s, bm, None),
{
    reveal(nz_wl_inv);
    let set = Set::<Tid>::empty();
    assert forall |i: int| 0 <= i < s.term.blocks@.len() implies nz_seen(set, w, (#[trigger] s.term.blocks@[i]).tid) by {
        assert(w[i] == s.term.blocks@[i].tid);
    }
    assert forall |t: Tid| #[trigger] nz_seen(set, w, t) implies nz_reachable(s, bm, t) by {
        let i = choose |i: int| 0 <= i < w.len() && #[trigger] w[i] == t;
        lemma_nz_reach_start(s, bm, i);
    }
}

/// one more reachable tid on the worklist
pub proof fn lemma_nz_wl_push(set: Set<Tid>, w: Seq<Tid>, s: Term<Sub>, bm: Map<Tid, &Term<Blk>>, cur: Option<Tid>, u: Tid)
    requires
        nz_wl_inv(set, w, s, bm, cur),
        nz_reachable(s, bm, u),
    ensures
        nz_wl_inv(set, w.push(u), s, bm, cur),
{
    reveal(nz_wl_inv);
    let w1 = w.push(u);
    assert forall |t: Tid| nz_seen(set, w, t) implies #[trigger] nz_seen(set, w1, t) by { lemma_nz_in_push(w, u, t); }
    assert forall |t: Tid| #[trigger] nz_seen(set, w1, t) implies nz_seen(set, w, t) || t == u by { lemma_nz_in_push(w, u, t); }
    assert forall |i: int| 0 <= i < s.term.blocks@.len() implies nz_seen(set, w1, (#[trigger] s.term.blocks@[i]).tid) by {
        assert(nz_seen(set, w, s.term.blocks@[i].tid));
    }
    assert forall |t: Tid, x: Tid| set.contains(t) && Some(t) != cur && bm.contains_key(t) && #[trigger] nz_names(*bm[t], x) implies nz_seen(set, w1, x) by {
        assert(nz_seen(set, w, x));
    }
}

/// the tid being expanded is reachable (it is in the set)
pub proof fn lemma_nz_wl_reach(set: Set<Tid>, w: Seq<Tid>, s: Term<Sub>, bm: Map<Tid, &Term<Blk>>, cur: Option<Tid>, t: Tid)
    requires
        nz_wl_inv(set, w, s, bm, cur),
        set.contains(t),
    ensures
        nz_reachable(s, bm, t),
{
    reveal(nz_wl_inv);
    assert(nz_seen(set, w, t));
}

/// end of the inner loop of duplicate_blocks_contained_in_several_subs: a complete iteration over the set
pub proof fn lemma_nz_additional_done(v: Seq<Term<Blk>>, src: Seq<Tid>, pos: Seq<int>, it: Seq<&Tid>, contained: Set<Tid>, f: Tid, home: Map<Tid, Tid>, bm: Map<Tid, &Term<Blk>>)
    requires
        nz_additional_n(v, src, pos, it, it.len() as int, f, home, bm),
        it.no_duplicates(),
        forall |j: int| 0 <= j < it.len() ==> contained.contains(*#[trigger] it[j]),
        forall |t: Tid| contained.contains(t) ==> exists |j: int| 0 <= j < it.len() && *#[trigger] it[j] == t,
    ensures
        nz_additional(v, src, contained, f, home, bm),
{
    assert forall |i: int, j: int| 0 <= i < j < src.len() implies #[trigger] src[i] != #[trigger] src[j] by {
        assert(pos[i] < pos[j]);
        if src[i] == src[j] {
            assert(*it[pos[i]] == *it[pos[j]]);
            assert(it[pos[i]] == it[pos[j]]);
        }
    }
    assert forall |i: int| 0 <= i < src.len() implies contained.contains(#[trigger] src[i]) by {
        assert(*it[pos[i]] == src[i]);
    }
    assert forall |t: Tid| contained.contains(t) && !nz_home_is(home, t, f) implies nz_in(src, t) by {
        let j = choose |j: int| 0 <= j < it.len() && *#[trigger] it[j] == t;
        assert(nz_in(src, *it[j]));
    }
}

/// ... quantified over the state at the end of the iteration (called at the head of the loop body)
pub proof fn lemma_nz_additional_done_all(it: Seq<&Tid>, contained: Set<Tid>, f: Tid, home: Map<Tid, Tid>, bm: Map<Tid, &Term<Blk>>)
    requires
        it.no_duplicates(),
        forall |j: int| 0 <= j < it.len() ==> contained.contains(*#[trigger] it[j]),
        forall |t: Tid| contained.contains(t) ==> exists |j: int| 0 <= j < it.len() && *#[trigger] it[j] == t,
    ensures
        forall |v: Seq<Term<Blk>>, src: Seq<Tid>, pos: Seq<int>, n: int| n == it.len() && #[trigger] nz_additional_n(v, src, pos, it, n, f, home, bm)
            ==> nz_additional_ok(v, contained, f, home, bm),
{
    assert forall |v: Seq<Term<Blk>>, src: Seq<Tid>, pos: Seq<int>, n: int| n == it.len() && #[trigger] nz_additional_n(v, src, pos, it, n, f, home, bm)
        implies nz_additional_ok(v, contained, f, home, bm) by {
        lemma_nz_additional_done(v, src, pos, it, contained, f, home, bm);
    }
}

/// end of duplicate_blocks_contained_in_several_subs
pub proof fn lemma_nz_addmap_done_all(s: Seq<(&Tid, &Term<Sub>)>, subs: Map<Tid, Term<Sub>>, sm: Map<Tid, HashSet<Tid>>, home: Map<Tid, Tid>, bm: Map<Tid, &Term<Blk>>)
    requires
        nz_iter_of(s, subs),
    ensures
        forall |m: Map<Tid, Vec<Term<Blk>>>| (forall |j: int| 0 <= j < s.len() ==> m.contains_key((#[trigger] s[j]).1.tid)
                && nz_additional_ok(m[s[j].1.tid]@, sm[s[j].1.tid]@, s[j].1.tid, home, bm))
            ==> #[trigger] nz_addmap_ok(m, subs, sm, home, bm),
{
    assert forall |m: Map<Tid, Vec<Term<Blk>>>| (forall |j: int| 0 <= j < s.len() ==> m.contains_key((#[trigger] s[j]).1.tid)
                && nz_additional_ok(m[s[j].1.tid]@, sm[s[j].1.tid]@, s[j].1.tid, home, bm))
        implies #[trigger] nz_addmap_ok(m, subs, sm, home, bm) by {
        assert forall |k: Tid| #[trigger] subs.contains_key(k) implies m.contains_key(subs[k].tid)
            && nz_additional_ok(m[subs[k].tid]@, sm[subs[k].tid]@, subs[k].tid, home, bm) by {
            let j = choose |j: int| 0 <= j < s.len() && *(#[trigger] s[j]).0 == k;
            assert(m.contains_key(s[j].1.tid));
        }
    }
}

/// vstd gives, for the ghost sequence of `set.iter()`: no duplicates, as long as the set, every member occurs.  By
/// cardinality every element of the sequence is then a member.  (broadcast: makes nz_set_iter_of available at loop entry)
pub broadcast proof fn lemma_nz_set_iter_complete(s: Seq<&Tid>, set: Set<Tid>)
    requires
        s.no_duplicates(),
        s.len() == set.len(),
        forall |k: Tid| set.contains(k) ==> s.contains(&k),
    ensures
        #[trigger] nz_set_iter_of(s, set),
{
    let t = s.map_values(|k: &Tid| *k);
    assert(t.no_duplicates()) by {
        assert forall |i: int, j: int| 0 <= i < t.len() && 0 <= j < t.len() && i != j implies t[i] != t[j] by {
            assert(s[i] != s[j]);
        }
    }
    t.unique_seq_to_set();
    assert(set.subset_of(t.to_set())) by {
        assert forall |k: Tid| set.contains(k) implies t.to_set().contains(k) by {
            assert(s.contains(&k));
            let i = choose |i: int| 0 <= i < s.len() && s[i] == &k;
            assert(t[i] == k);
            assert(t.contains(k));
        }
    }
    vstd::set_lib::lemma_subset_equality(set, t.to_set());
    assert forall |i: int| 0 <= i < s.len() implies set.contains(*#[trigger] s[i]) by {
        assert(t[i] == *s[i]);
        assert(t.contains(t[i]));
        assert(t.to_set().contains(t[i]));
    }
    assert forall |k: Tid| set.contains(k) implies exists |i: int| 0 <= i < s.len() && *#[trigger] s[i] == k by {
        assert(s.contains(&k));
        let i = choose |i: int| 0 <= i < s.len() && s[i] == &k;
        assert(*s[i] == k);
    }
}

/// an empty set of contained blocks needs no additional blocks (makes the exit clause hold on loop entry)
pub proof fn lemma_nz_additional_empty(contained: Set<Tid>, f: Tid, home: Map<Tid, Tid>, bm: Map<Tid, &Term<Blk>>)
    ensures
        contained.len() == 0 ==> nz_additional_ok(Seq::<Term<Blk>>::empty(), contained, f, home, bm),
{
    if contained.len() == 0 {
        assert forall |t: Tid| !contained.contains(t) by {
            if contained.contains(t) {
                assert(contained.remove(t).len() < contained.len());
            }
        }
        assert(nz_additional(Seq::<Term<Blk>>::empty(), Seq::<Tid>::empty(), contained, f, home, bm));
    }
}

/// every contained tid is the tid of a block (when every tid a block names is one)
pub proof fn lemma_nz_contained_blocks(subs: Map<Tid, Term<Sub>>, bm: Map<Tid, &Term<Blk>>, k: Tid, set: Set<Tid>)
    requires
        subs.contains_key(k),
        nz_blkmap_ok(bm, subs),
        nz_names_closed(subs),
        nz_contained_ok(set, subs[k], bm),
    ensures
        forall |t: Tid| #[trigger] set.contains(t) ==> nz_is_blk(subs, t) && bm.contains_key(t),
{
    assert forall |t: Tid| #[trigger] set.contains(t) implies nz_is_blk(subs, t) && bm.contains_key(t) by {
        let path = choose |path: Seq<Tid>| #[trigger] nz_path(subs[k], bm, path) && path.last() == t;
        lemma_nz_path_blocks(subs, bm, k, path, path.len() - 1);
    }
}

/// ... by induction along the path
pub proof fn lemma_nz_path_blocks(subs: Map<Tid, Term<Sub>>, bm: Map<Tid, &Term<Blk>>, k: Tid, path: Seq<Tid>, n: int)
    requires
        subs.contains_key(k),
        nz_blkmap_ok(bm, subs),
        nz_names_closed(subs),
        nz_path(subs[k], bm, path),
        0 <= n < path.len(),
    ensures
        nz_is_blk(subs, path[n]) && bm.contains_key(path[n]),
    decreases n
{
    if n == 0 {
        let i = choose |i: int| 0 <= i < subs[k].term.blocks@.len() && (#[trigger] subs[k].term.blocks@[i]).tid == path[0];
        assert(nz_blk_at(subs, k, i, subs[k].term.blocks@[i].tid));
    } else {
        lemma_nz_path_blocks(subs, bm, k, path, n - 1);
        let t = path[n - 1];
        assert(bm.contains_key(t) && nz_names(*bm[t], path[n]));
        let (k2, i2) = choose |k2: Tid, i2: int| #[trigger] nz_blk_at(subs, k2, i2, t) && *bm[t] == subs[k2].term.blocks@[i2];
        assert(nz_blk_at(subs, k2, i2, subs[k2].term.blocks@[i2].tid));
        assert(nz_names(subs[k2].term.blocks@[i2], path[n]));
        assert(nz_is_blk(subs, path[n]));
        let (k3, i3) = choose |k3: Tid, i3: int| #[trigger] nz_blk_at(subs, k3, i3, path[n]);
        assert(nz_blk_at(subs, k3, i3, subs[k3].term.blocks@[i3].tid));
    }
}

/// unique tids: functions under different keys have different tids
pub proof fn lemma_nz_unique_subs_distinct(prog: Tid, subs: Map<Tid, Term<Sub>>)
    requires
        nz_unique(prog, subs),
    ensures
        nz_sub_tids_distinct(subs),
{
    assert forall |k1: Tid, k2: Tid| #[trigger] subs.contains_key(k1) && #[trigger] subs.contains_key(k2) && subs[k1].tid == subs[k2].tid implies k1 == k2 by {
        assert(nz_pos_ok(subs, NzPos::Sub(k1)) && nz_pos_ok(subs, NzPos::Sub(k2)));
        assert(nz_tid_at(prog, subs, NzPos::Sub(k1)) == nz_tid_at(prog, subs, NzPos::Sub(k2)));
    }
}

/// the two `unwrap()`s of duplicate_blocks_contained_in_several_subs succeed
pub proof fn lemma_nz_dup_pre(subs: Map<Tid, Term<Sub>>, sm: Map<Tid, HashSet<Tid>>, home: Map<Tid, Tid>, bm: Map<Tid, &Term<Blk>>)
    requires
        nz_blkmap_ok(bm, subs),
        nz_names_closed(subs),
        nz_submap_ok(sm, subs, bm),
    ensures
        nz_dup_pre(subs, sm, home, bm),
{
    assert forall |k: Tid| #[trigger] subs.contains_key(k) implies sm.contains_key(subs[k].tid)
        && forall |t: Tid| #[trigger] sm[subs[k].tid]@.contains(t) && !nz_home_is(home, t, subs[k].tid) ==> bm.contains_key(t) by {
        lemma_nz_contained_blocks(subs, bm, k, sm[subs[k].tid]@);
    }
}

/// make_block_to_sub_mapping_unique: appending the additional blocks, then redirecting the named tids, gives the shape
pub proof fn lemma_nz_uniq_compose(ks: Seq<Tid>, subs0: Map<Tid, Term<Sub>>, mid: Map<Tid, Term<Sub>>, subs1: Map<Tid, Term<Sub>>,
                                   add0: Map<Tid, Vec<Term<Blk>>>, home: Map<Tid, Tid>, bm: Map<Tid, &Term<Blk>>, sm: Map<Tid, HashSet<Tid>>)
    requires
        nz_keys_of(ks, subs0),
        mid.dom() =~= subs0.dom(),
        forall |j: int| 0 <= j < ks.len() ==> nz_appended(subs0[#[trigger] ks[j]], mid[ks[j]], add0[subs0[ks[j]].tid]@),
        nz_addmap_ok(add0, subs0, sm, home, bm),
        nz_resfx_post(mid, subs1, home),
    ensures
        nz_uniq_shape(subs0, subs1, home, bm, sm),
{
    assert forall |k: Tid| #[trigger] subs0.contains_key(k) implies nz_uniq_sub(subs0[k], subs1[k], sm[subs0[k].tid]@, home, bm) by {
        let j = choose |j: int| 0 <= j < ks.len() && #[trigger] ks[j] == k;
        let add = add0[subs0[k].tid]@;
        assert(nz_appended(subs0[ks[j]], mid[ks[j]], add));
        assert(mid.contains_key(k));
        assert(nz_resfx_sub(mid[k], subs1[k], home));
        assert(nz_additional_ok(add, sm[subs0[k].tid]@, subs0[k].tid, home, bm));
        assert(mid[k].term.blocks@ == subs0[k].term.blocks@ + add);
        assert(nz_resfx_blks(subs0[k].term.blocks@ + add, subs1[k].term.blocks@, subs0[k].tid, home));
    }
}
