// ---------------------------------------------------------------------------
// lemmas/normalize.rs -- proved lemmas of unit `normalize` (nothing here is trusted).
// ---------------------------------------------------------------------------

/// after a complete iteration the partial "known tids" are the function and block tids of the program
pub proof fn lemma_nz_known_all(s: Seq<(&Tid, &Term<Sub>)>, subs: Map<Tid, Term<Sub>>)
    requires
        nz_iter_of(s, subs),
    ensures
        forall |n: int, t: Tid| n == s.len() ==> (#[trigger] nz_known_n(s, n, -1, t) <==> nz_is_sub(subs, t) || nz_is_blk(subs, t)),
{
    assert forall |n: int, t: Tid| n == s.len() implies (#[trigger] nz_known_n(s, n, -1, t) <==> nz_is_sub(subs, t) || nz_is_blk(subs, t)) by {
        if nz_known_n(s, s.len() as int, -1, t) {
            if exists |j: int| 0 <= j < s.len() && (#[trigger] s[j]).1.tid == t {
                let j = choose |j: int| 0 <= j < s.len() && (#[trigger] s[j]).1.tid == t;
                assert(subs.contains_key(*s[j].0) && subs[*s[j].0].tid == t);
            } else {
                let (j, i) = choose |j: int, i: int| 0 <= j < s.len() && 0 <= i < (#[trigger] s[j]).1.term.blocks@.len() && #[trigger] s[j].1.term.blocks@[i].tid == t;
                assert(nz_blk_at(subs, *s[j].0, i, t));
            }
        }
        if nz_is_sub(subs, t) {
            let k = choose |k: Tid| #[trigger] subs.contains_key(k) && subs[k].tid == t;
            let j = choose |j: int| 0 <= j < s.len() && *(#[trigger] s[j]).0 == k;
            assert(s[j].1.tid == t);
        }
        if nz_is_blk(subs, t) {
            let (k, i) = choose |k: Tid, i: int| #[trigger] nz_blk_at(subs, k, i, t);
            let j = choose |j: int| 0 <= j < s.len() && *(#[trigger] s[j]).0 == k;
            assert(s[j].1.term.blocks@[i].tid == t);
        }
    }
}
