// ---------------------------------------------------------------------------
// lemmas/normalize.rs -- proved lemmas of unit `normalize` (nothing here is trusted).
// ---------------------------------------------------------------------------

/// after a complete iteration the partial "known tids" are the function and block tids of the program
pub proof fn lemma_nz_known_all(s: Seq<(&Tid, &Term<Sub>)>, subs: Map<Tid, Term<Sub>>)
    requires
        nz_iter_of(s, subs),
    ensures
        forall |n: int, t: Tid| n == s.len() ==> (#[trigger] nz_known_n(s, n, -1, t) <==> nz_is_sub(subs, t) || nz_is_blk(subs, t)),
        forall |n: int, m: int, t: Tid| n + 1 == s.len() && m == s[n].1.term.blocks@.len() ==> (#[trigger] nz_known_n(s, n, m, t) <==> nz_is_sub(subs, t) || nz_is_blk(subs, t)),
{
    assert forall |n: int, m: int, t: Tid| n + 1 == s.len() && m == s[n].1.term.blocks@.len() implies (#[trigger] nz_known_n(s, n, m, t) <==> nz_known_n(s, n + 1, -1, t)) by {
        if nz_known_n(s, n, m, t) {
            if exists |i: int| 0 <= n < s.len() && 0 <= i < m && i < s[n].1.term.blocks@.len() && (#[trigger] s[n].1.term.blocks@[i]).tid == t {
                let i = choose |i: int| 0 <= n < s.len() && 0 <= i < m && i < s[n].1.term.blocks@.len() && (#[trigger] s[n].1.term.blocks@[i]).tid == t;
                assert(0 <= n < n + 1 && 0 <= i < s[n].1.term.blocks@.len() && s[n].1.term.blocks@[i].tid == t);
            }
        }
    }
    assert forall |n: int, t: Tid| n == s.len() implies (#[trigger] nz_known_n(s, n, -1, t) <==> nz_is_sub(subs, t) || nz_is_blk(subs, t)) by {
        if nz_known_n(s, s.len() as int, -1, t) {
            if exists |j: int| 0 <= j < s.len() && (#[trigger] s[j]).1.tid == t {
                let j = choose |j: int| 0 <= j < s.len() && (#[trigger] s[j]).1.tid == t;
                assert(subs.contains_key(*s[j].0) && subs[*s[j].0].tid == t);
            } else {
                let (j, i) = choose |j: int, i: int| 0 <= j < s.len() && 0 <= i < (#[trigger] s[j]).1.term.blocks@.len() && #[trigger] s[j].1.term.blocks@[i].tid == t;
                assert(nz_blk_at(subs, *s[j].0, i, t));
            }
        }
        if nz_is_sub(subs, t) {
            let k = choose |k: Tid| #[trigger] subs.contains_key(k) && subs[k].tid == t;
            let j = choose |j: int| 0 <= j < s.len() && *(#[trigger] s[j]).0 == k;
            assert(s[j].1.tid == t);
        }
        if nz_is_blk(subs, t) {
            let (k, i) = choose |k: Tid, i: int| #[trigger] nz_blk_at(subs, k, i, t);
            let j = choose |j: int| 0 <= j < s.len() && *(#[trigger] s[j]).0 == k;
            assert(s[j].1.term.blocks@[i].tid == t);
        }
    }
}

/// a complete iteration lists every key once
pub proof fn lemma_nz_keys_done<V>(s: Seq<(&Tid, &V)>, m: Map<Tid, V>)
    requires
        nz_iter_of(s, m),
    ensures
        forall |ks: Seq<Tid>| ks.len() == s.len() && (forall |j: int| 0 <= j < ks.len() ==> #[trigger] ks[j] == *s[j].0) ==> #[trigger] nz_keys_of(ks, m),
{
    assert forall |ks: Seq<Tid>| ks.len() == s.len() && (forall |j: int| 0 <= j < ks.len() ==> #[trigger] ks[j] == *s[j].0) implies #[trigger] nz_keys_of(ks, m) by {
        assert forall |i: int, j: int| 0 <= i < ks.len() && 0 <= j < ks.len() && i != j implies ks[i] != ks[j] by {
            if ks[i] == ks[j] {
                assert(*s[i].0 == *s[j].0);
                assert(m[*s[i].0] == *s[i].1 && m[*s[j].0] == *s[j].1);
                assert(s[i] == s[j]);
            }
        }
        assert forall |k: Tid| m.contains_key(k) implies exists |i: int| 0 <= i < ks.len() && #[trigger] ks[i] == k by {
            let i = choose |i: int| 0 <= i < s.len() && *(#[trigger] s[i]).0 == k;
            assert(ks[i] == k);
        }
    }
}
