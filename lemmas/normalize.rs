// ---------------------------------------------------------------------------
// lemmas/normalize.rs -- proved lemmas of unit `normalize` (nothing here is trusted).
// ---------------------------------------------------------------------------

/// after a complete iteration the partial "known tids" are the function and block tids of the program
pub proof fn lemma_nz_known_all(s: Seq<(&Tid, &Term<Sub>)>, subs: Map<Tid, Term<Sub>>)
    requires
        nz_iter_of(s, subs),
    ensures
        forall |n: int, t: Tid| n == s.len() ==> (#[trigger] nz_known_n(s, n, -1, t) <==> nz_is_sub(subs, t) || nz_is_blk(subs, t)),
        forall |n: int, m: int, t: Tid| n + 1 == s.len() && m == s[n].1.term.blocks@.len() ==> (#[trigger] nz_known_n(s, n, m, t) <==> nz_is_sub(subs, t) || nz_is_blk(subs, t)),
{
    assert forall |n: int, m: int, t: Tid| n + 1 == s.len() && m == s[n].1.term.blocks@.len() implies (#[trigger] nz_known_n(s, n, m, t) <==> nz_known_n(s, n + 1, -1, t)) by {
        if nz_known_n(s, n, m, t) {
            if exists |i: int| 0 <= n < s.len() && 0 <= i < m && i < s[n].1.term.blocks@.len() && (#[trigger] s[n].1.term.blocks@[i]).tid == t {
                let i = choose |i: int| 0 <= n < s.len() && 0 <= i < m && i < s[n].1.term.blocks@.len() && (#[trigger] s[n].1.term.blocks@[i]).tid == t;
                assert(0 <= n < n + 1 && 0 <= i < s[n].1.term.blocks@.len() && s[n].1.term.blocks@[i].tid == t);
            }
        }
    }
    assert forall |n: int, t: Tid| n == s.len() implies (#[trigger] nz_known_n(s, n, -1, t) <==> nz_is_sub(subs, t) || nz_is_blk(subs, t)) by {
        if nz_known_n(s, s.len() as int, -1, t) {
            if exists |j: int| 0 <= j < s.len() && (#[trigger] s[j]).1.tid == t {
                let j = choose |j: int| 0 <= j < s.len() && (#[trigger] s[j]).1.tid == t;
                assert(subs.contains_key(*s[j].0) && subs[*s[j].0].tid == t);
            } else {
                let (j, i) = choose |j: int, i: int| 0 <= j < s.len() && 0 <= i < (#[trigger] s[j]).1.term.blocks@.len() && #[trigger] s[j].1.term.blocks@[i].tid == t;
                assert(nz_blk_at(subs, *s[j].0, i, t));
            }
        }
        if nz_is_sub(subs, t) {
            let k = choose |k: Tid| #[trigger] subs.contains_key(k) && subs[k].tid == t;
            let j = choose |j: int| 0 <= j < s.len() && *(#[trigger] s[j]).0 == k;
            assert(s[j].1.tid == t);
        }
        if nz_is_blk(subs, t) {
            let (k, i) = choose |k: Tid, i: int| #[trigger] nz_blk_at(subs, k, i, t);
            let j = choose |j: int| 0 <= j < s.len() && *(#[trigger] s[j]).0 == k;
            assert(s[j].1.term.blocks@[i].tid == t);
        }
    }
}

/// a complete iteration lists every key once
pub proof fn lemma_nz_keys_done<V>(s: Seq<(&Tid, &V)>, m: Map<Tid, V>)
    requires
        nz_iter_of(s, m),
    ensures
        forall |ks: Seq<Tid>| ks.len() == s.len() && (forall |j: int| 0 <= j < ks.len() ==> #[trigger] ks[j] == *s[j].0) ==> #[trigger] nz_keys_of(ks, m),
{
    assert forall |ks: Seq<Tid>| ks.len() == s.len() && (forall |j: int| 0 <= j < ks.len() ==> #[trigger] ks[j] == *s[j].0) implies #[trigger] nz_keys_of(ks, m) by {
        assert forall |i: int, j: int| 0 <= i < ks.len() && 0 <= j < ks.len() && i != j implies ks[i] != ks[j] by {
            if ks[i] == ks[j] {
                assert(*s[i].0 == *s[j].0);
                assert(m[*s[i].0] == *s[i].1 && m[*s[j].0] == *s[j].1);
                assert(s[i] == s[j]);
            }
        }
        assert forall |k: Tid| m.contains_key(k) implies exists |i: int| 0 <= i < ks.len() && #[trigger] ks[i] == k by {
            let i = choose |i: int| 0 <= i < s.len() && *(#[trigger] s[i]).0 == k;
            assert(ks[i] == k);
        }
    }
}

/// an owner map makes the tids unique
pub proof fn lemma_nz_owner_unique(owner: Map<Tid, NzPos>, prog: Tid, subs: Map<Tid, Term<Sub>>)
    requires
        nz_owner_of(owner, prog, subs),
    ensures
        nz_unique(prog, subs),
{
}

/// owner facts per function give the owner map of the program
pub proof fn lemma_nz_owner_all(owner: Map<Tid, NzPos>, prog: Tid, subs: Map<Tid, Term<Sub>>)
    requires
        owner.contains_key(prog) && owner[prog] == NzPos::Prog,
        forall |k: Tid| #[trigger] subs.contains_key(k) ==> nz_sub_owned(owner, k, subs[k]),
    ensures
        nz_owner_of(owner, prog, subs),
{
    assert forall |p: NzPos| #[trigger] nz_pos_ok(subs, p) implies owner.contains_key(nz_tid_at(prog, subs, p)) && owner[nz_tid_at(prog, subs, p)] == p by {
        match p {
            NzPos::Prog => {},
            NzPos::Sub(k) => { assert(nz_sub_owned(owner, k, subs[k])); },
            NzPos::Blk(k, i) => { assert(nz_sub_owned(owner, k, subs[k])); assert(nz_blk_owned(owner, k, i, subs[k].term.blocks@[i])); },
            NzPos::Def(k, i, j) => { assert(nz_sub_owned(owner, k, subs[k])); assert(nz_blk_owned(owner, k, i, subs[k].term.blocks@[i])); },
            NzPos::Jmp(k, i, j) => { assert(nz_sub_owned(owner, k, subs[k])); assert(nz_blk_owned(owner, k, i, subs[k].term.blocks@[i])); },
        }
    }
}

/// a NEW tid does not disturb what is owned already
pub proof fn lemma_nz_owned_insert(owner: Map<Tid, NzPos>, t: Tid, p: NzPos)
    requires
        !owner.contains_key(t),
    ensures
        forall |k: Tid, i: int, b: Term<Blk>| #[trigger] nz_blk_owned(owner, k, i, b) ==> nz_blk_owned(owner.insert(t, p), k, i, b),
        forall |k: Tid, s: Term<Sub>| #[trigger] nz_sub_owned(owner, k, s) ==> nz_sub_owned(owner.insert(t, p), k, s),
{
    let o2 = owner.insert(t, p);
    assert forall |k: Tid, i: int, b: Term<Blk>| #[trigger] nz_blk_owned(owner, k, i, b) implies nz_blk_owned(o2, k, i, b) by {
    }
    assert forall |k: Tid, s: Term<Sub>| #[trigger] nz_sub_owned(owner, k, s) implies nz_sub_owned(o2, k, s) by {
        assert forall |i: int| 0 <= i < s.term.blocks@.len() implies nz_blk_owned(o2, k, i, #[trigger] s.term.blocks@[i]) by {
            assert(nz_blk_owned(owner, k, i, s.term.blocks@[i]));
        }
    }
}

/// inserting the tid of a position that is not one of the later function / entry positions keeps those fresh
pub proof fn lemma_nz_later_insert(known: Set<Tid>, prog: Tid, subs0: Map<Tid, Term<Sub>>, ks: Seq<Tid>, n: int, p: NzPos)
    requires
        nz_later_fresh(known, prog, subs0, ks, n),
        nz_pos_ok(subs0, p),
        nz_not_later(p, ks, n),
    ensures
        nz_later_fresh(known.insert(nz_tid_at(prog, subs0, p)), prog, subs0, ks, n),
{
    let t = nz_tid_at(prog, subs0, p);
    assert forall |j: int| n <= j < ks.len() implies
        (nz_alone(prog, subs0, NzPos::Sub(#[trigger] ks[j])) ==> !known.insert(t).contains(subs0[ks[j]].tid))
        && (nz_alone(prog, subs0, NzPos::Blk(ks[j], 0)) ==> !known.insert(t).contains(subs0[ks[j]].term.blocks@[0].tid)) by {
        assert(p != NzPos::Sub(ks[j]) && p != NzPos::Blk(ks[j], 0));
        if nz_alone(prog, subs0, NzPos::Sub(ks[j])) {
            assert(nz_tid_at(prog, subs0, p) != nz_tid_at(prog, subs0, NzPos::Sub(ks[j])));
        }
        if nz_alone(prog, subs0, NzPos::Blk(ks[j], 0)) {
            assert(nz_tid_at(prog, subs0, p) != nz_tid_at(prog, subs0, NzPos::Blk(ks[j], 0)));
        }
    }
}

/// end of the duplicate removal: the per-function facts (in key order) give the postcondition
pub proof fn lemma_nz_dedup_done(ks: Seq<Tid>, prog: Tid, subs0: Map<Tid, Term<Sub>>, subs1: Map<Tid, Term<Sub>>, owner: Map<Tid, NzPos>)
    requires
        nz_keys_of(ks, subs0),
        subs1.dom() =~= subs0.dom(),
        owner.contains_key(prog) && owner[prog] == NzPos::Prog,
        forall |j: int| 0 <= j < ks.len() ==> nz_dedup_sub(subs0[#[trigger] ks[j]], subs1[ks[j]]),
        forall |j: int| 0 <= j < ks.len() && nz_alone(prog, subs0, NzPos::Blk(#[trigger] ks[j], 0)) ==>
            subs1[ks[j]].term.blocks@.len() > 0 && nz_dedup_blk(subs0[ks[j]].term.blocks@[0], subs1[ks[j]].term.blocks@[0]),
        forall |j: int| 0 <= j < ks.len() ==> nz_sub_owned(owner, #[trigger] ks[j], subs1[ks[j]]),
    ensures
        nz_dedup_post(subs0, subs1),
        nz_owner_of(owner, prog, subs1),
        nz_dedup_entries(prog, subs0, subs1),
{
    assert forall |k: Tid| #[trigger] subs0.contains_key(k) implies nz_dedup_sub(subs0[k], subs1[k]) && nz_sub_owned(owner, k, subs1[k])
        && (nz_alone(prog, subs0, NzPos::Blk(k, 0)) ==> subs1[k].term.blocks@.len() > 0 && nz_dedup_blk(subs0[k].term.blocks@[0], subs1[k].term.blocks@[0])) by {
        let j = choose |j: int| 0 <= j < ks.len() && #[trigger] ks[j] == k;
        assert(nz_dedup_sub(subs0[ks[j]], subs1[ks[j]]));
    }
    assert forall |k: Tid| #[trigger] subs1.contains_key(k) implies nz_sub_owned(owner, k, subs1[k]) by {
        assert(subs0.contains_key(k));
    }
    lemma_nz_owner_all(owner, prog, subs1);
}

/// after a complete iteration the partial set of non-returning functions is the set of the program
pub proof fn lemma_nz_nonret_all(s: Seq<(&Tid, &Term<Sub>)>, subs: Map<Tid, Term<Sub>>)
    requires
        nz_iter_of(s, subs),
    ensures
        forall |n: int, t: Tid| n == s.len() ==> (#[trigger] nz_nonret_n(s, n, t) <==> nz_nonret(subs, t)),
{
    assert forall |n: int, t: Tid| n == s.len() implies (#[trigger] nz_nonret_n(s, n, t) <==> nz_nonret(subs, t)) by {
        if nz_nonret_n(s, n, t) {
            let j = choose |j: int| 0 <= j < n && (#[trigger] s[j]).1.tid == t && !nz_blocks_return(s[j].1.term.blocks@) && t != nz_sink_sub();
            assert(subs.contains_key(*s[j].0) && subs[*s[j].0] == *s[j].1);
        }
        if nz_nonret(subs, t) {
            let k = choose |k: Tid| #[trigger] subs.contains_key(k) && subs[k].tid == t && !nz_blocks_return(subs[k].term.blocks@) && t != nz_sink_sub();
            let j = choose |j: int| 0 <= j < s.len() && *(#[trigger] s[j]).0 == k;
            assert(s[j].1.tid == t);
        }
    }
}

/// two block lists with the same tids have the same "has an artificial sink" verdict
pub proof fn lemma_nz_has_sink_same(l0: Seq<Term<Blk>>, l1: Seq<Term<Blk>>, s: Seq<char>)
    requires
        l0.len() == l1.len(),
        forall |i: int| 0 <= i < l0.len() ==> (#[trigger] l1[i]).tid == l0[i].tid,
    ensures
        nz_has_sink(l0, s) == nz_has_sink(l1, s),
{
    if nz_has_sink(l0, s) {
        let i = choose |i: int| 0 <= i < l0.len() && nz_is_sink_blk((#[trigger] l0[i]).tid, s);
        assert(nz_is_sink_blk(l1[i].tid, s));
    }
    if nz_has_sink(l1, s) {
        let i = choose |i: int| 0 <= i < l1.len() && nz_is_sink_blk((#[trigger] l1[i]).tid, s);
        assert(nz_is_sink_blk(l0[i].tid, s));
    }
}

/// coverage is monotone in the map
pub proof fn lemma_nz_cover_mono<V>(m0: Map<Tid, V>, m1: Map<Tid, V>)
    requires
        nz_grows(m0, m1),
    ensures
        forall |b: Term<Blk>| #[trigger] nz_cover_blk(m0, b) ==> nz_cover_blk(m1, b),
        forall |s: Term<Sub>| #[trigger] nz_cover_sub(m0, s) ==> nz_cover_sub(m1, s),
{
    assert forall |s: Term<Sub>| #[trigger] nz_cover_sub(m0, s) implies nz_cover_sub(m1, s) by {
        assert forall |i: int| 0 <= i < s.term.blocks@.len() implies nz_cover_blk(m1, #[trigger] s.term.blocks@[i]) by {
            assert(nz_cover_blk(m0, s.term.blocks@[i]));
        }
    }
}

/// entries that are right + every term covered + unique tids  ==>  the home map of the program
pub proof fn lemma_nz_home_done(home: Map<Tid, Tid>, prog: Tid, subs: Map<Tid, Term<Sub>>)
    requires
        nz_unique(prog, subs),
        nz_home_entries(home, prog, subs),
        forall |k: Tid| #[trigger] subs.contains_key(k) ==> nz_cover_sub(home, subs[k]),
    ensures
        nz_home_ok(home, prog, subs),
{
    assert forall |p: NzPos| #[trigger] nz_pos_ok(subs, p) && !(p is Prog) implies
        home.contains_key(nz_tid_at(prog, subs, p)) && home[nz_tid_at(prog, subs, p)] == subs[nz_pos_key(p)].tid by {
        let k = nz_pos_key(p);
        assert(subs.contains_key(k));
        assert(nz_cover_sub(home, subs[k]));
        match p {
            NzPos::Prog => {},
            NzPos::Sub(k) => {},
            NzPos::Blk(k, i) => { assert(nz_cover_blk(home, subs[k].term.blocks@[i])); },
            NzPos::Def(k, i, j) => { assert(nz_cover_blk(home, subs[k].term.blocks@[i])); },
            NzPos::Jmp(k, i, j) => { assert(nz_cover_blk(home, subs[k].term.blocks@[i])); },
        }
        let t = nz_tid_at(prog, subs, p);
        assert(home.contains_key(t));
        let q = choose |q: NzPos| #[trigger] nz_pos_ok(subs, q) && !(q is Prog) && nz_tid_at(prog, subs, q) == t && home[t] == subs[nz_pos_key(q)].tid;
        assert(p == q);
    }
}

/// worklist bookkeeping
pub broadcast proof fn lemma_nz_in_push(w: Seq<Tid>, x: Tid, u: Tid)
    ensures
        #[trigger] nz_in(w.push(x), u) <==> nz_in(w, u) || u == x,
{
    if nz_in(w, u) {
        let i = choose |i: int| 0 <= i < w.len() && #[trigger] w[i] == u;
        assert(w.push(x)[i] == u);
    }
    if u == x {
        assert(w.push(x)[w.len() as int] == u);
    }
    if nz_in(w.push(x), u) {
        let i = choose |i: int| 0 <= i < w.push(x).len() && #[trigger] w.push(x)[i] == u;
        if i < w.len() { assert(w[i] == u); }
    }
}

pub broadcast proof fn lemma_nz_in_drop_last(w: Seq<Tid>, u: Tid)
    requires
        w.len() > 0,
    ensures
        #[trigger] nz_in(w, u) <==> nz_in(w.drop_last(), u) || u == w.last(),
{
    if nz_in(w, u) {
        let i = choose |i: int| 0 <= i < w.len() && #[trigger] w[i] == u;
        if i < w.len() - 1 { assert(w.drop_last()[i] == u); }
    }
    if nz_in(w.drop_last(), u) {
        let i = choose |i: int| 0 <= i < w.drop_last().len() && #[trigger] w.drop_last()[i] == u;
        assert(w[i] == u);
    }
    if u == w.last() {
        assert(w[w.len() - 1] == u);
    }
}

/// a reachable tid that names another one makes that one reachable
pub proof fn lemma_nz_reach_step(s: Term<Sub>, bm: Map<Tid, &Term<Blk>>, t: Tid, u: Tid)
    requires
        nz_reachable(s, bm, t),
        bm.contains_key(t),
        nz_names(*bm[t], u),
    ensures
        nz_reachable(s, bm, u),
{
    let path = choose |path: Seq<Tid>| #[trigger] nz_path(s, bm, path) && path.last() == t;
    let p2 = path.push(u);
    assert forall |n: int| 0 <= n < p2.len() - 1 implies bm.contains_key(#[trigger] p2[n]) && nz_names(*bm[p2[n]], p2[n + 1]) by {
        if n < path.len() - 1 {
            assert(p2[n] == path[n] && p2[n + 1] == path[n + 1]);
        }
    }
    assert(p2[0] == path[0]);
    assert(nz_path(s, bm, p2));
    assert(p2.last() == u);
}

/// a listed block is reachable
pub proof fn lemma_nz_reach_start(s: Term<Sub>, bm: Map<Tid, &Term<Blk>>, i: int)
    requires
        0 <= i < s.term.blocks@.len(),
    ensures
        nz_reachable(s, bm, s.term.blocks@[i].tid),
{
    let path = Seq::<Tid>::empty().push(s.term.blocks@[i].tid);
    assert(path[0] == s.term.blocks@[i].tid);
    assert(nz_path(s, bm, path));
    assert(path.last() == s.term.blocks@[i].tid);
}

/// taking the last entry off the worklist
pub proof fn lemma_nz_wl_pop(set: Set<Tid>, w: Seq<Tid>, s: Term<Sub>, bm: Map<Tid, &Term<Blk>>)
    requires
        nz_wl_inv(set, w, s, bm, None),
        w.len() > 0,
    ensures
        nz_reachable(s, bm, w.last()),
        set.contains(w.last()) ==> nz_wl_inv(set, w.drop_last(), s, bm, None),
        !set.contains(w.last()) ==> nz_wl_inv(set.insert(w.last()), w.drop_last(), s, bm, Some(w.last())),
{
    reveal(nz_wl_inv);
    let x = w.last();
    let w1 = w.drop_last();
    let set1 = set.insert(x);
    assert(nz_in(w, x)) by { assert(w[w.len() - 1] == x); }
    assert(nz_seen(set, w, x));
    if set.contains(x) {
        assert forall |i: int| 0 <= i < s.term.blocks@.len() implies nz_seen(set, w1, (#[trigger] s.term.blocks@[i]).tid) by {
            assert(nz_seen(set, w, s.term.blocks@[i].tid));
            lemma_nz_in_drop_last(w, s.term.blocks@[i].tid);
        }
        assert forall |t: Tid, u: Tid| set.contains(t) && Some(t) != None::<Tid> && bm.contains_key(t) && #[trigger] nz_names(*bm[t], u) implies nz_seen(set, w1, u) by {
            assert(nz_seen(set, w, u));
            lemma_nz_in_drop_last(w, u);
        }
        assert forall |t: Tid| #[trigger] nz_seen(set, w1, t) implies nz_reachable(s, bm, t) by {
            lemma_nz_in_drop_last(w, t);
            assert(nz_seen(set, w, t));
        }
    } else {
        assert forall |i: int| 0 <= i < s.term.blocks@.len() implies nz_seen(set1, w1, (#[trigger] s.term.blocks@[i]).tid) by {
            assert(nz_seen(set, w, s.term.blocks@[i].tid));
            lemma_nz_in_drop_last(w, s.term.blocks@[i].tid);
        }
        assert forall |t: Tid, u: Tid| set1.contains(t) && Some(t) != Some(x) && bm.contains_key(t) && #[trigger] nz_names(*bm[t], u) implies nz_seen(set1, w1, u) by {
            assert(set.contains(t));
            assert(nz_seen(set, w, u));
            lemma_nz_in_drop_last(w, u);
        }
        assert forall |t: Tid| #[trigger] nz_seen(set1, w1, t) implies nz_reachable(s, bm, t) by {
            lemma_nz_in_drop_last(w, t);
            assert(nz_seen(set, w, t));
        }
    }
}

/// an empty worklist: the set is the set of contained block tids
pub proof fn lemma_nz_wl_done(set: Set<Tid>, w: Seq<Tid>, s: Term<Sub>, bm: Map<Tid, &Term<Blk>>)
    requires
        nz_wl_inv(set, w, s, bm, None),
        w.len() == 0,
    ensures
        nz_contained_ok(set, s, bm),
{
    reveal(nz_wl_inv);
    assert forall |i: int| 0 <= i < s.term.blocks@.len() implies set.contains((#[trigger] s.term.blocks@[i]).tid) by {
        assert(nz_seen(set, w, s.term.blocks@[i].tid));
    }
    assert forall |t: Tid, u: Tid| set.contains(t) && bm.contains_key(t) && #[trigger] nz_names(*bm[t], u) implies set.contains(u) by {
        assert(nz_seen(set, w, u));
    }
    assert forall |t: Tid| #[trigger] set.contains(t) implies nz_reachable(s, bm, t) by {
        assert(nz_seen(set, w, t));
    }
}

/// the block that was being expanded is done: everything it names has been seen
pub proof fn lemma_nz_wl_close(set: Set<Tid>, w: Seq<Tid>, s: Term<Sub>, bm: Map<Tid, &Term<Blk>>, cur: Tid)
    requires
        nz_wl_inv(set, w, s, bm, Some(cur)),
        bm.contains_key(cur) ==> forall |u: Tid| #[trigger] nz_names(*bm[cur], u) ==> nz_seen(set, w, u),
    ensures
        nz_wl_inv(set, w, s, bm, None),
{
    reveal(nz_wl_inv);
}

/// end of generate_sub_tid_to_contained_block_tids_map
pub proof fn lemma_nz_submap_done(s: Seq<(&Tid, &Term<Sub>)>, m: Map<Tid, HashSet<Tid>>, subs: Map<Tid, Term<Sub>>, bm: Map<Tid, &Term<Blk>>)
    requires
        nz_iter_of(s, subs),
        forall |j: int| 0 <= j < s.len() ==> m.contains_key((#[trigger] s[j]).1.tid) && nz_contained_ok(m[s[j].1.tid]@, *s[j].1, bm),
    ensures
        nz_submap_ok(m, subs, bm),
{
    assert forall |k: Tid| #[trigger] subs.contains_key(k) implies m.contains_key(subs[k].tid) && nz_contained_ok(m[subs[k].tid]@, subs[k], bm) by {
        let j = choose |j: int| 0 <= j < s.len() && *(#[trigger] s[j]).0 == k;
        assert(m.contains_key(s[j].1.tid));
    }
}

/// ... quantified over the map (called before the last insertion; the map after it is not nameable there)
pub proof fn lemma_nz_submap_done_all(s: Seq<(&Tid, &Term<Sub>)>, subs: Map<Tid, Term<Sub>>, bm: Map<Tid, &Term<Blk>>)
    requires
        nz_iter_of(s, subs),
    ensures
        forall |m: Map<Tid, HashSet<Tid>>| (forall |j: int| 0 <= j < s.len() ==> m.contains_key((#[trigger] s[j]).1.tid) && nz_contained_ok(m[s[j].1.tid]@, *s[j].1, bm))
            ==> #[trigger] nz_submap_ok(m, subs, bm),
{
    assert forall |m: Map<Tid, HashSet<Tid>>| (forall |j: int| 0 <= j < s.len() ==> m.contains_key((#[trigger] s[j]).1.tid) && nz_contained_ok(m[s[j].1.tid]@, *s[j].1, bm))
        implies #[trigger] nz_submap_ok(m, subs, bm) by {
        lemma_nz_submap_done(s, m, subs, bm);
    }
}

/// the worklist starts with the tids of the listed blocks
pub proof fn lemma_nz_wl_init(w: Seq<Tid>, s: Term<Sub>, bm: Map<Tid, &Term<Blk>>)
    requires
        w.len() == s.term.blocks@.len(),
        forall |i: int| 0 <= i < w.len() ==> #[trigger] w[i] == s.term.blocks@[i].tid,
    ensures
        nz_wl_inv(Set::<Tid>::empty(), w, s, bm, None),
{
    reveal(nz_wl_inv);
    let set = Set::<Tid>::empty();
    assert forall |i: int| 0 <= i < s.term.blocks@.len() implies nz_seen(set, w, (#[trigger] s.term.blocks@[i]).tid) by {
        assert(w[i] == s.term.blocks@[i].tid);
    }
    assert forall |t: Tid| #[trigger] nz_seen(set, w, t) implies nz_reachable(s, bm, t) by {
        let i = choose |i: int| 0 <= i < w.len() && #[trigger] w[i] == t;
        lemma_nz_reach_start(s, bm, i);
    }
}

/// one more reachable tid on the worklist
pub proof fn lemma_nz_wl_push(set: Set<Tid>, w: Seq<Tid>, s: Term<Sub>, bm: Map<Tid, &Term<Blk>>, cur: Option<Tid>, u: Tid)
    requires
        nz_wl_inv(set, w, s, bm, cur),
        nz_reachable(s, bm, u),
    ensures
        nz_wl_inv(set, w.push(u), s, bm, cur),
{
    reveal(nz_wl_inv);
    let w1 = w.push(u);
    assert forall |t: Tid| nz_seen(set, w, t) implies #[trigger] nz_seen(set, w1, t) by { lemma_nz_in_push(w, u, t); }
    assert forall |t: Tid| #[trigger] nz_seen(set, w1, t) implies nz_seen(set, w, t) || t == u by { lemma_nz_in_push(w, u, t); }
    assert forall |i: int| 0 <= i < s.term.blocks@.len() implies nz_seen(set, w1, (#[trigger] s.term.blocks@[i]).tid) by {
        assert(nz_seen(set, w, s.term.blocks@[i].tid));
    }
    assert forall |t: Tid, x: Tid| set.contains(t) && Some(t) != cur && bm.contains_key(t) && #[trigger] nz_names(*bm[t], x) implies nz_seen(set, w1, x) by {
        assert(nz_seen(set, w, x));
    }
}

/// the tid being expanded is reachable (it is in the set)
pub proof fn lemma_nz_wl_reach(set: Set<Tid>, w: Seq<Tid>, s: Term<Sub>, bm: Map<Tid, &Term<Blk>>, cur: Option<Tid>, t: Tid)
    requires
        nz_wl_inv(set, w, s, bm, cur),
        set.contains(t),
    ensures
        nz_reachable(s, bm, t),
{
    reveal(nz_wl_inv);
    assert(nz_seen(set, w, t));
}

/// end of the inner loop of duplicate_blocks_contained_in_several_subs: a complete iteration over the set
pub proof fn lemma_nz_additional_done(v: Seq<Term<Blk>>, src: Seq<Tid>, pos: Seq<int>, it: Seq<&Tid>, contained: Set<Tid>, f: Tid, home: Map<Tid, Tid>, bm: Map<Tid, &Term<Blk>>)
    requires
        nz_additional_n(v, src, pos, it, it.len() as int, f, home, bm),
        it.no_duplicates(),
        forall |j: int| 0 <= j < it.len() ==> contained.contains(*#[trigger] it[j]),
        forall |t: Tid| contained.contains(t) ==> exists |j: int| 0 <= j < it.len() && *#[trigger] it[j] == t,
    ensures
        nz_additional(v, src, contained, f, home, bm),
{
    assert forall |i: int, j: int| 0 <= i < j < src.len() implies #[trigger] src[i] != #[trigger] src[j] by {
        assert(pos[i] < pos[j]);
        if src[i] == src[j] {
            assert(*it[pos[i]] == *it[pos[j]]);
            assert(it[pos[i]] == it[pos[j]]);
        }
    }
    assert forall |i: int| 0 <= i < src.len() implies contained.contains(#[trigger] src[i]) by {
        assert(*it[pos[i]] == src[i]);
    }
    assert forall |t: Tid| contained.contains(t) && !nz_home_is(home, t, f) implies nz_in(src, t) by {
        let j = choose |j: int| 0 <= j < it.len() && *#[trigger] it[j] == t;
        assert(nz_in(src, *it[j]));
    }
}

/// ... quantified over the state at the end of the iteration (called at the head of the loop body)
pub proof fn lemma_nz_additional_done_all(it: Seq<&Tid>, contained: Set<Tid>, f: Tid, home: Map<Tid, Tid>, bm: Map<Tid, &Term<Blk>>)
    requires
        it.no_duplicates(),
        forall |j: int| 0 <= j < it.len() ==> contained.contains(*#[trigger] it[j]),
        forall |t: Tid| contained.contains(t) ==> exists |j: int| 0 <= j < it.len() && *#[trigger] it[j] == t,
    ensures
        forall |v: Seq<Term<Blk>>, src: Seq<Tid>, pos: Seq<int>, n: int| n == it.len() && #[trigger] nz_additional_n(v, src, pos, it, n, f, home, bm)
            ==> nz_additional_ok(v, contained, f, home, bm),
{
    assert forall |v: Seq<Term<Blk>>, src: Seq<Tid>, pos: Seq<int>, n: int| n == it.len() && #[trigger] nz_additional_n(v, src, pos, it, n, f, home, bm)
        implies nz_additional_ok(v, contained, f, home, bm) by {
        lemma_nz_additional_done(v, src, pos, it, contained, f, home, bm);
    }
}

/// end of duplicate_blocks_contained_in_several_subs
pub proof fn lemma_nz_addmap_done_all(s: Seq<(&Tid, &Term<Sub>)>, subs: Map<Tid, Term<Sub>>, sm: Map<Tid, HashSet<Tid>>, home: Map<Tid, Tid>, bm: Map<Tid, &Term<Blk>>)
    requires
        nz_iter_of(s, subs),
    ensures
        forall |m: Map<Tid, Vec<Term<Blk>>>| (forall |j: int| 0 <= j < s.len() ==> m.contains_key((#[trigger] s[j]).1.tid)
                && nz_additional_ok(m[s[j].1.tid]@, sm[s[j].1.tid]@, s[j].1.tid, home, bm))
            ==> #[trigger] nz_addmap_ok(m, subs, sm, home, bm),
{
    assert forall |m: Map<Tid, Vec<Term<Blk>>>| (forall |j: int| 0 <= j < s.len() ==> m.contains_key((#[trigger] s[j]).1.tid)
                && nz_additional_ok(m[s[j].1.tid]@, sm[s[j].1.tid]@, s[j].1.tid, home, bm))
        implies #[trigger] nz_addmap_ok(m, subs, sm, home, bm) by {
        assert forall |k: Tid| #[trigger] subs.contains_key(k) implies m.contains_key(subs[k].tid)
            && nz_additional_ok(m[subs[k].tid]@, sm[subs[k].tid]@, subs[k].tid, home, bm) by {
            let j = choose |j: int| 0 <= j < s.len() && *(#[trigger] s[j]).0 == k;
            assert(m.contains_key(s[j].1.tid));
        }
    }
}

/// vstd gives, for the ghost sequence of `set.iter()`: no duplicates, as long as the set, every member occurs.  By
/// cardinality every element of the sequence is then a member.  (broadcast: makes nz_set_iter_of available at loop entry)
pub broadcast proof fn lemma_nz_set_iter_complete(s: Seq<&Tid>, set: Set<Tid>)
    requires
        s.no_duplicates(),
        s.len() == set.len(),
        forall |k: Tid| set.contains(k) ==> s.contains(&k),
    ensures
        #[trigger] nz_set_iter_of(s, set),
{
    let t = s.map_values(|k: &Tid| *k);
    assert(t.no_duplicates()) by {
        assert forall |i: int, j: int| 0 <= i < t.len() && 0 <= j < t.len() && i != j implies t[i] != t[j] by {
            assert(s[i] != s[j]);
        }
    }
    t.unique_seq_to_set();
    assert(set.subset_of(t.to_set())) by {
        assert forall |k: Tid| set.contains(k) implies t.to_set().contains(k) by {
            assert(s.contains(&k));
            let i = choose |i: int| 0 <= i < s.len() && s[i] == &k;
            assert(t[i] == k);
            assert(t.contains(k));
        }
    }
    vstd::set_lib::lemma_subset_equality(set, t.to_set());
    assert forall |i: int| 0 <= i < s.len() implies set.contains(*#[trigger] s[i]) by {
        assert(t[i] == *s[i]);
        assert(t.contains(t[i]));
        assert(t.to_set().contains(t[i]));
    }
    assert forall |k: Tid| set.contains(k) implies exists |i: int| 0 <= i < s.len() && *#[trigger] s[i] == k by {
        assert(s.contains(&k));
        let i = choose |i: int| 0 <= i < s.len() && s[i] == &k;
        assert(*s[i] == k);
    }
}

/// an empty set of contained blocks needs no additional blocks (makes the exit clause hold on loop entry)
pub proof fn lemma_nz_additional_empty(contained: Set<Tid>, f: Tid, home: Map<Tid, Tid>, bm: Map<Tid, &Term<Blk>>)
    ensures
        contained.len() == 0 ==> nz_additional_ok(Seq::<Term<Blk>>::empty(), contained, f, home, bm),
{
    if contained.len() == 0 {
        assert forall |t: Tid| !contained.contains(t) by {
            if contained.contains(t) {
                assert(contained.remove(t).len() < contained.len());
            }
        }
        assert(nz_additional(Seq::<Term<Blk>>::empty(), Seq::<Tid>::empty(), contained, f, home, bm));
    }
}

/// every contained tid is the tid of a block (when every tid a block names is one)
pub proof fn lemma_nz_contained_blocks(subs: Map<Tid, Term<Sub>>, bm: Map<Tid, &Term<Blk>>, k: Tid, set: Set<Tid>)
    requires
        subs.contains_key(k),
        nz_blkmap_ok(bm, subs),
        nz_names_closed(subs),
        nz_contained_ok(set, subs[k], bm),
    ensures
        forall |t: Tid| #[trigger] set.contains(t) ==> nz_is_blk(subs, t) && bm.contains_key(t),
{
    assert forall |t: Tid| #[trigger] set.contains(t) implies nz_is_blk(subs, t) && bm.contains_key(t) by {
        let path = choose |path: Seq<Tid>| #[trigger] nz_path(subs[k], bm, path) && path.last() == t;
        lemma_nz_path_blocks(subs, bm, k, path, path.len() - 1);
    }
}

/// ... by induction along the path
pub proof fn lemma_nz_path_blocks(subs: Map<Tid, Term<Sub>>, bm: Map<Tid, &Term<Blk>>, k: Tid, path: Seq<Tid>, n: int)
    requires
        subs.contains_key(k),
        nz_blkmap_ok(bm, subs),
        nz_names_closed(subs),
        nz_path(subs[k], bm, path),
        0 <= n < path.len(),
    ensures
        nz_is_blk(subs, path[n]) && bm.contains_key(path[n]),
    decreases n
{
    if n == 0 {
        let i = choose |i: int| 0 <= i < subs[k].term.blocks@.len() && (#[trigger] subs[k].term.blocks@[i]).tid == path[0];
        assert(nz_blk_at(subs, k, i, subs[k].term.blocks@[i].tid));
    } else {
        lemma_nz_path_blocks(subs, bm, k, path, n - 1);
        let t = path[n - 1];
        assert(bm.contains_key(t) && nz_names(*bm[t], path[n]));
        let (k2, i2) = choose |k2: Tid, i2: int| #[trigger] nz_blk_at(subs, k2, i2, t) && *bm[t] == subs[k2].term.blocks@[i2];
        assert(nz_blk_at(subs, k2, i2, subs[k2].term.blocks@[i2].tid));
        assert(nz_names(subs[k2].term.blocks@[i2], path[n]));
        assert(nz_is_blk(subs, path[n]));
        let (k3, i3) = choose |k3: Tid, i3: int| #[trigger] nz_blk_at(subs, k3, i3, path[n]);
        assert(nz_blk_at(subs, k3, i3, subs[k3].term.blocks@[i3].tid));
    }
}

/// unique tids: functions under different keys have different tids
pub proof fn lemma_nz_unique_subs_distinct(prog: Tid, subs: Map<Tid, Term<Sub>>)
    requires
        nz_unique(prog, subs),
    ensures
        nz_sub_tids_distinct(subs),
{
    assert forall |k1: Tid, k2: Tid| #[trigger] subs.contains_key(k1) && #[trigger] subs.contains_key(k2) && subs[k1].tid == subs[k2].tid implies k1 == k2 by {
        assert(nz_pos_ok(subs, NzPos::Sub(k1)) && nz_pos_ok(subs, NzPos::Sub(k2)));
        assert(nz_tid_at(prog, subs, NzPos::Sub(k1)) == nz_tid_at(prog, subs, NzPos::Sub(k2)));
    }
}

/// the two `unwrap()`s of duplicate_blocks_contained_in_several_subs succeed
pub proof fn lemma_nz_dup_pre(subs: Map<Tid, Term<Sub>>, sm: Map<Tid, HashSet<Tid>>, home: Map<Tid, Tid>, bm: Map<Tid, &Term<Blk>>)
    requires
        nz_blkmap_ok(bm, subs),
        nz_names_closed(subs),
        nz_submap_ok(sm, subs, bm),
    ensures
        nz_dup_pre(subs, sm, home, bm),
{
    assert forall |k: Tid| #[trigger] subs.contains_key(k) implies sm.contains_key(subs[k].tid)
        && forall |t: Tid| #[trigger] sm[subs[k].tid]@.contains(t) && !nz_home_is(home, t, subs[k].tid) ==> bm.contains_key(t) by {
        lemma_nz_contained_blocks(subs, bm, k, sm[subs[k].tid]@);
    }
}

/// make_block_to_sub_mapping_unique: appending the additional blocks, then redirecting the named tids, gives the shape
pub proof fn lemma_nz_uniq_compose(ks: Seq<Tid>, subs0: Map<Tid, Term<Sub>>, mid: Map<Tid, Term<Sub>>, subs1: Map<Tid, Term<Sub>>,
                                   add0: Map<Tid, Vec<Term<Blk>>>, home: Map<Tid, Tid>, bm: Map<Tid, &Term<Blk>>, sm: Map<Tid, HashSet<Tid>>)
    requires
        nz_keys_of(ks, subs0),
        mid.dom() =~= subs0.dom(),
        forall |j: int| 0 <= j < ks.len() ==> nz_appended(subs0[#[trigger] ks[j]], mid[ks[j]], add0[subs0[ks[j]].tid]@),
        nz_addmap_ok(add0, subs0, sm, home, bm),
        nz_resfx_post(mid, subs1, home),
    ensures
        nz_uniq_shape(subs0, subs1, home, bm, sm),
{
    assert forall |k: Tid| #[trigger] subs0.contains_key(k) implies nz_uniq_sub(subs0[k], subs1[k], sm[subs0[k].tid]@, home, bm) by {
        let j = choose |j: int| 0 <= j < ks.len() && #[trigger] ks[j] == k;
        let add = add0[subs0[k].tid]@;
        assert(nz_appended(subs0[ks[j]], mid[ks[j]], add));
        assert(mid.contains_key(k));
        assert(nz_resfx_sub(mid[k], subs1[k], home));
        assert(nz_additional_ok(add, sm[subs0[k].tid]@, subs0[k].tid, home, bm));
        assert(mid[k].term.blocks@ == subs0[k].term.blocks@ + add);
        assert(nz_resfx_blks(subs0[k].term.blocks@ + add, subs1[k].term.blocks@, subs0[k].tid, home));
    }
}

// ---- composition ---------------------------------------------------------------------------------------------------------------------

/// the duplicate removal yields a sub-program
pub proof fn lemma_nz_dedup_sub_program(prog: Tid, subs0: Map<Tid, Term<Sub>>, subs1: Map<Tid, Term<Sub>>)
    requires
        nz_dedup_post(subs0, subs1),
    ensures
        nz_sub_program(prog, subs0, subs1),
{
    assert forall |k: Tid| #[trigger] subs1.contains_key(k) implies subs1[k].tid == subs0[k].tid by {
        assert(subs0.contains_key(k));
        assert(nz_dedup_sub(subs0[k], subs1[k]));
    }
    assert forall |p: NzPos| #[trigger] nz_pos_ok(subs1, p) implies exists |q: NzPos| #[trigger] nz_pos_ok(subs0, q) && nz_tid_at(prog, subs0, q) == nz_tid_at(prog, subs1, p) by {
        match p {
            NzPos::Prog => { assert(nz_pos_ok(subs0, NzPos::Prog)); },
            NzPos::Sub(k) => {
                assert(subs0.contains_key(k)); assert(nz_dedup_sub(subs0[k], subs1[k]));
                assert(nz_pos_ok(subs0, NzPos::Sub(k)));
            },
            NzPos::Blk(k, i) => {
                assert(subs0.contains_key(k)); assert(nz_dedup_sub(subs0[k], subs1[k]));
                let emb = choose |emb: Seq<int>| #[trigger] nz_dedup_blks(subs0[k].term.blocks@, subs1[k].term.blocks@, emb);
                assert(nz_dedup_blk(subs0[k].term.blocks@[emb[i]], subs1[k].term.blocks@[i]));
                assert(nz_pos_ok(subs0, NzPos::Blk(k, emb[i])));
            },
            NzPos::Def(k, i, d) => {
                assert(subs0.contains_key(k)); assert(nz_dedup_sub(subs0[k], subs1[k]));
                let emb = choose |emb: Seq<int>| #[trigger] nz_dedup_blks(subs0[k].term.blocks@, subs1[k].term.blocks@, emb);
                let b0 = subs0[k].term.blocks@[emb[i]];
                let b1 = subs1[k].term.blocks@[i];
                assert(nz_dedup_blk(b0, b1));
                let demb = choose |demb: Seq<int>| #[trigger] nz_sel(b1.term.defs@, b0.term.defs@, demb);
                assert(b1.term.defs@[d] == b0.term.defs@[demb[d]]);
                assert(nz_pos_ok(subs0, NzPos::Def(k, emb[i], demb[d])));
            },
            NzPos::Jmp(k, i, d) => {
                assert(subs0.contains_key(k)); assert(nz_dedup_sub(subs0[k], subs1[k]));
                let emb = choose |emb: Seq<int>| #[trigger] nz_dedup_blks(subs0[k].term.blocks@, subs1[k].term.blocks@, emb);
                let b0 = subs0[k].term.blocks@[emb[i]];
                let b1 = subs1[k].term.blocks@[i];
                assert(nz_dedup_blk(b0, b1));
                let jemb = choose |jemb: Seq<int>| #[trigger] nz_sel(b1.term.jmps@, b0.term.jmps@, jemb);
                assert(b1.term.jmps@[d] == b0.term.jmps@[jemb[d]]);
                assert(nz_pos_ok(subs0, NzPos::Jmp(k, emb[i], jemb[d])));
            },
        }
    }
    assert forall |k: Tid, i: int, u: Tid| #[trigger] nz_blk_at(subs1, k, i, subs1[k].term.blocks@[i].tid) && #[trigger] nz_names(subs1[k].term.blocks@[i], u)
        implies exists |k0: Tid, i0: int| #[trigger] nz_blk_at(subs0, k0, i0, subs0[k0].term.blocks@[i0].tid) && nz_names(subs0[k0].term.blocks@[i0], u) by {
        assert(subs0.contains_key(k)); assert(nz_dedup_sub(subs0[k], subs1[k]));
        let emb = choose |emb: Seq<int>| #[trigger] nz_dedup_blks(subs0[k].term.blocks@, subs1[k].term.blocks@, emb);
        let b0 = subs0[k].term.blocks@[emb[i]];
        let b1 = subs1[k].term.blocks@[i];
        assert(nz_dedup_blk(b0, b1));
        if exists |j: int| 0 <= j < b1.term.jmps@.len() && nz_intra_target((#[trigger] b1.term.jmps@[j]).term) == Some(u) {
            let j = choose |j: int| 0 <= j < b1.term.jmps@.len() && nz_intra_target((#[trigger] b1.term.jmps@[j]).term) == Some(u);
            let jemb = choose |jemb: Seq<int>| #[trigger] nz_sel(b1.term.jmps@, b0.term.jmps@, jemb);
            assert(b1.term.jmps@[j] == b0.term.jmps@[jemb[j]]);
        } else {
            let h = choose |h: int| 0 <= h < b1.term.indirect_jmp_targets@.len() && #[trigger] b1.term.indirect_jmp_targets@[h] == u;
            assert(b0.term.indirect_jmp_targets@[h] == u);
        }
        assert(nz_names(b0, u));
        assert(nz_blk_at(subs0, k, emb[i], subs0[k].term.blocks@[emb[i]].tid));
    }
}

/// hypotheses on names carry over to a sub-program
pub proof fn lemma_nz_sub_program_hyp(prog: Tid, subs0: Map<Tid, Term<Sub>>, subs1: Map<Tid, Term<Sub>>, ext: Map<Tid, ExternSymbol>)
    requires
        nz_sub_program(prog, subs0, subs1),
    ensures
        nz_no_sink_names(prog, subs0) ==> nz_no_sink_names(prog, subs1),
        nz_namespace(subs0, ext) ==> nz_namespace(subs1, ext),
        nz_keys_are_tids(subs0) ==> nz_keys_are_tids(subs1),
{
    if nz_no_sink_names(prog, subs0) {
        assert forall |p: NzPos| #[trigger] nz_pos_ok(subs1, p) implies nz_tid_at(prog, subs1, p) != nz_sink_sub() && nz_tid_at(prog, subs1, p) != nz_sink_blk(Seq::<char>::empty()) by {
            let q = choose |q: NzPos| #[trigger] nz_pos_ok(subs0, q) && nz_tid_at(prog, subs0, q) == nz_tid_at(prog, subs1, p);
        }
    }
    if nz_namespace(subs0, ext) {
        assert forall |k: Tid, i: int, u: Tid| #[trigger] nz_blk_at(subs1, k, i, subs1[k].term.blocks@[i].tid) && #[trigger] nz_names(subs1[k].term.blocks@[i], u)
            implies !nz_is_sub(subs1, u) && !ext.contains_key(u) && u != nz_sink_sub() by {
            let (k0, i0) = choose |k0: Tid, i0: int| #[trigger] nz_blk_at(subs0, k0, i0, subs0[k0].term.blocks@[i0].tid) && nz_names(subs0[k0].term.blocks@[i0], u);
            if nz_is_sub(subs1, u) {
                let k2 = choose |k2: Tid| #[trigger] subs1.contains_key(k2) && subs1[k2].tid == u;
                assert(subs0.contains_key(k2) && subs0[k2].tid == u);
                assert(nz_is_sub(subs0, u));
            }
        }
    }
    if nz_keys_are_tids(subs0) {
        assert forall |k: Tid| #[trigger] subs1.contains_key(k) implies subs1[k].tid == k by {
            assert(subs0.contains_key(k));
        }
    }
}

/// adding the artificial sink function keeps the tids unique (its two names are used by no term) and the name spaces apart
pub proof fn lemma_nz_sink_added_unique(prog: Tid, subs1: Map<Tid, Term<Sub>>, subs2: Map<Tid, Term<Sub>>, ext: Map<Tid, ExternSymbol>)
    requires
        nz_unique(prog, subs1),
        nz_sink_added(subs1, subs2),
        nz_no_sink_names(prog, subs1),
        nz_keys_are_tids(subs1),
    ensures
        nz_unique(prog, subs2),
        nz_keys_are_tids(subs2),
        nz_namespace(subs1, ext) ==> nz_namespace(subs2, ext),
{
    axiom_nz_sink_names_differ();
    let sk = nz_sink_sub();
    assert(!subs1.contains_key(sk)) by {
        if subs1.contains_key(sk) {
            assert(nz_pos_ok(subs1, NzPos::Sub(sk)));
            assert(nz_tid_at(prog, subs1, NzPos::Sub(sk)) == sk);
        }
    }
    assert(nz_pos_ok(subs1, NzPos::Prog));
    // a position of subs2 outside the sink function is a position of subs1 with the same tid
    assert forall |p: NzPos| #[trigger] nz_pos_ok(subs2, p) && !(p is Prog) && nz_pos_key(p) != sk implies nz_pos_ok(subs1, p) && nz_tid_at(prog, subs1, p) == nz_tid_at(prog, subs2, p) by {
        let k = nz_pos_key(p);
        assert(subs2.contains_key(k));
        assert(subs1.contains_key(k));
        assert(subs2[k] == subs1[k]);
    }
    assert forall |p: NzPos, q: NzPos| #[trigger] nz_pos_ok(subs2, p) && #[trigger] nz_pos_ok(subs2, q) && nz_tid_at(prog, subs2, p) == nz_tid_at(prog, subs2, q) implies p == q by {
        let sink_p = !(p is Prog) && nz_pos_key(p) == sk;
        let sink_q = !(q is Prog) && nz_pos_key(q) == sk;
        if sink_p && sink_q {
            // Sub(sk) or Blk(sk, 0): different names
        } else if sink_p || sink_q {
            // one tid is a sink name, the other is a tid of subs1 (or the program tid)
            if sink_p {
                if !(q is Prog) { assert(nz_pos_ok(subs1, q)); }
            } else {
                if !(p is Prog) { assert(nz_pos_ok(subs1, p)); }
            }
        } else {
            if !(p is Prog) { assert(nz_pos_ok(subs1, p)); }
            if !(q is Prog) { assert(nz_pos_ok(subs1, q)); }
        }
    }
    assert forall |k: Tid| #[trigger] subs2.contains_key(k) implies subs2[k].tid == k by {
        if k != sk { assert(subs1.contains_key(k)); }
    }
    if nz_namespace(subs1, ext) {
        assert forall |k: Tid, i: int, u: Tid| #[trigger] nz_blk_at(subs2, k, i, subs2[k].term.blocks@[i].tid) && #[trigger] nz_names(subs2[k].term.blocks@[i], u)
            implies !nz_is_sub(subs2, u) && !ext.contains_key(u) && u != nz_sink_sub() by {
            if k == sk {
                // the sink block names nothing
            } else {
                assert(subs1.contains_key(k) && subs2[k] == subs1[k]);
                assert(nz_blk_at(subs1, k, i, subs1[k].term.blocks@[i].tid));
                if nz_is_sub(subs2, u) {
                    let k2 = choose |k2: Tid| #[trigger] subs2.contains_key(k2) && subs2[k2].tid == u;
                    if k2 != sk { assert(subs1.contains_key(k2) && subs1[k2].tid == u); assert(nz_is_sub(subs1, u)); }
                }
            }
        }
    }
}

/// the references pass changes no term tid: positions and their tids are the same
pub proof fn lemma_nz_refs_unique(prog: Tid, subs2: Map<Tid, Term<Sub>>, subs3: Map<Tid, Term<Sub>>, known: Set<Tid>)
    requires
        nz_unique(prog, subs2),
        nz_refs_post(subs2, subs3, known),
    ensures
        nz_unique(prog, subs3),
        nz_keys_are_tids(subs2) ==> nz_keys_are_tids(subs3),
        forall |t: Tid| nz_is_blk(subs2, t) ==> nz_is_blk(subs3, t),
{
    assert forall |p: NzPos| #[trigger] nz_pos_ok(subs3, p) implies nz_pos_ok(subs2, p) && nz_tid_at(prog, subs2, p) == nz_tid_at(prog, subs3, p) by {
        if !(p is Prog) {
            let k = nz_pos_key(p);
            assert(subs2.contains_key(k));
            assert(nz_refs_sub(subs2[k], subs3[k], known));
            match p {
                NzPos::Prog => {},
                NzPos::Sub(k) => {},
                NzPos::Blk(k, i) => { assert(nz_refs_blk(subs2[k].term.blocks@[i], subs3[k].term.blocks@[i], known)); },
                NzPos::Def(k, i, d) => { assert(nz_refs_blk(subs2[k].term.blocks@[i], subs3[k].term.blocks@[i], known)); },
                NzPos::Jmp(k, i, d) => { assert(nz_refs_blk(subs2[k].term.blocks@[i], subs3[k].term.blocks@[i], known)); },
            }
        }
    }
    if nz_keys_are_tids(subs2) {
        assert forall |k: Tid| #[trigger] subs3.contains_key(k) implies subs3[k].tid == k by {
            assert(subs2.contains_key(k)); assert(nz_refs_sub(subs2[k], subs3[k], known));
        }
    }
    assert forall |t: Tid| nz_is_blk(subs2, t) implies nz_is_blk(subs3, t) by {
        let (k, i) = choose |k: Tid, i: int| #[trigger] nz_blk_at(subs2, k, i, t);
        assert(nz_refs_sub(subs2[k], subs3[k], known));
        assert(nz_refs_blk(subs2[k].term.blocks@[i], subs3[k].term.blocks@[i], known));
        assert(nz_blk_at(subs3, k, i, t));
    }
}

/// what survives the filter is known and was a hint
pub proof fn lemma_nz_keep_members(h: Seq<Tid>, known: Set<Tid>, n: int)
    requires
        0 <= n <= h.len(),
    ensures
        forall |x: int| 0 <= x < nz_keep(h, known, n).len() ==> known.contains(#[trigger] nz_keep(h, known, n)[x]),
    decreases n
{
    if n > 0 {
        lemma_nz_keep_members(h, known, n - 1);
        let r = nz_keep(h, known, n - 1);
        assert forall |x: int| 0 <= x < nz_keep(h, known, n).len() implies known.contains(#[trigger] nz_keep(h, known, n)[x]) by {
            if x < r.len() {
                assert(nz_keep(h, known, n)[x] == r[x]);
            }
        }
    }
}

/// after the references pass every tid a block names is the tid of a block
pub proof fn lemma_nz_refs_names_closed(subs2: Map<Tid, Term<Sub>>, subs3: Map<Tid, Term<Sub>>, known: Set<Tid>, ext: Map<Tid, ExternSymbol>)
    requires
        nz_refs_post(subs2, subs3, known),
        nz_known_set(known, subs2, ext),
        subs2.contains_key(nz_sink_sub()) && nz_is_sink_sub_term(subs2[nz_sink_sub()]),
        nz_namespace(subs2, ext),
        forall |t: Tid| nz_is_blk(subs2, t) ==> nz_is_blk(subs3, t),
    ensures
        nz_names_closed(subs3),
{
    let sinkb = nz_sink_blk(Seq::<char>::empty());
    assert(nz_is_blk(subs2, sinkb)) by { assert(nz_blk_at(subs2, nz_sink_sub(), 0, sinkb)); }
    assert forall |k: Tid, i: int, u: Tid| #[trigger] nz_blk_at(subs3, k, i, subs3[k].term.blocks@[i].tid) && #[trigger] nz_names(subs3[k].term.blocks@[i], u)
        implies nz_is_blk(subs3, u) by {
        assert(subs2.contains_key(k));
        assert(nz_refs_sub(subs2[k], subs3[k], known));
        let b0 = subs2[k].term.blocks@[i];
        let b1 = subs3[k].term.blocks@[i];
        assert(nz_refs_blk(b0, b1, known));
        assert(nz_blk_at(subs2, k, i, subs2[k].term.blocks@[i].tid));
        if exists |j: int| 0 <= j < b1.term.jmps@.len() && nz_intra_target((#[trigger] b1.term.jmps@[j]).term) == Some(u) {
            let j = choose |j: int| 0 <= j < b1.term.jmps@.len() && nz_intra_target((#[trigger] b1.term.jmps@[j]).term) == Some(u);
            assert(b1.term.jmps@[j].term == nz_retarget(b0.term.jmps@[j].term, known));
            if u != sinkb {
                assert(nz_intra_target(b0.term.jmps@[j].term) == Some(u));
                assert(known.contains(u));
                assert(nz_names(b0, u));
                assert(nz_known(subs2, ext, u));
                assert(nz_is_blk(subs2, u));
            }
        } else {
            let h = choose |h: int| 0 <= h < b1.term.indirect_jmp_targets@.len() && #[trigger] b1.term.indirect_jmp_targets@[h] == u;
            let h0 = b0.term.indirect_jmp_targets@;
            lemma_nz_keep_members(h0, known, h0.len() as int);
            lemma_nz_keep_sub(h0, known, h0.len() as int, h);
            assert(known.contains(u));
            assert(nz_names(b0, u));
            assert(nz_known(subs2, ext, u));
            assert(nz_is_blk(subs2, u));
        }
    }
}

/// ... and occurs among the hints
pub proof fn lemma_nz_keep_sub(h: Seq<Tid>, known: Set<Tid>, n: int, x: int)
    requires
        0 <= n <= h.len(),
        0 <= x < nz_keep(h, known, n).len(),
    ensures
        exists |y: int| 0 <= y < n && #[trigger] h[y] == nz_keep(h, known, n)[x],
    decreases n
{
    if n > 0 {
        let r = nz_keep(h, known, n - 1);
        if x < r.len() {
            lemma_nz_keep_sub(h, known, n - 1, x);
            let y = choose |y: int| 0 <= y < n - 1 && #[trigger] h[y] == r[x];
            assert(h[y] == nz_keep(h, known, n)[x]);
        } else {
            assert(h[n - 1] == nz_keep(h, known, n)[x]);
        }
    }
}

/// what a redirected block names is the redirection (rule nz_fix) of what the block named
pub proof fn lemma_nz_resfx_names(b0: Term<Blk>, b1: Term<Blk>, f: Tid, home: Map<Tid, Tid>, u: Tid)
    requires
        nz_resfx_blk(b0, b1, f, home),
        nz_names(b1, u),
    ensures
        exists |u0: Tid| #[trigger] nz_names(b0, u0) && u == nz_fix(u0, f, home),
{
    if exists |j: int| 0 <= j < b1.term.jmps@.len() && nz_intra_target((#[trigger] b1.term.jmps@[j]).term) == Some(u) {
        let j = choose |j: int| 0 <= j < b1.term.jmps@.len() && nz_intra_target((#[trigger] b1.term.jmps@[j]).term) == Some(u);
        assert(b1.term.jmps@[j].term == nz_resfx(b0.term.jmps@[j].term, f, home));
        let w = nz_intra_target(b0.term.jmps@[j].term);
        assert(w is Some && u == nz_fix(w->Some_0, f, home));
        assert(nz_names(b0, w->Some_0));
    } else {
        let h = choose |h: int| 0 <= h < b1.term.indirect_jmp_targets@.len() && #[trigger] b1.term.indirect_jmp_targets@[h] == u;
        assert(u == nz_fix(b0.term.indirect_jmp_targets@[h], f, home));
        assert(nz_names(b0, b0.term.indirect_jmp_targets@[h]));
    }
}

/// a suffixed copy names what the original names
pub proof fn lemma_nz_clone_names(orig: Term<Blk>, b0: Term<Blk>, s: Seq<char>, u0: Tid)
    requires
        nz_clone_sfx(orig, b0, s),
        nz_names(b0, u0),
    ensures
        nz_names(orig, u0),
{
    if exists |j: int| 0 <= j < b0.term.jmps@.len() && nz_intra_target((#[trigger] b0.term.jmps@[j]).term) == Some(u0) {
        let j = choose |j: int| 0 <= j < b0.term.jmps@.len() && nz_intra_target((#[trigger] b0.term.jmps@[j]).term) == Some(u0);
        assert(b0.term.jmps@[j].term == orig.term.jmps@[j].term);
        assert(nz_intra_target(orig.term.jmps@[j].term) == Some(u0));
    } else {
        let h = choose |h: int| 0 <= h < b0.term.indirect_jmp_targets@.len() && #[trigger] b0.term.indirect_jmp_targets@[h] == u0;
        assert(orig.term.indirect_jmp_targets@[h] == u0);
    }
}

/// block number `i` of the function after the pass stands for a block tid contained in the function, and names what that block names (redirected)
pub proof fn lemma_nz_uniq_block_origin(prog: Tid, subs3: Map<Tid, Term<Sub>>, k: Tid, l0: Seq<Term<Blk>>, add: Seq<Term<Blk>>, src: Seq<Tid>,
                                        set: Set<Tid>, home: Map<Tid, Tid>, bm: Map<Tid, &Term<Blk>>, i: int, u0: Tid)
    requires
        nz_unique(prog, subs3),
        subs3.contains_key(k),
        nz_blkmap_ok(bm, subs3),
        nz_contained_ok(set, subs3[k], bm),
        nz_additional(add, src, set, subs3[k].tid, home, bm),
        l0 == subs3[k].term.blocks@ + add,
        0 <= i < l0.len(),
        nz_names(l0[i], u0),
    ensures
        set.contains(u0),
{
    let s3 = subs3[k];
    let f = s3.tid;
    let n0 = s3.term.blocks@.len() as int;
    if i < n0 {
        let t = s3.term.blocks@[i].tid;
        assert(l0[i] == s3.term.blocks@[i]);
        assert(nz_blk_at(subs3, k, i, subs3[k].term.blocks@[i].tid));
        assert(set.contains(t) && bm.contains_key(t));
        let (k2, i2) = choose |k2: Tid, i2: int| #[trigger] nz_blk_at(subs3, k2, i2, t) && *bm[t] == subs3[k2].term.blocks@[i2];
        assert(nz_pos_ok(subs3, NzPos::Blk(k2, i2)) && nz_pos_ok(subs3, NzPos::Blk(k, i)));
        assert(nz_tid_at(prog, subs3, NzPos::Blk(k2, i2)) == nz_tid_at(prog, subs3, NzPos::Blk(k, i)));
        assert(*bm[t] == l0[i]);
        assert(nz_names(*bm[t], u0));
    } else {
        let t = src[i - n0];
        assert(l0[i] == add[i - n0]);
        assert(set.contains(t) && bm.contains_key(t) && nz_clone_sfx(*bm[t], add[i - n0], nz_sfx(f)));
        lemma_nz_clone_names(*bm[t], add[i - n0], nz_sfx(f), u0);
        assert(nz_names(*bm[t], u0));
    }
}

/// a tid contained in the function, redirected: the tid of a block of the function after the pass
pub proof fn lemma_nz_uniq_target(prog: Tid, subs3: Map<Tid, Term<Sub>>, k: Tid, l0: Seq<Term<Blk>>, l1: Seq<Term<Blk>>, add: Seq<Term<Blk>>, src: Seq<Tid>,
                                  set: Set<Tid>, home: Map<Tid, Tid>, bm: Map<Tid, &Term<Blk>>, u0: Tid)
    requires
        nz_unique(prog, subs3),
        nz_names_closed(subs3),
        subs3.contains_key(k),
        nz_home_ok(home, prog, subs3),
        nz_blkmap_ok(bm, subs3),
        nz_contained_ok(set, subs3[k], bm),
        nz_additional(add, src, set, subs3[k].tid, home, bm),
        l0 == subs3[k].term.blocks@ + add,
        nz_resfx_blks(l0, l1, subs3[k].tid, home),
        set.contains(u0),
    ensures
        exists |i2: int| 0 <= i2 < l1.len() && (#[trigger] l1[i2]).tid == nz_fix(u0, subs3[k].tid, home),
{
    let s3 = subs3[k];
    let f = s3.tid;
    let n0 = s3.term.blocks@.len() as int;
    lemma_nz_unique_subs_distinct(prog, subs3);
    lemma_nz_contained_blocks(subs3, bm, k, set);
    assert(nz_is_blk(subs3, u0));
    if nz_home_is(home, u0, f) {
        let (k2, i2) = choose |k2: Tid, i2: int| #[trigger] nz_blk_at(subs3, k2, i2, u0);
        assert(nz_pos_ok(subs3, NzPos::Blk(k2, i2)));
        assert(home[nz_tid_at(prog, subs3, NzPos::Blk(k2, i2))] == subs3[nz_pos_key(NzPos::Blk(k2, i2))].tid);
        assert(subs3[k2].tid == f);
        assert(k2 == k);
        assert(l0[i2] == s3.term.blocks@[i2]);
        assert(nz_resfx_blk(l0[i2], l1[i2], f, home));
        assert(l1[i2].tid == nz_fix(u0, f, home));
    } else {
        assert(nz_in(src, u0));
        let x = choose |x: int| 0 <= x < src.len() && #[trigger] src[x] == u0;
        assert(nz_clone_sfx(*bm[src[x]], add[x], nz_sfx(f)));
        assert(l0[n0 + x] == add[x]);
        assert(nz_resfx_blk(l0[n0 + x], l1[n0 + x], f, home));
        assert(l1[n0 + x].tid == nz_fix(u0, f, home));
    }
}

/// PROPERTY CLAUSE after make_block_to_sub_mapping_unique: what a block names is a block of the same function
pub proof fn lemma_nz_uniq_intra(prog: Tid, subs3: Map<Tid, Term<Sub>>, subs4: Map<Tid, Term<Sub>>)
    requires
        nz_unique(prog, subs3),
        nz_names_closed(subs3),
        nz_uniq_post(prog, subs3, subs4),
    ensures
        nz_intra_ok(subs4),
{
    hide(nz_unique); hide(nz_names_closed); hide(nz_home_ok); hide(nz_blkmap_ok); hide(nz_contained_ok); hide(nz_additional); hide(nz_names); hide(nz_fix); hide(nz_resfx_blk);
    let (home, bm, sm) = choose |home: Map<Tid, Tid>, bm: Map<Tid, &Term<Blk>>, sm: Map<Tid, HashSet<Tid>>|
        nz_home_ok(home, prog, subs3) && nz_blkmap_ok(bm, subs3) && nz_submap_ok(sm, subs3, bm) && #[trigger] nz_uniq_shape(subs3, subs4, home, bm, sm);
    assert forall |k: Tid, i: int, u: Tid| #[trigger] nz_blk_at(subs4, k, i, subs4[k].term.blocks@[i].tid) && #[trigger] nz_names(subs4[k].term.blocks@[i], u)
        implies exists |i2: int| #[trigger] nz_blk_at(subs4, k, i2, u) by {
        assert(subs3.contains_key(k));
        let s3 = subs3[k];
        let s4 = subs4[k];
        let f = s3.tid;
        let set = sm[f]@;
        assert(nz_uniq_sub(s3, s4, set, home, bm));
        assert(nz_contained_ok(set, s3, bm));
        let add = choose |add: Seq<Term<Blk>>| #[trigger] nz_additional_ok(add, set, f, home, bm) && nz_resfx_blks(s3.term.blocks@ + add, s4.term.blocks@, f, home);
        let src = choose |src: Seq<Tid>| #[trigger] nz_additional(add, src, set, f, home, bm);
        let l0 = s3.term.blocks@ + add;
        assert(nz_resfx_blks(l0, s4.term.blocks@, f, home));
        assert(nz_resfx_blk(l0[i], s4.term.blocks@[i], f, home));
        lemma_nz_resfx_names(l0[i], s4.term.blocks@[i], f, home, u);
        let u0 = choose |u0: Tid| #[trigger] nz_names(l0[i], u0) && u == nz_fix(u0, f, home);
        lemma_nz_uniq_block_origin(prog, subs3, k, l0, add, src, set, home, bm, i, u0);
        lemma_nz_uniq_target(prog, subs3, k, l0, s4.term.blocks@, add, src, set, home, bm, u0);
        let i2 = choose |i2: int| 0 <= i2 < s4.term.blocks@.len() && (#[trigger] s4.term.blocks@[i2]).tid == nz_fix(u0, f, home);
        assert(nz_blk_at(subs4, k, i2, u));
    }
}

/// the last pass keeps "what a block names is a block of the same function" up to the name of the artificial sink block
pub proof fn lemma_nz_noret_intra(subs4: Map<Tid, Term<Sub>>, subs5: Map<Tid, Term<Sub>>, ext: Map<Tid, ExternSymbol>, nr: Set<Tid>)
    requires
        nz_intra_ok(subs4),
        nz_noret_post(subs4, subs5, ext, nr),
    ensures
        nz_intra_ok_mod_sink(subs5),
{
    broadcast use axiom_nz_sink_blk_is;
    assert forall |k: Tid, i: int, u: Tid| #[trigger] nz_blk_at(subs5, k, i, subs5[k].term.blocks@[i].tid) && #[trigger] nz_names(subs5[k].term.blocks@[i], u)
        implies (exists |i2: int| #[trigger] nz_blk_at(subs5, k, i2, u))
            || (u == nz_sink_blk(nz_sfx(subs5[k].tid)) && nz_has_sink(subs5[k].term.blocks@, nz_sfx(subs5[k].tid))) by {
        assert(subs4.contains_key(k));
        let s4 = subs4[k];
        let s5 = subs5[k];
        if s4.tid == nz_sink_sub() {
            assert(s5 == s4);
            assert(nz_blk_at(subs4, k, i, subs4[k].term.blocks@[i].tid));
            let i2 = choose |i2: int| #[trigger] nz_blk_at(subs4, k, i2, u);
            assert(nz_blk_at(subs5, k, i2, u));
        } else {
            assert(nz_noret_sub(s4, s5, ext, nr));
            let f = s4.tid;
            let n0 = s4.term.blocks@.len() as int;
            let sink = nz_sink_blk(nz_sfx(f));
            if i >= n0 {
                // the appended sink block names nothing
                assert(nz_is_sink_block_term(s5.term.blocks@[n0], nz_sfx(f)));
            } else {
                let b0 = s4.term.blocks@[i];
                let b1 = s5.term.blocks@[i];
                assert(nz_noret_blk(b0, b1, f, ext, nr));
                assert(nz_blk_at(subs4, k, i, subs4[k].term.blocks@[i].tid));
                if nz_names(b0, u) {
                    let i2 = choose |i2: int| #[trigger] nz_blk_at(subs4, k, i2, u);
                    assert(nz_noret_blk(s4.term.blocks@[i2], s5.term.blocks@[i2], f, ext, nr));
                    assert(nz_blk_at(subs5, k, i2, u));
                } else {
                    // a retargeted return: u is the sink name, and some jump was changed
                    let j = choose |j: int| 0 <= j < b1.term.jmps@.len() && nz_intra_target((#[trigger] b1.term.jmps@[j]).term) == Some(u);
                    assert(b1.term.jmps@[j].term == nz_noret(b0.term.jmps@[j].term, f, ext, nr));
                    if nz_noret(b0.term.jmps@[j].term, f, ext, nr) == b0.term.jmps@[j].term {
                        assert(nz_intra_target(b0.term.jmps@[j].term) == Some(u));
                        assert(nz_names(b0, u));
                    }
                    assert(u == sink);
                    assert(nz_noret_changed(s4.term.blocks@, f, ext, nr, n0, 0));
                    if nz_has_sink(s4.term.blocks@, nz_sfx(f)) {
                        let x = choose |x: int| 0 <= x < s4.term.blocks@.len() && nz_is_sink_blk((#[trigger] s4.term.blocks@[x]).tid, nz_sfx(f));
                        assert(nz_noret_blk(s4.term.blocks@[x], s5.term.blocks@[x], f, ext, nr));
                        assert(nz_is_sink_blk(s5.term.blocks@[x].tid, nz_sfx(f)));
                    } else {
                        assert(nz_is_sink_block_term(s5.term.blocks@[n0], nz_sfx(f)));
                        assert(nz_blk_at(subs5, k, n0, u));
                    }
                }
            }
        }
    }
}

/// PROPERTY CLAUSE "calls to non-returning functions return to the caller's artificial sink" after the last pass
pub proof fn lemma_nz_noret_ok(subs4: Map<Tid, Term<Sub>>, subs5: Map<Tid, Term<Sub>>, ext: Map<Tid, ExternSymbol>, nr: Set<Tid>)
    requires
        nz_nonret_set(nr, subs4),
        nz_noret_post(subs4, subs5, ext, nr),
    ensures
        nz_noret_ok(subs5, ext),
{
    broadcast use axiom_nz_sink_blk_is;
    // a function without return instruction after the pass had none before
    assert forall |t: Tid| nz_nonret(subs5, t) implies nr.contains(t) by {
        let k = choose |k: Tid| #[trigger] subs5.contains_key(k) && subs5[k].tid == t && !nz_blocks_return(subs5[k].term.blocks@) && t != nz_sink_sub();
        assert(subs4.contains_key(k));
        assert(nz_noret_sub(subs4[k], subs5[k], ext, nr));
        if nz_blocks_return(subs4[k].term.blocks@) {
            let i = choose |i: int| 0 <= i < subs4[k].term.blocks@.len() && nz_jmps_return((#[trigger] subs4[k].term.blocks@[i]).term.jmps@);
            let j = choose |j: int| 0 <= j < subs4[k].term.blocks@[i].term.jmps@.len() && (#[trigger] subs4[k].term.blocks@[i].term.jmps@[j]).term is Return;
            assert(nz_noret_blk(subs4[k].term.blocks@[i], subs5[k].term.blocks@[i], subs4[k].tid, ext, nr));
            assert(subs5[k].term.blocks@[i].term.jmps@[j].term is Return);
            assert(nz_jmps_return(subs5[k].term.blocks@[i].term.jmps@));
            assert(nz_blocks_return(subs5[k].term.blocks@));
        }
        assert(nz_nonret(subs4, t));
    }
    assert forall |k: Tid, i: int, j: int| #[trigger] nz_pos_ok(subs5, NzPos::Jmp(k, i, j)) && subs5[k].tid != nz_sink_sub() implies
        match subs5[k].term.blocks@[i].term.jmps@[j].term {
            Jmp::Call { target, return_: Some(r) } =>
                ((ext.contains_key(target) && ext[target].no_return) || (!ext.contains_key(target) && nz_nonret(subs5, target)))
                    ==> nz_is_sink_blk(r, nz_sfx(subs5[k].tid)),
            _ => true,
        } by {
        assert(subs4.contains_key(k));
        assert(nz_noret_sub(subs4[k], subs5[k], ext, nr));
        let n0 = subs4[k].term.blocks@.len() as int;
        if i < n0 {
            assert(nz_noret_blk(subs4[k].term.blocks@[i], subs5[k].term.blocks@[i], subs4[k].tid, ext, nr));
            assert(subs5[k].term.blocks@[i].term.jmps@[j].term == nz_noret(subs4[k].term.blocks@[i].term.jmps@[j].term, subs4[k].tid, ext, nr));
        } else {
            assert(nz_is_sink_block_term(subs5[k].term.blocks@[n0], nz_sfx(subs4[k].tid)));
        }
    }
}

/// the first block of the function under `k` has the tid `t`
pub open spec fn nz_first(subs: Map<Tid, Term<Sub>>, k: Tid, t: Tid) -> bool {
    subs.contains_key(k) && subs[k].term.blocks@.len() > 0 && subs[k].term.blocks@[0].tid == t
}

pub proof fn lemma_nz_first_refs(s2: Map<Tid, Term<Sub>>, s3: Map<Tid, Term<Sub>>, known: Set<Tid>, k: Tid, t: Tid)
    requires nz_refs_post(s2, s3, known), nz_first(s2, k, t),
    ensures nz_first(s3, k, t),
{
    assert(nz_refs_sub(s2[k], s3[k], known));
    assert(nz_refs_blk(s2[k].term.blocks@[0], s3[k].term.blocks@[0], known));
}

pub proof fn lemma_nz_first_uniq(prog: Tid, s3: Map<Tid, Term<Sub>>, s4: Map<Tid, Term<Sub>>, k: Tid, t: Tid)
    requires nz_uniq_post(prog, s3, s4), nz_first(s3, k, t),
    ensures nz_first(s4, k, t),
{
    hide(nz_home_ok); hide(nz_blkmap_ok); hide(nz_submap_ok); hide(nz_additional_ok);
    let (home, bm, sm) = choose |home: Map<Tid, Tid>, bm: Map<Tid, &Term<Blk>>, sm: Map<Tid, HashSet<Tid>>|
        nz_home_ok(home, prog, s3) && nz_blkmap_ok(bm, s3) && nz_submap_ok(sm, s3, bm) && #[trigger] nz_uniq_shape(s3, s4, home, bm, sm);
    assert(nz_uniq_sub(s3[k], s4[k], sm[s3[k].tid]@, home, bm));
    let add = choose |add: Seq<Term<Blk>>| #[trigger] nz_additional_ok(add, sm[s3[k].tid]@, s3[k].tid, home, bm) && nz_resfx_blks(s3[k].term.blocks@ + add, s4[k].term.blocks@, s3[k].tid, home);
    assert((s3[k].term.blocks@ + add)[0] == s3[k].term.blocks@[0]);
    assert(nz_resfx_blk((s3[k].term.blocks@ + add)[0], s4[k].term.blocks@[0], s3[k].tid, home));
}

pub proof fn lemma_nz_first_noret(s4: Map<Tid, Term<Sub>>, s5: Map<Tid, Term<Sub>>, ext: Map<Tid, ExternSymbol>, nr: Set<Tid>, k: Tid, t: Tid)
    requires nz_noret_post(s4, s5, ext, nr), nz_first(s4, k, t),
    ensures nz_first(s5, k, t),
{
    if s4[k].tid == nz_sink_sub() {
        assert(s5[k] == s4[k]);
    } else {
        assert(nz_noret_sub(s4[k], s5[k], ext, nr));
        assert(nz_noret_blk(s4[k].term.blocks@[0], s5[k].term.blocks@[0], s4[k].tid, ext, nr));
    }
}

/// PROPERTY CLAUSE "every function still starts with its original entry block" through the five passes
pub proof fn lemma_nz_chain_entries(prog: Tid, s0: Map<Tid, Term<Sub>>, ext: Map<Tid, ExternSymbol>, s1: Map<Tid, Term<Sub>>, s2: Map<Tid, Term<Sub>>,
                                    s3: Map<Tid, Term<Sub>>, s4: Map<Tid, Term<Sub>>, s5: Map<Tid, Term<Sub>>, known: Set<Tid>, nr: Set<Tid>)
    requires
        nz_chain(prog, s0, ext, s1, s2, s3, s4, s5, known, nr),
        nz_keys_are_tids(s0),
        nz_no_sink_names(prog, s0),
    ensures
        nz_entries_kept(prog, s0, s5),
{
    hide(nz_unique); hide(nz_names_closed); hide(nz_known_set); hide(nz_nonret_set); hide(nz_uniq_post); hide(nz_noret_post); hide(nz_refs_post);
    assert forall |k: Tid| #[trigger] s0.contains_key(k) && nz_alone(prog, s0, NzPos::Blk(k, 0)) implies
        s5.contains_key(k) && s5[k].term.blocks@.len() > 0 && s5[k].term.blocks@[0].tid == s0[k].term.blocks@[0].tid by {
        let t = s0[k].term.blocks@[0].tid;
        assert(s1.contains_key(k) && s1[k].term.blocks@.len() > 0 && nz_dedup_blk(s0[k].term.blocks@[0], s1[k].term.blocks@[0]));
        assert(nz_pos_ok(s0, NzPos::Sub(k)));
        assert(nz_tid_at(prog, s0, NzPos::Sub(k)) == k);
        assert(k != nz_sink_sub());
        assert(s2.contains_key(k) && s2[k] == s1[k]);
        assert(nz_first(s2, k, t));
        lemma_nz_first_refs(s2, s3, known, k, t);
        lemma_nz_first_uniq(prog, s3, s4, k, t);
        lemma_nz_first_noret(s4, s5, ext, nr, k, t);
    }
}
