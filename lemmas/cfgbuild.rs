// ---------------------------------------------------------------------------
// lemmas/cfgbuild.rs -- proved lemmas of unit `cfgbuild` (nothing trusted).
// ---------------------------------------------------------------------------

/// petgraph's add_node seen through the abstraction: one more node weight, same edges
pub broadcast proof fn lemma_cfg_node_added<'a>(g1: Graph<'a>, g2: Graph<'a>, w: Node<'a>)
    requires #[trigger] cgb_node_added(g1, g2, w),
    ensures cfg_nodes(g2) == cfg_nodes(g1).push(w), cfg_edges(g2) == cfg_edges(g1),
{
    assert(cfg_nodes(g2) =~= cfg_nodes(g1).push(w));
    assert(cfg_edges(g2) =~= cfg_edges(g1));
}

/// petgraph's add_edge seen through the abstraction: one more edge, same nodes
pub broadcast proof fn lemma_cfg_edge_added<'a>(g1: Graph<'a>, g2: Graph<'a>, a: NodeIndex, b: NodeIndex, w: Edge<'a>)
    requires #[trigger] cgb_edge_added(g1, g2, a, b, w),
    ensures cfg_nodes(g2) == cfg_nodes(g1), cfg_edges(g2) == cfg_edges(g1).push(CfgEdge { src: a, dst: b, w }),
{
    assert(cfg_nodes(g2) =~= cfg_nodes(g1));
    assert(cfg_edges(g2) =~= cfg_edges(g1).push(CfgEdge { src: a, dst: b, w }));
}

/// field-wise extensional equality is equality
pub broadcast proof fn lemma_cfg_st_eq<'a>(a: CfgSt<'a>, b: CfgSt<'a>)
    requires #[trigger] cfg_st_eq(a, b),
    ensures a == b,
{
}

/// petgraph's index type: a graph never has more than u32::MAX nodes (part of axiom_cg_digraph_bounds, shim/callgraph.rs)
pub proof fn lemma_cfg_small<'a>(g: Graph<'a>)
    ensures cfg_nodes(g).len() <= u32::MAX,
{
    axiom_cg_digraph_bounds(g);
}

pub proof fn lemma_cfg_inv_add_block<'a>(st: CfgSt<'a>, subs: Map<Tid, Term<Sub>>, b: &'a Term<Blk>, f: &'a Term<Sub>)
    requires cfg_inv(st, subs), st.nodes.len() + 1 <= usize::MAX,
    ensures cfg_inv(cfg_add_block(st, b, f), subs), cfg_grows(st, cfg_add_block(st, b, f)),
{
    let s2 = cfg_add_block(st, b, f);
    let n = st.nodes.len() as int;
    assert forall |k: (Tid, Tid)| #[trigger] s2.jt.contains_key(k) implies cfg_pair_ok(s2.nodes, k, s2.jt[k]) by {
        if k == (b.tid, f.tid) {} else { assert(st.jt.contains_key(k)); }
    }
    assert forall |t: Tid| #[trigger] s2.ct.contains_key(t) implies cfg_entry_ok(s2.nodes, subs, t, s2.ct[t]) by {
        assert(st.ct.contains_key(t));
        assert(cfg_entry_ok(st.nodes, subs, t, st.ct[t]));
    }
    assert forall |t: Tid, i: int| s2.ra.contains_key(t) && 0 <= i < s2.ra[t].len() implies cfg_ret_ok(s2.nodes, #[trigger] s2.ra[t][i]) by {
        assert(cfg_ret_ok(st.nodes, st.ra[t][i]));
    }
    assert forall |i: int| 0 <= i < s2.wl.len() implies (#[trigger] s2.wl[i]).i < s2.nodes.len() && s2.nodes[s2.wl[i].i as int] is BlkEnd by {
        if i < st.wl.len() { assert(s2.wl[i] == st.wl[i]); }
    }
    assert forall |e: int| 0 <= e < s2.edges.len() implies (#[trigger] s2.edges[e]).src.i < s2.nodes.len() && s2.edges[e].dst.i < s2.nodes.len() by {
        if e < st.edges.len() { assert(s2.edges[e] == st.edges[e]); }
    }
}

pub proof fn lemma_cfg_inv_edge<'a>(st: CfgSt<'a>, subs: Map<Tid, Term<Sub>>, src: NodeIndex, dst: NodeIndex, w: Edge<'a>)
    requires cfg_inv(st, subs), src.i < st.nodes.len(), dst.i < st.nodes.len(),
    ensures cfg_inv(cfg_edge(st, src, dst, w), subs), cfg_grows(st, cfg_edge(st, src, dst, w)),
{
    let s2 = cfg_edge(st, src, dst, w);
    assert forall |e: int| 0 <= e < s2.edges.len() implies (#[trigger] s2.edges[e]).src.i < s2.nodes.len() && s2.edges[e].dst.i < s2.nodes.len() by {
        if e < st.edges.len() { assert(s2.edges[e] == st.edges[e]); }
    }
}

pub proof fn lemma_cfg_inv_node<'a>(st: CfgSt<'a>, subs: Map<Tid, Term<Sub>>, w: Node<'a>)
    requires cfg_inv(st, subs),
    ensures cfg_inv(cfg_node(st, w), subs), cfg_grows(st, cfg_node(st, w)),
{
    let s2 = cfg_node(st, w);
    assert forall |k: (Tid, Tid)| #[trigger] s2.jt.contains_key(k) implies cfg_pair_ok(s2.nodes, k, s2.jt[k]) by {
        assert(cfg_pair_ok(st.nodes, k, st.jt[k]));
    }
    assert forall |t: Tid| #[trigger] s2.ct.contains_key(t) implies cfg_entry_ok(s2.nodes, subs, t, s2.ct[t]) by {
        assert(cfg_entry_ok(st.nodes, subs, t, st.ct[t]));
    }
    assert forall |t: Tid, i: int| s2.ra.contains_key(t) && 0 <= i < s2.ra[t].len() implies cfg_ret_ok(s2.nodes, #[trigger] s2.ra[t][i]) by {
        assert(cfg_ret_ok(st.nodes, st.ra[t][i]));
    }
}

/// the pair looked up / created by cfg_ensure is an existing BlkStart node; the invariant is kept
pub proof fn lemma_cfg_inv_ensure<'a>(st: CfgSt<'a>, subs: Map<Tid, Term<Sub>>, tid: Tid, f: &'a Term<Sub>)
    requires cfg_inv(st, subs), st.nodes.len() + 1 <= usize::MAX,
    ensures
        cfg_inv(cfg_ensure(st, subs, tid, f).0, subs),
        cfg_grows(st, cfg_ensure(st, subs, tid, f).0),
        cfg_ensure(st, subs, tid, f).1.i < cfg_ensure(st, subs, tid, f).0.nodes.len(),
        cfg_ensure(st, subs, tid, f).0.nodes[cfg_ensure(st, subs, tid, f).1.i as int] is BlkStart,
{
    if st.jt.contains_key((tid, f.tid)) {
        assert(cfg_pair_ok(st.nodes, (tid, f.tid), st.jt[(tid, f.tid)]));
    } else {
        lemma_cfg_inv_add_block(st, subs, cfg_find_block::<'a>(subs, tid)->Some_0, f);
    }
}

pub proof fn lemma_cfg_inv_intra<'a>(st: CfgSt<'a>, subs: Map<Tid, Term<Sub>>, source: NodeIndex, tid: Tid, jump: &'a Term<Jmp>, uc: Option<&'a Term<Jmp>>)
    requires cfg_inv(st, subs), st.nodes.len() + 1 <= usize::MAX, source.i < st.nodes.len(),
    ensures
        cfg_inv(cfg_intra(st, subs, source, tid, jump, uc), subs),
        cfg_grows(st, cfg_intra(st, subs, source, tid, jump, uc)),
{
    let f = cfg_sub(st.nodes[source.i as int]);
    lemma_cfg_inv_ensure(st, subs, tid, f);
    let (st1, t) = cfg_ensure(st, subs, tid, f);
    lemma_cfg_inv_edge(st1, subs, source, t, Edge::Jump(jump, uc));
}

pub proof fn lemma_cfg_grows_trans<'a>(a: CfgSt<'a>, b: CfgSt<'a>, c: CfgSt<'a>)
    requires cfg_grows(a, b), cfg_grows(b, c),
    ensures cfg_grows(a, c),
{
}

pub proof fn lemma_cfg_inv_return_site<'a>(st: CfgSt<'a>, subs: Map<Tid, Term<Sub>>, source: NodeIndex, return_: Option<Tid>)
    requires cfg_inv(st, subs), st.nodes.len() + 1 <= usize::MAX, source.i < st.nodes.len(),
    ensures
        cfg_inv(cfg_return_site(st, subs, source, return_).0, subs),
        cfg_grows(st, cfg_return_site(st, subs, source, return_).0),
        cfg_return_site(st, subs, source, return_).0.nodes.len() <= st.nodes.len() + 2,
        cfg_return_site(st, subs, source, return_).0.ra == st.ra,
        cfg_return_site(st, subs, source, return_).1 is Some <==> return_ is Some,
        cfg_return_site(st, subs, source, return_).1 is Some ==> {
            let rn = cfg_return_site(st, subs, source, return_).1->Some_0;
            rn.i < cfg_return_site(st, subs, source, return_).0.nodes.len() && cfg_return_site(st, subs, source, return_).0.nodes[rn.i as int] is BlkStart
        },
{
    if return_ is Some {
        lemma_cfg_inv_ensure(st, subs, return_->Some_0, cfg_sub(st.nodes[source.i as int]));
    }
}

pub proof fn lemma_cfg_inv_call<'a>(st: CfgSt<'a>, subs: Map<Tid, Term<Sub>>, ext: Set<Tid>, source: NodeIndex, jump: &'a Term<Jmp>, target: Tid, return_: Option<Tid>)
    requires cfg_inv(st, subs), st.nodes.len() + 3 <= usize::MAX, source.i < st.nodes.len(), cfg_has_call(*cfg_blk(st.nodes[source.i as int])),
    ensures
        cfg_inv(cfg_call(st, subs, ext, source, jump, target, return_), subs),
        cfg_grows(st, cfg_call(st, subs, ext, source, jump, target, return_)),
{
    lemma_cfg_inv_return_site(st, subs, source, return_);
    let b = cfg_blk(st.nodes[source.i as int]);
    let f = cfg_sub(st.nodes[source.i as int]);
    let (st1, rn_opt) = cfg_return_site(st, subs, source, return_);
    if ext.contains(target) {
        if rn_opt is Some { lemma_cfg_inv_edge(st1, subs, source, rn_opt->Some_0, Edge::ExternCallStub(jump)); }
    } else if st1.ct.contains_key(target) {
        let tn = st1.ct[target].0;
        assert(cfg_entry_ok(st1.nodes, subs, target, st1.ct[target]));
        let cs = cfg_ni(st1.nodes.len() as int);
        let w = Node::CallSource { source: (b, f), target: (cfg_blk(st1.nodes[tn.i as int]), cfg_sub(st1.nodes[tn.i as int])) };
        let st2 = cfg_node(st1, w);
        lemma_cfg_inv_node(st1, subs, w);
        lemma_cfg_inv_edge(st2, subs, source, cs, Edge::CallCombine(jump));
        let st2b = cfg_edge(st2, source, cs, Edge::CallCombine(jump));
        lemma_cfg_inv_edge(st2b, subs, cs, tn, Edge::Call(jump));
        let st3 = cfg_edge(st2b, cs, tn, Edge::Call(jump));
        if rn_opt is Some {
            let rn = rn_opt->Some_0;
            let st4 = CfgSt { ra: cfg_ra_push(st3.ra, target, (cs, rn)), ..st3 };
            assert forall |t: Tid, i: int| st4.ra.contains_key(t) && 0 <= i < st4.ra[t].len() implies cfg_ret_ok(st4.nodes, #[trigger] st4.ra[t][i]) by {
                if t == target {
                    if st3.ra.contains_key(target) && i < st3.ra[target].len() {
                        assert(st4.ra[t][i] == st3.ra[t][i]);
                    } else {
                        assert(st4.ra[t][i] == (cs, rn));
                        assert(st4.nodes[cs.i as int] == w);
                    }
                } else {
                    assert(st4.ra[t][i] == st3.ra[t][i]);
                }
            }
        }
    }
}

pub proof fn lemma_cfg_inv_jump_edge<'a>(st: CfgSt<'a>, subs: Map<Tid, Term<Sub>>, ext: Set<Tid>, source: NodeIndex, jump: &'a Term<Jmp>, uc: Option<&'a Term<Jmp>>)
    requires
        cfg_inv(st, subs), source.i < st.nodes.len(),
        st.nodes.len() + 3 <= usize::MAX,
        // (the BranchInd case is a loop of add_intraprocedural_edge calls: add_indirect_jumps proves it step by step)
        !(jump.term is BranchInd),
        jump.term is Call ==> cfg_has_call(*cfg_blk(st.nodes[source.i as int])),
    ensures
        cfg_inv(cfg_jump_edge(st, subs, ext, source, jump, uc), subs),
        cfg_grows(st, cfg_jump_edge(st, subs, ext, source, jump, uc)),
{
    match jump.term {
        Jmp::Branch(tid) => { lemma_cfg_inv_intra(st, subs, source, tid, jump, uc); },
        Jmp::CBranch { target, condition } => { lemma_cfg_inv_intra(st, subs, source, target, jump, uc); },
        Jmp::BranchInd(e) => {},
        Jmp::Call { target, return_ } => { lemma_cfg_inv_call(st, subs, ext, source, jump, target, return_); },
        Jmp::CallInd { target, return_ } => {
            lemma_cfg_inv_return_site(st, subs, source, return_);
            let (st1, rn_opt) = cfg_return_site(st, subs, source, return_);
            if rn_opt is Some { lemma_cfg_inv_edge(st1, subs, source, rn_opt->Some_0, Edge::ExternCallStub(jump)); }
        },
        Jmp::CallOther { description, return_ } => {},
        Jmp::Return(e) => {},
    }
}

/// the first direct call of a jump list is unique, so the chosen one is the found one
pub proof fn lemma_cfg_first_call_unique(jmps: Seq<Term<Jmp>>, j1: int, j2: int)
    requires cfg_first_call(jmps, j1), cfg_first_call(jmps, j2),
    ensures j1 == j2,
{
    if j1 < j2 { assert(!(jmps[j1].term is Call)); }
    if j2 < j1 { assert(!(jmps[j2].term is Call)); }
}

pub proof fn lemma_cfg_call_term<'a>(b: &'a Term<Blk>, j: int)
    requires cfg_first_call(b.term.jmps@, j),
    ensures *cfg_call_term(b) == b.term.jmps@[j],
{
    let c = choose |c: int| cfg_first_call(b.term.jmps@, c);
    lemma_cfg_first_call_unique(b.term.jmps@, c, j);
}

pub proof fn lemma_cfg_inv_call_return_step<'a>(st: CfgSt<'a>, subs: Map<Tid, Term<Sub>>, f_ret: &'a Term<Sub>, rs: NodeIndex, cn: NodeIndex, rn: NodeIndex)
    requires cfg_inv(st, subs), st.nodes.len() + 1 <= usize::MAX, rs.i < st.nodes.len(), cn.i < st.nodes.len(), rn.i < st.nodes.len(),
    ensures
        cfg_inv(cfg_call_return_1(st, f_ret, rs, cn, rn), subs),
        cfg_grows(st, cfg_call_return_1(st, f_ret, rs, cn, rn)),
        cfg_call_return_1(st, f_ret, rs, cn, rn).ra == st.ra,
{
    let call = st.nodes[cn.i as int]->CallSource_source;
    let cr = cfg_ni(st.nodes.len() as int);
    let w = Node::CallReturn { call: call, return_: (cfg_blk(st.nodes[rs.i as int]), f_ret) };
    lemma_cfg_inv_node(st, subs, w);
    let s1 = cfg_node(st, w);
    lemma_cfg_inv_edge(s1, subs, cn, cr, Edge::CrCallStub);
    let s2 = cfg_edge(s1, cn, cr, Edge::CrCallStub);
    lemma_cfg_inv_edge(s2, subs, rs, cr, Edge::CrReturnStub);
    let s3 = cfg_edge(s2, rs, cr, Edge::CrReturnStub);
    lemma_cfg_inv_edge(s3, subs, cr, rn, Edge::ReturnCombine(cfg_call_term(call.0)));
}
