// ---------------------------------------------------------------------------
// lemmas/cfgbuild.rs -- proved lemmas of unit `cfgbuild` (nothing trusted).
// ---------------------------------------------------------------------------

/// petgraph's add_node seen through the abstraction: one more node weight, same edges
pub broadcast proof fn lemma_cfg_node_added<'a>(g1: Graph<'a>, g2: Graph<'a>, w: Node<'a>)
    requires #[trigger] cgb_node_added(g1, g2, w),
    ensures cfg_nodes(g2) == cfg_nodes(g1).push(w), cfg_edges(g2) == cfg_edges(g1),
{
    assert(cfg_nodes(g2) =~= cfg_nodes(g1).push(w));
    assert(cfg_edges(g2) =~= cfg_edges(g1));
}

/// petgraph's add_edge seen through the abstraction: one more edge, same nodes
pub broadcast proof fn lemma_cfg_edge_added<'a>(g1: Graph<'a>, g2: Graph<'a>, a: NodeIndex, b: NodeIndex, w: Edge<'a>)
    requires #[trigger] cgb_edge_added(g1, g2, a, b, w),
    ensures cfg_nodes(g2) == cfg_nodes(g1), cfg_edges(g2) == cfg_edges(g1).push(CfgEdge { src: a, dst: b, w }),
{
    assert(cfg_nodes(g2) =~= cfg_nodes(g1));
    assert(cfg_edges(g2) =~= cfg_edges(g1).push(CfgEdge { src: a, dst: b, w }));
}

/// field-wise extensional equality is equality
pub broadcast proof fn lemma_cfg_st_eq<'a>(a: CfgSt<'a>, b: CfgSt<'a>)
    requires #[trigger] cfg_st_eq(a, b),
    ensures a == b,
{
}

/// petgraph's index type: a graph never has more than u32::MAX nodes (part of axiom_cg_digraph_bounds, shim/callgraph.rs)
pub proof fn lemma_cfg_small<'a>(g: Graph<'a>)
    ensures cfg_nodes(g).len() <= u32::MAX,
{
    axiom_cg_digraph_bounds(g);
}

pub proof fn lemma_cfg_inv_add_block<'a>(st: CfgSt<'a>, subs: Map<Tid, Term<Sub>>, b: &'a Term<Blk>, f: &'a Term<Sub>)
    requires cfg_inv(st, subs), st.nodes.len() + 1 <= usize::MAX, cfg_prog_block(subs, *b), cfg_prog_sub(subs, *f),
    ensures cfg_inv(cfg_add_block(st, b, f), subs), cfg_grows(st, cfg_add_block(st, b, f)),
{
    let s2 = cfg_add_block(st, b, f);
    let n = st.nodes.len() as int;
    assert forall |k: (Tid, Tid)| #[trigger] s2.jt.contains_key(k) implies cfg_pair_ok(s2.nodes, k, s2.jt[k]) by {
        if k == (b.tid, f.tid) {} else { assert(st.jt.contains_key(k)); }
    }
    assert forall |t: Tid| #[trigger] s2.ct.contains_key(t) implies cfg_entry_ok(s2.nodes, subs, t, s2.ct[t]) by {
        assert(st.ct.contains_key(t));
        assert(cfg_entry_ok(st.nodes, subs, t, st.ct[t]));
    }
    assert forall |t: Tid, i: int| s2.ra.contains_key(t) && 0 <= i < s2.ra[t].len() implies cfg_ret_ok(s2.nodes, #[trigger] s2.ra[t][i]) by {
        assert(cfg_ret_ok(st.nodes, st.ra[t][i]));
    }
    assert forall |i: int| 0 <= i < s2.wl.len() implies (#[trigger] s2.wl[i]).i < s2.nodes.len() && s2.nodes[s2.wl[i].i as int] is BlkEnd by {
        if i < st.wl.len() { assert(s2.wl[i] == st.wl[i]); }
    }
    assert forall |e: int| 0 <= e < s2.edges.len() implies (#[trigger] s2.edges[e]).src.i < s2.nodes.len() && s2.edges[e].dst.i < s2.nodes.len() by {
        if e < st.edges.len() { assert(s2.edges[e] == st.edges[e]); }
    }
}

pub proof fn lemma_cfg_inv_edge<'a>(st: CfgSt<'a>, subs: Map<Tid, Term<Sub>>, src: NodeIndex, dst: NodeIndex, w: Edge<'a>)
    requires cfg_inv(st, subs), src.i < st.nodes.len(), dst.i < st.nodes.len(),
        // the new edge connects the node kinds its label promises
        cfg_edge_shape(st.nodes, CfgEdge { src, dst, w }),
    ensures cfg_inv(cfg_edge(st, src, dst, w), subs), cfg_grows(st, cfg_edge(st, src, dst, w)),
{
    let s2 = cfg_edge(st, src, dst, w);
    assert forall |e: int| 0 <= e < s2.edges.len() implies (#[trigger] s2.edges[e]).src.i < s2.nodes.len() && s2.edges[e].dst.i < s2.nodes.len() by {
        if e < st.edges.len() { assert(s2.edges[e] == st.edges[e]); }
    }
    assert forall |e: int| 0 <= e < s2.edges.len() implies cfg_edge_shape(s2.nodes, #[trigger] s2.edges[e]) by {
        if e < st.edges.len() { assert(s2.edges[e] == st.edges[e]); } else { assert(s2.edges[e] == CfgEdge { src, dst, w }); }
    }
}

pub proof fn lemma_cfg_inv_node<'a>(st: CfgSt<'a>, subs: Map<Tid, Term<Sub>>, w: Node<'a>)
    requires cfg_inv(st, subs), cfg_node_ok(subs, w), cfg_node_shape(w),
    ensures cfg_inv(cfg_node(st, w), subs), cfg_grows(st, cfg_node(st, w)),
{
    let s2 = cfg_node(st, w);
    assert forall |e: int| 0 <= e < s2.edges.len() implies cfg_edge_shape(s2.nodes, #[trigger] s2.edges[e]) by {
        assert(cfg_edge_shape(st.nodes, st.edges[e]));
        assert(s2.nodes[st.edges[e].src.i as int] == st.nodes[st.edges[e].src.i as int]);
        assert(s2.nodes[st.edges[e].dst.i as int] == st.nodes[st.edges[e].dst.i as int]);
    }
    assert forall |n: int| 0 <= n < s2.nodes.len() implies cfg_node_shape(#[trigger] s2.nodes[n]) by {
        if n < st.nodes.len() { assert(s2.nodes[n] == st.nodes[n]); }
    }
    assert forall |k: (Tid, Tid)| #[trigger] s2.jt.contains_key(k) implies cfg_pair_ok(s2.nodes, k, s2.jt[k]) by {
        assert(cfg_pair_ok(st.nodes, k, st.jt[k]));
    }
    assert forall |t: Tid| #[trigger] s2.ct.contains_key(t) implies cfg_entry_ok(s2.nodes, subs, t, s2.ct[t]) by {
        assert(cfg_entry_ok(st.nodes, subs, t, st.ct[t]));
    }
    assert forall |t: Tid, i: int| s2.ra.contains_key(t) && 0 <= i < s2.ra[t].len() implies cfg_ret_ok(s2.nodes, #[trigger] s2.ra[t][i]) by {
        assert(cfg_ret_ok(st.nodes, st.ra[t][i]));
    }
}

/// the pair looked up / created by cfg_ensure is an existing BlkStart node; the invariant is kept
pub proof fn lemma_cfg_inv_ensure<'a>(st: CfgSt<'a>, subs: Map<Tid, Term<Sub>>, tid: Tid, f: &'a Term<Sub>)
    requires cfg_inv(st, subs), st.nodes.len() + 1 <= usize::MAX, cfg_prog_sub(subs, *f),
        !st.jt.contains_key((tid, f.tid)) ==> cfg_has_block(subs, tid),
    ensures
        cfg_inv(cfg_ensure(st, subs, tid, f).0, subs),
        cfg_grows(st, cfg_ensure(st, subs, tid, f).0),
        cfg_ensure(st, subs, tid, f).1.i < cfg_ensure(st, subs, tid, f).0.nodes.len(),
        cfg_ensure(st, subs, tid, f).0.nodes[cfg_ensure(st, subs, tid, f).1.i as int] is BlkStart,
{
    if st.jt.contains_key((tid, f.tid)) {
        assert(cfg_pair_ok(st.nodes, (tid, f.tid), st.jt[(tid, f.tid)]));
    } else {
        broadcast use lemma_cfg_find_block_ok;
        lemma_cfg_inv_add_block(st, subs, cfg_find_block::<'a>(subs, tid)->Some_0, f);
    }
}

pub proof fn lemma_cfg_inv_intra<'a>(st: CfgSt<'a>, subs: Map<Tid, Term<Sub>>, source: NodeIndex, tid: Tid, jump: &'a Term<Jmp>, uc: Option<&'a Term<Jmp>>)
    requires cfg_inv(st, subs), st.nodes.len() + 1 <= usize::MAX, cfg_is_end(st, source), cfg_has_block(subs, tid), cfg_untaken_ok(uc),
    ensures
        cfg_inv(cfg_intra(st, subs, source, tid, jump, uc), subs),
        cfg_grows(st, cfg_intra(st, subs, source, tid, jump, uc)),
{
    let f = cfg_sub(st.nodes[source.i as int]);
    assert(cfg_node_ok(subs, st.nodes[source.i as int]));
    lemma_cfg_inv_ensure(st, subs, tid, f);
    let (st1, t) = cfg_ensure(st, subs, tid, f);
    assert(st1.nodes[source.i as int] == st.nodes[source.i as int]);
    lemma_cfg_inv_edge(st1, subs, source, t, Edge::Jump(jump, uc));
}

pub proof fn lemma_cfg_grows_trans<'a>(a: CfgSt<'a>, b: CfgSt<'a>, c: CfgSt<'a>)
    requires cfg_grows(a, b), cfg_grows(b, c),
    ensures cfg_grows(a, c),
{
}

pub proof fn lemma_cfg_inv_return_site<'a>(st: CfgSt<'a>, subs: Map<Tid, Term<Sub>>, source: NodeIndex, return_: Option<Tid>)
    requires cfg_inv(st, subs), st.nodes.len() + 1 <= usize::MAX, cfg_is_end(st, source),
        return_ is Some ==> cfg_has_block(subs, return_->Some_0),
    ensures
        cfg_inv(cfg_return_site(st, subs, source, return_).0, subs),
        cfg_grows(st, cfg_return_site(st, subs, source, return_).0),
        cfg_return_site(st, subs, source, return_).0.nodes.len() <= st.nodes.len() + 2,
        cfg_return_site(st, subs, source, return_).0.ra == st.ra,
        cfg_return_site(st, subs, source, return_).1 is Some <==> return_ is Some,
        cfg_return_site(st, subs, source, return_).1 is Some ==> {
            let rn = cfg_return_site(st, subs, source, return_).1->Some_0;
            rn.i < cfg_return_site(st, subs, source, return_).0.nodes.len() && cfg_return_site(st, subs, source, return_).0.nodes[rn.i as int] is BlkStart
        },
{
    assert(cfg_node_ok(subs, st.nodes[source.i as int]));
    if return_ is Some {
        lemma_cfg_inv_ensure(st, subs, return_->Some_0, cfg_sub(st.nodes[source.i as int]));
    }
}

pub proof fn lemma_cfg_inv_call<'a>(st: CfgSt<'a>, subs: Map<Tid, Term<Sub>>, ext: Set<Tid>, source: NodeIndex, jump: &'a Term<Jmp>, target: Tid, return_: Option<Tid>)
    requires cfg_inv(st, subs), st.nodes.len() + 3 <= usize::MAX, cfg_is_end(st, source), cfg_has_call(*cfg_blk(st.nodes[source.i as int])),
        return_ is Some ==> cfg_has_block(subs, return_->Some_0),
    ensures
        cfg_inv(cfg_call(st, subs, ext, source, jump, target, return_), subs),
        cfg_grows(st, cfg_call(st, subs, ext, source, jump, target, return_)),
{
    lemma_cfg_inv_return_site(st, subs, source, return_);
    let b = cfg_blk(st.nodes[source.i as int]);
    let f = cfg_sub(st.nodes[source.i as int]);
    let (st1, rn_opt) = cfg_return_site(st, subs, source, return_);
    if ext.contains(target) {
        if rn_opt is Some { lemma_cfg_inv_edge(st1, subs, source, rn_opt->Some_0, Edge::ExternCallStub(jump)); }
    } else if st1.ct.contains_key(target) {
        let tn = st1.ct[target].0;
        assert(cfg_entry_ok(st1.nodes, subs, target, st1.ct[target]));
        let cs = cfg_ni(st1.nodes.len() as int);
        let w = Node::CallSource { source: (b, f), target: (cfg_blk(st1.nodes[tn.i as int]), cfg_sub(st1.nodes[tn.i as int])) };
        let st2 = cfg_node(st1, w);
        lemma_cfg_inv_node(st1, subs, w);
        lemma_cfg_inv_edge(st2, subs, source, cs, Edge::CallCombine(jump));
        let st2b = cfg_edge(st2, source, cs, Edge::CallCombine(jump));
        lemma_cfg_inv_edge(st2b, subs, cs, tn, Edge::Call(jump));
        let st3 = cfg_edge(st2b, cs, tn, Edge::Call(jump));
        if rn_opt is Some {
            let rn = rn_opt->Some_0;
            let st4 = CfgSt { ra: cfg_ra_push(st3.ra, target, (cs, rn)), ..st3 };
            assert forall |t: Tid, i: int| st4.ra.contains_key(t) && 0 <= i < st4.ra[t].len() implies cfg_ret_ok(st4.nodes, #[trigger] st4.ra[t][i]) by {
                if t == target {
                    if st3.ra.contains_key(target) && i < st3.ra[target].len() {
                        assert(st4.ra[t][i] == st3.ra[t][i]);
                    } else {
                        assert(st4.ra[t][i] == (cs, rn));
                        assert(st4.nodes[cs.i as int] == w);
                    }
                } else {
                    assert(st4.ra[t][i] == st3.ra[t][i]);
                }
            }
        }
    }
}

pub proof fn lemma_cfg_inv_jump_edge<'a>(st: CfgSt<'a>, subs: Map<Tid, Term<Sub>>, ext: Set<Tid>, source: NodeIndex, jump: &'a Term<Jmp>, uc: Option<&'a Term<Jmp>>)
    requires
        cfg_inv(st, subs), cfg_is_end(st, source),
        st.nodes.len() + 3 <= usize::MAX,
        cfg_jump_targets_exist(subs, *cfg_blk(st.nodes[source.i as int]), *jump), cfg_untaken_ok(uc),
        // (the BranchInd case is a loop of add_intraprocedural_edge calls: add_indirect_jumps proves it step by step)
        !(jump.term is BranchInd),
        jump.term is Call ==> cfg_has_call(*cfg_blk(st.nodes[source.i as int])),
    ensures
        cfg_inv(cfg_jump_edge(st, subs, ext, source, jump, uc), subs),
        cfg_grows(st, cfg_jump_edge(st, subs, ext, source, jump, uc)),
{
    match jump.term {
        Jmp::Branch(tid) => { lemma_cfg_inv_intra(st, subs, source, tid, jump, uc); },
        Jmp::CBranch { target, condition } => { lemma_cfg_inv_intra(st, subs, source, target, jump, uc); },
        Jmp::BranchInd(e) => {},
        Jmp::Call { target, return_ } => { lemma_cfg_inv_call(st, subs, ext, source, jump, target, return_); },
        Jmp::CallInd { target, return_ } => {
            lemma_cfg_inv_return_site(st, subs, source, return_);
            let (st1, rn_opt) = cfg_return_site(st, subs, source, return_);
            if rn_opt is Some { lemma_cfg_inv_edge(st1, subs, source, rn_opt->Some_0, Edge::ExternCallStub(jump)); }
        },
        Jmp::CallOther { description, return_ } => {},
        Jmp::Return(e) => {},
    }
}

/// the first direct call of a jump list is unique, so the chosen one is the found one
pub proof fn lemma_cfg_first_call_unique(jmps: Seq<Term<Jmp>>, j1: int, j2: int)
    requires cfg_first_call(jmps, j1), cfg_first_call(jmps, j2),
    ensures j1 == j2,
{
    if j1 < j2 { assert(!(jmps[j1].term is Call)); }
    if j2 < j1 { assert(!(jmps[j2].term is Call)); }
}

pub proof fn lemma_cfg_call_term<'a>(b: &'a Term<Blk>, j: int)
    requires cfg_first_call(b.term.jmps@, j),
    ensures *cfg_call_term(b) == b.term.jmps@[j],
{
    let c = choose |c: int| cfg_first_call(b.term.jmps@, c);
    lemma_cfg_first_call_unique(b.term.jmps@, c, j);
}

pub proof fn lemma_cfg_inv_call_return_step<'a>(st: CfgSt<'a>, subs: Map<Tid, Term<Sub>>, f_ret: &'a Term<Sub>, rs: NodeIndex, cn: NodeIndex, rn: NodeIndex)
    requires cfg_inv(st, subs), st.nodes.len() + 1 <= usize::MAX, cfg_is_return_end(st, rs), cfg_ret_ok(st.nodes, (cn, rn)),
    ensures
        cfg_inv(cfg_call_return_1(st, f_ret, rs, cn, rn), subs),
        cfg_grows(st, cfg_call_return_1(st, f_ret, rs, cn, rn)),
        cfg_call_return_1(st, f_ret, rs, cn, rn).ra == st.ra,
{
    let call = st.nodes[cn.i as int]->CallSource_source;
    let cr = cfg_ni(st.nodes.len() as int);
    let w = Node::CallReturn { call: call, return_: (cfg_blk(st.nodes[rs.i as int]), f_ret) };
    lemma_cfg_inv_node(st, subs, w);
    let s1 = cfg_node(st, w);
    lemma_cfg_inv_edge(s1, subs, cn, cr, Edge::CrCallStub);
    let s2 = cfg_edge(s1, cn, cr, Edge::CrCallStub);
    lemma_cfg_inv_edge(s2, subs, rs, cr, Edge::CrReturnStub);
    let s3 = cfg_edge(s2, rs, cr, Edge::CrReturnStub);
    lemma_cfg_inv_edge(s3, subs, cr, rn, Edge::ReturnCombine(cfg_call_term(call.0)));
}

// ---- STAGE 2 ---------------------------------------------------------------------------------------------------------------

/// the keys of a BTreeMap iteration list every key exactly once
pub proof fn lemma_cfg_keys_order(s: Seq<(&Tid, &Term<Sub>)>, subs: Map<Tid, Term<Sub>>)
    requires cgb_iter_of(s, subs),
    ensures cfg_key_order(cfg_keys(s), subs),
{
    let ks = cfg_keys(s);
    assert forall |i: int, j: int| 0 <= i < j < ks.len() implies ks[i] != ks[j] by {
        if ks[i] == ks[j] { lemma_cgb_iter_inj(s, subs, i, j); }
    }
    assert forall |k: Tid| subs.contains_key(k) implies exists |i: int| 0 <= i < ks.len() && #[trigger] ks[i] == k by {
        let i = choose |i: int| 0 <= i < s.len() && *(#[trigger] s[i]).0 == k;
        assert(ks[i] == k);
    }
}

pub proof fn lemma_cfg_keys_order_all(subs: Map<Tid, Term<Sub>>)
    ensures forall |s: Seq<(&Tid, &Term<Sub>)>| #[trigger] cgb_iter_of(s, subs) ==> cfg_key_order(cfg_keys(s), subs),
{
    assert forall |s: Seq<(&Tid, &Term<Sub>)>| #[trigger] cgb_iter_of(s, subs) implies cfg_key_order(cfg_keys(s), subs) by {
        lemma_cfg_keys_order(s, subs);
    }
}

/// add_subs_to_call_targets, one more function visited
pub proof fn lemma_cfg_ct_step<'a>(st0: CfgSt<'a>, ct: Map<Tid, (NodeIndex, NodeIndex)>, s: Seq<(&Tid, &Term<Sub>)>, subs: Map<Tid, Term<Sub>>, n: int)
    requires
        cgb_iter_of(s, subs), cfg_sub_tids_unique(subs), 0 <= n < s.len(),
        cfg_ct_partial(st0, ct, s, n),
    ensures
        s[n].1.term.blocks@.len() > 0 ==> cfg_ct_partial(st0, ct.insert(s[n].1.tid, st0.jt[(s[n].1.term.blocks@[0].tid, s[n].1.tid)]), s, n + 1),
        s[n].1.term.blocks@.len() == 0 ==> cfg_ct_partial(st0, ct, s, n + 1),
{
    let f = s[n].1;
    assert forall |t: Tid| cfg_callable_n(s, n + 1, t) <==> cfg_callable_n(s, n, t) || (f.tid == t && f.term.blocks@.len() > 0) by {
        if cfg_callable_n(s, n + 1, t) {
            let j = choose |j: int| 0 <= j < n + 1 && (#[trigger] s[j]).1.tid == t && s[j].1.term.blocks@.len() > 0;
            if j < n { assert(cfg_callable_n(s, n, t)); }
        }
        if cfg_callable_n(s, n, t) {
            let j = choose |j: int| 0 <= j < n && (#[trigger] s[j]).1.tid == t && s[j].1.term.blocks@.len() > 0;
            assert(0 <= j < n + 1);
        }
        if f.tid == t && f.term.blocks@.len() > 0 { assert(s[n].1.tid == t); }
    }
    if f.term.blocks@.len() > 0 {
        let ct2 = ct.insert(f.tid, st0.jt[(f.term.blocks@[0].tid, f.tid)]);
        assert forall |j: int| 0 <= j < n + 1 && (#[trigger] s[j]).1.term.blocks@.len() > 0 implies ct2[s[j].1.tid] == st0.jt[(s[j].1.term.blocks@[0].tid, s[j].1.tid)] by {
            if j < n && s[j].1.tid == f.tid {
                // same tid => same function (well-formed program), hence the same first block
                assert(subs.contains_key(*s[j].0) && subs[*s[j].0] == *s[j].1);
                assert(subs.contains_key(*s[n].0) && subs[*s[n].0] == *s[n].1);
                assert(*s[j].1 == *s[n].1);
            }
        }
    }
}

/// add_subs_to_call_targets, all functions visited
pub proof fn lemma_cfg_ct_done<'a>(st0: CfgSt<'a>, st1: CfgSt<'a>, s: Seq<(&Tid, &Term<Sub>)>, subs: Map<Tid, Term<Sub>>)
    requires
        cgb_iter_of(s, subs), cfg_ct_partial(st0, st1.ct, s, s.len() as int), st1 == (CfgSt { ct: st1.ct, ..st0 }),
    ensures
        cfg_call_targets_post(st0, st1, subs),
{
    let n = s.len() as int;
    assert forall |t: Tid| #![trigger cfg_callable(subs, t)] #![trigger cfg_callable_n(s, n, t)] cfg_callable_n(s, n, t) <==> cfg_callable(subs, t) by {
        if cfg_callable_n(s, n, t) {
            let j = choose |j: int| 0 <= j < n && (#[trigger] s[j]).1.tid == t && s[j].1.term.blocks@.len() > 0;
            assert(subs.contains_key(*s[j].0) && subs[*s[j].0] == *s[j].1);
        }
        if cfg_callable(subs, t) {
            let k = choose |k: Tid| #[trigger] subs.contains_key(k) && subs[k].tid == t && subs[k].term.blocks@.len() > 0;
            let j = choose |j: int| 0 <= j < s.len() && *(#[trigger] s[j]).0 == k;
            assert(subs[*s[j].0] == *s[j].1);
        }
    }
    assert forall |k: Tid| #[trigger] subs.contains_key(k) && subs[k].term.blocks@.len() > 0 implies
            st1.ct[subs[k].tid] == st0.jt[(subs[k].term.blocks@[0].tid, subs[k].tid)] by {
        let j = choose |j: int| 0 <= j < s.len() && *(#[trigger] s[j]).0 == k;
        assert(subs[*s[j].0] == *s[j].1);
    }
}

/// the invariant after add_subs_to_call_targets
pub proof fn lemma_cfg_inv_call_targets<'a>(st0: CfgSt<'a>, st1: CfgSt<'a>, subs: Map<Tid, Term<Sub>>)
    requires cfg_inv(st0, subs), cfg_firsts_registered(st0, subs), cfg_call_targets_post(st0, st1, subs),
    ensures cfg_inv(st1, subs),
{
    assert forall |t: Tid| #[trigger] st1.ct.contains_key(t) implies cfg_entry_ok(st1.nodes, subs, t, st1.ct[t]) by {
        if cfg_callable(subs, t) {
            let k = choose |k: Tid| #[trigger] subs.contains_key(k) && subs[k].tid == t && subs[k].term.blocks@.len() > 0;
            let key = (subs[k].term.blocks@[0].tid, subs[k].tid);
            assert(cfg_registered(st0, subs[k].term.blocks@[0], subs[k]));
            assert(cfg_pair_ok(st0.nodes, key, st0.jt[key]));
        } else {
            assert(cfg_entry_ok(st0.nodes, subs, t, st0.ct[t]));
        }
    }
}

/// taking the last entry off the worklist keeps the invariant; the entry is an existing BlkEnd node of a program block
pub proof fn lemma_cfg_inv_pop<'a>(st: CfgSt<'a>, subs: Map<Tid, Term<Sub>>)
    requires cfg_inv(st, subs), st.wl.len() > 0,
    ensures
        cfg_inv(CfgSt { wl: st.wl.drop_last(), ..st }, subs),
        cfg_is_end(CfgSt { wl: st.wl.drop_last(), ..st }, st.wl.last()),
        cfg_prog_block(subs, *cfg_blk(st.nodes[st.wl.last().i as int])),
{
    let s2 = CfgSt { wl: st.wl.drop_last(), ..st };
    assert(st.wl[st.wl.len() - 1] == st.wl.last());
    assert forall |i: int| 0 <= i < s2.wl.len() implies (#[trigger] s2.wl[i]).i < s2.nodes.len() && s2.nodes[s2.wl[i].i as int] is BlkEnd by {
        assert(s2.wl[i] == st.wl[i]);
    }
    assert(cfg_node_ok(subs, st.nodes[st.wl.last().i as int]));
}

pub proof fn lemma_cfg_inv_empty<'a>(st: CfgSt<'a>, subs: Map<Tid, Term<Sub>>)
    requires st == cfg_empty::<'a>(),
    ensures cfg_inv(st, subs),
{
}

/// add_block keeps the registered keys and registers its own
pub proof fn lemma_cfg_sub_blocks_keys<'a>(st: CfgSt<'a>, f: &'a Term<Sub>, n: int)
    requires 0 <= n <= f.term.blocks@.len(),
    ensures
        forall |k: (Tid, Tid)| st.jt.contains_key(k) ==> #[trigger] cfg_sub_blocks_n(st, f, n).jt.contains_key(k),
        forall |i: int| 0 <= i < n ==> cfg_sub_blocks_n(st, f, n).jt.contains_key(((#[trigger] f.term.blocks@[i]).tid, f.tid)),
    decreases n
{
    if n > 0 {
        lemma_cfg_sub_blocks_keys(st, f, n - 1);
        let s1 = cfg_sub_blocks_n(st, f, n - 1);
        let s2 = cfg_sub_blocks_n(st, f, n);
        assert(s2 == cfg_add_block(s1, &f.term.blocks@[n - 1], f));
        assert forall |k: (Tid, Tid)| st.jt.contains_key(k) implies #[trigger] s2.jt.contains_key(k) by {
            assert(s1.jt.contains_key(k));
        }
        assert forall |i: int| 0 <= i < n implies s2.jt.contains_key(((#[trigger] f.term.blocks@[i]).tid, f.tid)) by {
            if i < n - 1 { assert(s1.jt.contains_key((f.term.blocks@[i].tid, f.tid))); }
        }
    }
}

/// after add_program_blocks the key of every (block, function it is listed in) is registered
pub proof fn lemma_cfg_prog_blocks_keys<'a>(st: CfgSt<'a>, subs: Map<Tid, Term<Sub>>, ks: Seq<Tid>, n: int)
    requires 0 <= n <= ks.len(),
    ensures
        forall |k: (Tid, Tid)| st.jt.contains_key(k) ==> #[trigger] cfg_prog_blocks_n(st, subs, ks, n).jt.contains_key(k),
        forall |j: int, i: int| 0 <= j < n && 0 <= i < subs[ks[j]].term.blocks@.len() ==>
            cfg_prog_blocks_n(st, subs, ks, n).jt.contains_key(((#[trigger] subs[ks[j]].term.blocks@[i]).tid, subs[ks[j]].tid)),
    decreases n
{
    if n > 0 {
        lemma_cfg_prog_blocks_keys(st, subs, ks, n - 1);
        let s1 = cfg_prog_blocks_n(st, subs, ks, n - 1);
        let f = &subs[ks[n - 1]];
        lemma_cfg_sub_blocks_keys(s1, f, f.term.blocks@.len() as int);
    }
}

/// a registered key of a program block in a program function carries exactly that block and function (tids identify them)
pub proof fn lemma_cfg_registered<'a>(st: CfgSt<'a>, subs: Map<Tid, Term<Sub>>, b: Term<Blk>, f: Term<Sub>)
    requires
        cfg_inv(st, subs), cfg_sub_tids_unique(subs), cfg_blk_tids_unique(subs),
        cfg_prog_block(subs, b), cfg_prog_sub(subs, f), st.jt.contains_key((b.tid, f.tid)),
    ensures cfg_registered(st, b, f),
{
    let v = st.jt[(b.tid, f.tid)];
    assert(cfg_pair_ok(st.nodes, (b.tid, f.tid), v));
    assert(cfg_node_ok(subs, st.nodes[v.0.i as int]));
    let f2 = *cfg_sub(st.nodes[v.0.i as int]);
    let k1 = choose |k: Tid| #[trigger] subs.contains_key(k) && subs[k] == f;
    let k2 = choose |k: Tid| #[trigger] subs.contains_key(k) && subs[k] == f2;
    assert(subs[k1] == subs[k2]);
}

/// after add_program_blocks (in a well-formed program) the first block of every function is registered
pub proof fn lemma_cfg_firsts_registered<'a>(st0: CfgSt<'a>, st1: CfgSt<'a>, subs: Map<Tid, Term<Sub>>)
    requires
        cfg_prog_blocks_post(st0, st1, subs), cfg_inv(st1, subs), cfg_sub_tids_unique(subs), cfg_blk_tids_unique(subs),
    ensures cfg_firsts_registered(st1, subs),
{
    let ks = choose |ks: Seq<Tid>| #[trigger] cfg_key_order(ks, subs) && st1 == cfg_prog_blocks_n(st0, subs, ks, ks.len() as int);
    lemma_cfg_prog_blocks_keys(st0, subs, ks, ks.len() as int);
    assert forall |k: Tid| #[trigger] subs.contains_key(k) && subs[k].term.blocks@.len() > 0 implies cfg_registered(st1, subs[k].term.blocks@[0], subs[k]) by {
        let j = choose |j: int| 0 <= j < ks.len() && #[trigger] ks[j] == k;
        let b = subs[ks[j]].term.blocks@[0];
        assert(st1.jt.contains_key((b.tid, subs[ks[j]].tid)));
        assert(cfg_block_at(subs, k, 0, b));
        lemma_cfg_registered(st1, subs, b, subs[k]);
    }
}

/// get_entry_nodes_of_subs, one more node visited
pub proof fn lemma_cfg_entry_step<'a>(nodes: Seq<Node<'a>>, r: Map<Tid, NodeIndex>, m: int, node: NodeIndex)
    requires cfg_entry_map_n(nodes, r, m), 0 <= m < nodes.len(), node.i == m,
    ensures
        cfg_entry_node(nodes, m, cfg_sub(nodes[m]).tid) ==> cfg_entry_map_n(nodes, r.insert(cfg_sub(nodes[m]).tid, node), m + 1),
        !cfg_entry_node(nodes, m, cfg_sub(nodes[m]).tid) ==> cfg_entry_map_n(nodes, r, m + 1),
{
    let t0 = cfg_sub(nodes[m]).tid;
    if cfg_entry_node(nodes, m, t0) {
        let r2 = r.insert(t0, node);
        assert forall |t: Tid| #[trigger] r2.contains_key(t) <==> exists |n: int| n < m + 1 && #[trigger] cfg_entry_node(nodes, n, t) by {
            if r2.contains_key(t) {
                if t == t0 { assert(cfg_entry_node(nodes, m, t)); } else {
                    let n = choose |n: int| n < m && #[trigger] cfg_entry_node(nodes, n, t);
                    assert(n < m + 1);
                }
            }
            if exists |n: int| n < m + 1 && #[trigger] cfg_entry_node(nodes, n, t) {
                let n = choose |n: int| n < m + 1 && #[trigger] cfg_entry_node(nodes, n, t);
                if n < m { assert(r.contains_key(t)); }
            }
        }
        assert forall |t: Tid| #[trigger] r2.contains_key(t) implies r2[t].i < m + 1 && cfg_entry_node(nodes, r2[t].i as int, t)
                && forall |n: int| r2[t].i < n < m + 1 ==> !#[trigger] cfg_entry_node(nodes, n, t) by {
            if t != t0 { assert(r.contains_key(t)); }
        }
    } else {
        assert forall |t: Tid| #[trigger] r.contains_key(t) <==> exists |n: int| n < m + 1 && #[trigger] cfg_entry_node(nodes, n, t) by {
            if r.contains_key(t) {
                let n = choose |n: int| n < m && #[trigger] cfg_entry_node(nodes, n, t);
                assert(n < m + 1);
            }
            if exists |n: int| n < m + 1 && #[trigger] cfg_entry_node(nodes, n, t) {
                let n = choose |n: int| n < m + 1 && #[trigger] cfg_entry_node(nodes, n, t);
                assert(n < m);
            }
        }
    }
}
