// ---------------------------------------------------------------------------
// lemmas/callgraph.rs -- proof-only lemmas of unit `callgraph` (all proved by Verus, none trusted).
// Part 1: paths (reflexivity, extension at either end, splitting / joining at an edge).
// Part 2: a set that contains the root and is closed under the edge relation contains everything reachable.
// Part 3: the depth-first-search invariant at loop exit; the final set of tids.
// Part 4: membership in a stack (Seq) under push / pop, as broadcast lemmas.
// ---------------------------------------------------------------------------

// ---- Part 1 ---------------------------------------------------------------------------------------------

pub proof fn lemma_cg_reach_refl<N, E>(g: DiGraph<N, E>, a: NodeIndex)
    ensures cg_reach(g, a, a),
{
    assert(cg_path(g, Seq::<int>::empty(), a, a));
}

/// a path from a to src(e), then e
pub proof fn lemma_cg_reach_snoc<N, E>(g: DiGraph<N, E>, a: NodeIndex, e: int)
    requires cg_valid(g, e), cg_reach(g, a, cg_src(g, e)),
    ensures cg_reach(g, a, cg_tgt(g, e)),
{
    let p = choose |p: Seq<int>| cg_path(g, p, a, cg_src(g, e));
    let q = p.push(e);
    assert forall |k: int| 0 <= k < q.len() implies cg_valid(g, #[trigger] q[k]) by {
        if k < p.len() { assert(q[k] == p[k]); }
    }
    assert forall |i: int, j: int| 0 <= i && j == i + 1 && j < q.len() implies cg_tgt(g, #[trigger] q[i]) == cg_src(g, #[trigger] q[j]) by {
        assert(q[i] == p[i]);
        if j < p.len() { assert(q[j] == p[j]); }
    }
    if p.len() > 0 { assert(q[0] == p[0]); }
    assert(cg_path(g, q, a, cg_tgt(g, e)));
}

/// e, then a path from tgt(e) to b
pub proof fn lemma_cg_reach_cons<N, E>(g: DiGraph<N, E>, e: int, b: NodeIndex)
    requires cg_valid(g, e), cg_reach(g, cg_tgt(g, e), b),
    ensures cg_reach(g, cg_src(g, e), b),
{
    let p = choose |p: Seq<int>| cg_path(g, p, cg_tgt(g, e), b);
    let q = seq![e] + p;
    assert forall |k: int| 0 <= k < q.len() implies cg_valid(g, #[trigger] q[k]) by {
        if k > 0 { assert(q[k] == p[k - 1]); }
    }
    assert forall |i: int, j: int| 0 <= i && j == i + 1 && j < q.len() implies cg_tgt(g, #[trigger] q[i]) == cg_src(g, #[trigger] q[j]) by {
        assert(q[j] == p[j - 1]);
        if i > 0 { assert(q[i] == p[i - 1]); }
    }
    if p.len() > 0 { assert(q[q.len() - 1] == p[p.len() - 1]); }
    assert(cg_path(g, q, cg_src(g, e), b));
}

/// one more edge in the direction of the search
pub proof fn lemma_cg_dreach_step<N, E>(g: DiGraph<N, E>, d: petgraph::Direction, root: NodeIndex, e: int)
    requires cg_valid(g, e), cg_dreach(g, d, root, cg_near(g, d, e)),
    ensures cg_dreach(g, d, root, cg_far(g, d, e)),
{
    match d {
        petgraph::Direction::Outgoing => { lemma_cg_reach_snoc(g, root, e); }
        petgraph::Direction::Incoming => { lemma_cg_reach_cons(g, e, root); }
    }
}

/// every neighbour (in direction d) of a node found by the search is found by the search
pub broadcast proof fn lemma_cg_dreach_neighbor<N, E>(g: DiGraph<N, E>, d: petgraph::Direction, root: NodeIndex, a: NodeIndex, x: NodeIndex)
    requires #[trigger] cg_dreach(g, d, root, a), #[trigger] cg_is_neighbor(g, a, d, x),
    ensures cg_dreach(g, d, root, x),
{
    let e = choose |e: int| 0 <= e < g.edge_seq().len() && cg_near(g, d, e) == a && #[trigger] cg_far(g, d, e) == x;
    lemma_cg_dreach_step(g, d, root, e);
}

/// paths can be joined
pub proof fn lemma_cg_reach_trans<N, E>(g: DiGraph<N, E>, a: NodeIndex, b: NodeIndex, c: NodeIndex)
    requires cg_reach(g, a, b), cg_reach(g, b, c),
    ensures cg_reach(g, a, c),
{
    let p = choose |p: Seq<int>| cg_path(g, p, a, b);
    let q = choose |q: Seq<int>| cg_path(g, q, b, c);
    lemma_cg_path_join(g, p, q, a, b, c);
}

pub proof fn lemma_cg_path_join<N, E>(g: DiGraph<N, E>, p: Seq<int>, q: Seq<int>, a: NodeIndex, b: NodeIndex, c: NodeIndex)
    requires cg_path(g, p, a, b), cg_path(g, q, b, c),
    ensures cg_path(g, p + q, a, c),
{
    let r = p + q;
    assert forall |k: int| 0 <= k < r.len() implies cg_valid(g, #[trigger] r[k]) by {
        if k < p.len() { assert(r[k] == p[k]); } else { assert(r[k] == q[k - p.len()]); }
    }
    assert forall |i: int, j: int| 0 <= i && j == i + 1 && j < r.len() implies cg_tgt(g, #[trigger] r[i]) == cg_src(g, #[trigger] r[j]) by {
        if j < p.len() {
            assert(r[i] == p[i] && r[j] == p[j]);
        } else if i >= p.len() {
            assert(r[i] == q[i - p.len()] && r[j] == q[j - p.len()]);
        } else {
            assert(r[i] == p[p.len() - 1] && r[j] == q[0]);
        }
    }
    if r.len() > 0 {
        if p.len() > 0 { assert(r[0] == p[0]); } else { assert(r[0] == q[0]); }
        if q.len() > 0 { assert(r[r.len() - 1] == q[q.len() - 1]); } else { assert(r[r.len() - 1] == p[p.len() - 1]); }
    }
}

/// a piece of a path is a path between the nodes where it is cut
pub proof fn lemma_cg_path_prefix<N, E>(g: DiGraph<N, E>, p: Seq<int>, a: NodeIndex, b: NodeIndex, k: int)
    requires cg_path(g, p, a, b), 0 <= k < p.len(),
    ensures cg_path(g, p.subrange(0, k), a, cg_src(g, p[k])),
{
    let r = p.subrange(0, k);
    assert forall |i: int| 0 <= i < r.len() implies cg_valid(g, #[trigger] r[i]) by { assert(r[i] == p[i]); }
    assert forall |i: int, j: int| 0 <= i && j == i + 1 && j < r.len() implies cg_tgt(g, #[trigger] r[i]) == cg_src(g, #[trigger] r[j]) by {
        assert(r[i] == p[i] && r[j] == p[j]);
    }
    if k > 0 {
        assert(r[0] == p[0]);
        assert(r[k - 1] == p[k - 1]);
        assert(cg_tgt(g, p[k - 1]) == cg_src(g, p[k]));
    }
}

pub proof fn lemma_cg_path_suffix<N, E>(g: DiGraph<N, E>, p: Seq<int>, a: NodeIndex, b: NodeIndex, k: int)
    requires cg_path(g, p, a, b), 0 <= k < p.len(),
    ensures cg_path(g, p.subrange(k + 1, p.len() as int), cg_tgt(g, p[k]), b),
{
    let r = p.subrange(k + 1, p.len() as int);
    assert forall |i: int| 0 <= i < r.len() implies cg_valid(g, #[trigger] r[i]) by { assert(r[i] == p[i + k + 1]); }
    assert forall |i: int, j: int| 0 <= i && j == i + 1 && j < r.len() implies cg_tgt(g, #[trigger] r[i]) == cg_src(g, #[trigger] r[j]) by {
        assert(r[i] == p[i + k + 1] && r[j] == p[j + k + 1]);
    }
    if r.len() > 0 {
        assert(r[0] == p[k + 1]);
        assert(r[r.len() - 1] == p[p.len() - 1]);
        assert(cg_tgt(g, p[k]) == cg_src(g, p[k + 1]));
    }
}

/// "e lies on some path from s to t"  <==>  "s reaches the source of e and the target of e reaches t"
pub proof fn lemma_cg_on_path_iff<N, E>(g: DiGraph<N, E>, s: NodeIndex, t: NodeIndex, e: int)
    ensures cg_on_path(g, s, t, e) <==> cg_between(g, s, t, e),
{
    if cg_on_path(g, s, t, e) {
        let p = choose |p: Seq<int>| cg_path(g, p, s, t) && p.contains(e);
        let k = choose |k: int| 0 <= k < p.len() && p[k] == e;
        lemma_cg_path_prefix(g, p, s, t, k);
        lemma_cg_path_suffix(g, p, s, t, k);
        assert(cg_valid(g, p[k]));
        assert(cg_reach(g, s, cg_src(g, e)));
        assert(cg_reach(g, cg_tgt(g, e), t));
    }
    if cg_between(g, s, t, e) {
        let p = choose |p: Seq<int>| cg_path(g, p, s, cg_src(g, e));
        let q = choose |q: Seq<int>| cg_path(g, q, cg_tgt(g, e), t);
        let m = seq![e];
        assert(m[0] == e);
        assert(cg_path(g, m, cg_src(g, e), cg_tgt(g, e)));
        lemma_cg_path_join(g, p, m, s, cg_src(g, e), cg_tgt(g, e));
        lemma_cg_path_join(g, p + m, q, s, cg_tgt(g, e), t);
        let r = (p + m) + q;
        assert(r[p.len() as int] == e);
        assert(r.contains(e));
    }
}

// ---- Part 2 ---------------------------------------------------------------------------------------------

/// `vis` is closed under the edge relation in direction d
pub open spec fn cg_closed<N, E>(g: DiGraph<N, E>, d: petgraph::Direction, vis: Set<NodeIndex>) -> bool {
    forall |e: int| cg_valid(g, e) && vis.contains(#[trigger] cg_near(g, d, e)) ==> vis.contains(cg_far(g, d, e))
}

/// forward: induction on the length of the path, peeling off the LAST edge
pub proof fn lemma_cg_closed_path_fwd<N, E>(g: DiGraph<N, E>, root: NodeIndex, vis: Set<NodeIndex>, p: Seq<int>, b: NodeIndex)
    requires vis.contains(root), cg_closed(g, petgraph::Direction::Outgoing, vis), cg_path(g, p, root, b),
    ensures vis.contains(b),
    decreases p.len(),
{
    if p.len() > 0 {
        let k = p.len() - 1;
        lemma_cg_path_prefix(g, p, root, b, k);
        lemma_cg_closed_path_fwd(g, root, vis, p.subrange(0, k), cg_src(g, p[k]));
        assert(cg_valid(g, p[k]));
        assert(cg_near(g, petgraph::Direction::Outgoing, p[k]) == cg_src(g, p[k]));
        assert(cg_far(g, petgraph::Direction::Outgoing, p[k]) == b);
    }
}

/// backward: peeling off the FIRST edge
pub proof fn lemma_cg_closed_path_bwd<N, E>(g: DiGraph<N, E>, root: NodeIndex, vis: Set<NodeIndex>, p: Seq<int>, a: NodeIndex)
    requires vis.contains(root), cg_closed(g, petgraph::Direction::Incoming, vis), cg_path(g, p, a, root),
    ensures vis.contains(a),
    decreases p.len(),
{
    if p.len() > 0 {
        lemma_cg_path_suffix(g, p, a, root, 0);
        lemma_cg_closed_path_bwd(g, root, vis, p.subrange(1, p.len() as int), cg_tgt(g, p[0]));
        assert(cg_valid(g, p[0]));
        assert(cg_near(g, petgraph::Direction::Incoming, p[0]) == cg_tgt(g, p[0]));
        assert(cg_far(g, petgraph::Direction::Incoming, p[0]) == a);
    }
}

/// a closed set that contains the root contains everything the search can reach
pub proof fn lemma_cg_closed_contains_reach<N, E>(g: DiGraph<N, E>, d: petgraph::Direction, root: NodeIndex, vis: Set<NodeIndex>)
    requires vis.contains(root), cg_closed(g, d, vis),
    ensures forall |n: NodeIndex| cg_dreach(g, d, root, n) ==> vis.contains(n),
{
    assert forall |n: NodeIndex| cg_dreach(g, d, root, n) implies vis.contains(n) by {
        match d {
            petgraph::Direction::Outgoing => {
                let p = choose |p: Seq<int>| cg_path(g, p, root, n);
                lemma_cg_closed_path_fwd(g, root, vis, p, n);
            }
            petgraph::Direction::Incoming => {
                let p = choose |p: Seq<int>| cg_path(g, p, n, root);
                lemma_cg_closed_path_bwd(g, root, vis, p, n);
            }
        }
    }
}

// ---- Part 3 ---------------------------------------------------------------------------------------------

/// the loop invariant with an empty stack: the search is complete
pub proof fn lemma_cg_dfs_exit<N, E>(g: DiGraph<N, E>, d: petgraph::Direction, root: NodeIndex, vis: Set<NodeIndex>, stack: Seq<NodeIndex>, edges: Set<EdgeIndex>)
    requires cg_dfs_inv(g, d, root, vis, stack, edges), stack.len() == 0,
    ensures cg_dfs_done(g, d, root, vis, edges),
{
    assert(!stack.contains(root));
    assert forall |e: int| cg_valid(g, e) && vis.contains(#[trigger] cg_near(g, d, e)) implies vis.contains(cg_far(g, d, e)) by {
        assert(!stack.contains(cg_far(g, d, e)));
    }
    lemma_cg_closed_contains_reach(g, d, root, vis);
}

/// the collecting loop at its exit has computed the tid image of the intersection of the two edge sets
pub proof fn lemma_cg_collected_common<'a, N>(g: DiGraph<N, &'a Term<Jmp>>, s: Set<EdgeIndex>, it: Seq<&EdgeIndex>,
                                              a: Set<EdgeIndex>, b: Set<EdgeIndex>, r: Set<Tid>)
    requires
        cg_iter_ok(s, it),
        cg_covers(s, a, b),
        cg_collected(g, it, it.len() as int, a, b, r),
    ensures
        cg_common_tids(g, a, b, r),
{
    assert forall |t: Tid| #[trigger] r.contains(t) <==>
        exists |e: EdgeIndex| a.contains(e) && b.contains(e) && t == (#[trigger] g.edge_weight(e.i as int)).tid by {
        if r.contains(t) {
            let k = choose |k: int| k < it.len() && #[trigger] cg_hit(g, it, k, a, b, t);
            let e = *it[k];
            assert(a.contains(e) && b.contains(e) && t == g.edge_weight(e.i as int).tid);
        }
        if exists |e: EdgeIndex| a.contains(e) && b.contains(e) && t == (#[trigger] g.edge_weight(e.i as int)).tid {
            let e = choose |e: EdgeIndex| a.contains(e) && b.contains(e) && t == (#[trigger] g.edge_weight(e.i as int)).tid;
            assert(s.contains(e));
            let k = choose |k: int| 0 <= k < it.len() && *#[trigger] it[k] == e;
            assert(cg_hit(g, it, k, a, b, t));
        }
    }
}

/// one step of the collecting loop: entry `idx` was a hit and its tid `x` was inserted / was no hit and nothing changed
pub proof fn lemma_cg_collected_step<'a, N>(g: DiGraph<N, &'a Term<Jmp>>, it: Seq<&EdgeIndex>, idx: int,
                                            a: Set<EdgeIndex>, b: Set<EdgeIndex>, r0: Set<Tid>, r1: Set<Tid>)
    requires
        0 <= idx < it.len(),
        cg_collected(g, it, idx, a, b, r0),
        r1 == (if a.contains(*it[idx]) && b.contains(*it[idx]) { r0.insert(g.edge_weight((*it[idx]).i as int).tid) } else { r0 }),
    ensures
        cg_collected(g, it, idx + 1, a, b, r1),
{
    assert forall |t: Tid| #[trigger] r1.contains(t) <==> exists |k: int| k < idx + 1 && #[trigger] cg_hit(g, it, k, a, b, t) by {
        if r1.contains(t) {
            if r0.contains(t) {
                let k = choose |k: int| k < idx && #[trigger] cg_hit(g, it, k, a, b, t);
                assert(k < idx + 1 && cg_hit(g, it, k, a, b, t));
            } else {
                assert(cg_hit(g, it, idx, a, b, t));
            }
        }
        if exists |k: int| k < idx + 1 && #[trigger] cg_hit(g, it, k, a, b, t) {
            let k = choose |k: int| k < idx + 1 && #[trigger] cg_hit(g, it, k, a, b, t);
            if k < idx {
                assert(r0.contains(t));
            }
        }
    }
}

/// the two finished searches and the intersection step give the property's set
pub proof fn lemma_cg_result<'a, N>(g: DiGraph<N, &'a Term<Jmp>>, s: NodeIndex, t: NodeIndex,
                                    v1: Set<NodeIndex>, e1: Set<EdgeIndex>, v2: Set<NodeIndex>, e2: Set<EdgeIndex>, r: Set<Tid>)
    requires
        cg_dfs_done(g, petgraph::Direction::Outgoing, s, v1, e1),
        cg_dfs_done(g, petgraph::Direction::Incoming, t, v2, e2),
        cg_common_tids(g, e1, e2, r),
    ensures
        cg_result_ok(g, s, t, r),
{
    assert forall |x: Tid| #[trigger] r.contains(x) <==> exists |e: int| #[trigger] cg_on_path(g, s, t, e) && x == cg_tid(g, e) by {
        if r.contains(x) {
            let ei = choose |e: EdgeIndex| e1.contains(e) && e2.contains(e) && x == (#[trigger] g.edge_weight(e.i as int)).tid;
            let e = ei.i as int;
            assert(cg_between(g, s, t, e));
            lemma_cg_on_path_iff(g, s, t, e);
            assert(cg_on_path(g, s, t, e) && x == cg_tid(g, e));
        }
        if exists |e: int| #[trigger] cg_on_path(g, s, t, e) && x == cg_tid(g, e) {
            let e = choose |e: int| #[trigger] cg_on_path(g, s, t, e) && x == cg_tid(g, e);
            lemma_cg_on_path_iff(g, s, t, e);
            assert(cg_between(g, s, t, e));
            // edge indices of a petgraph graph are machine integers: the ghost index e is the index of an EdgeIndex
            axiom_cg_digraph_bounds(g);
            let ei = EdgeIndex { i: e as usize };
            assert(ei.i as int == e);
            assert(e1.contains(ei) && e2.contains(ei));
            assert(x == g.edge_weight(ei.i as int).tid);
        }
    }
}

// ---- Part 4 ---------------------------------------------------------------------------------------------

pub broadcast proof fn lemma_cg_push_contains<A>(s: Seq<A>, x: A, y: A)
    ensures #[trigger] s.push(x).contains(y) <==> (s.contains(y) || y == x),
{
    if s.contains(y) {
        let i = choose |i: int| 0 <= i < s.len() && s[i] == y;
        assert(s.push(x)[i] == y);
    }
    if y == x {
        assert(s.push(x)[s.len() as int] == y);
    }
    if s.push(x).contains(y) {
        let i = choose |i: int| 0 <= i < s.push(x).len() && s.push(x)[i] == y;
        if i < s.len() { assert(s[i] == y); }
    }
}

/// `Vec::pop` leaves `s.subrange(0, s.len() - 1)` (= `s.drop_last()`)
pub broadcast proof fn lemma_cg_pop_contains<A>(s: Seq<A>, n: int, y: A)
    requires 0 <= n == s.len() - 1,
    ensures #[trigger] s.subrange(0, n).contains(y) ==> s.contains(y),
        s.contains(y) ==> s.subrange(0, n).contains(y) || y == s[n],
{
    let t = s.subrange(0, n);
    if t.contains(y) {
        let i = choose |i: int| 0 <= i < t.len() && t[i] == y;
        assert(s[i] == y);
    }
    if s.contains(y) {
        let i = choose |i: int| 0 <= i < s.len() && s[i] == y;
        if i < n { assert(t[i] == y); }
    }
}

// ---- Part 5: termination measure ----------------------------------------------------------------------------

pub proof fn lemma_cg_nodes_contains(n: nat, x: NodeIndex)
    requires x.i < n, n <= usize::MAX,
    ensures cg_nodes(n).contains(x),
    decreases n,
{
    if x.i == n - 1 {
        assert(x == NodeIndex { i: (n - 1) as usize });
    } else {
        lemma_cg_nodes_contains((n - 1) as nat, x);
    }
}

/// a neighbour is an endpoint of an edge, hence a node of the graph
pub broadcast proof fn lemma_cg_neighbor_in_universe<N, E>(g: DiGraph<N, E>, root: NodeIndex, a: NodeIndex, d: petgraph::Direction, x: NodeIndex)
    requires #[trigger] cg_is_neighbor(g, a, d, x),
    ensures #[trigger] cg_universe(g, root).contains(x),
{
    let e = choose |e: int| 0 <= e < g.edge_seq().len() && cg_near(g, d, e) == a && #[trigger] cg_far(g, d, e) == x;
    axiom_cg_digraph_bounds(g);
    assert(g.edge_seq()[e].0.i < g.node_count_spec());
    lemma_cg_nodes_contains(g.node_count_spec(), x);
}

/// visiting a new node of the universe makes the measure smaller
pub proof fn lemma_cg_unvisited_decreases<N, E>(g: DiGraph<N, E>, root: NodeIndex, vis: Set<NodeIndex>, node: NodeIndex)
    requires cg_universe(g, root).contains(node), !vis.contains(node),
    ensures cg_unvisited(g, root, vis.insert(node)) < cg_unvisited(g, root, vis),
{
    let u = cg_universe(g, root);
    assert(u.difference(vis.insert(node)) =~= u.difference(vis).remove(node));
    assert(u.difference(vis).contains(node));
}
