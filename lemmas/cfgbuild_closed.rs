// ---------------------------------------------------------------------------
// lemmas/cfgbuild_closed.rs -- unit `cfgbuild`, CLOSED FORM of the final graph (all proved, specification-level).
// Part (i): the registered pairs of the final state are exactly the set P defined from the program (cfg_pair).
// ---------------------------------------------------------------------------

pub proof fn lemma_cfg_pair_step(subs: Map<Tid, Term<Sub>>, b: Term<Blk>, f: Tid, t: Tid)
    requires cfg_pair(subs, (b.tid, f)), cfg_prog_block(subs, b), cfg_blk_names(b, t),
    ensures cfg_pair(subs, (t, f)),
{
    let n = choose |n: nat| cfg_pair_n(subs, (b.tid, f), n);
    assert(cfg_pair_n(subs, (t, f), n + 1));
}

// ---- registered is a subset of P: kept by every step of the worklist phase -----------------------------------------------------------------

pub proof fn lemma_cfg_p_ensure<'a>(st: CfgSt<'a>, subs: Map<Tid, Term<Sub>>, tid: Tid, f: &'a Term<Sub>)
    requires cfg_jt_in_p(st, subs), cfg_pair(subs, (tid, f.tid)), !st.jt.contains_key((tid, f.tid)) ==> cfg_has_block(subs, tid),
    ensures cfg_jt_in_p(cfg_ensure(st, subs, tid, f).0, subs),
{
    broadcast use lemma_cfg_find_block_ok;
    let r = cfg_ensure(st, subs, tid, f).0;
    assert forall |key: (Tid, Tid)| #[trigger] r.jt.contains_key(key) implies cfg_pair(subs, key) by {
        if !st.jt.contains_key(key) { assert(key == (tid, f.tid)); }
    }
}

/// the source node `source` (an existing BlkEnd node) stands for a registered pair, hence for a pair of the program
pub proof fn lemma_cfg_p_source<'a>(st: CfgSt<'a>, subs: Map<Tid, Term<Sub>>, source: NodeIndex)
    requires cfg_ginv(st, subs), cfg_jt_in_p(st, subs), cfg_is_end(st, source),
    ensures
        cfg_pair(subs, cfg_key_of(st.nodes[source.i as int])),
        cfg_prog_block(subs, *cfg_blk(st.nodes[source.i as int])),
        cfg_prog_sub(subs, *cfg_sub(st.nodes[source.i as int])),
{
    let n = source.i as int;
    assert(st.nodes[n] is BlkEnd);
    assert(st.nodes[n - 1] is BlkStart);
    assert(st.jt.contains_key(cfg_key_of(st.nodes[n - 1])));
    assert(cfg_node_ok(subs, st.nodes[n]));
}

pub proof fn lemma_cfg_p_intra<'a>(st: CfgSt<'a>, subs: Map<Tid, Term<Sub>>, source: NodeIndex, tid: Tid, jump: &'a Term<Jmp>, uc: Option<&'a Term<Jmp>>)
    requires
        cfg_ginv(st, subs), cfg_jt_in_p(st, subs), cfg_is_end(st, source), cfg_has_block(subs, tid),
        cfg_blk_names(*cfg_blk(st.nodes[source.i as int]), tid),
    ensures cfg_jt_in_p(cfg_intra(st, subs, source, tid, jump, uc), subs),
{
    lemma_cfg_p_source(st, subs, source);
    let w = st.nodes[source.i as int];
    lemma_cfg_pair_step(subs, *cfg_blk(w), cfg_sub(w).tid, tid);
    lemma_cfg_p_ensure(st, subs, tid, cfg_sub(w));
}

pub proof fn lemma_cfg_p_indirect<'a>(st: CfgSt<'a>, subs: Map<Tid, Term<Sub>>, source: NodeIndex, jump: &'a Term<Jmp>, uc: Option<&'a Term<Jmp>>, targets: Seq<Tid>, n: int)
    requires
        cfg_ginv(st, subs), cfg_jt_in_p(st, subs), cfg_is_end(st, source), 0 <= n <= targets.len(), cfg_targets_exist(subs, targets), cfg_untaken_ok(uc),
        forall |h: int| 0 <= h < targets.len() ==> cfg_blk_names(*cfg_blk(st.nodes[source.i as int]), #[trigger] targets[h]),
        cfg_small(cfg_indirect_n(st, subs, source, jump, uc, targets, n)),
    ensures cfg_jt_in_p(cfg_indirect_n(st, subs, source, jump, uc, targets, n), subs),
    decreases n
{
    if n > 0 {
        let s1 = cfg_indirect_n(st, subs, source, jump, uc, targets, n - 1);
        lemma_cfg_len_indirect(st, subs, source, jump, uc, targets, n, n - 1);
        lemma_cfg_p_indirect(st, subs, source, jump, uc, targets, n - 1);
        lemma_cfg_g_indirect(st, subs, source, jump, uc, targets, n - 1);
        assert(s1.nodes[source.i as int] == st.nodes[source.i as int]);
        lemma_cfg_p_intra(s1, subs, source, targets[n - 1], jump, uc);
    }
}

pub proof fn lemma_cfg_p_return_site<'a>(st: CfgSt<'a>, subs: Map<Tid, Term<Sub>>, source: NodeIndex, return_: Option<Tid>)
    requires
        cfg_ginv(st, subs), cfg_jt_in_p(st, subs), cfg_is_end(st, source), return_ is Some ==> cfg_has_block(subs, return_->Some_0),
        return_ is Some ==> cfg_blk_names(*cfg_blk(st.nodes[source.i as int]), return_->Some_0),
    ensures cfg_jt_in_p(cfg_return_site(st, subs, source, return_).0, subs),
{
    if return_ is Some {
        lemma_cfg_p_source(st, subs, source);
        let w = st.nodes[source.i as int];
        lemma_cfg_pair_step(subs, *cfg_blk(w), cfg_sub(w).tid, return_->Some_0);
        lemma_cfg_p_ensure(st, subs, return_->Some_0, cfg_sub(w));
    }
}

/// add_jump_edge for jump number `k` of the block of `source`
pub proof fn lemma_cfg_p_jump_edge<'a>(st: CfgSt<'a>, subs: Map<Tid, Term<Sub>>, ext: Set<Tid>, source: NodeIndex, k: int, uc: Option<&'a Term<Jmp>>)
    requires
        cfg_ginv(st, subs), cfg_jt_in_p(st, subs), cfg_is_end(st, source), cfg_untaken_ok(uc),
        0 <= k < cfg_blk(st.nodes[source.i as int]).term.jmps@.len(),
        cfg_jump_targets_exist(subs, *cfg_blk(st.nodes[source.i as int]), cfg_blk(st.nodes[source.i as int]).term.jmps@[k]),
        cfg_small(cfg_jump_edge(st, subs, ext, source, &cfg_blk(st.nodes[source.i as int]).term.jmps@[k], uc)),
    ensures cfg_jt_in_p(cfg_jump_edge(st, subs, ext, source, &cfg_blk(st.nodes[source.i as int]).term.jmps@[k], uc), subs),
{
    let b = cfg_blk(st.nodes[source.i as int]);
    let jump = &b.term.jmps@[k];
    match jump.term {
        Jmp::Branch(tid) => {
            assert(cfg_jmp_names(*b, b.term.jmps@[k], tid));
            lemma_cfg_p_intra(st, subs, source, tid, jump, uc);
        },
        Jmp::CBranch { target, condition } => {
            assert(cfg_jmp_names(*b, b.term.jmps@[k], target));
            lemma_cfg_p_intra(st, subs, source, target, jump, uc);
        },
        Jmp::BranchInd(e) => {
            let targets = b.term.indirect_jmp_targets@;
            assert forall |h: int| 0 <= h < targets.len() implies cfg_blk_names(*b, #[trigger] targets[h]) by {
                assert(cfg_jmp_names(*b, b.term.jmps@[k], targets[h]));
            }
            lemma_cfg_p_indirect(st, subs, source, jump, uc, targets, targets.len() as int);
        },
        Jmp::Call { target, return_ } => {
            if return_ is Some { assert(cfg_jmp_names(*b, b.term.jmps@[k], return_->Some_0)); }
            lemma_cfg_p_return_site(st, subs, source, return_);
        },
        Jmp::CallInd { target, return_ } => {
            if return_ is Some { assert(cfg_jmp_names(*b, b.term.jmps@[k], return_->Some_0)); }
            lemma_cfg_p_return_site(st, subs, source, return_);
        },
        Jmp::CallOther { description, return_ } => {},
        Jmp::Return(e) => {},
    }
}

pub proof fn lemma_cfg_p_outgoing<'a>(st: CfgSt<'a>, subs: Map<Tid, Term<Sub>>, ext: Set<Tid>, node: NodeIndex, block: &'a Term<Blk>)
    requires
        cfg_ginv(st, subs), cfg_jt_in_p(st, subs), cfg_is_end(st, node), cfg_blk(st.nodes[node.i as int]) == block, cfg_block_wf(subs, *block),
        cfg_small(cfg_outgoing(st, subs, ext, node, block)),
    ensures cfg_jt_in_p(cfg_outgoing(st, subs, ext, node, block), subs),
{
    let jmps = block.term.jmps@;
    lemma_cfg_len_outgoing(st, subs, ext, node, block);
    if jmps.len() == 1 {
        lemma_cfg_p_jump_edge(st, subs, ext, node, 0, None);
    } else if jmps.len() >= 2 {
        lemma_cfg_p_jump_edge(st, subs, ext, node, 0, None);
        let s1 = cfg_jump_edge(st, subs, ext, node, &jmps[0], None);
        assert(cfg_has_call(*block) || !(jmps[0].term is Call));
        lemma_cfg_g_jump_edge(st, subs, ext, node, &jmps[0], None);
        assert(s1.nodes[node.i as int] == st.nodes[node.i as int]);
        lemma_cfg_p_jump_edge(s1, subs, ext, node, 1, Some(&jmps[0]));
    }
}

/// the rounds of the worklist loop keep "registered is a subset of P"
pub proof fn lemma_cfg_p_wl_steps<'a>(s2: CfgSt<'a>, subs: Map<Tid, Term<Sub>>, ext: Set<Tid>, n: int)
    requires
        cfg_ginv(s2, subs), cfg_jt_in_p(s2, subs), cfg_blocks_wf(subs), cfg_wl_runs(s2, subs, ext, n), cfg_accounted(s2, Seq::empty()),
        cfg_small(cfg_wl_steps(s2, subs, ext, n)),
    ensures cfg_jt_in_p(cfg_wl_steps(s2, subs, ext, n), subs),
    decreases n
{
    if n > 0 {
        lemma_cfg_len_wl_steps(s2, subs, ext, n, n - 1);
        assert(cfg_wl_runs(s2, subs, ext, n - 1));
        lemma_cfg_p_wl_steps(s2, subs, ext, n - 1);
        lemma_cfg_g_wl_steps(s2, subs, ext, n - 1);
        let s = cfg_wl_steps(s2, subs, ext, n - 1);
        assert(s.wl.len() > 0);
        let node = s.wl.last();
        let s1 = CfgSt { wl: s.wl.drop_last(), ..s };
        lemma_cfg_inv_pop(s, subs);
        assert(cfg_pairs_inv(s1));
        assert(cfg_jt_in_p(s1, subs));
        lemma_cfg_p_outgoing(s1, subs, ext, node, cfg_blk(s1.nodes[node.i as int]));
    }
}

// ---- P is a subset of registered: a processed block has all the pairs it names registered --------------------------------------------------

/// no step ever removes a registered key (no hypotheses: cfg_ensure only inserts)
pub open spec fn cfg_jt_le<'a>(a: CfgSt<'a>, b: CfgSt<'a>) -> bool {
    forall |k: (Tid, Tid)| #[trigger] a.jt.contains_key(k) ==> b.jt.contains_key(k)
}

pub proof fn lemma_cfg_jtle_intra<'a>(st: CfgSt<'a>, subs: Map<Tid, Term<Sub>>, source: NodeIndex, tid: Tid, jump: &'a Term<Jmp>, uc: Option<&'a Term<Jmp>>)
    requires cfg_has_block(subs, tid),
    ensures
        cfg_jt_le(st, cfg_intra(st, subs, source, tid, jump, uc)),
        cfg_intra(st, subs, source, tid, jump, uc).jt.contains_key((tid, cfg_sub(st.nodes[source.i as int]).tid)),
        st.nodes.len() <= cfg_intra(st, subs, source, tid, jump, uc).nodes.len(),
        forall |i: int| 0 <= i < st.nodes.len() ==> #[trigger] cfg_intra(st, subs, source, tid, jump, uc).nodes[i] == st.nodes[i],
{
    broadcast use lemma_cfg_find_block_ok;
}

pub proof fn lemma_cfg_jtle_indirect<'a>(st: CfgSt<'a>, subs: Map<Tid, Term<Sub>>, source: NodeIndex, jump: &'a Term<Jmp>, uc: Option<&'a Term<Jmp>>, targets: Seq<Tid>, n: int)
    requires 0 <= n <= targets.len(), source.i < st.nodes.len(), cfg_targets_exist(subs, targets),
    ensures
        cfg_jt_le(st, cfg_indirect_n(st, subs, source, jump, uc, targets, n)),
        forall |h: int| 0 <= h < n ==> cfg_indirect_n(st, subs, source, jump, uc, targets, n).jt.contains_key((#[trigger] targets[h], cfg_sub(st.nodes[source.i as int]).tid)),
        st.nodes.len() <= cfg_indirect_n(st, subs, source, jump, uc, targets, n).nodes.len(),
        cfg_indirect_n(st, subs, source, jump, uc, targets, n).nodes[source.i as int] == st.nodes[source.i as int],
    decreases n
{
    if n > 0 {
        let s1 = cfg_indirect_n(st, subs, source, jump, uc, targets, n - 1);
        lemma_cfg_jtle_indirect(st, subs, source, jump, uc, targets, n - 1);
        lemma_cfg_jtle_intra(s1, subs, source, targets[n - 1], jump, uc);
        let r = cfg_indirect_n(st, subs, source, jump, uc, targets, n);
        assert(r == cfg_intra(s1, subs, source, targets[n - 1], jump, uc));
        assert forall |h: int| 0 <= h < n implies r.jt.contains_key((#[trigger] targets[h], cfg_sub(st.nodes[source.i as int]).tid)) by {
            if h < n - 1 { assert(s1.jt.contains_key((targets[h], cfg_sub(st.nodes[source.i as int]).tid))); }
        }
    }
}

pub proof fn lemma_cfg_jtle_jump_edge<'a>(st: CfgSt<'a>, subs: Map<Tid, Term<Sub>>, ext: Set<Tid>, source: NodeIndex, jump: &'a Term<Jmp>, uc: Option<&'a Term<Jmp>>)
    requires source.i < st.nodes.len(), cfg_jump_targets_exist(subs, *cfg_blk(st.nodes[source.i as int]), *jump),
    ensures
        cfg_jt_le(st, cfg_jump_edge(st, subs, ext, source, jump, uc)),
        forall |t: Tid| cfg_jmp_names(*cfg_blk(st.nodes[source.i as int]), *jump, t) ==>
            #[trigger] cfg_jump_edge(st, subs, ext, source, jump, uc).jt.contains_key((t, cfg_sub(st.nodes[source.i as int]).tid)),
        st.nodes.len() <= cfg_jump_edge(st, subs, ext, source, jump, uc).nodes.len(),
        cfg_jump_edge(st, subs, ext, source, jump, uc).nodes[source.i as int] == st.nodes[source.i as int],
{
    match jump.term {
        Jmp::Branch(tid) => { lemma_cfg_jtle_intra(st, subs, source, tid, jump, uc); },
        Jmp::CBranch { target, condition } => { lemma_cfg_jtle_intra(st, subs, source, target, jump, uc); },
        Jmp::BranchInd(e) => {
            let targets = cfg_blk(st.nodes[source.i as int]).term.indirect_jmp_targets@;
            lemma_cfg_jtle_indirect(st, subs, source, jump, uc, targets, targets.len() as int);
        },
        Jmp::Call { target, return_ } => { broadcast use lemma_cfg_find_block_ok; },
        Jmp::CallInd { target, return_ } => { broadcast use lemma_cfg_find_block_ok; },
        Jmp::CallOther { description, return_ } => {},
        Jmp::Return(e) => {},
    }
}

pub proof fn lemma_cfg_reg_outgoing<'a>(st: CfgSt<'a>, subs: Map<Tid, Term<Sub>>, ext: Set<Tid>, node: NodeIndex, block: &'a Term<Blk>, t: Tid)
    requires
        node.i < st.nodes.len(), cfg_blk(st.nodes[node.i as int]) == block, cfg_block_wf(subs, *block),
        cfg_blk_names(*block, t),
    ensures cfg_outgoing(st, subs, ext, node, block).jt.contains_key((t, cfg_sub(st.nodes[node.i as int]).tid)),
{
    let jmps = block.term.jmps@;
    let k = choose |k: int| 0 <= k < jmps.len() && cfg_jmp_names(*block, #[trigger] jmps[k], t);
    lemma_cfg_jtle_jump_edge(st, subs, ext, node, &jmps[0], None);
    if jmps.len() == 2 {
        let s1 = cfg_jump_edge(st, subs, ext, node, &jmps[0], None);
        lemma_cfg_jtle_jump_edge(s1, subs, ext, node, &jmps[1], Some(&jmps[0]));
        if k == 0 { assert(s1.jt.contains_key((t, cfg_sub(st.nodes[node.i as int]).tid))); }
    }
}

/// P is a subset of the registered pairs of the final state, by induction on the level of the inductive definition of P
#[verifier::rlimit(30)]
pub proof fn lemma_cfg_p_reg<'a>(st: CfgSt<'a>, subs: Map<Tid, Term<Sub>>, ext: Set<Tid>, ks: Seq<Tid>, s2: CfgSt<'a>, n: int, key: (Tid, Tid), m: nat)
    requires
        cfg_global(st, subs, ext, ks, s2, n),
        cfg_ginv(s2, subs), cfg_accounted(s2, Seq::empty()), cfg_prog_wf(subs), cfg_wl_runs(s2, subs, ext, n),
        cfg_small(cfg_wl_steps(s2, subs, ext, n)),
        cfg_pair_n(subs, key, m),
    ensures st.jt.contains_key(key),
    decreases m
{
    hide(cfg_pairs_inv); hide(cfg_accounted); hide(cfg_wl_grows); hide(cfg_return_edges); hide(cfg_shape);
    if m == 0 {
        let (k, i) = choose |k: Tid, i: int| #[trigger] cfg_block_at(subs, k, i, subs[k].term.blocks@[i]) && key == (subs[k].term.blocks@[i].tid, subs[k].tid);
        assert(cfg_registered(st, subs[k].term.blocks@[i], subs[k]));
    } else if cfg_pair_n(subs, key, (m - 1) as nat) {
        lemma_cfg_p_reg(st, subs, ext, ks, s2, n, key, (m - 1) as nat);
    } else {
        let b = choose |b: Term<Blk>| #[trigger] cfg_prog_block(subs, b) && cfg_pair_n(subs, (b.tid, key.1), (m - 1) as nat) && cfg_blk_names(b, key.0);
        let parent = (b.tid, key.1);
        lemma_cfg_p_reg(st, subs, ext, ks, s2, n, parent, (m - 1) as nat);
        // the BlkEnd node of the parent pair carries block b (tids identify blocks)
        let v = st.jt[parent];
        assert(cfg_pair_ok(st.nodes, parent, v));
        let x = v.1.i as int;
        assert(cfg_node_ok(subs, st.nodes[x]));
        assert(*cfg_blk(st.nodes[x]) == b);
        // it was processed in some round j
        let done = cfg_done_n(s2, subs, ext, n);
        let j = choose |j: int| 0 <= j < n && (#[trigger] done[j]).i == x;
        let s = cfg_wl_steps(s2, subs, ext, j);
        let node = s.wl.last();
        assert(done[j] == node);
        assert(cfg_wl_runs(s2, subs, ext, j));
        lemma_cfg_len_wl_steps(s2, subs, ext, n, j);
        lemma_cfg_g_wl_steps(s2, subs, ext, j);
        assert(s.wl.len() > 0);
        lemma_cfg_inv_pop(s, subs);
        let s1 = CfgSt { wl: s.wl.drop_last(), ..s };
        assert(cfg_gstep0(cfg_wl_steps(s2, subs, ext, j), st));
        assert(s1.nodes[node.i as int] == st.nodes[x]);
        let blk = cfg_blk(s1.nodes[node.i as int]);
        let r = cfg_outgoing(s1, subs, ext, node, blk);
        assert(r == cfg_wl_steps(s2, subs, ext, j + 1));
        assert(cfg_block_wf(subs, *blk));
        lemma_cfg_reg_outgoing(s1, subs, ext, node, blk, key.0);
        assert(cfg_gstep0(cfg_wl_steps(s2, subs, ext, j + 1), st));
        assert(r.jt.contains_key((key.0, cfg_sub(s1.nodes[node.i as int]).tid)));
    }
}

/// CLOSED FORM (i): the registered pairs of the final state are EXACTLY the pairs P of the program; and (with cfg_pairs_inv:
/// one BlkStart node and one BlkEnd node per registered pair) the block nodes of the graph are given by the program
#[verifier::rlimit(30)]
pub proof fn lemma_cfg_closed_pairs<'a>(st: CfgSt<'a>, subs: Map<Tid, Term<Sub>>, ext: Set<Tid>, ks: Seq<Tid>, s2: CfgSt<'a>, n: int)
    requires
        cfg_build_steps(ks, s2, n, st, subs, ext),
        cfg_prog_wf(subs), cfg_positions_unique(subs), cfg_small(st),
    ensures
        forall |key: (Tid, Tid)| #[trigger] st.jt.contains_key(key) <==> cfg_pair(subs, key),
{
    hide(cfg_pairs_inv); hide(cfg_accounted); hide(cfg_wl_grows); hide(cfg_returns_n); hide(cfg_shape); hide(cfg_return_nodes);
    let s0 = cfg_empty::<'a>();
    let s1 = cfg_prog_blocks_n(s0, subs, ks, ks.len() as int);
    let s3 = cfg_wl_steps(s2, subs, ext, n);
    lemma_cfg_global_sizes(st, subs, ext, s2, n);
    lemma_cfg_global_steps(st, subs, ext, ks, s2, n);
    lemma_cfg_global_s2(subs, ks, s2);
    // registered is a subset of P
    lemma_cfg_inv_empty(s0, subs);
    assert(cfg_pairs_inv(s0)) by { reveal(cfg_pairs_inv); }
    assert(s2.nodes == s1.nodes);
    lemma_cfg_g_prog_blocks(s0, subs, ks, ks.len() as int);
    assert forall |key: (Tid, Tid)| #[trigger] s1.jt.contains_key(key) implies cfg_pair(subs, key) by {
        let (j, i) = choose |j: int, i: int| #[trigger] cfg_pos_before(subs, ks, j, i, ks.len() as int, 0) && key == (subs[ks[j]].term.blocks@[i].tid, subs[ks[j]].tid);
        assert(cfg_block_at(subs, ks[j], i, subs[ks[j]].term.blocks@[i]));
        assert(cfg_pair_n(subs, key, 0));
    }
    assert(s2.jt == s1.jt);
    assert(cfg_jt_in_p(s2, subs));
    lemma_cfg_p_wl_steps(s2, subs, ext, n);
    assert(st.jt == s3.jt);
    // P is a subset of registered
    assert forall |key: (Tid, Tid)| cfg_pair(subs, key) implies #[trigger] st.jt.contains_key(key) by {
        let m = choose |m: nat| cfg_pair_n(subs, key, m);
        lemma_cfg_p_reg(st, subs, ext, ks, s2, n, key, m);
    }
}

// ---- Part (ii): labelled edges ------------------------------------------------------------------------------------------------------------

/// the labelled non-Block edges of a prefix of the edges do not change when the builder grows
pub proof fn lemma_cfg_nbl_stable<'a>(a: CfgSt<'a>, b: CfgSt<'a>, m: int)
    requires
        0 <= m <= a.edges.len() <= b.edges.len(), a.nodes.len() <= b.nodes.len(),
        forall |i: int| 0 <= i < a.nodes.len() ==> #[trigger] b.nodes[i] == a.nodes[i],
        forall |i: int| 0 <= i < a.edges.len() ==> #[trigger] b.edges[i] == a.edges[i],
        forall |e: int| 0 <= e < a.edges.len() ==> (#[trigger] a.edges[e]).src.i < a.nodes.len() && a.edges[e].dst.i < a.nodes.len(),
    ensures cfg_nbl(b, m) == cfg_nbl(a, m),
    decreases m
{
    if m > 0 {
        lemma_cfg_nbl_stable(a, b, m - 1);
        assert(b.edges[m - 1] == a.edges[m - 1]);
        assert(b.nodes[a.edges[m - 1].src.i as int] == a.nodes[a.edges[m - 1].src.i as int]);
        assert(b.nodes[a.edges[m - 1].dst.i as int] == a.nodes[a.edges[m - 1].dst.i as int]);
    }
}

/// one more edge
pub proof fn lemma_cfg_nbl_edge<'a>(st: CfgSt<'a>, subs: Map<Tid, Term<Sub>>, src: NodeIndex, dst: NodeIndex, w: Edge<'a>)
    requires cfg_edges_in(st), src.i < st.nodes.len(), dst.i < st.nodes.len(),
    ensures cfg_nbl_all(cfg_edge(st, src, dst, w)) ==
        (if w is Block { cfg_nbl_all(st) } else { cfg_nbl_all(st).push(CfgLEdge { src: st.nodes[src.i as int], dst: st.nodes[dst.i as int], w }) }),
        cfg_edges_in(cfg_edge(st, src, dst, w)),
{
    let r = cfg_edge(st, src, dst, w);
    lemma_cfg_nbl_stable(st, r, st.edges.len() as int);
    assert(r.edges[st.edges.len() as int] == CfgEdge { src, dst, w });
}

/// a new node / a new block pair add no non-Block edge
pub proof fn lemma_cfg_nbl_node<'a>(st: CfgSt<'a>, subs: Map<Tid, Term<Sub>>, w: Node<'a>)
    requires cfg_edges_in(st),
    ensures cfg_nbl_all(cfg_node(st, w)) == cfg_nbl_all(st), cfg_edges_in(cfg_node(st, w)),
{
    lemma_cfg_nbl_stable(st, cfg_node(st, w), st.edges.len() as int);
}

pub proof fn lemma_cfg_nbl_add_block<'a>(st: CfgSt<'a>, subs: Map<Tid, Term<Sub>>, b: &'a Term<Blk>, f: &'a Term<Sub>)
    requires cfg_inv(st, subs),
    ensures cfg_nbl_all(cfg_add_block(st, b, f)) == cfg_nbl_all(st),
{
    let r = cfg_add_block(st, b, f);
    lemma_cfg_nbl_stable(st, r, st.edges.len() as int);
    assert(r.edges[st.edges.len() as int].w is Block);
}

/// the node cfg_ensure returns IS the start node of (block with tid `tid`, f); no non-Block edge is added
pub proof fn lemma_cfg_l_ensure<'a>(st: CfgSt<'a>, subs: Map<Tid, Term<Sub>>, tid: Tid, f: &'a Term<Sub>)
    requires
        cfg_inv(st, subs), cfg_sub_tids_unique(subs), cfg_blk_tids_unique(subs), cfg_prog_sub(subs, *f), cfg_has_block(subs, tid),
        st.nodes.len() + 1 <= usize::MAX,
    ensures
        cfg_nbl_all(cfg_ensure(st, subs, tid, f).0) == cfg_nbl_all(st),
        cfg_ensure(st, subs, tid, f).0.nodes[cfg_ensure(st, subs, tid, f).1.i as int] == cfg_ltarget(subs, f, tid),
{
    broadcast use lemma_cfg_find_block_ok;
    let fb = cfg_find_block::<'a>(subs, tid)->Some_0;
    if st.jt.contains_key((tid, f.tid)) {
        let v = st.jt[(tid, f.tid)];
        assert(cfg_pair_ok(st.nodes, (tid, f.tid), v));
        let w = st.nodes[v.0.i as int];
        assert(cfg_node_ok(subs, w));
        assert(*cfg_blk(w) == *fb);
        let k1 = choose |k: Tid| #[trigger] subs.contains_key(k) && subs[k] == *cfg_sub(w);
        let k2 = choose |k: Tid| #[trigger] subs.contains_key(k) && subs[k] == *f;
        assert(subs[k1] == subs[k2]);
    } else {
        lemma_cfg_nbl_add_block(st, subs, fb, f);
    }
}

pub proof fn lemma_cfg_l_intra<'a>(st: CfgSt<'a>, subs: Map<Tid, Term<Sub>>, source: NodeIndex, tid: Tid, jump: &'a Term<Jmp>, uc: Option<&'a Term<Jmp>>)
    requires
        cfg_inv(st, subs), cfg_sub_tids_unique(subs), cfg_blk_tids_unique(subs), cfg_is_end(st, source), cfg_has_block(subs, tid),
        st.nodes.len() + 1 <= usize::MAX,
    ensures
        cfg_nbl_all(cfg_intra(st, subs, source, tid, jump, uc)) == cfg_nbl_all(st).push(
            CfgLEdge { src: st.nodes[source.i as int], dst: cfg_ltarget(subs, cfg_sub(st.nodes[source.i as int]), tid), w: Edge::Jump(jump, uc) }),
{
    let f = cfg_sub(st.nodes[source.i as int]);
    assert(cfg_node_ok(subs, st.nodes[source.i as int]));
    lemma_cfg_l_ensure(st, subs, tid, f);
    lemma_cfg_inv_ensure(st, subs, tid, f);
    let (st1, t) = cfg_ensure(st, subs, tid, f);
    assert(st1.nodes[source.i as int] == st.nodes[source.i as int]);
    assert(cfg_edges_in(st1));
    lemma_cfg_nbl_edge(st1, subs, source, t, Edge::Jump(jump, uc));
}

/// the hint edges of an indirect branch
pub open spec fn cfg_lhints<'a>(subs: Map<Tid, Term<Sub>>, w: Node<'a>, jump: &'a Term<Jmp>, uc: Option<&'a Term<Jmp>>, targets: Seq<Tid>, n: int) -> Seq<CfgLEdge<'a>> {
    Seq::new(n as nat, |h: int| CfgLEdge { src: w, dst: cfg_ltarget(subs, cfg_sub(w), targets[h]), w: Edge::Jump(jump, uc) })
}

pub proof fn lemma_cfg_l_indirect<'a>(st: CfgSt<'a>, subs: Map<Tid, Term<Sub>>, source: NodeIndex, jump: &'a Term<Jmp>, uc: Option<&'a Term<Jmp>>, targets: Seq<Tid>, n: int)
    requires
        cfg_inv(st, subs), cfg_sub_tids_unique(subs), cfg_blk_tids_unique(subs), cfg_is_end(st, source), 0 <= n <= targets.len(),
        cfg_targets_exist(subs, targets), cfg_untaken_ok(uc),
        cfg_small(cfg_indirect_n(st, subs, source, jump, uc, targets, n)),
    ensures
        cfg_nbl_all(cfg_indirect_n(st, subs, source, jump, uc, targets, n)) == cfg_nbl_all(st) + cfg_lhints(subs, st.nodes[source.i as int], jump, uc, targets, n),
        cfg_inv(cfg_indirect_n(st, subs, source, jump, uc, targets, n), subs),
        cfg_indirect_n(st, subs, source, jump, uc, targets, n).nodes[source.i as int] == st.nodes[source.i as int],
        source.i < cfg_indirect_n(st, subs, source, jump, uc, targets, n).nodes.len(),
    decreases n
{
    let w = st.nodes[source.i as int];
    if n > 0 {
        let s1 = cfg_indirect_n(st, subs, source, jump, uc, targets, n - 1);
        lemma_cfg_len_indirect(st, subs, source, jump, uc, targets, n, n - 1);
        lemma_cfg_l_indirect(st, subs, source, jump, uc, targets, n - 1);
        lemma_cfg_l_intra(s1, subs, source, targets[n - 1], jump, uc);
        lemma_cfg_inv_intra(s1, subs, source, targets[n - 1], jump, uc);
        assert(cfg_lhints(subs, w, jump, uc, targets, n) =~= cfg_lhints(subs, w, jump, uc, targets, n - 1).push(
            CfgLEdge { src: w, dst: cfg_ltarget(subs, cfg_sub(w), targets[n - 1]), w: Edge::Jump(jump, uc) }));
        assert(cfg_nbl_all(st) + cfg_lhints(subs, w, jump, uc, targets, n) =~= (cfg_nbl_all(st) + cfg_lhints(subs, w, jump, uc, targets, n - 1)).push(
            CfgLEdge { src: w, dst: cfg_ltarget(subs, cfg_sub(w), targets[n - 1]), w: Edge::Jump(jump, uc) }));
    } else {
        assert(cfg_nbl_all(st) + cfg_lhints(subs, w, jump, uc, targets, n) =~= cfg_nbl_all(st));
    }
}

pub proof fn lemma_cfg_l_return_site<'a>(st: CfgSt<'a>, subs: Map<Tid, Term<Sub>>, source: NodeIndex, return_: Option<Tid>)
    requires
        cfg_inv(st, subs), cfg_sub_tids_unique(subs), cfg_blk_tids_unique(subs), cfg_is_end(st, source),
        return_ is Some ==> cfg_has_block(subs, return_->Some_0), st.nodes.len() + 1 <= usize::MAX,
    ensures
        cfg_nbl_all(cfg_return_site(st, subs, source, return_).0) == cfg_nbl_all(st),
        return_ is Some ==> cfg_return_site(st, subs, source, return_).0.nodes[cfg_return_site(st, subs, source, return_).1->Some_0.i as int]
            == cfg_ltarget(subs, cfg_sub(st.nodes[source.i as int]), return_->Some_0),
{
    assert(cfg_node_ok(subs, st.nodes[source.i as int]));
    if return_ is Some { lemma_cfg_l_ensure(st, subs, return_->Some_0, cfg_sub(st.nodes[source.i as int])); }
}

pub proof fn lemma_cfg_l_call<'a>(st: CfgSt<'a>, subs: Map<Tid, Term<Sub>>, ext: Set<Tid>, source: NodeIndex, jump: &'a Term<Jmp>, uc: Option<&'a Term<Jmp>>, target: Tid, return_: Option<Tid>)
    requires
        cfg_inv(st, subs), cfg_sub_tids_unique(subs), cfg_blk_tids_unique(subs), cfg_is_end(st, source), cfg_ct_complete(st, subs),
        jump.term == (Jmp::Call { target, return_ }),
        return_ is Some ==> cfg_has_block(subs, return_->Some_0), st.nodes.len() + 3 <= usize::MAX,
    ensures
        cfg_nbl_all(cfg_call(st, subs, ext, source, jump, target, return_)) == cfg_nbl_all(st)
            + cfg_lout_jump(subs, ext, cfg_blk(st.nodes[source.i as int]), cfg_sub(st.nodes[source.i as int]), jump, uc),
{
    let b = cfg_blk(st.nodes[source.i as int]);
    let f = cfg_sub(st.nodes[source.i as int]);
    let src = Node::BlkEnd(b, f);
    assert(st.nodes[source.i as int] == src);
    lemma_cfg_l_return_site(st, subs, source, return_);
    lemma_cfg_inv_return_site(st, subs, source, return_);
    let (st1, rn_opt) = cfg_return_site(st, subs, source, return_);
    assert(st1.nodes[source.i as int] == src);
    assert(cfg_edges_in(st1));
    let decl = cfg_lout_jump(subs, ext, b, f, jump, uc);
    if ext.contains(target) {
        if rn_opt is Some {
            lemma_cfg_nbl_edge(st1, subs, source, rn_opt->Some_0, Edge::ExternCallStub(jump));
            let x = CfgLEdge { src, dst: cfg_ltarget(subs, f, return_->Some_0), w: Edge::ExternCallStub(jump) };
            assert(cfg_nbl_all(st) + seq![x] =~= cfg_nbl_all(st).push(x));
        } else {
            assert(cfg_nbl_all(st) + decl =~= cfg_nbl_all(st));
        }
    } else if st1.ct.contains_key(target) {
        assert(cfg_callable(subs, target));
        let g = cfg_callee::<'a>(subs, target);
        let tn = st1.ct[target].0;
        assert(cfg_entry_ok(st1.nodes, subs, target, st1.ct[target]));
        let wt = st1.nodes[tn.i as int];
        assert(cfg_node_ok(subs, wt));
        let k1 = choose |k: Tid| #[trigger] subs.contains_key(k) && subs[k] == *cfg_sub(wt);
        let k2 = choose |k: Tid| #[trigger] subs.contains_key(k) && subs[k].tid == target && subs[k].term.blocks@.len() > 0;
        assert(subs[k1] == subs[k2]);
        assert(*cfg_sub(wt) == *g);
        assert(wt == Node::BlkStart(&g.term.blocks@[0], g));
        let cs = cfg_ni(st1.nodes.len() as int);
        let w = Node::CallSource { source: (b, f), target: (cfg_blk(wt), cfg_sub(wt)) };
        assert(w == Node::CallSource { source: (b, f), target: (&g.term.blocks@[0], g) });
        let st2 = cfg_node(st1, w);
        lemma_cfg_nbl_node(st1, subs, w);
        let st2b = cfg_edge(st2, source, cs, Edge::CallCombine(jump));
        lemma_cfg_nbl_edge(st2, subs, source, cs, Edge::CallCombine(jump));
        let st3 = cfg_edge(st2b, cs, tn, Edge::Call(jump));
        lemma_cfg_nbl_edge(st2b, subs, cs, tn, Edge::Call(jump));
        let x1 = CfgLEdge { src, dst: w, w: Edge::CallCombine(jump) };
        let x2 = CfgLEdge { src: w, dst: wt, w: Edge::Call(jump) };
        assert(cfg_nbl_all(st3) == cfg_nbl_all(st).push(x1).push(x2));
        assert(cfg_nbl_all(st) + seq![x1, x2] =~= cfg_nbl_all(st).push(x1).push(x2));
        if rn_opt is Some {
            let st4 = CfgSt { ra: cfg_ra_push(st3.ra, target, (cs, rn_opt->Some_0)), ..st3 };
            lemma_cfg_nbl_stable(st3, st4, st3.edges.len() as int);
        }
    } else {
        assert(!cfg_callable(subs, target));
        assert(cfg_nbl_all(st) + decl =~= cfg_nbl_all(st));
    }
}

pub proof fn lemma_cfg_l_jump_edge<'a>(st: CfgSt<'a>, subs: Map<Tid, Term<Sub>>, ext: Set<Tid>, source: NodeIndex, jump: &'a Term<Jmp>, uc: Option<&'a Term<Jmp>>)
    requires
        cfg_inv(st, subs), cfg_sub_tids_unique(subs), cfg_blk_tids_unique(subs), cfg_is_end(st, source), cfg_ct_complete(st, subs),
        cfg_jump_targets_exist(subs, *cfg_blk(st.nodes[source.i as int]), *jump), cfg_untaken_ok(uc),
        cfg_small(cfg_jump_edge(st, subs, ext, source, jump, uc)),
    ensures
        cfg_nbl_all(cfg_jump_edge(st, subs, ext, source, jump, uc)) == cfg_nbl_all(st)
            + cfg_lout_jump(subs, ext, cfg_blk(st.nodes[source.i as int]), cfg_sub(st.nodes[source.i as int]), jump, uc),
{
    let b = cfg_blk(st.nodes[source.i as int]);
    let f = cfg_sub(st.nodes[source.i as int]);
    let src = Node::BlkEnd(b, f);
    assert(st.nodes[source.i as int] == src);
    lemma_cfg_len_jump_edge(st, subs, ext, source, jump, uc);
    let decl = cfg_lout_jump(subs, ext, b, f, jump, uc);
    match jump.term {
        Jmp::Branch(tid) => {
            lemma_cfg_l_intra(st, subs, source, tid, jump, uc);
            let x = CfgLEdge { src, dst: cfg_ltarget(subs, f, tid), w: Edge::Jump(jump, uc) };
            assert(cfg_nbl_all(st) + seq![x] =~= cfg_nbl_all(st).push(x));
        },
        Jmp::CBranch { target, condition } => {
            lemma_cfg_l_intra(st, subs, source, target, jump, uc);
            let x = CfgLEdge { src, dst: cfg_ltarget(subs, f, target), w: Edge::Jump(jump, uc) };
            assert(cfg_nbl_all(st) + seq![x] =~= cfg_nbl_all(st).push(x));
        },
        Jmp::BranchInd(e) => {
            let targets = b.term.indirect_jmp_targets@;
            lemma_cfg_l_indirect(st, subs, source, jump, uc, targets, targets.len() as int);
            assert(cfg_lhints(subs, src, jump, uc, targets, targets.len() as int) =~= decl);
        },
        Jmp::Call { target, return_ } => {
            lemma_cfg_len_call(st, subs, ext, source, jump, target, return_);
            lemma_cfg_l_call(st, subs, ext, source, jump, uc, target, return_);
        },
        Jmp::CallInd { target, return_ } => {
            lemma_cfg_len_call(st, subs, ext, source, jump, arbitrary(), return_);
            lemma_cfg_l_return_site(st, subs, source, return_);
            lemma_cfg_inv_return_site(st, subs, source, return_);
            let (st1, rn_opt) = cfg_return_site(st, subs, source, return_);
            assert(st1.nodes[source.i as int] == src);
            assert(cfg_edges_in(st1));
            if rn_opt is Some {
                lemma_cfg_nbl_edge(st1, subs, source, rn_opt->Some_0, Edge::ExternCallStub(jump));
                let x = CfgLEdge { src, dst: cfg_ltarget(subs, f, return_->Some_0), w: Edge::ExternCallStub(jump) };
                assert(cfg_nbl_all(st) + seq![x] =~= cfg_nbl_all(st).push(x));
            } else {
                assert(cfg_nbl_all(st) + decl =~= cfg_nbl_all(st));
            }
        },
        Jmp::CallOther { description, return_ } => { assert(cfg_nbl_all(st) + decl =~= cfg_nbl_all(st)); },
        Jmp::Return(e) => { assert(cfg_nbl_all(st) + decl =~= cfg_nbl_all(st)); },
    }
}

pub proof fn lemma_cfg_l_outgoing<'a>(st: CfgSt<'a>, subs: Map<Tid, Term<Sub>>, ext: Set<Tid>, node: NodeIndex, block: &'a Term<Blk>)
    requires
        cfg_inv(st, subs), cfg_sub_tids_unique(subs), cfg_blk_tids_unique(subs), cfg_is_end(st, node), cfg_ct_complete(st, subs),
        cfg_blk(st.nodes[node.i as int]) == block, cfg_block_wf(subs, *block),
        cfg_small(cfg_outgoing(st, subs, ext, node, block)),
    ensures
        cfg_nbl_all(cfg_outgoing(st, subs, ext, node, block)) == cfg_nbl_all(st) + cfg_lout(subs, ext, block, cfg_sub(st.nodes[node.i as int])),
{
    let jmps = block.term.jmps@;
    let f = cfg_sub(st.nodes[node.i as int]);
    lemma_cfg_len_outgoing(st, subs, ext, node, block);
    if jmps.len() == 0 {
        assert(cfg_nbl_all(st) + cfg_lout(subs, ext, block, f) =~= cfg_nbl_all(st));
    } else if jmps.len() == 1 {
        lemma_cfg_l_jump_edge(st, subs, ext, node, &jmps[0], None);
    } else {
        lemma_cfg_l_jump_edge(st, subs, ext, node, &jmps[0], None);
        let s1 = cfg_jump_edge(st, subs, ext, node, &jmps[0], None);
        assert(jmps[0].term is Call ==> cfg_has_call(*block));
        lemma_cfg_inv_jump_edge_all(st, subs, ext, node, &jmps[0], None);
        assert(s1.nodes[node.i as int] == st.nodes[node.i as int]);
        lemma_cfg_l_jump_edge(s1, subs, ext, node, &jmps[1], Some(&jmps[0]));
        let d0 = cfg_lout_jump(subs, ext, block, f, &jmps[0], None);
        let d1 = cfg_lout_jump(subs, ext, block, f, &jmps[1], Some(&jmps[0]));
        assert((cfg_nbl_all(st) + d0) + d1 =~= cfg_nbl_all(st) + (d0 + d1));
    }
}

/// cfg_inv / growth for add_jump_edge including the indirect branch (lemma_cfg_inv_jump_edge leaves that case to the exec loop)
pub proof fn lemma_cfg_inv_jump_edge_all<'a>(st: CfgSt<'a>, subs: Map<Tid, Term<Sub>>, ext: Set<Tid>, source: NodeIndex, jump: &'a Term<Jmp>, uc: Option<&'a Term<Jmp>>)
    requires
        cfg_inv(st, subs), cfg_is_end(st, source), cfg_jump_wf(subs, *cfg_blk(st.nodes[source.i as int]), *jump), cfg_untaken_ok(uc),
        cfg_small(cfg_jump_edge(st, subs, ext, source, jump, uc)),
    ensures
        cfg_inv(cfg_jump_edge(st, subs, ext, source, jump, uc), subs),
        cfg_jump_edge(st, subs, ext, source, jump, uc).nodes[source.i as int] == st.nodes[source.i as int],
        source.i < cfg_jump_edge(st, subs, ext, source, jump, uc).nodes.len(),
        cfg_jump_edge(st, subs, ext, source, jump, uc).ct == st.ct,
{
    lemma_cfg_len_jump_edge(st, subs, ext, source, jump, uc);
    if jump.term is BranchInd {
        let targets = cfg_blk(st.nodes[source.i as int]).term.indirect_jmp_targets@;
        lemma_cfg_inv_indirect_all(st, subs, source, jump, uc, targets, targets.len() as int);
    } else {
        lemma_cfg_inv_jump_edge(st, subs, ext, source, jump, uc);
    }
}

pub proof fn lemma_cfg_inv_indirect_all<'a>(st: CfgSt<'a>, subs: Map<Tid, Term<Sub>>, source: NodeIndex, jump: &'a Term<Jmp>, uc: Option<&'a Term<Jmp>>, targets: Seq<Tid>, n: int)
    requires
        cfg_inv(st, subs), cfg_is_end(st, source), 0 <= n <= targets.len(), cfg_targets_exist(subs, targets), cfg_untaken_ok(uc),
        cfg_small(cfg_indirect_n(st, subs, source, jump, uc, targets, n)),
    ensures
        cfg_inv(cfg_indirect_n(st, subs, source, jump, uc, targets, n), subs),
        cfg_grows(st, cfg_indirect_n(st, subs, source, jump, uc, targets, n)),
    decreases n
{
    if n > 0 {
        let s1 = cfg_indirect_n(st, subs, source, jump, uc, targets, n - 1);
        lemma_cfg_len_indirect(st, subs, source, jump, uc, targets, n, n - 1);
        lemma_cfg_inv_indirect_all(st, subs, source, jump, uc, targets, n - 1);
        assert(s1.nodes[source.i as int] == st.nodes[source.i as int]);
        lemma_cfg_inv_intra(s1, subs, source, targets[n - 1], jump, uc);
    }
}

pub proof fn lemma_cfg_inv_outgoing_all<'a>(st: CfgSt<'a>, subs: Map<Tid, Term<Sub>>, ext: Set<Tid>, node: NodeIndex, block: &'a Term<Blk>)
    requires
        cfg_inv(st, subs), cfg_is_end(st, node), cfg_blk(st.nodes[node.i as int]) == block, cfg_block_wf(subs, *block),
        cfg_small(cfg_outgoing(st, subs, ext, node, block)),
    ensures
        cfg_inv(cfg_outgoing(st, subs, ext, node, block), subs),
        cfg_outgoing(st, subs, ext, node, block).ct == st.ct,
{
    let jmps = block.term.jmps@;
    lemma_cfg_len_outgoing(st, subs, ext, node, block);
    if jmps.len() >= 1 {
        assert(jmps[0].term is Call ==> cfg_has_call(*block));
        lemma_cfg_inv_jump_edge_all(st, subs, ext, node, &jmps[0], None);
        if jmps.len() == 2 {
            assert(jmps[1].term is Call ==> cfg_has_call(*block));
            let s1 = cfg_jump_edge(st, subs, ext, node, &jmps[0], None);
            lemma_cfg_inv_jump_edge_all(s1, subs, ext, node, &jmps[1], Some(&jmps[0]));
        }
    }
}

/// CLOSED FORM (ii), the rounds: after n rounds the labelled non-Block edges are those of the start state followed, round by
/// round, by cfg_lout(pair processed in that round) -- a function of the PROGRAM and the pair
pub proof fn lemma_cfg_l_wl_steps<'a>(s2: CfgSt<'a>, subs: Map<Tid, Term<Sub>>, ext: Set<Tid>, n: int)
    requires
        cfg_inv(s2, subs), cfg_sub_tids_unique(subs), cfg_blk_tids_unique(subs), cfg_blocks_wf(subs), cfg_wl_runs(s2, subs, ext, n),
        cfg_ct_complete(s2, subs), cfg_small(cfg_wl_steps(s2, subs, ext, n)),
    ensures
        cfg_nbl_all(cfg_wl_steps(s2, subs, ext, n)) == cfg_lrounds(s2, subs, ext, n),
        cfg_inv(cfg_wl_steps(s2, subs, ext, n), subs),
        cfg_wl_steps(s2, subs, ext, n).ct == s2.ct,
    decreases n
{
    if n > 0 {
        lemma_cfg_len_wl_steps(s2, subs, ext, n, n - 1);
        assert(cfg_wl_runs(s2, subs, ext, n - 1));
        lemma_cfg_l_wl_steps(s2, subs, ext, n - 1);
        let s = cfg_wl_steps(s2, subs, ext, n - 1);
        assert(s.wl.len() > 0);
        let node = s.wl.last();
        let s1 = CfgSt { wl: s.wl.drop_last(), ..s };
        lemma_cfg_inv_pop(s, subs);
        lemma_cfg_nbl_stable(s, s1, s.edges.len() as int);
        let blk = cfg_blk(s1.nodes[node.i as int]);
        assert(cfg_block_wf(subs, *blk));
        lemma_cfg_l_outgoing(s1, subs, ext, node, blk);
        lemma_cfg_inv_outgoing_all(s1, subs, ext, node, blk);
    }
}

// ---- return linkage, labelled -------------------------------------------------------------------------------------------------------------

pub proof fn lemma_cfg_l_call_return_1<'a>(st: CfgSt<'a>, subs: Map<Tid, Term<Sub>>, f_ret: &'a Term<Sub>, rs: NodeIndex, cn: NodeIndex, rn: NodeIndex)
    requires cfg_inv(st, subs), st.nodes.len() + 1 <= usize::MAX, cfg_is_return_end(st, rs), cfg_ret_ok(st.nodes, (cn, rn)),
    ensures
        cfg_nbl_all(cfg_call_return_1(st, f_ret, rs, cn, rn)) == cfg_nbl_all(st)
            + cfg_lret3(st.nodes[cn.i as int], st.nodes[rs.i as int], st.nodes[rn.i as int], f_ret),
{
    let call = st.nodes[cn.i as int]->CallSource_source;
    let cr = cfg_ni(st.nodes.len() as int);
    let w = Node::CallReturn { call: call, return_: (cfg_blk(st.nodes[rs.i as int]), f_ret) };
    assert(cfg_edges_in(st));
    lemma_cfg_nbl_node(st, subs, w);
    let s1 = cfg_node(st, w);
    lemma_cfg_nbl_edge(s1, subs, cn, cr, Edge::CrCallStub);
    let s2 = cfg_edge(s1, cn, cr, Edge::CrCallStub);
    lemma_cfg_nbl_edge(s2, subs, rs, cr, Edge::CrReturnStub);
    let s3 = cfg_edge(s2, rs, cr, Edge::CrReturnStub);
    lemma_cfg_nbl_edge(s3, subs, cr, rn, Edge::ReturnCombine(cfg_call_term(call.0)));
    let d = cfg_lret3(st.nodes[cn.i as int], st.nodes[rs.i as int], st.nodes[rn.i as int], f_ret);
    assert(cfg_nbl_all(st) + d =~= cfg_nbl_all(st).push(d[0]).push(d[1]).push(d[2]));
}

/// the node weights the labelled return linkage reads are the same in every later state
pub proof fn lemma_cfg_lret_n_stable<'a>(a: CfgSt<'a>, b: CfgSt<'a>, f_ret: &'a Term<Sub>, rs: NodeIndex, list: Seq<(NodeIndex, NodeIndex)>, n: int)
    requires
        a.nodes.len() <= b.nodes.len(), forall |i: int| 0 <= i < a.nodes.len() ==> #[trigger] b.nodes[i] == a.nodes[i],
        rs.i < a.nodes.len(), 0 <= n <= list.len(),
        forall |i: int| 0 <= i < list.len() ==> (#[trigger] list[i]).0.i < a.nodes.len() && list[i].1.i < a.nodes.len(),
    ensures cfg_lret_n(b, f_ret, rs, list, n) == cfg_lret_n(a, f_ret, rs, list, n),
    decreases n
{
    if n > 0 { lemma_cfg_lret_n_stable(a, b, f_ret, rs, list, n - 1); }
}

pub proof fn lemma_cfg_l_call_return_n<'a>(st: CfgSt<'a>, subs: Map<Tid, Term<Sub>>, f_ret: &'a Term<Sub>, rs: NodeIndex, list: Seq<(NodeIndex, NodeIndex)>, n: int)
    requires
        cfg_inv(st, subs), cfg_is_return_end(st, rs), 0 <= n <= list.len(),
        forall |i: int| 0 <= i < list.len() ==> cfg_ret_ok(st.nodes, #[trigger] list[i]),
        cfg_small(cfg_call_return_n(st, f_ret, rs, list, n)),
    ensures
        cfg_nbl_all(cfg_call_return_n(st, f_ret, rs, list, n)) == cfg_nbl_all(st) + cfg_lret_n(st, f_ret, rs, list, n),
        cfg_inv(cfg_call_return_n(st, f_ret, rs, list, n), subs),
        cfg_grows(st, cfg_call_return_n(st, f_ret, rs, list, n)),
        cfg_call_return_n(st, f_ret, rs, list, n).ra == st.ra,
    decreases n
{
    if n > 0 {
        lemma_cfg_len_call_return_n(st, f_ret, rs, list, n, n - 1);
        lemma_cfg_l_call_return_n(st, subs, f_ret, rs, list, n - 1);
        let s1 = cfg_call_return_n(st, f_ret, rs, list, n - 1);
        let (cn, rn) = list[n - 1];
        assert(cfg_ret_ok(st.nodes, list[n - 1]));
        assert(s1.nodes[cn.i as int] == st.nodes[cn.i as int] && s1.nodes[rn.i as int] == st.nodes[rn.i as int] && s1.nodes[rs.i as int] == st.nodes[rs.i as int]);
        lemma_cfg_l_call_return_1(s1, subs, f_ret, rs, cn, rn);
        lemma_cfg_inv_call_return_step(s1, subs, f_ret, rs, cn, rn);
        let d = cfg_lret3(st.nodes[cn.i as int], st.nodes[rs.i as int], st.nodes[rn.i as int], f_ret);
        assert((cfg_nbl_all(st) + cfg_lret_n(st, f_ret, rs, list, n - 1)) + d =~= cfg_nbl_all(st) + (cfg_lret_n(st, f_ret, rs, list, n - 1) + d));
    } else {
        assert(cfg_nbl_all(st) + cfg_lret_n(st, f_ret, rs, list, n) =~= cfg_nbl_all(st));
    }
}

pub proof fn lemma_cfg_l_returns_n<'a>(st: CfgSt<'a>, subs: Map<Tid, Term<Sub>>, list: Seq<NodeIndex>, k: int)
    requires
        cfg_inv(st, subs), 0 <= k <= list.len(),
        forall |i: int| 0 <= i < list.len() ==> cfg_is_return_end(st, #[trigger] list[i]),
        cfg_small(cfg_returns_n(st, list, k)),
    ensures
        cfg_nbl_all(cfg_returns_n(st, list, k)) == cfg_nbl_all(st) + cfg_lreturns_n(st, list, k),
        cfg_inv(cfg_returns_n(st, list, k), subs),
        cfg_grows(st, cfg_returns_n(st, list, k)),
        cfg_returns_n(st, list, k).ra == st.ra,
    decreases k
{
    if k > 0 {
        lemma_cfg_len_returns_n(st, list, k, k - 1);
        lemma_cfg_l_returns_n(st, subs, list, k - 1);
        let s1 = cfg_returns_n(st, list, k - 1);
        let rs = list[k - 1];
        let f = cfg_sub(st.nodes[rs.i as int]);
        assert(cfg_is_return_end(st, rs));
        assert(s1.nodes[rs.i as int] == st.nodes[rs.i as int]);
        if s1.ra.contains_key(f.tid) {
            let l = s1.ra[f.tid];
            assert forall |i: int| 0 <= i < l.len() implies cfg_ret_ok(s1.nodes, #[trigger] l[i]) by {
                assert(cfg_ret_ok(s1.nodes, s1.ra[f.tid][i]));
            }
            assert forall |i: int| 0 <= i < l.len() implies (#[trigger] l[i]).0.i < st.nodes.len() && l[i].1.i < st.nodes.len() by {
                assert(cfg_ret_ok(st.nodes, st.ra[f.tid][i]));
            }
            lemma_cfg_l_call_return_n(s1, subs, f, rs, l, l.len() as int);
            lemma_cfg_lret_n_stable(st, s1, f, rs, l, l.len() as int);
        }
        let d = cfg_lret_node(st, rs);
        assert((cfg_nbl_all(st) + cfg_lreturns_n(st, list, k - 1)) + d =~= cfg_nbl_all(st) + (cfg_lreturns_n(st, list, k - 1) + d));
    } else {
        assert(cfg_nbl_all(st) + cfg_lreturns_n(st, list, k) =~= cfg_nbl_all(st));
    }
}

/// CLOSED FORM (ii), the return linkage: add_return_edges appends exactly cfg_lreturns
pub proof fn lemma_cfg_l_return_edges<'a>(st: CfgSt<'a>, subs: Map<Tid, Term<Sub>>)
    requires cfg_inv(st, subs), cfg_small(cfg_return_edges(st)),
    ensures
        cfg_nbl_all(cfg_return_edges(st)) == cfg_nbl_all(st) + cfg_lreturns(st),
        cfg_inv(cfg_return_edges(st), subs),
{
    let list = cfg_return_nodes(st.nodes, st.nodes.len() as int);
    lemma_cfg_len_returns_n(st, list, list.len() as int, 0);
    lemma_cfg_return_nodes_bound(st.nodes, st.nodes.len() as int);
    lemma_cfg_l_returns_n(st, subs, list, list.len() as int);
}

// ---- add_program_blocks without the uniqueness of positions: invariant, no non-Block edge, no call target ---------------------------------------

pub proof fn lemma_cfg_l_sub_blocks<'a>(st: CfgSt<'a>, subs: Map<Tid, Term<Sub>>, k: Tid, n: int)
    requires
        cfg_inv(st, subs), subs.contains_key(k), 0 <= n <= subs[k].term.blocks@.len(),
        cfg_small(cfg_sub_blocks_n(st, &subs[k], n)),
    ensures
        cfg_inv(cfg_sub_blocks_n(st, &subs[k], n), subs),
        cfg_nbl_all(cfg_sub_blocks_n(st, &subs[k], n)) == cfg_nbl_all(st),
        cfg_sub_blocks_n(st, &subs[k], n).ct == st.ct,
    decreases n
{
    if n > 0 {
        let f = &subs[k];
        lemma_cfg_len_sub_blocks(st, f, n, n - 1);
        lemma_cfg_l_sub_blocks(st, subs, k, n - 1);
        let s1 = cfg_sub_blocks_n(st, f, n - 1);
        let b = &f.term.blocks@[n - 1];
        assert(cfg_block_at(subs, k, n - 1, *b));
        lemma_cfg_inv_add_block(s1, subs, b, f);
        lemma_cfg_nbl_add_block(s1, subs, b, f);
    }
}

pub proof fn lemma_cfg_l_prog_blocks<'a>(st: CfgSt<'a>, subs: Map<Tid, Term<Sub>>, ks: Seq<Tid>, m: int)
    requires
        cfg_inv(st, subs), cfg_key_order(ks, subs), 0 <= m <= ks.len(),
        cfg_small(cfg_prog_blocks_n(st, subs, ks, m)),
    ensures
        cfg_inv(cfg_prog_blocks_n(st, subs, ks, m), subs),
        cfg_nbl_all(cfg_prog_blocks_n(st, subs, ks, m)) == cfg_nbl_all(st),
        cfg_prog_blocks_n(st, subs, ks, m).ct == st.ct,
    decreases m
{
    if m > 0 {
        let s1 = cfg_prog_blocks_n(st, subs, ks, m - 1);
        let f = &subs[ks[m - 1]];
        lemma_cfg_len_sub_blocks(s1, f, f.term.blocks@.len() as int, 0);
        lemma_cfg_l_prog_blocks(st, subs, ks, m - 1);
        lemma_cfg_l_sub_blocks(s1, subs, ks[m - 1], f.term.blocks@.len() as int);
    }
}

/// CLOSED FORM (ii): the labelled non-Block edges of the final state (no uniqueness of positions needed)
#[verifier::rlimit(30)]
pub proof fn lemma_cfg_closed_edges<'a>(st: CfgSt<'a>, subs: Map<Tid, Term<Sub>>, ext: Set<Tid>, ks: Seq<Tid>, s2: CfgSt<'a>, n: int)
    requires
        cfg_build_steps(ks, s2, n, st, subs, ext), cfg_prog_wf(subs), cfg_small(st),
    ensures
        cfg_nbl_all(st) == cfg_lrounds(s2, subs, ext, n) + cfg_lreturns(cfg_wl_steps(s2, subs, ext, n)),
        cfg_nbl_all(s2).len() == 0,
{
    hide(cfg_shape); hide(cfg_returns_n); hide(cfg_return_nodes); hide(cfg_lreturns);
    let s0 = cfg_empty::<'a>();
    let s1 = cfg_prog_blocks_n(s0, subs, ks, ks.len() as int);
    let s3 = cfg_wl_steps(s2, subs, ext, n);
    lemma_cfg_global_sizes(st, subs, ext, s2, n);
    assert(s2.nodes == s1.nodes && s2.edges == s1.edges);
    lemma_cfg_inv_empty(s0, subs);
    lemma_cfg_l_prog_blocks(s0, subs, ks, ks.len() as int);
    assert(cfg_nbl_all(s0) =~= Seq::<CfgLEdge<'a>>::empty());
    assert(cfg_prog_blocks_post(s0, s1, subs));
    lemma_cfg_firsts_registered(s0, s1, subs);
    lemma_cfg_inv_call_targets(s1, s2, subs);
    lemma_cfg_nbl_stable(s1, s2, s1.edges.len() as int);
    assert(s1.ct =~= s0.ct);
    assert(cfg_ct_complete(s2, subs));
    lemma_cfg_l_wl_steps(s2, subs, ext, n);
    lemma_cfg_l_return_edges(s3, subs);
}

/// CLOSED FORM, top level
#[verifier::rlimit(30)]
pub proof fn lemma_cfg_closed<'a>(st: CfgSt<'a>, subs: Map<Tid, Term<Sub>>, ext: Set<Tid>)
    requires cfg_build_post(st, subs, ext), cfg_prog_wf(subs), cfg_positions_unique(subs), cfg_small(st),
    ensures cfg_closed_post(st, subs, ext),
{
    hide(cfg_shape); hide(cfg_inv); hide(cfg_return_edges); hide(cfg_lreturns); hide(cfg_lrounds); hide(cfg_nbl); hide(cfg_pairs_inv);
    let (ks, s2, n) = choose |ks: Seq<Tid>, s2: CfgSt<'a>, n: int| #[trigger] cfg_build_steps(ks, s2, n, st, subs, ext);
    lemma_cfg_global_steps(st, subs, ext, ks, s2, n);
    lemma_cfg_closed_pairs(st, subs, ext, ks, s2, n);
    lemma_cfg_closed_edges(st, subs, ext, ks, s2, n);
    let done = cfg_done_n(s2, subs, ext, n);
    assert forall |j: int| 0 <= j < n implies st.nodes[(#[trigger] done[j]).i as int] == cfg_wl_steps(s2, subs, ext, j).nodes[done[j].i as int] by {
        let s = cfg_wl_steps(s2, subs, ext, j);
        assert(cfg_gstep0(s, st));
        lemma_cfg_closed_done_in(st, subs, ext, ks, s2, n, j);
    }
}

/// the node processed in round j exists in the state of round j
pub proof fn lemma_cfg_closed_done_in<'a>(st: CfgSt<'a>, subs: Map<Tid, Term<Sub>>, ext: Set<Tid>, ks: Seq<Tid>, s2: CfgSt<'a>, n: int, j: int)
    requires
        cfg_build_steps(ks, s2, n, st, subs, ext), cfg_prog_wf(subs), cfg_positions_unique(subs), cfg_small(st), 0 <= j < n,
    ensures
        cfg_wl_steps(s2, subs, ext, j).wl.len() > 0,
        cfg_wl_steps(s2, subs, ext, j).wl.last().i < cfg_wl_steps(s2, subs, ext, j).nodes.len(),
{
    lemma_cfg_global_sizes(st, subs, ext, s2, n);
    lemma_cfg_global_s2(subs, ks, s2);
    lemma_cfg_len_wl_steps(s2, subs, ext, n, j);
    assert(cfg_wl_runs(s2, subs, ext, j));
    lemma_cfg_g_wl_steps(s2, subs, ext, j);
    let s = cfg_wl_steps(s2, subs, ext, j);
    assert(s.wl.len() > 0);
    assert(s.wl[s.wl.len() - 1] == s.wl.last());
}
