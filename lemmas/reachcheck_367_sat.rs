// ---------------------------------------------------------------------------
// lemmas/reachcheck_367_sat.rs -- SATISFIABILITY WITNESSES of unit `reachcheck_367` (nothing here is trusted; calls of the
// EXISTING shim axiom axiom_cg_digraph_bounds -- which check_cwe itself invokes -- are marked).
//   Node::get_block (requires BlkStart || BlkEnd): (a') verif_sat_reachcheck_367_get_block builds both kinds of node and calls it.
//   check_cwe (requires rc367_pre(graph, extern symbols, parsed pairs)):
//     * a graph is OPAQUE (external_body DiGraph, every view uninterpreted): no spec term denotes a particular graph, and
//       rc_symbol_key / rc_parsed are uninterpreted, so `exists g, m, pairs. rc367_pre` is provable at spec level only with
//       pairs == [] (degenerate).  Hence:
//     * lemma_sat_reachcheck_367_pre_from_shape: rc367_pre follows, for EVERY symbol table and EVERY pair list, from the
//       graph-only condition "every ExternCallStub edge ends at a BlkStart node" (rc367_sat_stubs_to_blkstart) -- a condition on
//       node_weight / edge_weight / edge_seq at valid edges only, which no shim item constrains (axiom_cg_digraph_bounds bounds
//       counts and endpoints).  Built CFGs have it (unit cfgbuild_rc367, lemma_cfg_rc367_pre).
//     * (a') verif_sat_reachcheck_367_check_cwe: exec client WITHOUT preconditions; graph / project / JSON parameters are
//       PARAMETERS (opaque); it TESTS the shape condition in exec code over all edges and, when the test passes, calls the real
//       check_cwe (Verus checks the real `requires`).  Conditional on: some graph passes the test (outside the logic).
//     * NON-DEGENERACY, lemma_sat_reachcheck_367_pre_nontrivial: for a graph described pointwise (3 nodes, edge 0 = call to the
//       check symbol 0 -> 1, edge 1 = call to the use symbol 1 -> 2, nodes 1, 2 BlkStart), a symbol table holding both symbols
//       and ONE configured pair, rc367_pre holds AND position (0, 0) reports: the precondition does not exclude reporting inputs.
//       The description fixes the uninterpreted views at finitely many points within the bounds of axiom_cg_digraph_bounds, and
//       rc_symbol_key at two points consistently with the contract of RcSymbolMap::get.
//   MODEL of the trusted contract of RcSymbolMap::get (constrains the uninterpreted rc_symbol_key):
//     lemma_sat_reachcheck_367_symbol_key_model -- "a key of some symbol of that name, None iff none" satisfies it for all (m, name).
// ---------------------------------------------------------------------------

/// (a') Node::get_block: requires self is BlkStart || self is BlkEnd
pub fn verif_sat_reachcheck_367_get_block<'a>(blk: &'a Term<Blk>, sub: &'a Term<Sub>)
{
    let n1 = Node::BlkStart(blk, sub);
    let b1 = n1.get_block();
    let n2 = Node::BlkEnd(blk, sub);
    let b2 = n2.get_block();
    assert(b1 == blk && b2 == blk);
}

/// graph-only sufficient condition for rc367_pre: every ExternCallStub edge ends at a BlkStart node
pub open spec fn rc367_sat_stubs_to_blkstart<'a>(g: DiGraph<Node<'a>, Edge<'a>>) -> bool {
    forall |e: int| cg_valid(g, e) && (#[trigger] g.edge_weight(e)) is ExternCallStub
        ==> rc_blkstart(g.node_weight(cg_tgt(g, e).i as int)) is Some
}

/// rc367_pre for every symbol table and every configured pair list
pub proof fn lemma_sat_reachcheck_367_pre_from_shape<'a>(g: DiGraph<Node<'a>, Edge<'a>>, m: Map<Tid, ExternSymbol>, pairs: Seq<(String, String)>)
    requires rc367_sat_stubs_to_blkstart(g),
    ensures rc367_pre(g, m, pairs),
{
    assert forall |p: int, e: int| #![trigger pairs[p], g.edge_weight(e)] 0 <= p < pairs.len() && rc367_reports(g, m, pairs, p, e)
        implies rc_blkstart(g.node_weight(cg_tgt(g, e).i as int)) is Some by {
        assert(g.edge_weight(e) is ExternCallStub);
    }
}

/// NON-DEGENERACY: source call 0 -> 1, sink call 1 -> 2, one configured pair, both symbols imported: rc367_pre holds and
/// position (pair 0, edge 0) REPORTS
pub proof fn lemma_sat_reachcheck_367_pre_nontrivial<'a>(g: DiGraph<Node<'a>, Edge<'a>>, m: Map<Tid, ExternSymbol>, pairs: Seq<(String, String)>,
                                                         j0: &'a Term<Jmp>, j1: &'a Term<Jmp>, chk: Tid, use_: Tid)
    requires
        g.node_count_spec() == 3,
        g.edge_seq() == seq![(NodeIndex { i: 0 }, NodeIndex { i: 1 }), (NodeIndex { i: 1 }, NodeIndex { i: 2 })],
        g.edge_weight(0) == Edge::ExternCallStub(j0), cgb_call_target(j0.term) == Some(chk),
        g.edge_weight(1) == Edge::ExternCallStub(j1), cgb_call_target(j1.term) == Some(use_),
        g.node_weight(1) is BlkStart, g.node_weight(2) is BlkStart,
        pairs.len() == 1,
        // the symbol table holds both symbols under the keys the name map finds (what RcSymbolMap::get promises)
        rc_symbol_key(m, pairs[0].0@) == Some(chk), m.contains_key(chk), m[chk].name@ == pairs[0].0@,
        rc_symbol_key(m, pairs[0].1@) == Some(use_), m.contains_key(use_), m[use_].name@ == pairs[0].1@,
    ensures
        rc367_pre(g, m, pairs),
        rc367_reports(g, m, pairs, 0, 0),
{
    axiom_cg_digraph_bounds(g);   // existing shim axiom: the description stays within its bounds (negative control done)
    assert(g.edge_seq().len() == 2);
    assert(g.edge_seq()[0] == (NodeIndex { i: 0 }, NodeIndex { i: 1 }));
    assert(g.edge_seq()[1] == (NodeIndex { i: 1 }, NodeIndex { i: 2 }));
    assert(rc367_sat_stubs_to_blkstart(g)) by {
        assert forall |e: int| cg_valid(g, e) && (#[trigger] g.edge_weight(e)) is ExternCallStub
            implies rc_blkstart(g.node_weight(cg_tgt(g, e).i as int)) is Some by {
            assert(e == 0 || e == 1);
        }
    }
    lemma_sat_reachcheck_367_pre_from_shape(g, m, pairs);
    // the sink call (edge 1) leaves the node the source call returns to: reachable by the empty path
    lemma_rc_reach_refl(g, chk, NodeIndex { i: 1 });
    assert(rc_sink_hit(g, cg_tgt(g, 0), chk, use_, 1));
}

/// (a') check_cwe on an arbitrary graph / project / configuration that passes an EXEC test of the shape condition
#[verifier::loop_isolation(false)]
#[verifier::exec_allows_no_decreases_clause]
pub fn verif_sat_reachcheck_367_check_cwe(analysis_results: &AnalysisResults, cwe_params: &serde_json::Value) -> (r: Option<(Vec<LogMessage>, Vec<CweWarning>)>)
{
    let graph = analysis_results.control_flow_graph;
    proof { axiom_cg_digraph_bounds(*graph); }   // existing shim axiom: edge targets are nodes (for `graph[..]`)
    let refs = verif_rc_edge_references(graph);
    let mut ok = true;
    let mut k: usize = 0;
    while k < refs.len()
        invariant
            k <= refs@.len(),
            ok ==> forall |e: int| 0 <= e < k && (#[trigger] graph.edge_weight(e)) is ExternCallStub
                ==> rc_blkstart(graph.node_weight(cg_tgt(*graph, e).i as int)) is Some,
        decreases refs@.len() - k,
    {
        let edge = refs[k];
        assert(rc_ref_of(*graph, edge) && edge.e.i == k);
        if let Edge::ExternCallStub(_jmp) = edge.weight() {
            match graph[edge.target()] {
                Node::BlkStart(_blk, _sub) => {},
                _ => { ok = false; },
            }
        }
        k += 1;
    }
    if ok {
        proof {
            lemma_sat_reachcheck_367_pre_from_shape(*graph, analysis_results.project.program.term.extern_symbols@,
                                                    rc_parsed::<Config>(*cwe_params).pairs@);
        }
        // check_cwe: rc367_pre(graph, extern symbols, parsed pairs)
        let r = check_cwe(analysis_results, cwe_params);
        Some(r)
    } else {
        None
    }
}

/// a model of the uninterpreted rc_symbol_key: the key of SOME symbol of that name
pub open spec fn rc367_sat_key_model(m: Map<Tid, ExternSymbol>, name: Seq<char>) -> Option<Tid> {
    if rc_imported(m, name) { Some(choose |k: Tid| m.contains_key(k) && (#[trigger] m[k]).name@ == name) } else { None }
}

/// the `ensures` of the trusted RcSymbolMap::get, with `rc_symbol_key(self.syms(), k@)` replaced by `key`, `self.syms()` by m,
/// `k@` by name and `*r->Some_0` by r->Some_0 (same conjunct order)
pub open spec fn rc367_sat_get_post(m: Map<Tid, ExternSymbol>, name: Seq<char>, key: Option<Tid>, r: Option<Tid>) -> bool {
    &&& (r is None <==> !rc_imported(m, name))
    &&& (r is None <==> key is None)
    &&& (r is Some ==> key == Some(r->Some_0)
            && m.contains_key(r->Some_0) && m[r->Some_0].name@ == name)
}

/// MODEL of the contract of the trusted RcSymbolMap::get: with the model for rc_symbol_key a result exists for every table and name
pub proof fn lemma_sat_reachcheck_367_symbol_key_model(m: Map<Tid, ExternSymbol>, name: Seq<char>)
    ensures exists |r: Option<Tid>| #[trigger] rc367_sat_get_post(m, name, rc367_sat_key_model(m, name), r),
{
    assert(rc367_sat_get_post(m, name, rc367_sat_key_model(m, name), rc367_sat_key_model(m, name)));
}
