// ---------------------------------------------------------------------------------------------------------------------
// lemmas/formatstr.rs -- PROVED lemmas of unit `formatstr` (property C20).  Nothing here is assumed.
//   lemma_fs_groups_of_render   the regex model finds, in a rendered item sequence, exactly None per escape and
//                               Some(spec) per conversion, in order  (the heart of C20; fails for `%%d` without the `%%|`
//                               alternative)
//   lemma_fs_captures_are_specs every participating group the model can produce, for ANY string, is one of the 45 forms
//   lemma_fs_strlit_table_*     the 45 string literals of `Datatype::from`, characterwise
// ---------------------------------------------------------------------------------------------------------------------

pub proof fn lemma_fs_skip_bounds(s: Seq<char>, i: int)
    requires 0 <= i <= s.len(),
    ensures i <= fs_skip_digits(s, i) <= s.len(),
    decreases s.len() - i,
{
    if i < s.len() && fs_digit(s[i]) { lemma_fs_skip_bounds(s, i + 1); }
}

/// a run of digits [i, j) that ends at a non-digit (or at the end of the string) is what `\d*` consumes
pub proof fn lemma_fs_skip_run(s: Seq<char>, i: int, j: int)
    requires
        0 <= i <= j <= s.len(),
        forall |k: int| i <= k < j ==> fs_digit(#[trigger] s[k]),
        j == s.len() || !fs_digit(s[j]),
    ensures fs_skip_digits(s, i) == j,
    decreases j - i,
{
    if i < j { lemma_fs_skip_run(s, i + 1, j); }
}

/// a match has between 2 and s.len() characters, and a participating group is one of the 45 forms
pub proof fn lemma_fs_match_bounds(s: Seq<char>)
    ensures
        fs_match(s) is Some ==> 2 <= fs_match(s)->Some_0.0 <= s.len(),
        fs_match(s) is Some && fs_match(s)->Some_0.1 is Some ==> fs_is_spec(fs_match(s)->Some_0.1->Some_0),
{
    if s.len() >= 2 && s[0] == '%' && s[1] != '%' {
        let a: int = if fs_flag(s[1]) { 2 } else { 1 };
        lemma_fs_skip_bounds(s, a);
        let b = fs_skip_digits(s, a);
        let c: int = if b < s.len() && s[b] == '.' { b + 1 } else { b };
        lemma_fs_skip_bounds(s, c);
        let d = fs_skip_digits(s, c);
        match fs_spec_at(s, d) {
            Some(k) => {
                let t = s.subrange(d, d + k);
                assert(t.len() == k);
                assert(t[0] == s[d]);
                if k >= 2 { assert(t[1] == s[d + 1]); }
                if k >= 3 { assert(t[2] == s[d + 2]); }
            }
            None => {}
        }
    }
}

pub proof fn lemma_fs_captures_are_specs(s: Seq<char>)
    ensures fs_all_specs(fs_captures(s, 1)),
    decreases s.len(),
{
    if s.len() > 0 {
        lemma_fs_match_bounds(s);
        match fs_match(s) {
            Some((n, g)) => {
                lemma_fs_captures_are_specs(s.skip(n));
                let rec = fs_captures(s.skip(n), 1);
                let all = seq![g] + rec;
                assert(fs_captures(s, 1) == all);
                assert forall |i: int| 0 <= i < all.len() && (#[trigger] all[i]) is Some implies fs_is_spec(all[i]->Some_0) by {
                    if i > 0 { assert(all[i] == rec[i - 1]); }
                }
            }
            None => { lemma_fs_captures_are_specs(s.skip(1)); }
        }
    }
}

// ---- the regex model on rendered items ----------------------------------------------------------------------------------

/// literal text without '%' contributes no match and does not disturb what follows
pub proof fn lemma_fs_groups_lit(t: Seq<char>, rest: Seq<char>)
    requires forall |i: int| 0 <= i < t.len() ==> #[trigger] t[i] != '%',
    ensures fs_groups(t + rest) == fs_groups(rest),
    decreases t.len(),
{
    if t.len() == 0 {
        assert(t + rest =~= rest);
    } else {
        let s = t + rest;
        assert(s[0] == t[0]);
        assert(fs_match(s) is None);
        assert(s.skip(1) =~= t.skip(1) + rest);
        assert forall |i: int| 0 <= i < t.skip(1).len() implies #[trigger] t.skip(1)[i] != '%' by { assert(t.skip(1)[i] == t[i + 1]); }
        lemma_fs_groups_lit(t.skip(1), rest);
    }
}

/// `%%` is one match without group, whatever follows (with the fix: even a conversion letter)
pub proof fn lemma_fs_groups_escape(rest: Seq<char>)
    ensures fs_groups(seq!['%', '%'] + rest) == seq![None::<Seq<char>>] + fs_groups(rest),
{
    let s = seq!['%', '%'] + rest;
    assert(s[0] == '%' && s[1] == '%');
    assert(fs_match(s) == Some((2int, None::<Seq<char>>)));
    assert(s.skip(2) =~= rest);
}

/// A conversion `% flag width prec spec` at the start of s (given by index facts: f = 0/1 flag characters, w width digits,
/// p = 0 or 1 + number of precision digits, k characters of spec) is matched completely and group 1 is the spec.
/// Cases that need care: a width starting with '0' and no flag (the regex reads that '0' as the flag), no width and no
/// precision, a precision '.' without digits.
pub proof fn lemma_fs_match_conv(s: Seq<char>, f: int, w: int, p: int, k: int)
    requires
        0 <= f <= 1, 0 <= w, 0 <= p, 1 <= k,
        s.len() >= 1 + f + w + p + k,
        s[0] == '%',
        f == 1 ==> fs_flag(s[1]),
        forall |i: int| 1 + f <= i < 1 + f + w ==> fs_ascii_digit(#[trigger] s[i]),
        p > 0 ==> s[1 + f + w] == '.',
        forall |i: int| 1 + f + w + 1 <= i < 1 + f + w + p ==> fs_ascii_digit(#[trigger] s[i]),
        fs_is_spec(s.subrange(1 + f + w + p, 1 + f + w + p + k)),
    ensures
        fs_match(s) == Some((1 + f + w + p + k, Some(s.subrange(1 + f + w + p, 1 + f + w + p + k)))),
{
    broadcast use axiom_fs_unicode_nd_not_ascii;
    let b0 = 1 + f + w;
    let d0 = 1 + f + w + p;
    let t = s.subrange(d0, d0 + k);
    assert(t.len() == k);
    assert(t[0] == s[d0]);
    if k >= 2 { assert(t[1] == s[d0 + 1]); }
    if k >= 3 { assert(t[2] == s[d0 + 2]); }
    // the first character of a spec is an ASCII letter: neither a digit, nor '.', nor a flag, nor '%'
    let l = s[d0];
    assert(fs_conv1(l) || l == 'h' || l == 'l' || l == 'L');
    assert(!fs_digit(l) && l != '.' && !fs_flag(l) && l != '%');
    assert(!fs_digit('.'));
    // what follows the width is not a digit
    assert(!fs_digit(s[b0])) by { if p > 0 { } else { assert(s[b0] == l); } }
    assert(s[1] != '%') by {
        if f == 1 { } else if w > 0 { assert(fs_ascii_digit(s[1])); } else if p > 0 { } else { assert(s[1] == l); }
    }
    let a: int = if fs_flag(s[1]) { 2 } else { 1 };
    // the flag part and the first `\d*` together end at b0
    assert(fs_skip_digits(s, a) == b0) by {
        if f == 1 {
            lemma_fs_skip_run(s, 2, b0);
        } else if w > 0 {
            assert(fs_ascii_digit(s[1]));
            if s[1] == '0' { lemma_fs_skip_run(s, 2, b0); } else { assert(!fs_flag(s[1])); lemma_fs_skip_run(s, 1, b0); }
        } else {
            assert(!fs_flag(s[1])) by { if p > 0 { } else { assert(s[1] == l); } }
            lemma_fs_skip_run(s, 1, b0);
        }
    }
    // `[\.]?\d*` ends at d0
    let c: int = if b0 < s.len() && s[b0] == '.' { b0 + 1 } else { b0 };
    assert(fs_skip_digits(s, c) == d0) by {
        if p > 0 { lemma_fs_skip_run(s, b0 + 1, d0); } else { assert(s[b0] == l); lemma_fs_skip_run(s, b0, d0); }
    }
    // the group
    assert(fs_spec_at(s, d0) == Some(k));
}

pub proof fn lemma_fs_groups_conv(flag: Seq<char>, width: Seq<char>, prec: Seq<char>, spec: Seq<char>, rest: Seq<char>)
    requires fs_item_wf(FsItem::Conv { flag, width, prec, spec }),
    ensures
        fs_groups(fs_render_item(FsItem::Conv { flag, width, prec, spec }) + rest) == seq![Some(spec)] + fs_groups(rest),
{
    let s = seq!['%'] + flag + width + prec + spec + rest;
    let f = flag.len() as int;
    let w = width.len() as int;
    let p = prec.len() as int;
    let k = spec.len() as int;
    let d = 1 + f + w + p;
    assert(s.len() == d + k + rest.len());
    assert(s[0] == '%');
    assert(forall |i: int| 0 <= i < f ==> s[1 + i] == flag[i]);
    assert(forall |i: int| 0 <= i < w ==> s[1 + f + i] == width[i]);
    assert(forall |i: int| 0 <= i < p ==> s[1 + f + w + i] == prec[i]);
    assert(forall |i: int| 0 <= i < k ==> s[d + i] == spec[i]);
    assert(forall |i: int| 0 <= i < rest.len() ==> s[d + k + i] == rest[i]);
    assert(s.subrange(d, d + k) =~= spec);
    assert(s.skip(d + k) =~= rest);
    if f == 1 { assert(s[1] == flag[0]); }
    assert forall |i: int| 1 + f <= i < 1 + f + w implies fs_ascii_digit(#[trigger] s[i]) by {
        assert(s[i] == width[i - 1 - f]);
    }
    if p > 0 { assert(s[1 + f + w] == prec[0]); }
    assert forall |i: int| 1 + f + w + 1 <= i < 1 + f + w + p implies fs_ascii_digit(#[trigger] s[i]) by {
        assert(s[i] == prec[i - 1 - f - w]);
        assert(prec.skip(1)[i - 2 - f - w] == prec[i - 1 - f - w]);
    }
    lemma_fs_match_conv(s, f, w, p, k);
}

/// C20, regex part: in the rendering of a well-formed item sequence, `captures_iter` finds exactly one match per escape
/// (group 1 absent) and one per conversion (group 1 = its spec), in order.
pub proof fn lemma_fs_groups_of_render(items: Seq<FsItem>)
    requires fs_items_wf(items),
    ensures fs_groups(fs_render(items)) == fs_item_groups(items),
    decreases items.len(),
{
    if items.len() > 0 {
        let tail = items.skip(1);
        assert forall |i: int| 0 <= i < tail.len() implies fs_item_wf(#[trigger] tail[i]) by { assert(tail[i] == items[i + 1]); }
        lemma_fs_groups_of_render(tail);
        let rest = fs_render(tail);
        assert(fs_item_wf(items[0]));
        match items[0] {
            FsItem::Lit(t) => { lemma_fs_groups_lit(t, rest); }
            FsItem::Escape => { lemma_fs_groups_escape(rest); }
            FsItem::Conv { flag, width, prec, spec } => { lemma_fs_groups_conv(flag, width, prec, spec, rest); }
        }
    }
}

// ---- filter_map ----------------------------------------------------------------------------------------------------------

pub proof fn lemma_fs_specs_cons(x: Option<Seq<char>>, g: Seq<Option<Seq<char>>>)
    ensures fs_specs(seq![x] + g) == (match x { Some(y) => seq![y] + fs_specs(g), None => fs_specs(g) }),
    decreases g.len(),
{
    let h = seq![x] + g;
    if g.len() == 0 {
        assert(h.drop_last() =~= Seq::<Option<Seq<char>>>::empty());
        assert(h.last() == x);
        assert(fs_specs(h.drop_last()) =~= Seq::<Seq<char>>::empty());
        match x {
            Some(y) => { assert(Seq::<Seq<char>>::empty().push(y) =~= seq![y] + fs_specs(g)); }
            None => {}
        }
    } else {
        assert(h.drop_last() =~= seq![x] + g.drop_last());
        assert(h.last() == g.last());
        lemma_fs_specs_cons(x, g.drop_last());
        let p = fs_specs(g.drop_last());
        match (x, g.last()) {
            (Some(y), Some(z)) => { assert((seq![y] + p).push(z) =~= seq![y] + p.push(z)); }
            _ => {}
        }
    }
}

pub proof fn lemma_fs_specs_of_item_groups(items: Seq<FsItem>)
    ensures fs_specs(fs_item_groups(items)) == fs_item_specs(items),
    decreases items.len(),
{
    if items.len() > 0 {
        let tail = items.skip(1);
        lemma_fs_specs_of_item_groups(tail);
        match items[0] {
            FsItem::Lit(t) => {}
            FsItem::Escape => { lemma_fs_specs_cons(None, fs_item_groups(tail)); }
            FsItem::Conv { flag, width, prec, spec } => { lemma_fs_specs_cons(Some(spec), fs_item_groups(tail)); }
        }
    }
}

/// one step of the filter_map loop
pub proof fn lemma_fs_specs_step(g: Seq<Option<Seq<char>>>, i: int)
    requires 0 <= i < g.len(),
    ensures
        fs_specs(g.take(i + 1)) == (match g[i] { Some(x) => fs_specs(g.take(i)).push(x), None => fs_specs(g.take(i)) }),
{
    assert(g.take(i + 1).drop_last() =~= g.take(i));
    assert(g.take(i + 1).last() == g[i]);
}

/// the property level follows from the model level: for every item sequence that renders to s, the specs the regex
/// model extracts from s are the specs of the conversions
pub proof fn lemma_fs_specs_of_render(items: Seq<FsItem>)
    requires fs_items_wf(items),
    ensures fs_specs(fs_groups(fs_render(items))) == fs_item_specs(items),
{
    lemma_fs_groups_of_render(items);
    lemma_fs_specs_of_item_groups(items);
}

/// the code's table (fs_from + char promotion) against the property's table (fs_doc_entry): they agree wherever the property
/// documents a type, and the code's type is long / long long / long double exactly where the property wants rejection
pub proof fn lemma_fs_code_vs_doc(t: Seq<char>, p: DatatypeProperties)
    ensures
        fs_is_long(fs_from(t)) <==> fs_doc_type(t) is None,
        fs_doc_type(t) is Some ==> fs_code_entry(t, p) == fs_doc_entry(t, p),
{
}

// ---- the 45 string literals of Datatype::from, characterwise (generated text, PROVED from reveal_strlit + str extensionality)

pub proof fn lemma_fs_strlit_table_1()
    ensures
        forall |x: &str| #![trigger x@] (x@.len() == 1 && x@[0] == 'c') <==> x == "c",
        forall |x: &str| #![trigger x@] (x@.len() == 1 && x@[0] == 'C') <==> x == "C",
        forall |x: &str| #![trigger x@] (x@.len() == 1 && x@[0] == 'd') <==> x == "d",
        forall |x: &str| #![trigger x@] (x@.len() == 1 && x@[0] == 'i') <==> x == "i",
        forall |x: &str| #![trigger x@] (x@.len() == 1 && x@[0] == 'u') <==> x == "u",
        forall |x: &str| #![trigger x@] (x@.len() == 1 && x@[0] == 'o') <==> x == "o",
        forall |x: &str| #![trigger x@] (x@.len() == 1 && x@[0] == 'p') <==> x == "p",
        forall |x: &str| #![trigger x@] (x@.len() == 1 && x@[0] == 'x') <==> x == "x",
        forall |x: &str| #![trigger x@] (x@.len() == 1 && x@[0] == 'X') <==> x == "X",
{
    assert forall |x: &str| #![trigger x@] (x@.len() == 1 && x@[0] == 'c') <==> x == "c" by {
        reveal_strlit("c"); axiom_fs_str_ext(x, "c");
    }
    assert forall |x: &str| #![trigger x@] (x@.len() == 1 && x@[0] == 'C') <==> x == "C" by {
        reveal_strlit("C"); axiom_fs_str_ext(x, "C");
    }
    assert forall |x: &str| #![trigger x@] (x@.len() == 1 && x@[0] == 'd') <==> x == "d" by {
        reveal_strlit("d"); axiom_fs_str_ext(x, "d");
    }
    assert forall |x: &str| #![trigger x@] (x@.len() == 1 && x@[0] == 'i') <==> x == "i" by {
        reveal_strlit("i"); axiom_fs_str_ext(x, "i");
    }
    assert forall |x: &str| #![trigger x@] (x@.len() == 1 && x@[0] == 'u') <==> x == "u" by {
        reveal_strlit("u"); axiom_fs_str_ext(x, "u");
    }
    assert forall |x: &str| #![trigger x@] (x@.len() == 1 && x@[0] == 'o') <==> x == "o" by {
        reveal_strlit("o"); axiom_fs_str_ext(x, "o");
    }
    assert forall |x: &str| #![trigger x@] (x@.len() == 1 && x@[0] == 'p') <==> x == "p" by {
        reveal_strlit("p"); axiom_fs_str_ext(x, "p");
    }
    assert forall |x: &str| #![trigger x@] (x@.len() == 1 && x@[0] == 'x') <==> x == "x" by {
        reveal_strlit("x"); axiom_fs_str_ext(x, "x");
    }
    assert forall |x: &str| #![trigger x@] (x@.len() == 1 && x@[0] == 'X') <==> x == "X" by {
        reveal_strlit("X"); axiom_fs_str_ext(x, "X");
    }
}

pub proof fn lemma_fs_strlit_table_2()
    ensures
        forall |x: &str| #![trigger x@] (x@.len() == 2 && x@[0] == 'h' && x@[1] == 'i') <==> x == "hi",
        forall |x: &str| #![trigger x@] (x@.len() == 2 && x@[0] == 'h' && x@[1] == 'd') <==> x == "hd",
        forall |x: &str| #![trigger x@] (x@.len() == 2 && x@[0] == 'h' && x@[1] == 'u') <==> x == "hu",
        forall |x: &str| #![trigger x@] (x@.len() == 1 && x@[0] == 's') <==> x == "s",
        forall |x: &str| #![trigger x@] (x@.len() == 1 && x@[0] == 'S') <==> x == "S",
        forall |x: &str| #![trigger x@] (x@.len() == 1 && x@[0] == 'n') <==> x == "n",
        forall |x: &str| #![trigger x@] (x@.len() == 2 && x@[0] == 'l' && x@[1] == 'f') <==> x == "lf",
        forall |x: &str| #![trigger x@] (x@.len() == 2 && x@[0] == 'l' && x@[1] == 'g') <==> x == "lg",
        forall |x: &str| #![trigger x@] (x@.len() == 2 && x@[0] == 'l' && x@[1] == 'e') <==> x == "le",
{
    assert forall |x: &str| #![trigger x@] (x@.len() == 2 && x@[0] == 'h' && x@[1] == 'i') <==> x == "hi" by {
        reveal_strlit("hi"); axiom_fs_str_ext(x, "hi");
    }
    assert forall |x: &str| #![trigger x@] (x@.len() == 2 && x@[0] == 'h' && x@[1] == 'd') <==> x == "hd" by {
        reveal_strlit("hd"); axiom_fs_str_ext(x, "hd");
    }
    assert forall |x: &str| #![trigger x@] (x@.len() == 2 && x@[0] == 'h' && x@[1] == 'u') <==> x == "hu" by {
        reveal_strlit("hu"); axiom_fs_str_ext(x, "hu");
    }
    assert forall |x: &str| #![trigger x@] (x@.len() == 1 && x@[0] == 's') <==> x == "s" by {
        reveal_strlit("s"); axiom_fs_str_ext(x, "s");
    }
    assert forall |x: &str| #![trigger x@] (x@.len() == 1 && x@[0] == 'S') <==> x == "S" by {
        reveal_strlit("S"); axiom_fs_str_ext(x, "S");
    }
    assert forall |x: &str| #![trigger x@] (x@.len() == 1 && x@[0] == 'n') <==> x == "n" by {
        reveal_strlit("n"); axiom_fs_str_ext(x, "n");
    }
    assert forall |x: &str| #![trigger x@] (x@.len() == 2 && x@[0] == 'l' && x@[1] == 'f') <==> x == "lf" by {
        reveal_strlit("lf"); axiom_fs_str_ext(x, "lf");
    }
    assert forall |x: &str| #![trigger x@] (x@.len() == 2 && x@[0] == 'l' && x@[1] == 'g') <==> x == "lg" by {
        reveal_strlit("lg"); axiom_fs_str_ext(x, "lg");
    }
    assert forall |x: &str| #![trigger x@] (x@.len() == 2 && x@[0] == 'l' && x@[1] == 'e') <==> x == "le" by {
        reveal_strlit("le"); axiom_fs_str_ext(x, "le");
    }
}

pub proof fn lemma_fs_strlit_table_3()
    ensures
        forall |x: &str| #![trigger x@] (x@.len() == 2 && x@[0] == 'l' && x@[1] == 'a') <==> x == "la",
        forall |x: &str| #![trigger x@] (x@.len() == 2 && x@[0] == 'l' && x@[1] == 'F') <==> x == "lF",
        forall |x: &str| #![trigger x@] (x@.len() == 2 && x@[0] == 'l' && x@[1] == 'G') <==> x == "lG",
        forall |x: &str| #![trigger x@] (x@.len() == 2 && x@[0] == 'l' && x@[1] == 'E') <==> x == "lE",
        forall |x: &str| #![trigger x@] (x@.len() == 2 && x@[0] == 'l' && x@[1] == 'A') <==> x == "lA",
        forall |x: &str| #![trigger x@] (x@.len() == 1 && x@[0] == 'f') <==> x == "f",
        forall |x: &str| #![trigger x@] (x@.len() == 1 && x@[0] == 'F') <==> x == "F",
        forall |x: &str| #![trigger x@] (x@.len() == 1 && x@[0] == 'e') <==> x == "e",
        forall |x: &str| #![trigger x@] (x@.len() == 1 && x@[0] == 'E') <==> x == "E",
{
    assert forall |x: &str| #![trigger x@] (x@.len() == 2 && x@[0] == 'l' && x@[1] == 'a') <==> x == "la" by {
        reveal_strlit("la"); axiom_fs_str_ext(x, "la");
    }
    assert forall |x: &str| #![trigger x@] (x@.len() == 2 && x@[0] == 'l' && x@[1] == 'F') <==> x == "lF" by {
        reveal_strlit("lF"); axiom_fs_str_ext(x, "lF");
    }
    assert forall |x: &str| #![trigger x@] (x@.len() == 2 && x@[0] == 'l' && x@[1] == 'G') <==> x == "lG" by {
        reveal_strlit("lG"); axiom_fs_str_ext(x, "lG");
    }
    assert forall |x: &str| #![trigger x@] (x@.len() == 2 && x@[0] == 'l' && x@[1] == 'E') <==> x == "lE" by {
        reveal_strlit("lE"); axiom_fs_str_ext(x, "lE");
    }
    assert forall |x: &str| #![trigger x@] (x@.len() == 2 && x@[0] == 'l' && x@[1] == 'A') <==> x == "lA" by {
        reveal_strlit("lA"); axiom_fs_str_ext(x, "lA");
    }
    assert forall |x: &str| #![trigger x@] (x@.len() == 1 && x@[0] == 'f') <==> x == "f" by {
        reveal_strlit("f"); axiom_fs_str_ext(x, "f");
    }
    assert forall |x: &str| #![trigger x@] (x@.len() == 1 && x@[0] == 'F') <==> x == "F" by {
        reveal_strlit("F"); axiom_fs_str_ext(x, "F");
    }
    assert forall |x: &str| #![trigger x@] (x@.len() == 1 && x@[0] == 'e') <==> x == "e" by {
        reveal_strlit("e"); axiom_fs_str_ext(x, "e");
    }
    assert forall |x: &str| #![trigger x@] (x@.len() == 1 && x@[0] == 'E') <==> x == "E" by {
        reveal_strlit("E"); axiom_fs_str_ext(x, "E");
    }
}

pub proof fn lemma_fs_strlit_table_4()
    ensures
        forall |x: &str| #![trigger x@] (x@.len() == 1 && x@[0] == 'a') <==> x == "a",
        forall |x: &str| #![trigger x@] (x@.len() == 1 && x@[0] == 'A') <==> x == "A",
        forall |x: &str| #![trigger x@] (x@.len() == 1 && x@[0] == 'g') <==> x == "g",
        forall |x: &str| #![trigger x@] (x@.len() == 1 && x@[0] == 'G') <==> x == "G",
        forall |x: &str| #![trigger x@] (x@.len() == 2 && x@[0] == 'l' && x@[1] == 'i') <==> x == "li",
        forall |x: &str| #![trigger x@] (x@.len() == 2 && x@[0] == 'l' && x@[1] == 'd') <==> x == "ld",
        forall |x: &str| #![trigger x@] (x@.len() == 2 && x@[0] == 'l' && x@[1] == 'u') <==> x == "lu",
        forall |x: &str| #![trigger x@] (x@.len() == 3 && x@[0] == 'l' && x@[1] == 'l' && x@[2] == 'i') <==> x == "lli",
        forall |x: &str| #![trigger x@] (x@.len() == 3 && x@[0] == 'l' && x@[1] == 'l' && x@[2] == 'd') <==> x == "lld",
{
    assert forall |x: &str| #![trigger x@] (x@.len() == 1 && x@[0] == 'a') <==> x == "a" by {
        reveal_strlit("a"); axiom_fs_str_ext(x, "a");
    }
    assert forall |x: &str| #![trigger x@] (x@.len() == 1 && x@[0] == 'A') <==> x == "A" by {
        reveal_strlit("A"); axiom_fs_str_ext(x, "A");
    }
    assert forall |x: &str| #![trigger x@] (x@.len() == 1 && x@[0] == 'g') <==> x == "g" by {
        reveal_strlit("g"); axiom_fs_str_ext(x, "g");
    }
    assert forall |x: &str| #![trigger x@] (x@.len() == 1 && x@[0] == 'G') <==> x == "G" by {
        reveal_strlit("G"); axiom_fs_str_ext(x, "G");
    }
    assert forall |x: &str| #![trigger x@] (x@.len() == 2 && x@[0] == 'l' && x@[1] == 'i') <==> x == "li" by {
        reveal_strlit("li"); axiom_fs_str_ext(x, "li");
    }
    assert forall |x: &str| #![trigger x@] (x@.len() == 2 && x@[0] == 'l' && x@[1] == 'd') <==> x == "ld" by {
        reveal_strlit("ld"); axiom_fs_str_ext(x, "ld");
    }
    assert forall |x: &str| #![trigger x@] (x@.len() == 2 && x@[0] == 'l' && x@[1] == 'u') <==> x == "lu" by {
        reveal_strlit("lu"); axiom_fs_str_ext(x, "lu");
    }
    assert forall |x: &str| #![trigger x@] (x@.len() == 3 && x@[0] == 'l' && x@[1] == 'l' && x@[2] == 'i') <==> x == "lli" by {
        reveal_strlit("lli"); axiom_fs_str_ext(x, "lli");
    }
    assert forall |x: &str| #![trigger x@] (x@.len() == 3 && x@[0] == 'l' && x@[1] == 'l' && x@[2] == 'd') <==> x == "lld" by {
        reveal_strlit("lld"); axiom_fs_str_ext(x, "lld");
    }
}

pub proof fn lemma_fs_strlit_table_5()
    ensures
        forall |x: &str| #![trigger x@] (x@.len() == 3 && x@[0] == 'l' && x@[1] == 'l' && x@[2] == 'u') <==> x == "llu",
        forall |x: &str| #![trigger x@] (x@.len() == 2 && x@[0] == 'L' && x@[1] == 'f') <==> x == "Lf",
        forall |x: &str| #![trigger x@] (x@.len() == 2 && x@[0] == 'L' && x@[1] == 'g') <==> x == "Lg",
        forall |x: &str| #![trigger x@] (x@.len() == 2 && x@[0] == 'L' && x@[1] == 'e') <==> x == "Le",
        forall |x: &str| #![trigger x@] (x@.len() == 2 && x@[0] == 'L' && x@[1] == 'a') <==> x == "La",
        forall |x: &str| #![trigger x@] (x@.len() == 2 && x@[0] == 'L' && x@[1] == 'F') <==> x == "LF",
        forall |x: &str| #![trigger x@] (x@.len() == 2 && x@[0] == 'L' && x@[1] == 'G') <==> x == "LG",
        forall |x: &str| #![trigger x@] (x@.len() == 2 && x@[0] == 'L' && x@[1] == 'E') <==> x == "LE",
        forall |x: &str| #![trigger x@] (x@.len() == 2 && x@[0] == 'L' && x@[1] == 'A') <==> x == "LA",
{
    assert forall |x: &str| #![trigger x@] (x@.len() == 3 && x@[0] == 'l' && x@[1] == 'l' && x@[2] == 'u') <==> x == "llu" by {
        reveal_strlit("llu"); axiom_fs_str_ext(x, "llu");
    }
    assert forall |x: &str| #![trigger x@] (x@.len() == 2 && x@[0] == 'L' && x@[1] == 'f') <==> x == "Lf" by {
        reveal_strlit("Lf"); axiom_fs_str_ext(x, "Lf");
    }
    assert forall |x: &str| #![trigger x@] (x@.len() == 2 && x@[0] == 'L' && x@[1] == 'g') <==> x == "Lg" by {
        reveal_strlit("Lg"); axiom_fs_str_ext(x, "Lg");
    }
    assert forall |x: &str| #![trigger x@] (x@.len() == 2 && x@[0] == 'L' && x@[1] == 'e') <==> x == "Le" by {
        reveal_strlit("Le"); axiom_fs_str_ext(x, "Le");
    }
    assert forall |x: &str| #![trigger x@] (x@.len() == 2 && x@[0] == 'L' && x@[1] == 'a') <==> x == "La" by {
        reveal_strlit("La"); axiom_fs_str_ext(x, "La");
    }
    assert forall |x: &str| #![trigger x@] (x@.len() == 2 && x@[0] == 'L' && x@[1] == 'F') <==> x == "LF" by {
        reveal_strlit("LF"); axiom_fs_str_ext(x, "LF");
    }
    assert forall |x: &str| #![trigger x@] (x@.len() == 2 && x@[0] == 'L' && x@[1] == 'G') <==> x == "LG" by {
        reveal_strlit("LG"); axiom_fs_str_ext(x, "LG");
    }
    assert forall |x: &str| #![trigger x@] (x@.len() == 2 && x@[0] == 'L' && x@[1] == 'E') <==> x == "LE" by {
        reveal_strlit("LE"); axiom_fs_str_ext(x, "LE");
    }
    assert forall |x: &str| #![trigger x@] (x@.len() == 2 && x@[0] == 'L' && x@[1] == 'A') <==> x == "LA" by {
        reveal_strlit("LA"); axiom_fs_str_ext(x, "LA");
    }
}
