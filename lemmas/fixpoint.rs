// ---------------------------------------------------------------------------
// lemmas/fixpoint.rs -- proof-only lemmas of unit `fixpoint` (all proved by Verus, none trusted).
// Part 1: order facts of a join (assoc / comm / idem merge).  Part 2: how the absorbed-edge
// predicate `edge_ok` moves when one node value grows.
// ---------------------------------------------------------------------------

pub proof fn lemma_merge_comm<T: Context>(c: T, a: T::NodeValue, b: T::NodeValue)
    requires merge_laws(c),
    ensures c.merge_spec(a, b) == c.merge_spec(b, a),
{ reveal(merge_laws); }

pub proof fn lemma_merge_idem<T: Context>(c: T, a: T::NodeValue)
    requires merge_laws(c),
    ensures c.merge_spec(a, a) == a, leq(c, a, a),
{ reveal(merge_laws); }

pub proof fn lemma_merge_assoc<T: Context>(c: T, a: T::NodeValue, b: T::NodeValue, d: T::NodeValue)
    requires merge_laws(c),
    ensures c.merge_spec(c.merge_spec(a, b), d) == c.merge_spec(a, c.merge_spec(b, d)),
{ reveal(merge_laws); }

/// both arguments are below their merge
pub proof fn lemma_leq_merge<T: Context>(c: T, v: T::NodeValue, t: T::NodeValue)
    requires merge_laws(c),
    ensures leq(c, v, c.merge_spec(v, t)), leq(c, t, c.merge_spec(v, t)),
{
    lemma_merge_assoc(c, v, v, t);
    lemma_merge_idem(c, v);
    lemma_merge_assoc(c, t, v, t);
    lemma_merge_comm(c, t, v);
    lemma_merge_assoc(c, v, t, t);
    lemma_merge_idem(c, t);
}

pub proof fn lemma_leq_trans<T: Context>(c: T, a: T::NodeValue, b: T::NodeValue, d: T::NodeValue)
    requires merge_laws(c), leq(c, a, b), leq(c, b, d),
    ensures leq(c, a, d),
{
    lemma_merge_assoc(c, a, b, d);
}

/// Effect of replacing the value of `node` by a value above the old one (or giving it a first
/// value): every absorbed edge that does not leave `node` stays absorbed.
pub proof fn lemma_set_keeps_edges<T: Context>(o: Computation<T>, n: Computation<T>, node: NodeIndex, value: T::NodeValue)
    requires
        merge_laws(o.fp_context),
        n.same_frame(o),
        n.node_values@ == o.node_values@.insert(node, value),
        o.has(node) ==> leq(o.fp_context, o.val(node), value),
    ensures
        o.keeps_edges_except(n, node),
{
    let c = o.fp_context;
    assert forall |e: int| o.valid_edge(e) && #[trigger] o.edge_ok(e)
        && (o.src(e) != node || n.node_values@ == o.node_values@) implies n.edge_ok(e) by {
        let s = o.src(e);
        let t = o.tgt(e);
        if n.node_values@ == o.node_values@ {
        } else if o.has(s) {
            assert(n.has(s) && n.val(s) == o.val(s));
            match c.update_edge_spec(o.val(s), EdgeIndex { i: e as usize }) {
                Some(x) => {
                    if t == node {
                        lemma_leq_trans(c, x, o.val(t), value);
                    } else {
                        assert(n.has(t) && n.val(t) == o.val(t));
                    }
                }
                None => {}
            }
        } else {
            assert(!n.has(s));
        }
    }
}

/// node-wise and edge-wise reading of "closed off the set s" agree
pub proof fn lemma_closed_off_edges<T: Context>(c: Computation<T>, s: Set<usize>)
    ensures c.closed_off(s) <==> c.closed_off_e(s),
{
    if c.closed_off(s) {
        assert forall |e: int| c.valid_edge(e) && !s.contains(c.prio(c.src(e))) implies #[trigger] c.edge_ok(e) by {
            if c.has(c.src(e)) {
                assert(c.closed_at(c.src(e)));
            }
        }
    }
    if c.closed_off_e(s) {
        assert forall |node: NodeIndex| c.has(node) && !s.contains(c.prio(node)) implies #[trigger] c.closed_at(node) by {
            assert forall |e: int| c.valid_edge(e) && c.src(e) == node implies #[trigger] c.edge_ok(e) by {}
        }
    }
}

/// closed off the empty set == the unfolded closure statement of the property
pub proof fn lemma_all_closed<T: Context>(c: Computation<T>)
    ensures c.closed_off(Set::<usize>::empty()) <==> c.all_closed(),
{
    lemma_closed_off_edges(c, Set::<usize>::empty());
    if c.closed_off_e(Set::<usize>::empty()) {
        assert forall |e: int| 0 <= e < c.graph().edge_seq().len() implies {
            let a = (#[trigger] c.graph().edge_seq()[e]).0;
            let b = c.graph().edge_seq()[e].1;
            c.node_values@.contains_key(a) ==>
                match c.fp_context.update_edge_spec(c.node_values@[a], EdgeIndex { i: e as usize }) {
                    Some(x) => c.node_values@.contains_key(b)
                        && c.fp_context.merge_spec(x, c.node_values@[b]) == c.node_values@[b],
                    None => true,
                }
        } by {
            assert(c.valid_edge(e) && c.edge_ok(e));
        }
    }
    if c.all_closed() {
        assert forall |e: int| c.valid_edge(e) implies #[trigger] c.edge_ok(e) by {
            let a = c.graph().edge_seq()[e].0;
        }
    }
}

/// when every valued node is on the worklist, nothing is claimed closed: closed_off(worklist) holds
pub proof fn lemma_all_on_worklist_closed_off<T: Context>(c: Computation<T>)
    requires c.all_on_worklist(),
    ensures c.closed_off(c.worklist@),
{
}

/// closed_off is monotone in the excluded set
pub proof fn lemma_closed_off_mono<T: Context>(c: Computation<T>, s: Set<usize>, s2: Set<usize>)
    requires c.closed_off(s), s.subset_of(s2),
    ensures c.closed_off(s2),
{
}

/// One growth step at `node` (worklist grows at most by prio(node), and does so if a value changed)
/// carries `closed_off_e(s ∪ worklist)` over, for any extra set `s` of excluded priorities.
pub proof fn lemma_step_closed_off<T: Context>(o: Computation<T>, n: Computation<T>, node: NodeIndex, s: Set<usize>)
    requires
        n.same_frame(o),
        o.keeps_edges_except(n, node),
        o.worklist@.subset_of(n.worklist@),
        n.node_values@ == o.node_values@ || n.worklist@.contains(o.prio(node)),
        o.closed_off_e(s + o.worklist@),
    ensures
        n.closed_off_e(s + n.worklist@),
{
    assert forall |e: int| n.valid_edge(e) && !(s + n.worklist@).contains(n.prio(n.src(e))) implies #[trigger] n.edge_ok(e) by {
        assert(!(s + o.worklist@).contains(o.prio(o.src(e))));
        assert(o.edge_ok(e));
    }
}
