// ---------------------------------------------------------------------------
// lemmas/fixpoint.rs -- proof-only lemmas of unit `fixpoint` (all proved by Verus, none trusted).
// Part 1: order facts of a join (assoc / comm / idem merge).  Part 2: how the absorbed-edge
// predicate `edge_ok` moves when one node value grows.
// ---------------------------------------------------------------------------

pub proof fn lemma_merge_comm<T: Context>(c: T, a: T::NodeValue, b: T::NodeValue)
    requires merge_laws(c),
    ensures c.merge_spec(a, b) == c.merge_spec(b, a),
{ reveal(merge_laws); }

pub proof fn lemma_merge_idem<T: Context>(c: T, a: T::NodeValue)
    requires merge_laws(c),
    ensures c.merge_spec(a, a) == a, leq(c, a, a),
{ reveal(merge_laws); }

pub proof fn lemma_merge_assoc<T: Context>(c: T, a: T::NodeValue, b: T::NodeValue, d: T::NodeValue)
    requires merge_laws(c),
    ensures c.merge_spec(c.merge_spec(a, b), d) == c.merge_spec(a, c.merge_spec(b, d)),
{ reveal(merge_laws); }

/// both arguments are below their merge
pub proof fn lemma_leq_merge<T: Context>(c: T, v: T::NodeValue, t: T::NodeValue)
    requires merge_laws(c),
    ensures leq(c, v, c.merge_spec(v, t)), leq(c, t, c.merge_spec(v, t)),
{
    lemma_merge_assoc(c, v, v, t);
    lemma_merge_idem(c, v);
    lemma_merge_assoc(c, t, v, t);
    lemma_merge_comm(c, t, v);
    lemma_merge_assoc(c, v, t, t);
    lemma_merge_idem(c, t);
}

pub proof fn lemma_leq_trans<T: Context>(c: T, a: T::NodeValue, b: T::NodeValue, d: T::NodeValue)
    requires merge_laws(c), leq(c, a, b), leq(c, b, d),
    ensures leq(c, a, d),
{
    lemma_merge_assoc(c, a, b, d);
}

/// Effect of replacing the value of `node` by a value above the old one (or giving it a first
/// value): every absorbed edge that does not leave `node` stays absorbed.
pub proof fn lemma_set_keeps_edges<T: Context>(o: Computation<T>, n: Computation<T>, node: NodeIndex, value: T::NodeValue)
    requires
        merge_laws(o.fp_context),
        n.same_frame(o),
        n.node_values@ == o.node_values@.insert(node, value),
        o.has(node) ==> leq(o.fp_context, o.val(node), value),
    ensures
        o.keeps_edges_except(n, node),
{
    let c = o.fp_context;
    assert forall |e: int| o.valid_edge(e) && #[trigger] o.edge_ok(e)
        && (o.src(e) != node || n.node_values@ == o.node_values@) implies n.edge_ok(e) by {
        let s = o.src(e);
        let t = o.tgt(e);
        if n.node_values@ == o.node_values@ {
        } else if o.has(s) {
            assert(n.has(s) && n.val(s) == o.val(s));
            match c.update_edge_spec(o.val(s), EdgeIndex { i: e as usize }) {
                Some(x) => {
                    if t == node {
                        lemma_leq_trans(c, x, o.val(t), value);
                    } else {
                        assert(n.has(t) && n.val(t) == o.val(t));
                    }
                }
                None => {}
            }
        } else {
            assert(!n.has(s));
        }
    }
}

/// node-wise and edge-wise reading of "closed off the set s" agree
pub proof fn lemma_closed_off_edges<T: Context>(c: Computation<T>, s: Set<usize>)
    ensures c.closed_off(s) <==> c.closed_off_e(s),
{
    if c.closed_off(s) {
        assert forall |e: int| c.valid_edge(e) && !s.contains(c.prio(c.src(e))) implies #[trigger] c.edge_ok(e) by {
            if c.has(c.src(e)) {
                assert(c.closed_at(c.src(e)));
            }
        }
    }
    if c.closed_off_e(s) {
        assert forall |node: NodeIndex| c.has(node) && !s.contains(c.prio(node)) implies #[trigger] c.closed_at(node) by {
            assert forall |e: int| c.valid_edge(e) && c.src(e) == node implies #[trigger] c.edge_ok(e) by {}
        }
    }
}

/// closed off the empty set == the unfolded closure statement of the property
pub proof fn lemma_all_closed<T: Context>(c: Computation<T>)
    ensures c.closed_off(Set::<usize>::empty()) <==> c.all_closed(),
{
    lemma_closed_off_edges(c, Set::<usize>::empty());
    if c.closed_off_e(Set::<usize>::empty()) {
        assert forall |e: int| 0 <= e < c.graph().edge_seq().len() implies {
            let a = (#[trigger] c.graph().edge_seq()[e]).0;
            let b = c.graph().edge_seq()[e].1;
            c.node_values@.contains_key(a) ==>
                match c.fp_context.update_edge_spec(c.node_values@[a], EdgeIndex { i: e as usize }) {
                    Some(x) => c.node_values@.contains_key(b)
                        && c.fp_context.merge_spec(x, c.node_values@[b]) == c.node_values@[b],
                    None => true,
                }
        } by {
            assert(c.valid_edge(e) && c.edge_ok(e));
        }
    }
    if c.all_closed() {
        assert forall |e: int| c.valid_edge(e) implies #[trigger] c.edge_ok(e) by {
            let a = c.graph().edge_seq()[e].0;
        }
    }
}

/// when every valued node is on the worklist, nothing is claimed closed: closed_off(worklist) holds
pub proof fn lemma_all_on_worklist_closed_off<T: Context>(c: Computation<T>)
    requires c.all_on_worklist(),
    ensures c.closed_off(c.worklist@),
{
}

/// closed_off is monotone in the excluded set
pub proof fn lemma_closed_off_mono<T: Context>(c: Computation<T>, s: Set<usize>, s2: Set<usize>)
    requires c.closed_off(s), s.subset_of(s2),
    ensures c.closed_off(s2),
{
}

/// One growth step at `node` (worklist grows at most by prio(node), and does so if a value changed)
/// carries `closed_off_e(s ∪ worklist)` over, for any extra set `s` of excluded priorities.
pub proof fn lemma_step_closed_off<T: Context>(o: Computation<T>, n: Computation<T>, node: NodeIndex, s: Set<usize>)
    requires
        n.same_frame(o),
        o.keeps_edges_except(n, node),
        o.worklist@.subset_of(n.worklist@),
        n.node_values@ == o.node_values@ || n.worklist@.contains(o.prio(node)),
        o.closed_off_e(s + o.worklist@),
    ensures
        n.closed_off_e(s + n.worklist@),
{
    assert forall |e: int| n.valid_edge(e) && !(s + n.worklist@).contains(n.prio(n.src(e))) implies #[trigger] n.edge_ok(e) by {
        assert(!(s + o.worklist@).contains(o.prio(o.src(e))));
        assert(o.edge_ok(e));
    }
}

pub proof fn lemma_below_refl<T: Context>(a: Computation<T>)
    requires merge_laws(a.fp_context),
    ensures a.below(a),
{
    assert forall |k: NodeIndex| #[trigger] a.has(k) implies leq(a.fp_context, a.val(k), a.val(k)) by {
        lemma_merge_idem(a.fp_context, a.val(k));
    }
}

pub proof fn lemma_below_trans<T: Context>(a: Computation<T>, b: Computation<T>, d: Computation<T>)
    requires merge_laws(a.fp_context), b.fp_context == a.fp_context, a.below(b), b.below(d),
    ensures a.below(d),
{
    assert forall |k: NodeIndex| #[trigger] a.has(k) implies d.has(k) && leq(a.fp_context, a.val(k), d.val(k)) by {
        assert(b.has(k));
        lemma_leq_trans(a.fp_context, a.val(k), b.val(k), d.val(k));
    }
}

/// two nodes with the same priority are the same node
pub proof fn lemma_prio_injective<T: Context>(c: Computation<T>, a: NodeIndex, b: NodeIndex)
    requires c.wf(), a.i < c.nn(), b.i < c.nn(), c.prio(a) == c.prio(b),
    ensures a == b,
{
    assert(c.priority_to_node_list@[c.node_priority_list@[a.i as int] as int].i == a.i);
    assert(c.priority_to_node_list@[c.node_priority_list@[b.i as int] as int].i == b.i);
}

/// `update_node(node)`: from its two edge-wise postconditions to the closed_off statement.
pub proof fn lemma_updnode_closed_off<T: Context>(o: Computation<T>, n: Computation<T>, node: NodeIndex, s: Set<usize>)
    requires
        o.wf(), node.i < o.nn(),
        n.same_frame(o),
        o.worklist@.subset_of(n.worklist@),
        (n.has(node) && !n.worklist@.contains(o.prio(node))) ==> n.closed_at(node),
        forall |e: int| o.valid_edge(e) && #[trigger] o.edge_ok(e) && o.src(e) != node
            && !n.worklist@.contains(o.prio(o.src(e))) ==> n.edge_ok(e),
        o.closed_off((s + o.worklist@).insert(o.prio(node))),
    ensures
        n.closed_off(s + n.worklist@),
{
    lemma_closed_off_edges(o, (s + o.worklist@).insert(o.prio(node)));
    assert forall |e: int| n.valid_edge(e) && !(s + n.worklist@).contains(n.prio(n.src(e))) implies #[trigger] n.edge_ok(e) by {
        if n.src(e) == node {
            if n.has(node) {
                assert(n.closed_at(node));
            }
        } else {
            if o.has(o.src(e)) {
                if o.prio(o.src(e)) == o.prio(node) {
                    lemma_prio_injective(o, o.src(e), node);
                }
                assert(!(s + o.worklist@).insert(o.prio(node)).contains(o.prio(o.src(e))));
                assert(o.edge_ok(e));
            } else {
                assert(o.edge_ok(e));
            }
        }
    }
    lemma_closed_off_edges(n, s + n.worklist@);
}

/// ascending keys: keys[j].i >= j
pub proof fn lemma_ascending_lower_bound(keys: Seq<NodeIndex>, j: int)
    requires
        forall |a: int, b: int| 0 <= a < b < keys.len() ==> (#[trigger] keys[a]).i < (#[trigger] keys[b]).i,
        0 <= j < keys.len(),
    ensures keys[j].i >= j,
    decreases j,
{
    if j > 0 {
        lemma_ascending_lower_bound(keys, j - 1);
        assert(keys[j - 1].i < keys[j].i);
    }
}

/// ascending keys that take every value 0..n: keys[k].i == k for k < n (in particular n <= len)
pub proof fn lemma_ascending_cover(keys: Seq<NodeIndex>, n: nat, k: int)
    requires
        forall |a: int, b: int| 0 <= a < b < keys.len() ==> (#[trigger] keys[a]).i < (#[trigger] keys[b]).i,
        forall |v: int| 0 <= v < n ==> #[trigger] takes_value(keys, v),
        0 <= k < n,
    ensures k < keys.len(), keys[k].i == k,
    decreases k,
{
    assert(takes_value(keys, k));
    let j1 = choose |j: int| 0 <= j < keys.len() && (#[trigger] keys[j]).i == k;
    lemma_ascending_lower_bound(keys, j1);
    if j1 < k {
        lemma_ascending_cover(keys, n, j1);
    }
}

/// For a permutation `nodes` of 0..n, the list computed by `from_node_priority_list` is its inverse.
pub proof fn lemma_inverse_perm(nodes: Seq<NodeIndex>, keys: Seq<NodeIndex>, r: Seq<usize>, n: nat)
    requires is_node_permutation(nodes, n), positions_in_key_order(nodes, keys, r),
    ensures
        r.len() == n,
        forall |k: int| 0 <= k < n ==> (#[trigger] r[k]) < n && nodes[r[k] as int].i == k,
        forall |i: int| 0 <= i < n ==> r[(#[trigger] nodes[i]).i as int] == i,
{
    // every value below n is taken by a key
    assert forall |v: int| 0 <= v < n implies #[trigger] takes_value(keys, v) by {
        assert(takes_value(nodes, v));
        let i = choose |i: int| 0 <= i < nodes.len() && (#[trigger] nodes[i]).i == v;
        let j = choose |j: int| 0 <= j < keys.len() && #[trigger] keys[j] == #[trigger] nodes[i];
        assert(keys[j].i == v);
    }
    assert forall |k: int| 0 <= k < n implies k < keys.len() && (#[trigger] keys[k]).i == k by {
        lemma_ascending_cover(keys, n, k);
    }
    // no more than n keys: each key is an entry of `nodes`, hence < n, and keys[j].i >= j
    if keys.len() > n {
        let j = keys.len() - 1;
        lemma_ascending_lower_bound(keys, j);
        assert(nodes[r[j] as int] == keys[j]);
        assert(nodes[r[j] as int].i < n);
    }
    if n > 0 { assert(keys[n - 1].i == n - 1); }
    assert(keys.len() == n);
    assert forall |k: int| 0 <= k < n implies (#[trigger] r[k]) < n && nodes[r[k] as int].i == k by {
        assert(keys[k].i == k);
    }
    assert forall |i: int| 0 <= i < n implies r[(#[trigger] nodes[i]).i as int] == i by {
        let k = nodes[i].i as int;
        assert(keys[k].i == k);
        let i2 = r[k] as int;
        assert(nodes[i2] == keys[k]);
        if i2 != i {
            if i2 < i { assert(nodes[i2].i != nodes[i].i); } else { assert(nodes[i].i != nodes[i2].i); }
        }
    }
}

pub proof fn lemma_steps_left_nonneg(steps: Seq<u64>, max: u64)
    requires forall |i: int| 0 <= i < steps.len() ==> (#[trigger] steps[i]) <= max,
    ensures steps_left(steps, max) >= 0,
    decreases steps.len(),
{
    if steps.len() > 0 {
        assert forall |i: int| 0 <= i < steps.drop_last().len() implies (#[trigger] steps.drop_last()[i]) <= max by {
            assert(steps.drop_last()[i] == steps[i]);
        }
        lemma_steps_left_nonneg(steps.drop_last(), max);
        assert(steps.last() == steps[steps.len() - 1]);
    }
}

/// counting one more step for node i uses up one unit of the budget
pub proof fn lemma_steps_left_update(steps: Seq<u64>, max: u64, i: int)
    requires 0 <= i < steps.len(), steps[i] < u64::MAX,
    ensures steps_left(steps.update(i, (steps[i] + 1) as u64), max) == steps_left(steps, max) - 1,
    decreases steps.len(),
{
    let v = (steps[i] + 1) as u64;
    let upd = steps.update(i, v);
    if i == steps.len() - 1 {
        assert(upd.drop_last() =~= steps.drop_last());
    } else {
        assert(upd.drop_last() =~= steps.drop_last().update(i, v));
        assert(steps.drop_last()[i] == steps[i]);
        lemma_steps_left_update(steps.drop_last(), max, i);
    }
}
