// ---------------------------------------------------------------------------
// lemmas/callgraph_build.rs -- proof-only lemmas of unit `callgraph_build` (all proved by Verus, none trusted).
// Part 1: the first loop (nodes) -- the HashMap is the inverse of the node labelling.
// Part 2: the second loop nest (edges) -- one step (edge added / jump skipped), end of a block, end of a function.
// Part 2b: the same, quantified over graph / map / ghost sequence (callable at the head of a loop body).
// Part 3: composition with the query of unit callgraph: call-graph paths <-> chains of calls of the program.
// ---------------------------------------------------------------------------

// ---- Part 1 ---------------------------------------------------------------------------------------------

/// a well-formed program (every function stored under its own tid) satisfies the precondition of get_program_callgraph
pub proof fn lemma_cgb_wf_pre(subs: Map<Tid, Term<Sub>>)
    requires cgb_wf(subs),
    ensures cgb_pre(subs),
{
}

/// an iteration position determines its key (the keys of an iteration are pairwise different)
pub proof fn lemma_cgb_iter_inj(s: Seq<(&Tid, &Term<Sub>)>, m: Map<Tid, Term<Sub>>, i: int, j: int)
    requires cgb_iter_of(s, m), 0 <= i < s.len(), 0 <= j < s.len(), *s[i].0 == *s[j].0,
    ensures i == j,
{
    assert(m[*s[i].0] == *s[i].1);
    assert(m[*s[j].0] == *s[j].1);
    assert(s[i] == s[j]);
}

/// after the first loop: all keys have their node
pub proof fn lemma_cgb_nodes_done<E>(g: DiGraph<Tid, E>, tmap: Map<Tid, NodeIndex>, s: Seq<(&Tid, &Term<Sub>)>, n: int, subs: Map<Tid, Term<Sub>>)
    requires cgb_iter_of(s, subs), cgb_nodes_partial(g, tmap, s, n),
    ensures n == s.len() ==> cgb_node_map_ok(g, tmap, subs),
{
    if n != s.len() { return; }
    assert forall |k: Tid| #[trigger] tmap.contains_key(k) <==> subs.contains_key(k) by {
        if tmap.contains_key(k) {
            let j = choose |j: int| 0 <= j < s.len() && *(#[trigger] s[j]).0 == k;
            assert(subs.contains_key(*s[j].0));
        }
        if subs.contains_key(k) {
            let j = choose |j: int| 0 <= j < s.len() && *(#[trigger] s[j]).0 == k;
            assert(tmap.contains_key(*s[j].0));
        }
    }
    assert forall |k: Tid| #[trigger] tmap.contains_key(k) implies tmap[k].i < g.node_count_spec() && g.node_weight(tmap[k].i as int) == k by {
        let j = choose |j: int| 0 <= j < s.len() && *(#[trigger] s[j]).0 == k;
        assert(tmap[*s[j].0].i == j);
        assert(g.node_weight(j) == *s[j].0);
    }
    assert forall |n: int| 0 <= n < g.node_count_spec() implies tmap.contains_key(#[trigger] g.node_weight(n)) && tmap[g.node_weight(n)].i == n by {
        assert(g.node_weight(n) == *s[n].0);
        assert(tmap.contains_key(*s[n].0) && tmap[*s[n].0].i == n);
    }
}

/// the HashMap as inverse of the labelling gives the property's wording of the node set
pub proof fn lemma_cgb_nodes_ok<E>(g: DiGraph<Tid, E>, tmap: Map<Tid, NodeIndex>, subs: Map<Tid, Term<Sub>>)
    requires cgb_node_map_ok(g, tmap, subs),
    ensures cgb_nodes_ok(g, subs),
{
    assert forall |n1: int, n2: int| 0 <= n1 < n2 < g.node_count_spec() implies #[trigger] g.node_weight(n1) != #[trigger] g.node_weight(n2) by {
        assert(tmap[g.node_weight(n1)].i == n1);
        assert(tmap[g.node_weight(n2)].i == n2);
    }
    assert forall |k: Tid| #[trigger] subs.contains_key(k) implies exists |n: int| 0 <= n < g.node_count_spec() && #[trigger] g.node_weight(n) == k by {
        assert(tmap.contains_key(k));
        assert(g.node_weight(tmap[k].i as int) == k);
    }
}

// ---- Part 2 ---------------------------------------------------------------------------------------------

/// the position the innermost loop stands at
pub open spec fn cgb_here(s: Seq<(&Tid, &Term<Sub>)>, si: int, bi: int, ji: int) -> CgbOcc {
    CgbOcc { key: *s[si].0, blk: bi, jmp: ji }
}

/// passing one jump: exactly the position `here` becomes done
pub proof fn lemma_cgb_done_step(s: Seq<(&Tid, &Term<Sub>)>, m: Map<Tid, Term<Sub>>, si: int, bi: int, ji: int)
    requires cgb_iter_of(s, m), 0 <= si < s.len(),
    ensures
        !cgb_done(s, si, bi, ji, cgb_here(s, si, bi, ji)),
        forall |o: CgbOcc| #[trigger] cgb_done(s, si, bi, ji + 1, o) <==> (cgb_done(s, si, bi, ji, o) || o == cgb_here(s, si, bi, ji)),
{
    let h = cgb_here(s, si, bi, ji);
    if cgb_done(s, si, bi, ji, h) {
        let x = choose |x: int| 0 <= x < s.len() && *(#[trigger] s[x]).0 == h.key
            && (x < si || (x == si && (h.blk < bi || (h.blk == bi && h.jmp < ji))));
        lemma_cgb_iter_inj(s, m, x, si);
    }
    assert forall |o: CgbOcc| #[trigger] cgb_done(s, si, bi, ji + 1, o) <==> (cgb_done(s, si, bi, ji, o) || o == h) by {
        if cgb_done(s, si, bi, ji + 1, o) {
            let x = choose |x: int| 0 <= x < s.len() && *(#[trigger] s[x]).0 == o.key
                && (x < si || (x == si && (o.blk < bi || (o.blk == bi && o.jmp < ji + 1))));
            if !(x == si && o.blk == bi && o.jmp == ji) {
                assert(0 <= x < s.len() && *s[x].0 == o.key && (x < si || (x == si && (o.blk < bi || (o.blk == bi && o.jmp < ji)))));
            }
        }
        if cgb_done(s, si, bi, ji, o) {
            let x = choose |x: int| 0 <= x < s.len() && *(#[trigger] s[x]).0 == o.key
                && (x < si || (x == si && (o.blk < bi || (o.blk == bi && o.jmp < ji))));
            assert(0 <= x < s.len() && *s[x].0 == o.key && (x < si || (x == si && (o.blk < bi || (o.blk == bi && o.jmp < ji + 1)))));
        }
        if o == h {
            assert(0 <= si < s.len() && *s[si].0 == o.key && (si < si || (si == si && (o.blk < bi || (o.blk == bi && o.jmp < ji + 1)))));
        }
    }
}

/// the jump at `here` is no direct internal call: nothing to add
pub proof fn lemma_cgb_skip<'a>(g: DiGraph<Tid, &'a Term<Jmp>>, subs: Map<Tid, Term<Sub>>, occ: Seq<CgbOcc>,
                                s: Seq<(&Tid, &Term<Sub>)>, si: int, bi: int, ji: int)
    requires
        cgb_iter_of(s, subs), 0 <= si < s.len(),
        cgb_edges_partial(g, subs, occ, s, si, bi, ji),
    ensures
        !cgb_is_call(subs, cgb_here(s, si, bi, ji)) ==> cgb_edges_partial(g, subs, occ, s, si, bi, ji + 1),
{
    reveal(cgb_edges_partial);
    lemma_cgb_done_step(s, subs, si, bi, ji);
}

/// the jump at `here` is a direct internal call and `g2` is `g` with the edge for it
pub proof fn lemma_cgb_add<'a>(g: DiGraph<Tid, &'a Term<Jmp>>, g2: DiGraph<Tid, &'a Term<Jmp>>, subs: Map<Tid, Term<Sub>>, occ: Seq<CgbOcc>,
                               s: Seq<(&Tid, &Term<Sub>)>, si: int, bi: int, ji: int, a: NodeIndex, b: NodeIndex, w: &'a Term<Jmp>)
    requires
        cgb_iter_of(s, subs), 0 <= si < s.len(),
        cgb_edges_partial(g, subs, occ, s, si, bi, ji),
        cgb_edge_added(g, g2, a, b, w),
        cgb_edge_is(g2, subs, g.edge_seq().len() as int, cgb_here(s, si, bi, ji)),
    ensures
        cgb_edges_partial(g2, subs, occ.push(cgb_here(s, si, bi, ji)), s, si, bi, ji + 1),
{
    reveal(cgb_edges_partial);
    let h = cgb_here(s, si, bi, ji);
    let occ2 = occ.push(h);
    let n = occ.len() as int;
    lemma_cgb_done_step(s, subs, si, bi, ji);
    assert(g2.edge_seq().len() == n + 1);
    assert forall |e: int| 0 <= e < occ2.len() implies cgb_edge_is(g2, subs, e, #[trigger] occ2[e]) && cgb_done(s, si, bi, ji + 1, occ2[e]) by {
        if e < n {
            assert(occ2[e] == occ[e]);
            assert(cgb_edge_is(g, subs, e, occ[e]));
            assert(g2.edge_seq()[e] == g.edge_seq()[e]);
            assert(g2.edge_weight(e) == g.edge_weight(e));
            assert(g2.node_weight(g.edge_seq()[e].0.i as int) == g.node_weight(g.edge_seq()[e].0.i as int));
            assert(g2.node_weight(g.edge_seq()[e].1.i as int) == g.node_weight(g.edge_seq()[e].1.i as int));
            assert(cgb_done(s, si, bi, ji, occ[e]));
        } else {
            assert(occ2[e] == h);
        }
    }
    assert forall |e1: int, e2: int| 0 <= e1 < e2 < occ2.len() implies #[trigger] occ2[e1] != #[trigger] occ2[e2] by {
        assert(occ2[e1] == occ[e1]);
        assert(cgb_done(s, si, bi, ji, occ[e1]));
        if e2 < n { assert(occ2[e2] == occ[e2]); } else { assert(occ2[e2] == h); }
    }
    assert forall |o: CgbOcc| #[trigger] cgb_is_call(subs, o) && cgb_done(s, si, bi, ji + 1, o)
        implies exists |e: int| 0 <= e < occ2.len() && #[trigger] occ2[e] == o by {
        if o == h {
            assert(occ2[n] == o);
        } else {
            assert(cgb_done(s, si, bi, ji, o));
            let e = choose |e: int| 0 <= e < occ.len() && #[trigger] occ[e] == o;
            assert(occ2[e] == o);
        }
    }
}

/// all jumps of block `bi` are passed  ==  the loop stands at the start of block `bi + 1`
pub proof fn lemma_cgb_jmps_end<'a>(g: DiGraph<Tid, &'a Term<Jmp>>, subs: Map<Tid, Term<Sub>>, occ: Seq<CgbOcc>,
                                    s: Seq<(&Tid, &Term<Sub>)>, si: int, bi: int)
    requires
        cgb_iter_of(s, subs), 0 <= si < s.len(), 0 <= bi < s[si].1.term.blocks@.len(),
        cgb_edges_partial(g, subs, occ, s, si, bi, s[si].1.term.blocks@[bi].term.jmps@.len() as int),
    ensures
        cgb_edges_partial(g, subs, occ, s, si, bi + 1, 0),
{
    reveal(cgb_edges_partial);
    let jl = s[si].1.term.blocks@[bi].term.jmps@.len() as int;
    assert forall |e: int| 0 <= e < occ.len() implies cgb_done(s, si, bi + 1, 0, #[trigger] occ[e]) by {
        let o = occ[e];
        assert(cgb_done(s, si, bi, jl, o));
        let x = choose |x: int| 0 <= x < s.len() && *(#[trigger] s[x]).0 == o.key
            && (x < si || (x == si && (o.blk < bi || (o.blk == bi && o.jmp < jl))));
        assert(0 <= x < s.len() && *s[x].0 == o.key && (x < si || (x == si && (o.blk < bi + 1 || (o.blk == bi + 1 && o.jmp < 0)))));
    }
    assert forall |o: CgbOcc| #[trigger] cgb_is_call(subs, o) && cgb_done(s, si, bi + 1, 0, o)
        implies exists |e: int| 0 <= e < occ.len() && #[trigger] occ[e] == o by {
        let x = choose |x: int| 0 <= x < s.len() && *(#[trigger] s[x]).0 == o.key
            && (x < si || (x == si && (o.blk < bi + 1 || (o.blk == bi + 1 && o.jmp < 0))));
        assert(subs[*s[x].0] == *s[x].1);
        assert(0 <= x < s.len() && *s[x].0 == o.key && (x < si || (x == si && (o.blk < bi || (o.blk == bi && o.jmp < jl)))));
        assert(cgb_done(s, si, bi, jl, o));
    }
}

/// all blocks of function number `si` are passed  ==  the loop stands at the start of function number `si + 1`
pub proof fn lemma_cgb_blks_end<'a>(g: DiGraph<Tid, &'a Term<Jmp>>, subs: Map<Tid, Term<Sub>>, occ: Seq<CgbOcc>,
                                    s: Seq<(&Tid, &Term<Sub>)>, si: int)
    requires
        cgb_iter_of(s, subs), 0 <= si < s.len(),
        cgb_edges_partial(g, subs, occ, s, si, s[si].1.term.blocks@.len() as int, 0),
    ensures
        cgb_edges_partial(g, subs, occ, s, si + 1, 0, 0),
{
    reveal(cgb_edges_partial);
    let bl = s[si].1.term.blocks@.len() as int;
    assert forall |e: int| 0 <= e < occ.len() implies cgb_done(s, si + 1, 0, 0, #[trigger] occ[e]) by {
        let o = occ[e];
        assert(cgb_done(s, si, bl, 0, o));
        let x = choose |x: int| 0 <= x < s.len() && *(#[trigger] s[x]).0 == o.key
            && (x < si || (x == si && (o.blk < bl || (o.blk == bl && o.jmp < 0))));
        assert(0 <= x < s.len() && *s[x].0 == o.key && (x < si + 1 || (x == si + 1 && (o.blk < 0 || (o.blk == 0 && o.jmp < 0)))));
    }
    assert forall |o: CgbOcc| #[trigger] cgb_is_call(subs, o) && cgb_done(s, si + 1, 0, 0, o)
        implies exists |e: int| 0 <= e < occ.len() && #[trigger] occ[e] == o by {
        let x = choose |x: int| 0 <= x < s.len() && *(#[trigger] s[x]).0 == o.key
            && (x < si + 1 || (x == si + 1 && (o.blk < 0 || (o.blk == 0 && o.jmp < 0))));
        assert(subs[*s[x].0] == *s[x].1);
        assert(0 <= x < s.len() && *s[x].0 == o.key && (x < si || (x == si && (o.blk < bl || (o.blk == bl && o.jmp < 0)))));
        assert(cgb_done(s, si, bl, 0, o));
    }
}

/// all functions are passed: every position of the program is done
pub proof fn lemma_cgb_all_done<'a>(g: DiGraph<Tid, &'a Term<Jmp>>, subs: Map<Tid, Term<Sub>>, occ: Seq<CgbOcc>, s: Seq<(&Tid, &Term<Sub>)>, n: int)
    requires
        cgb_iter_of(s, subs),
        cgb_edges_partial(g, subs, occ, s, n, 0, 0),
    ensures
        n == s.len() ==> cgb_edges_ok(g, subs, occ),
{
    reveal(cgb_edges_partial);
    if n != s.len() { return; }
    assert forall |o: CgbOcc| #[trigger] cgb_is_call(subs, o) implies exists |e: int| 0 <= e < occ.len() && #[trigger] occ[e] == o by {
        let x = choose |x: int| 0 <= x < s.len() && *(#[trigger] s[x]).0 == o.key;
        assert(0 <= x < s.len() && *s[x].0 == o.key && (x < s.len() || (x == s.len() && (o.blk < 0 || (o.blk == 0 && o.jmp < 0)))));
        assert(cgb_done(s, s.len() as int, 0, 0, o));
    }
}

// ---- Part 2b: the same facts, quantified over the graph / map / ghost sequence, so that they can be called at the HEAD of a
// loop body (where a hint anchor is robust) and be used by the solver at the end of the body and after the inner loop ----

/// head of the first loop's body: when the body has run for the last key, the HashMap is the inverse of the node labelling
pub proof fn lemma_cgb_nodes_done_all<'a>(s: Seq<(&Tid, &Term<Sub>)>, n: int, subs: Map<Tid, Term<Sub>>)
    requires cgb_iter_of(s, subs),
    ensures n == s.len() ==> forall |g: DiGraph<Tid, &'a Term<Jmp>>, tmap: Map<Tid, NodeIndex>|
        #[trigger] cgb_nodes_partial(g, tmap, s, n) ==> cgb_node_map_ok(g, tmap, subs),
{
    if n == s.len() {
        assert forall |g: DiGraph<Tid, &'a Term<Jmp>>, tmap: Map<Tid, NodeIndex>| #[trigger] cgb_nodes_partial(g, tmap, s, n)
            implies cgb_node_map_ok(g, tmap, subs) by { lemma_cgb_nodes_done(g, tmap, s, n, subs); }
    }
}

/// head of the block loop's body: "all jumps of block bi passed" is "at the start of block bi + 1"
pub proof fn lemma_cgb_jmps_end_all<'a>(subs: Map<Tid, Term<Sub>>, s: Seq<(&Tid, &Term<Sub>)>, si: int, bi: int)
    requires cgb_iter_of(s, subs), 0 <= si < s.len(), 0 <= bi < s[si].1.term.blocks@.len(),
    ensures forall |g: DiGraph<Tid, &'a Term<Jmp>>, occ: Seq<CgbOcc>|
        #[trigger] cgb_edges_partial(g, subs, occ, s, si, bi, s[si].1.term.blocks@[bi].term.jmps@.len() as int)
            ==> cgb_edges_partial(g, subs, occ, s, si, bi + 1, 0),
{
    assert forall |g: DiGraph<Tid, &'a Term<Jmp>>, occ: Seq<CgbOcc>|
        #[trigger] cgb_edges_partial(g, subs, occ, s, si, bi, s[si].1.term.blocks@[bi].term.jmps@.len() as int)
        implies cgb_edges_partial(g, subs, occ, s, si, bi + 1, 0) by { lemma_cgb_jmps_end(g, subs, occ, s, si, bi); }
}

/// head of the function loop's body: "all blocks of function si passed" is "at the start of function si + 1", and after
/// the last function every position of the program is passed
pub proof fn lemma_cgb_blks_end_all<'a>(subs: Map<Tid, Term<Sub>>, s: Seq<(&Tid, &Term<Sub>)>, si: int)
    requires cgb_iter_of(s, subs), 0 <= si < s.len(),
    ensures forall |g: DiGraph<Tid, &'a Term<Jmp>>, occ: Seq<CgbOcc>|
        #[trigger] cgb_edges_partial(g, subs, occ, s, si, s[si].1.term.blocks@.len() as int, 0)
            ==> cgb_edges_partial(g, subs, occ, s, si + 1, 0, 0) && (si + 1 == s.len() ==> cgb_edges_ok(g, subs, occ)),
{
    assert forall |g: DiGraph<Tid, &'a Term<Jmp>>, occ: Seq<CgbOcc>|
        #[trigger] cgb_edges_partial(g, subs, occ, s, si, s[si].1.term.blocks@.len() as int, 0)
        implies cgb_edges_partial(g, subs, occ, s, si + 1, 0, 0) && (si + 1 == s.len() ==> cgb_edges_ok(g, subs, occ)) by {
        lemma_cgb_blks_end(g, subs, occ, s, si);
        lemma_cgb_all_done(g, subs, occ, s, si + 1);
    }
}

/// before the second loop nest (the HashMap is not changed any more): whatever graph the HashMap inverts has the right nodes
pub proof fn lemma_cgb_nodes_ok_all<'a>(tmap: Map<Tid, NodeIndex>, subs: Map<Tid, Term<Sub>>)
    ensures forall |g: DiGraph<Tid, &'a Term<Jmp>>| #[trigger] cgb_node_map_ok(g, tmap, subs) ==> cgb_nodes_ok(g, subs),
{
    assert forall |g: DiGraph<Tid, &'a Term<Jmp>>| #[trigger] cgb_node_map_ok(g, tmap, subs) implies cgb_nodes_ok(g, subs) by {
        lemma_cgb_nodes_ok(g, tmap, subs);
    }
}

/// before the second loop nest: no edge yet, nothing passed yet (whatever the iteration sequence will be)
pub proof fn lemma_cgb_partial_init_all<'a>(g: DiGraph<Tid, &'a Term<Jmp>>, subs: Map<Tid, Term<Sub>>)
    requires g.edge_seq().len() == 0,
    ensures forall |s: Seq<(&Tid, &Term<Sub>)>| #[trigger] cgb_edges_partial(g, subs, Seq::<CgbOcc>::empty(), s, 0, 0, 0),
{
    reveal(cgb_edges_partial);
}

// ---- Part 3: composition ------------------------------------------------------------------------------------

/// different nodes carry different labels
pub proof fn lemma_cgb_node_inj<E>(g: DiGraph<Tid, E>, subs: Map<Tid, Term<Sub>>, a: NodeIndex, b: NodeIndex)
    requires cgb_nodes_ok(g, subs), a.i < g.node_count_spec(), b.i < g.node_count_spec(),
        g.node_weight(a.i as int) == g.node_weight(b.i as int),
    ensures a == b,
{
    if a.i < b.i { assert(g.node_weight(a.i as int) != g.node_weight(b.i as int)); }
    if b.i < a.i { assert(g.node_weight(b.i as int) != g.node_weight(a.i as int)); }
}

/// the edge that stands for the call at position `o`
pub open spec fn cgb_edge_of(occ: Seq<CgbOcc>, o: CgbOcc) -> int {
    choose |e: int| 0 <= e < occ.len() && #[trigger] occ[e] == o
}

/// a call-graph path is a chain of calls of the program (edge by edge)
pub proof fn lemma_cgb_path_to_chain<'a>(g: DiGraph<Tid, &'a Term<Jmp>>, subs: Map<Tid, Term<Sub>>, occ: Seq<CgbOcc>,
                                         p: Seq<int>, s: NodeIndex, t: NodeIndex)
    requires
        cgb_edges_ok(g, subs, occ),
        cg_path(g, p, s, t),
    ensures
        cgb_chain(subs, Seq::new(p.len(), |i: int| occ[p[i]]), g.node_weight(s.i as int), g.node_weight(t.i as int)),
{
    let c = Seq::new(p.len(), |i: int| occ[p[i]]);
    assert forall |i: int| 0 <= i < c.len() implies cgb_is_call(subs, #[trigger] c[i]) by {
        assert(cg_valid(g, p[i]));
        assert(cgb_edge_is(g, subs, p[i], occ[p[i]]));
    }
    assert forall |i: int, j: int| 0 <= i && j == i + 1 && j < c.len() implies cgb_callee(subs, #[trigger] c[i]) == cgb_caller(subs, #[trigger] c[j]) by {
        assert(cg_valid(g, p[i]) && cg_valid(g, p[j]));
        assert(cgb_edge_is(g, subs, p[i], occ[p[i]]));
        assert(cgb_edge_is(g, subs, p[j], occ[p[j]]));
        assert(cg_tgt(g, p[i]) == cg_src(g, p[j]));
    }
    if c.len() > 0 {
        let l = p.len() - 1;
        assert(cg_valid(g, p[0]) && cg_valid(g, p[l]));
        assert(cgb_edge_is(g, subs, p[0], occ[p[0]]));
        assert(cgb_edge_is(g, subs, p[l], occ[p[l]]));
        assert(c[0] == occ[p[0]]);
        assert(c[l] == occ[p[l]]);
    }
}

/// a chain of calls of the program is a call-graph path (call by call)
pub proof fn lemma_cgb_chain_to_path<'a>(g: DiGraph<Tid, &'a Term<Jmp>>, subs: Map<Tid, Term<Sub>>, occ: Seq<CgbOcc>,
                                         c: Seq<CgbOcc>, s: NodeIndex, t: NodeIndex)
    requires
        cgb_nodes_ok(g, subs),
        cgb_edges_ok(g, subs, occ),
        s.i < g.node_count_spec(), t.i < g.node_count_spec(),
        cgb_chain(subs, c, g.node_weight(s.i as int), g.node_weight(t.i as int)),
    ensures
        cg_path(g, Seq::new(c.len(), |i: int| cgb_edge_of(occ, c[i])), s, t),
        forall |i: int| 0 <= i < c.len() ==> 0 <= cgb_edge_of(occ, #[trigger] c[i]) < occ.len() && occ[cgb_edge_of(occ, c[i])] == c[i],
{
    let p = Seq::new(c.len(), |i: int| cgb_edge_of(occ, c[i]));
    assert forall |i: int| 0 <= i < c.len() implies 0 <= cgb_edge_of(occ, #[trigger] c[i]) < occ.len() && occ[cgb_edge_of(occ, c[i])] == c[i] by {
        assert(cgb_is_call(subs, c[i]));
    }
    assert forall |k: int| 0 <= k < p.len() implies cg_valid(g, #[trigger] p[k]) by {
        assert(p[k] == cgb_edge_of(occ, c[k]));
    }
    assert forall |i: int, j: int| 0 <= i && j == i + 1 && j < p.len() implies cg_tgt(g, #[trigger] p[i]) == cg_src(g, #[trigger] p[j]) by {
        assert(p[i] == cgb_edge_of(occ, c[i]) && p[j] == cgb_edge_of(occ, c[j]));
        assert(cgb_edge_is(g, subs, p[i], occ[p[i]]));
        assert(cgb_edge_is(g, subs, p[j], occ[p[j]]));
        assert(cgb_callee(subs, c[i]) == cgb_caller(subs, c[j]));
        lemma_cgb_node_inj(g, subs, cg_tgt(g, p[i]), cg_src(g, p[j]));
    }
    if c.len() == 0 {
        lemma_cgb_node_inj(g, subs, s, t);
    } else {
        let l = c.len() - 1;
        assert(p[0] == cgb_edge_of(occ, c[0]) && p[l] == cgb_edge_of(occ, c[l]));
        assert(cgb_edge_is(g, subs, p[0], occ[p[0]]));
        assert(cgb_edge_is(g, subs, p[l], occ[p[l]]));
        lemma_cgb_node_inj(g, subs, cg_src(g, p[0]), s);
        lemma_cgb_node_inj(g, subs, cg_tgt(g, p[l]), t);
    }
}

/// an edge on a call-graph path from s to t stands for a call on a chain of calls from label(s) to label(t)
pub proof fn lemma_cgb_compose_fwd<'a>(g: DiGraph<Tid, &'a Term<Jmp>>, subs: Map<Tid, Term<Sub>>, occ: Seq<CgbOcc>, s: NodeIndex, t: NodeIndex, e: int)
    requires
        cgb_edges_ok(g, subs, occ),
        cg_on_path(g, s, t, e),
    ensures
        0 <= e < occ.len(),
        cgb_on_chain(subs, g.node_weight(s.i as int), g.node_weight(t.i as int), occ[e]),
{
    let p = choose |p: Seq<int>| #![auto] cg_path(g, p, s, t) && p.contains(e);
    let k = choose |k: int| 0 <= k < p.len() && p[k] == e;
    lemma_cgb_path_to_chain(g, subs, occ, p, s, t);
    let c = Seq::new(p.len(), |i: int| occ[p[i]]);
    assert(cg_valid(g, p[k]));
    assert(c[k] == occ[e]);
    assert(c.contains(occ[e]));
}

/// a call on a chain of calls from label(s) to label(t) has its edge on a call-graph path from s to t
pub proof fn lemma_cgb_compose_bwd<'a>(g: DiGraph<Tid, &'a Term<Jmp>>, subs: Map<Tid, Term<Sub>>, occ: Seq<CgbOcc>, s: NodeIndex, t: NodeIndex, o: CgbOcc)
    requires
        cgb_nodes_ok(g, subs),
        cgb_edges_ok(g, subs, occ),
        s.i < g.node_count_spec(), t.i < g.node_count_spec(),
        cgb_on_chain(subs, g.node_weight(s.i as int), g.node_weight(t.i as int), o),
    ensures
        0 <= cgb_edge_of(occ, o) < occ.len(),
        occ[cgb_edge_of(occ, o)] == o,
        cg_on_path(g, s, t, cgb_edge_of(occ, o)),
{
    let a = g.node_weight(s.i as int);
    let b = g.node_weight(t.i as int);
    let c = choose |c: Seq<CgbOcc>| #[trigger] cgb_chain(subs, c, a, b) && c.contains(o);
    let k = choose |k: int| 0 <= k < c.len() && c[k] == o;
    lemma_cgb_chain_to_path(g, subs, occ, c, s, t);
    let p = Seq::new(c.len(), |i: int| cgb_edge_of(occ, c[i]));
    let e = cgb_edge_of(occ, o);
    assert(0 <= cgb_edge_of(occ, c[k]) < occ.len() && occ[cgb_edge_of(occ, c[k])] == c[k]);
    assert(p[k] == e);
    assert(p.contains(e));
}

/// COMPOSITION: the query's answer on the built graph, read over the program
pub proof fn lemma_cgb_compose<'a>(g: DiGraph<Tid, &'a Term<Jmp>>, subs: Map<Tid, Term<Sub>>, s: NodeIndex, t: NodeIndex, r: Set<Tid>)
    requires
        cgb_built(g, subs),
        s.i < g.node_count_spec(), t.i < g.node_count_spec(),
        cg_result_ok(g, s, t, r),
    ensures
        cgb_result_ok(subs, g.node_weight(s.i as int), g.node_weight(t.i as int), r),
{
    let a = g.node_weight(s.i as int);
    let b = g.node_weight(t.i as int);
    let occ = choose |occ: Seq<CgbOcc>| cgb_edges_ok(g, subs, occ);
    assert forall |x: Tid| #[trigger] r.contains(x) <==> exists |o: CgbOcc| #[trigger] cgb_on_chain(subs, a, b, o) && x == cgb_jump(subs, o).tid by {
        if r.contains(x) {
            let e = choose |e: int| #[trigger] cg_on_path(g, s, t, e) && x == cg_tid(g, e);
            lemma_cgb_compose_fwd(g, subs, occ, s, t, e);
            assert(cgb_edge_is(g, subs, e, occ[e]));
            assert(cgb_on_chain(subs, a, b, occ[e]) && x == cgb_jump(subs, occ[e]).tid);
        }
        if exists |o: CgbOcc| #[trigger] cgb_on_chain(subs, a, b, o) && x == cgb_jump(subs, o).tid {
            let o = choose |o: CgbOcc| #[trigger] cgb_on_chain(subs, a, b, o) && x == cgb_jump(subs, o).tid;
            lemma_cgb_compose_bwd(g, subs, occ, s, t, o);
            let e = cgb_edge_of(occ, o);
            assert(cgb_edge_is(g, subs, e, occ[e]));
            assert(cg_on_path(g, s, t, e) && x == cg_tid(g, e));
        }
    }
}
