// ---------------------------------------------------------------------------
// lemmas/interval_intersect_sat.rs -- SATISFIABILITY WITNESSES of the preconditions of unit `interval_intersect`
// (nothing here is trusted: no external_body / assume / admit / axiom).
//   (a') verif_sat_interval_intersect_chain: exec client WITHOUT requires that calls extended_gcd,
//        compute_intersection_residue_class and Interval::signed_intersect on 8 bit ([-4, 10] stride 2 / [0, 9] stride 3),
//        64 bit ([-16, 32] stride 4 / [0, 36] stride 6) and 128 bit values (builders of lemmas/interval_base_sat.rs):
//        Verus checks the REAL requires at each call.  Every disjunct of the machine-arithmetic clause
//        `w <= 32 || w > 64 || ii_lcm(stride, stride') <= u64::MAX` is exercised: 8 bit, 128 bit, and 64 bit with two
//        non-zero strides (lcm 12).
//   (b)  lemma_sat_interval_intersect_gcd_fits: the TRUSTED ensures of shim/gcd.rs (`Gcd::gcd` on u64 returns spec_gcd,
//        an equation for ALL arguments with a u64 result) is consistent with the result type: spec_gcd(a, b) <= u64::MAX
//        for all u64 a, b (proved bound spec_gcd(a, b) <= max(a, b), lemmas/interval.rs).
//   nothing conditional, no (d) hypothesis in this unit.
// ---------------------------------------------------------------------------

/// (b) consistency of the trusted contract of gcd::Gcd::gcd (shim/gcd.rs) with its bounded result type
pub proof fn lemma_sat_interval_intersect_gcd_fits()
    ensures forall |a: u64, b: u64| #[trigger] spec_gcd(a as nat, b as nat) <= u64::MAX,
{
    assert forall |a: u64, b: u64| #[trigger] spec_gcd(a as nat, b as nat) <= u64::MAX by {
        lemma_gcd_bound(a as nat, b as nat);
    }
}

/// (a') every contracted function of the unit is called; no precondition
pub fn verif_sat_interval_intersect_chain()
{
    proof { lemma_p2_consts(); }
    // extended_gcd: 0 <= a, b <= u64::MAX
    let _ = extended_gcd(6, 4);
    let _ = extended_gcd(0, 0xffff_ffff_ffff_ffff);
    let a = verif_sat_interval_base_iv8(252, 10, 2);
    let b = verif_sat_interval_base_iv8(0, 9, 3);
    let q = verif_sat_interval_base_iv64(0xffff_ffff_ffff_fff0, 32, 4);
    let r = verif_sat_interval_base_iv64(0, 36, 6);
    let h = verif_sat_interval_base_iv128(0xffff_ffff_ffff_ffff_ffff_ffff_ffff_fff0, 32, 4);
    let k = verif_sat_interval_base_iv128(0, 36, 6);
    proof { assert(ii_lcm(4, 6) == 12) by (compute_only); }
    // compute_intersection_residue_class: inv, inv, equal widths, byte_w, w <= 64, w <= 32 || lcm <= u64::MAX
    let _ = compute_intersection_residue_class(&a, &b);
    let _ = compute_intersection_residue_class(&q, &r);
    // signed_intersect: inv, inv, equal widths, byte_w, w <= 32 || w > 64 || lcm <= u64::MAX
    let _ = a.signed_intersect(&b);
    let _ = q.signed_intersect(&r);
    let _ = h.signed_intersect(&k);
}
