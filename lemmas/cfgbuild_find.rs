// ---------------------------------------------------------------------------
// lemmas/cfgbuild_find.rs -- `Program::find_block` as a function of the program (unit `cfgbuild`).  Proved, nothing trusted.
// cfg_find_block (spec/cfgbuild.rs) is DEFINED as the first block with the tid in (key order of `subs`, list order of
// `blocks`); lemma_cfg_find_block_ok is the former axiom_cfg_find_block (same statement, same broadcast trigger, now with a
// proof); lemma_cfg_find_hit / lemma_cfg_find_miss carry the two exits of the extracted loop form of find_block.
// ---------------------------------------------------------------------------

/// What cfg_find_block returns: `Some` iff some block of the program has the tid, and then a block of the program with that
/// tid.  (Was the trusted axiom_cfg_find_block of shim/cfgbuild.rs; no hypothesis, as before.)
pub broadcast proof fn lemma_cfg_find_block_ok(subs: Map<Tid, Term<Sub>>, tid: Tid)
    ensures cfg_find_block_ok(subs, tid, #[trigger] cfg_find_block(subs, tid)),
{
    reveal(cfg_find_block);
    if exists |k: Tid, i: int| #[trigger] cfg_first_at(subs, tid, k, i) {
        let (k, i) = choose |k: Tid, i: int| #[trigger] cfg_first_at(subs, tid, k, i);
        assert(cfg_tid_at(subs, tid, k, i));
        assert(cfg_block_at(subs, k, i, subs[k].term.blocks@[i]));
    } else if exists |k: Tid, i: int| #[trigger] cfg_tid_at(subs, tid, k, i) {
        let (k, i) = choose |k: Tid, i: int| #[trigger] cfg_tid_at(subs, tid, k, i);
        assert(cfg_block_at(subs, k, i, subs[k].term.blocks@[i]));
    } else {
        if cfg_has_block(subs, tid) {
            let (k, i) = choose |k: Tid, i: int| #[trigger] cfg_block_at(subs, k, i, subs[k].term.blocks@[i]) && subs[k].term.blocks@[i].tid == tid;
            assert(cfg_tid_at(subs, tid, k, i));
        }
    }
}

/// vstd states the order of `BTreeMap::iter()` as `increasing_seq` of the key projection; unfolded to cfg_tid_lt.
/// Broadcast so that the loop invariant cfg_keys_sorted(it.seq()) holds on loop entry (the iterator cannot be named before).
pub broadcast proof fn lemma_cfg_iter_sorted<V>(s: Seq<(&Tid, &V)>)
    requires vstd::laws_cmp::obeys_cmp::<Tid>(), vstd::std_specs::btree::increasing_seq(s.map_values(|kv: (&Tid, &V)| *kv.0))
    ensures #[trigger] cfg_keys_sorted(s)
{
    let ks = s.map_values(|kv: (&Tid, &V)| *kv.0);
    vstd::std_specs::btree::axiom_increasing_seq_meaning(ks);
    assert forall |i: int, j: int| 0 <= i < j < s.len() implies cfg_tid_lt(*(#[trigger] s[i]).0, *(#[trigger] s[j]).0) by {
        assert(ks[i] == *s[i].0); assert(ks[j] == *s[j].0);
        assert(vstd::std_specs::cmp::OrdSpec::cmp_spec(&ks[i], &ks[j]) == core::cmp::Ordering::Less);
    }
}

/// DETERMINISM: under a lawful order of Tid the first position of a tid is unique (so the `choose` in cfg_find_block is a
/// definite value)
pub proof fn lemma_cfg_first_unique(subs: Map<Tid, Term<Sub>>, tid: Tid, k1: Tid, i1: int, k2: Tid, i2: int)
    requires vstd::laws_cmp::obeys_cmp::<Tid>(), cfg_first_at(subs, tid, k1, i1), cfg_first_at(subs, tid, k2, i2)
    ensures k1 == k2, i1 == i2
{
    assert(cfg_tid_at(subs, tid, k1, i1));
    assert(cfg_tid_at(subs, tid, k2, i2));
    // the order is irreflexive and asymmetric
    assert(!(cfg_tid_lt(k1, k2) && cfg_tid_lt(k2, k1)) && !cfg_tid_lt(k1, k1)) by {
        reveal(vstd::laws_cmp::obeys_cmp);
        reveal(vstd::laws_cmp::obeys_cmp_ord);
        reveal(vstd::laws_cmp::obeys_cmp_partial_ord);
        reveal(vstd::laws_cmp::obeys_partial_cmp_spec_properties);
        reveal(vstd::laws_eq::obeys_eq_spec_properties);
    }
}

/// a first position determines the value of cfg_find_block
pub proof fn lemma_cfg_first_is(subs: Map<Tid, Term<Sub>>, tid: Tid, k: Tid, i: int)
    requires vstd::laws_cmp::obeys_cmp::<Tid>(), cfg_first_at(subs, tid, k, i)
    ensures cfg_find_block(subs, tid) == Some(&subs[k].term.blocks@[i])
{
    reveal(cfg_find_block);
    let (k0, i0) = choose |k0: Tid, i0: int| #[trigger] cfg_first_at(subs, tid, k0, i0);
    lemma_cfg_first_unique(subs, tid, k0, i0, k, i);
}

/// the loop form of find_block RETURNS at block `i` of the `n`-th function of the ascending iteration: no block of an
/// earlier function and no earlier block of this function has the tid, this one has -- it is the first one, i.e. the value
/// of cfg_find_block
pub proof fn lemma_cfg_find_hit(s: Seq<(&Tid, &Term<Sub>)>, subs: Map<Tid, Term<Sub>>, tid: Tid, n: int, i: int)
    requires
        vstd::laws_cmp::obeys_cmp::<Tid>(),
        cgb_iter_of(s, subs), cfg_keys_sorted(s),
        0 <= n < s.len(),
        cfg_no_tid_before(s, tid, n),
        0 <= i < s[n].1.term.blocks@.len(),
        s[n].1.term.blocks@[i].tid == tid,
        forall |i2: int| 0 <= i2 < i ==> (#[trigger] s[n].1.term.blocks@[i2]).tid != tid,
    ensures
        cfg_find_block(subs, tid) == Some(&s[n].1.term.blocks@[i]),
{
    let k = *s[n].0;
    assert(subs.contains_key(k) && subs[k] == *s[n].1);
    assert(cfg_tid_at(subs, tid, k, i));
    assert forall |k2: Tid, i2: int| #[trigger] cfg_tid_at(subs, tid, k2, i2) implies (k2 == k && i <= i2) || cfg_tid_lt(k, k2) by {
        let j = choose |j: int| 0 <= j < s.len() && *(#[trigger] s[j]).0 == k2;
        assert(subs[*s[j].0] == *s[j].1);
        if j < n {
            assert(s[j].1.term.blocks@[i2].tid != tid);
        } else if j == n {
            if i2 < i { assert(s[n].1.term.blocks@[i2].tid != tid); }
        } else {
            assert(cfg_tid_lt(*s[n].0, *s[j].0));
        }
    }
    assert(cfg_first_at(subs, tid, k, i));
    lemma_cfg_first_is(subs, tid, k, i);
}

/// the loop form of find_block falls through: no block of any function has the tid
pub proof fn lemma_cfg_find_miss(s: Seq<(&Tid, &Term<Sub>)>, subs: Map<Tid, Term<Sub>>, tid: Tid)
    requires cgb_iter_of(s, subs), cfg_no_tid_before(s, tid, s.len() as int),
    ensures cfg_find_block(subs, tid) == None::<&Term<Blk>>,
{
    reveal(cfg_find_block);
    assert forall |k: Tid, i: int| !#[trigger] cfg_tid_at(subs, tid, k, i) by {
        if cfg_tid_at(subs, tid, k, i) {
            let j = choose |j: int| 0 <= j < s.len() && *(#[trigger] s[j]).0 == k;
            assert(subs[*s[j].0] == *s[j].1);
            assert(s[j].1.term.blocks@[i].tid != tid);
        }
    }
    assert forall |k: Tid, i: int| !#[trigger] cfg_first_at(subs, tid, k, i) by {
        if cfg_first_at(subs, tid, k, i) { assert(cfg_tid_at(subs, tid, k, i)); }
    }
}
