// ---------------------------------------------------------------------------
// lemmas/fwd_fixpoint.rs -- proof-only lemmas of unit `fwd_fixpoint` (all PROVED, nothing assumed).
//   lemma_ff_partition_permutation   a partition of the node indices, flattened, is a permutation of all nodes
//   lemma_ff_pre_from_shape          the precondition of the edge transfer follows from "CFG-shaped graph + value has the
//                                    variant that belongs to its node"
//   lemma_ff_shape_kept_edge / _merge  ... and that shape invariant is kept by the edge transfers and by merge
// ---------------------------------------------------------------------------

/// position of the first entry of list `c` in the concatenation
pub open spec fn ff_off(comps: Seq<Vec<NodeIndex>>, c: int) -> int { ff_concat(comps, c).len() as int }

/// every entry of list c < m sits at position ff_off(c) + j of the concatenation of the first m lists
pub proof fn lemma_ff_concat_at(comps: Seq<Vec<NodeIndex>>, m: int, c: int, j: int)
    requires
        0 <= c < m <= comps.len(),
        0 <= j < comps[c]@.len(),
    ensures
        0 <= ff_off(comps, c) + j < ff_concat(comps, m).len(),
        ff_concat(comps, m)[ff_off(comps, c) + j] == comps[c]@[j],
    decreases m
{
    if c == m - 1 {
    } else {
        lemma_ff_concat_at(comps, m - 1, c, j);
    }
}

/// every position of the concatenation of the first m lists is such a position
pub proof fn lemma_ff_concat_pos(comps: Seq<Vec<NodeIndex>>, m: int, p: int) -> (cj: (int, int))
    requires
        0 <= m <= comps.len(),
        0 <= p < ff_concat(comps, m).len(),
    ensures
        0 <= cj.0 < m,
        0 <= cj.1 < comps[cj.0]@.len(),
        p == ff_off(comps, cj.0) + cj.1,
        ff_concat(comps, m)[p] == comps[cj.0]@[cj.1],
    decreases m
{
    if m <= 0 {
        (0, 0)
    } else if p >= ff_concat(comps, m - 1).len() {
        (m - 1, p - ff_concat(comps, m - 1).len())
    } else {
        lemma_ff_concat_pos(comps, m - 1, p)
    }
}

/// The obligation that `create_*_worklist` owes property C07 (the `requires` of Computation::from_node_priority_list):
/// strongly connected components partition the node set, so their concatenation lists every node exactly once.
pub proof fn lemma_ff_partition_permutation(comps: Seq<Vec<NodeIndex>>, n: nat)
    requires
        ff_partition(comps, n),
    ensures
        ff_is_node_permutation(ff_concat(comps, comps.len() as int), n),
{
    let m = comps.len() as int;
    let s = ff_concat(comps, m);
    // entries are nodes
    assert forall |i: int| 0 <= i < s.len() implies (#[trigger] s[i]).i < n by {
        let cj = lemma_ff_concat_pos(comps, m, i);
        assert(comps[cj.0]@[cj.1].i < n);
    }
    // no node twice
    assert forall |i: int, j: int| 0 <= i < j < s.len() implies (#[trigger] s[i]).i != (#[trigger] s[j]).i by {
        let a = lemma_ff_concat_pos(comps, m, i);
        let b = lemma_ff_concat_pos(comps, m, j);
        if s[i].i == s[j].i {
            assert(comps[a.0]@[a.1].i == comps[b.0]@[b.1].i);
            assert(a.0 == b.0 && a.1 == b.1);
        }
    }
    // every node
    assert forall |k: int| 0 <= k < n implies #[trigger] ff_takes_value(s, k) by {
        assert(ff_in_comps(comps, k));
        let (c, j) = choose |c: int, j: int| 0 <= c < comps.len() && 0 <= j < comps[c]@.len() && (#[trigger] comps[c]@[j]).i == k;
        lemma_ff_concat_at(comps, m, c, j);
        assert(s[ff_off(comps, c) + j].i == k);
    }
    // hence exactly n entries: the index sequence has no duplicates and its set of entries is 0..n
    let idx = s.map_values(|x: NodeIndex| x.i as int);
    assert(idx.no_duplicates());
    assert(idx.to_set() =~= vstd::set_lib::set_int_range(0, n as int)) by {
        assert forall |k: int| vstd::set_lib::set_int_range(0, n as int).contains(k) implies idx.to_set().contains(k) by {
            assert(ff_takes_value(s, k));
            let j = choose |j: int| 0 <= j < s.len() && (#[trigger] s[j]).i == k;
            assert(idx[j] == k);
        }
        assert forall |k: int| idx.to_set().contains(k) implies vstd::set_lib::set_int_range(0, n as int).contains(k) by {
            let j = choose |j: int| 0 <= j < idx.len() && idx[j] == k;
            assert(s[j].i < n);
        }
    }
    idx.unique_seq_to_set();
    vstd::set_lib::lemma_int_range(0, n as int);
    assert(s.len() == n);
}

// ---- the shape invariant ---------------------------------------------------------------------------------------------

/// On a graph whose edges connect node kinds as the CFG builder produces them, a node value that has the variant belonging
/// to the source node satisfies the precondition of the edge transfer: no `panic!` arm, `unwrap_value`, `get_block`,
/// `get_sub` or index of `update_edge` can fail.
pub proof fn lemma_ff_pre_from_shape<'a, V: PartialEq + Eq + Clone>(g: Graph<'a>, nv: NodeValue<V>, e: int)
    requires
        0 <= e < g.edge_seq().len(),
        ff_edge_kinds_ok(g, e),
        ff_shape(g.node_weight(g.edge_seq()[e].0.i as int), nv),
    ensures
        ff_edge_pre(g, nv, e),
{
}

/// ... and what the transfer produces has the variant that belongs to the TARGET node of the edge,
pub proof fn lemma_ff_shape_kept_edge<'a, T: Context<'a>>(c: T, nv: NodeValue<T::Value>, e: int)
    requires
        0 <= e < c.graph_spec().edge_seq().len(),
        ff_edge_kinds_ok(c.graph_spec(), e),
        ff_shape(c.graph_spec().node_weight(c.graph_spec().edge_seq()[e].0.i as int), nv),
        ff_update_edge(c, nv, e) is Some,
    ensures
        ff_shape(c.graph_spec().node_weight(c.graph_spec().edge_seq()[e].1.i as int), ff_update_edge(c, nv, e)->Some_0),
{
}

/// ... and merging two values of the same node keeps the variant: the shape invariant "every node value has the variant of
/// its node" is inductive over a solver run, so the mixed-variant `panic!` of `merge` is unreachable as well.
pub proof fn lemma_ff_shape_kept_merge<'a, T: Context<'a>>(c: T, n: Node<'a>, a: NodeValue<T::Value>, b: NodeValue<T::Value>)
    requires
        ff_shape(n, a),
        ff_shape(n, b),
    ensures
        (a is Value) == (b is Value),
        ff_shape(n, ff_merge(c, a, b)),
{
}
