// lemmas/fwd_fixpoint.rs
