// ---------------------------------------------------------------------------
// lemmas/taint_sat.rs -- SATISFIABILITY WITNESSES of the preconditions of unit `taint` (nothing here is trusted).
//   The unit has no type-parameter hypotheses, no restated trait (its functions are moved into `impl Taint`, R2) and no shim
//   beyond ByteSize.  Two contracted functions have a precondition, both `self.size() == other.size()`:
//   (a') verif_sat_taint_chain: a verified exec client WITHOUT `requires` that builds Tainted(4 bytes) / Top(4 bytes) / Tainted(1 byte)
//        as enum literals and calls Taint::merge and Taint::merge_with on every combination of variants of equal size (and bytesize /
//        is_top, which have no precondition); Verus checks the real `requires` at each call.
//   (b)  lemma_sat_taint_merge_pre: the same precondition as an `exists`, verbatim, with the witness (Tainted(4), Top(4)); and the
//        observation that it is NOT universally true (sizes 4 and 1 differ), i.e. the `requires` says something.
// ---------------------------------------------------------------------------

/// (b) Taint::merge / Taint::merge_with: `requires self.size() == other.size()` / `old(self).size() == other.size()`
pub proof fn lemma_sat_taint_merge_pre()
    ensures
        exists |s: Taint, other: Taint| s.size() == other.size(),
        exists |s: Taint, other: Taint| s.size() == other.size() && s.tainted() && !other.tainted(),
        exists |s: Taint, other: Taint| !(s.size() == other.size()),
{
    let a = Taint::Tainted(ByteSize(4));
    let b = Taint::Top(ByteSize(4));
    let c = Taint::Top(ByteSize(1));
    assert(a.size() == b.size() && a.tainted() && !b.tainted());
    assert(!(a.size() == c.size()));
}

/// (a') every function of the unit is called; no precondition
pub fn verif_sat_taint_chain()
{
    let a = Taint::Tainted(ByteSize(4));
    let b = Taint::Top(ByteSize(4));
    let s = a.bytesize();
    let t = b.is_top();
    // merge: requires self.size() == other.size()
    let m1 = a.merge(&b);
    let m2 = b.merge(&a);
    let m3 = b.merge(&b);
    let m4 = a.merge(&a);
    proof {
        assert(s == ByteSize(4) && t);
        assert(m1.tainted() && m2.tainted() && !m3.tainted() && m4 == a);
        assert(m1.size() == ByteSize(4));
    }
    // merge_with: requires old(self).size() == other.size()
    let mut x = Taint::Top(ByteSize(1));
    let y = Taint::Tainted(ByteSize(1));
    let _ = x.merge_with(&y);
    proof { assert(x.tainted() && x.size() == ByteSize(1)); }
    let _ = x.merge_with(&y);
    let mut z = Taint::Top(ByteSize(1));
    let z2 = Taint::Top(ByteSize(1));
    let _ = z.merge_with(&z2);
    proof { assert(!z.tainted()); }
}
