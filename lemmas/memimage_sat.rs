// ---------------------------------------------------------------------------
// lemmas/memimage_sat.rs -- SATISFIABILITY WITNESSES of the preconditions of unit `memimage` (nothing here is trusted).
//   (a') verif_sat_memimage_build: exec construction (Vec::new / push / struct literals) of an image with THREE
//        segments: [0x1000, 0x1003) read-only  bytes 'A','B',NUL ; [0x1003, 0x1004) writable (ADJACENT to the first);
//        an EMPTY segment at 0x1001 (inside the first: disjoint by definition) -- ensures valid_image.
//   (a') verif_sat_memimage_chain: no `requires`; calls all 7 contracted functions on that image (Verus checks the
//        REAL requires: valid_image, address.wf(), address.u@ < p2(64), 1 <= size.0 <= MAXBYTES()) with
//        Bitvector::from_u64 / from_u8 addresses, sizes 1, 2 and MAXBYTES, inside / across / outside the segments,
//        and additionally on the empty image and on a segment that ends at u64::MAX (boundary of seg_fits).
//   (b)  not used: `Vec` has no spec-level constructor, exec construction covers everything.
//   The postconditions are used to assert that the witness is NOT degenerate: has_seg / range_has_seg hold for it.
//   (d)  nothing: no hypothesis of this unit mentions a vstd-uninterpreted predicate.
// ---------------------------------------------------------------------------

/// an image with two adjacent non-empty segments and one empty segment
pub fn verif_sat_memimage_build(little_endian: bool) -> (img: RuntimeMemoryImage)
    ensures
        valid_image(img),
        img.memory_segments@.len() == 3,
        img.is_little_endian == little_endian,
        img.memory_segments@[0].base_address == 0x1000, img.memory_segments@[0].bytes@ == seq![0x41u8, 0x42u8, 0u8],
        !img.memory_segments@[0].write_flag, img.memory_segments@[0].read_flag,
        img.memory_segments@[1].base_address == 0x1003, img.memory_segments@[1].bytes@ == seq![0x43u8],
        img.memory_segments@[1].write_flag,
        img.memory_segments@[2].base_address == 0x1001, img.memory_segments@[2].bytes@.len() == 0,
{
    let mut b0: Vec<u8> = Vec::new();
    b0.push(0x41u8); b0.push(0x42u8); b0.push(0u8);
    let mut b1: Vec<u8> = Vec::new();
    b1.push(0x43u8);
    let b2: Vec<u8> = Vec::new();
    proof {
        assert(b0@ =~= seq![0x41u8, 0x42u8, 0u8]);
        assert(b1@ =~= seq![0x43u8]);
    }
    let s0 = MemorySegment { bytes: b0, base_address: 0x1000, read_flag: true, write_flag: false, execute_flag: false };
    let s1 = MemorySegment { bytes: b1, base_address: 0x1003, read_flag: true, write_flag: true, execute_flag: false };
    let s2 = MemorySegment { bytes: b2, base_address: 0x1001, read_flag: false, write_flag: false, execute_flag: true };
    let mut segs: Vec<MemorySegment> = Vec::new();
    segs.push(s0); segs.push(s1); segs.push(s2);
    let img = RuntimeMemoryImage { memory_segments: segs, is_little_endian: little_endian, is_lkm: false };
    proof {
        assert(seg_fits(img.memory_segments@[0]) && seg_fits(img.memory_segments@[1]) && seg_fits(img.memory_segments@[2]));
        assert(segs_disjoint(img.memory_segments@[0], img.memory_segments@[1]));
        assert(segs_disjoint(img.memory_segments@[0], img.memory_segments@[2]));
        assert(segs_disjoint(img.memory_segments@[1], img.memory_segments@[2]));
    }
    img
}

/// (a') every contracted function of the unit, on a non-degenerate image; no precondition
pub fn verif_sat_memimage_chain(little_endian: bool)
{
    proof { lemma_p2_consts(); }
    let img = verif_sat_memimage_build(little_endian);
    proof {
        // the witness is not degenerate: addresses inside segments exist
        assert(seg_contains(img.memory_segments@[0], 0x1001));
        assert(seg_contains(img.memory_segments@[1], 0x1003));
        assert(seg_contains_range(img.memory_segments@[0], 0x1000, 2));
    }
    // is_interval_readable / is_interval_writeable: valid_image
    let r1 = img.is_interval_readable(0x1000, 0x1003);
    let r2 = img.is_interval_writeable(0x1003, 0x1004);
    let r3 = img.is_interval_readable(0x1002, 0x1004);      // crosses into the adjacent segment
    let r4 = img.is_interval_writeable(0, u64::MAX);        // outside
    assert(has_seg(img, 0x1000));
    // addresses: Bitvector::from_u64 (w = 64), from_u8 (w = 8): wf, u < 2^64
    let a0 = Bitvector::from_u64(0x1000);
    let a1 = Bitvector::from_u64(0x1003);
    let a2 = Bitvector::from_u64(0xffff_ffff_ffff_ffff);
    let a3 = Bitvector::from_u8(7);
    // is_address_writeable
    let w0 = img.is_address_writeable(&a0);
    let w1 = img.is_address_writeable(&a1);
    let w2 = img.is_address_writeable(&a2);
    assert(w0 is Ok);
    // get_ro_data_pointer_at_address
    let p0 = img.get_ro_data_pointer_at_address(&a0);
    let p1 = img.get_ro_data_pointer_at_address(&a1);
    let p3 = img.get_ro_data_pointer_at_address(&a3);
    // read_string_until_null_terminator
    let t0 = img.read_string_until_null_terminator(&a0);
    let t1 = img.read_string_until_null_terminator(&a1);     // no NUL in the adjacent segment
    let t2 = img.read_string_until_null_terminator(&a2);
    // read: 1 <= size.0 <= MAXBYTES
    let v0 = img.read(&a0, ByteSize(2));
    let v1 = img.read(&a1, ByteSize(1));
    let v2 = img.read(&a0, ByteSize(0x200_0000));           // size == MAXBYTES: not in one segment
    let v3 = img.read(&a3, ByteSize(1));
    assert(range_has_seg(img, 0x1000, 2));
    assert(v0 is Ok);
    // is_global_memory_address
    let g0 = img.is_global_memory_address(&a0);
    let g3 = img.is_global_memory_address(&a3);

    // the empty image (degenerate witness, for completeness)
    let empty = RuntimeMemoryImage { memory_segments: Vec::new(), is_little_endian: little_endian, is_lkm: true };
    let e0 = empty.read(&a0, ByteSize(1));
    let e1 = empty.is_interval_readable(0, 0);

    // boundary of seg_fits: a one-byte segment [u64::MAX - 1, u64::MAX)
    let mut bb: Vec<u8> = Vec::new();
    bb.push(0u8);
    let sb = MemorySegment { bytes: bb, base_address: 0xffff_ffff_ffff_fffe, read_flag: true, write_flag: false, execute_flag: false };
    let mut segs: Vec<MemorySegment> = Vec::new();
    segs.push(sb);
    let top = RuntimeMemoryImage { memory_segments: segs, is_little_endian: little_endian, is_lkm: false };
    proof { assert(seg_fits(top.memory_segments@[0])); }
    let a4 = Bitvector::from_u64(0xffff_ffff_ffff_fffe);
    let b0 = top.read(&a4, ByteSize(1));
    let b1 = top.read_string_until_null_terminator(&a4);
    let b2 = top.read(&a2, ByteSize(8));
}
