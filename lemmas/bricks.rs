// ---------------------------------------------------------------------------
// lemmas/bricks.rs -- proved lemmas of unit `bricks` (property C06, brick-sequence domain): languages of bricks
// (powers of a set of strings, repetition bounds) and of brick lists (concatenation), by induction.
// ---------------------------------------------------------------------------

/// a brick with bounds {0,0} represents exactly the empty string, whatever its set is
pub proof fn lemma_br_empty_brick()
    ensures
        forall |set: Set<String>, w: Seq<char>| #[trigger] br_rep(set, 0, 0, w) <==> w.len() == 0,
{
    assert forall |set: Set<String>, w: Seq<char>| #[trigger] br_rep(set, 0, 0, w) <==> w.len() == 0 by {
        if w.len() == 0 {
            assert(w =~= Seq::<char>::empty());
            assert(br_pow(set, 0, w));
        }
    }
}

/// [{s}]^{1,1} represents exactly s
pub proof fn lemma_br_singleton(set: Set<String>, s: String, w: Seq<char>)
    requires
        forall |t: String| #[trigger] set.contains(t) <==> t == s,
    ensures
        br_rep(set, 1, 1, w) <==> w == s@,
{
    if br_rep(set, 1, 1, w) {
        let k = choose |k: nat| 1 <= k <= 1 && #[trigger] br_pow(set, k, w);
        assert(br_pow(set, 1, w));
        let (u, v) = choose |u: Seq<char>, v: Seq<char>| #![trigger u + v]
            br_member(set, u) && br_pow(set, 0, v) && w =~= u + v;
        assert(w =~= s@);
    }
    if w == s@ {
        assert(set.contains(s));
        assert(br_member(set, s@));
        assert(br_pow(set, 0, Seq::<char>::empty()));
        assert(w =~= s@ + Seq::<char>::empty());
        assert(br_pow(set, 1, w));
    }
}

pub proof fn lemma_br_singleton_all()
    ensures
        forall |set: Set<String>, s: String, w: Seq<char>| (forall |t: String| #[trigger] set.contains(t) <==> t == s)
            ==> (#[trigger] br_rep(set, 1, 1, w) <==> w == #[trigger] s@),
{
    assert forall |set: Set<String>, s: String, w: Seq<char>| (forall |t: String| #[trigger] set.contains(t) <==> t == s)
        implies (#[trigger] br_rep(set, 1, 1, w) <==> w == #[trigger] s@) by {
        lemma_br_singleton(set, s, w);
    }
}

/// powers are monotone in the set of strings
pub proof fn lemma_br_pow_mono(a: Set<String>, b: Set<String>, k: nat, w: Seq<char>)
    requires
        forall |u: Seq<char>| br_member(a, u) ==> #[trigger] br_member(b, u),
        br_pow(a, k, w),
    ensures
        br_pow(b, k, w),
    decreases k
{
    if k > 0 {
        let (u, v) = choose |u: Seq<char>, v: Seq<char>| #![trigger u + v]
            br_member(a, u) && br_pow(a, (k - 1) as nat, v) && w =~= u + v;
        lemma_br_pow_mono(a, b, (k - 1) as nat, v);
        assert(br_member(b, u));
    }
}

/// a brick is monotone in its set and in its bounds
pub proof fn lemma_br_rep_mono(a: Set<String>, lo_a: nat, hi_a: nat, b: Set<String>, lo_b: nat, hi_b: nat, w: Seq<char>)
    requires
        forall |u: Seq<char>| br_member(a, u) ==> #[trigger] br_member(b, u),
        lo_b <= lo_a, hi_a <= hi_b,
        br_rep(a, lo_a, hi_a, w),
    ensures
        br_rep(b, lo_b, hi_b, w),
{
    let k = choose |k: nat| lo_a <= k <= hi_a && #[trigger] br_pow(a, k, w);
    lemma_br_pow_mono(a, b, k, w);
}

/// BrickDomain::widen: every brick whose set holds the members of both sets and whose bounds span both bounds (or are
/// {0, u32::MAX}) represents what the two bricks represent
pub proof fn lemma_br_widen_brick(x: Brick, y: Brick)
    ensures
        forall |r: Brick, w: Seq<char>|
            (forall |u: Seq<char>| br_member(x.sequence@, u) || br_member(y.sequence@, u) ==> #[trigger] br_member(r.sequence@, u))
            && r.min <= x.min && r.min <= y.min && x.max <= r.max && y.max <= r.max
            && (x.br_gamma(w) || y.br_gamma(w))
            ==> #[trigger] r.br_gamma(w),
{
    assert forall |r: Brick, w: Seq<char>|
            (forall |u: Seq<char>| br_member(x.sequence@, u) || br_member(y.sequence@, u) ==> #[trigger] br_member(r.sequence@, u))
            && r.min <= x.min && r.min <= y.min && x.max <= r.max && y.max <= r.max
            && (x.br_gamma(w) || y.br_gamma(w))
            implies #[trigger] r.br_gamma(w) by {
        if x.br_gamma(w) {
            lemma_br_rep_mono(x.sequence@, x.min as nat, x.max as nat, r.sequence@, r.min as nat, r.max as nat, w);
        } else {
            lemma_br_rep_mono(y.sequence@, y.min as nat, y.max as nat, r.sequence@, r.min as nat, r.max as nat, w);
        }
    }
}

// ---------------- brick lists ---------------------------------------------------------------------------------------------

/// the empty list represents exactly the empty string
pub proof fn lemma_br_list_empty(w: Seq<char>)
    ensures br_list_gamma(Seq::<BrickDomain>::empty(), w) <==> w.len() == 0,
{
    if w.len() == 0 { assert(w =~= Seq::<char>::empty()); }
}

/// unfolding at `push`
pub proof fn lemma_br_list_push(l: Seq<BrickDomain>, b: BrickDomain, w: Seq<char>)
    ensures
        br_list_gamma(l.push(b), w) <==> (exists |u: Seq<char>, v: Seq<char>| #![trigger u + v] br_list_gamma(l, u) && b.br_gamma(v) && w =~= u + v),
{
    assert(l.push(b).drop_last() =~= l);
    assert(l.push(b).last() == b);
}

/// a one-brick list represents what the brick represents
pub proof fn lemma_br_list_single(b: BrickDomain, w: Seq<char>)
    ensures br_list_gamma(seq![b], w) <==> b.br_gamma(w),
{
    let e = Seq::<BrickDomain>::empty();
    assert(seq![b] =~= e.push(b));
    lemma_br_list_push(e, b, w);
    if b.br_gamma(w) {
        lemma_br_list_empty(Seq::<char>::empty());
        assert(w =~= Seq::<char>::empty() + w);
    }
    if br_list_gamma(seq![b], w) {
        let (u, v) = choose |u: Seq<char>, v: Seq<char>| #![trigger u + v] br_list_gamma(e, u) && b.br_gamma(v) && w =~= u + v;
        lemma_br_list_empty(u);
        assert(w =~= v);
    }
}

/// the language of a concatenation of lists is the concatenation of the languages: composition
pub proof fn lemma_br_list_concat_intro(a: Seq<BrickDomain>, b: Seq<BrickDomain>, s: Seq<char>, t: Seq<char>)
    requires br_list_gamma(a, s), br_list_gamma(b, t),
    ensures br_list_gamma(a + b, s + t),
    decreases b.len()
{
    if b.len() == 0 {
        assert(a + b =~= a);
        assert(s + t =~= s);
    } else {
        let (u, v) = choose |u: Seq<char>, v: Seq<char>| #![trigger u + v] br_list_gamma(b.drop_last(), u) && b.last().br_gamma(v) && t =~= u + v;
        lemma_br_list_concat_intro(a, b.drop_last(), s, u);
        assert((a + b).drop_last() =~= a + b.drop_last());
        assert((a + b).last() == b.last());
        assert(s + t =~= (s + u) + v);
    }
}

/// ... and decomposition
pub proof fn lemma_br_list_concat_elim(a: Seq<BrickDomain>, b: Seq<BrickDomain>, w: Seq<char>) -> (st: (Seq<char>, Seq<char>))
    requires br_list_gamma(a + b, w),
    ensures br_list_gamma(a, st.0), br_list_gamma(b, st.1), w =~= st.0 + st.1,
    decreases b.len()
{
    if b.len() == 0 {
        assert(a + b =~= a);
        (w, Seq::<char>::empty())
    } else {
        assert((a + b).drop_last() =~= a + b.drop_last());
        assert((a + b).last() == b.last());
        let (u, v) = choose |u: Seq<char>, v: Seq<char>| #![trigger u + v] br_list_gamma((a + b).drop_last(), u) && (a + b).last().br_gamma(v) && w =~= u + v;
        let st = lemma_br_list_concat_elim(a, b.drop_last(), u);
        assert(st.1 + v =~= st.1 + v);
        assert(br_list_gamma(b, st.1 + v));
        assert(w =~= st.0 + (st.1 + v));
        (st.0, st.1 + v)
    }
}

/// a copy of a brick (derive(Clone)) represents the same strings
pub proof fn lemma_br_copy_gamma(a: BrickDomain, b: BrickDomain, w: Seq<char>)
    requires a.br_copy(&b),
    ensures a.br_gamma(w) == b.br_gamma(w),
{
}

/// pointwise inclusion of the bricks' languages gives inclusion of the lists' languages
pub proof fn lemma_br_list_mono(a: Seq<BrickDomain>, b: Seq<BrickDomain>, w: Seq<char>)
    requires
        a.len() == b.len(),
        forall |i: int, x: Seq<char>| 0 <= i < a.len() && a[i].br_gamma(x) ==> #[trigger] b[i].br_gamma(x),
        br_list_gamma(a, w),
    ensures
        br_list_gamma(b, w),
    decreases a.len()
{
    if a.len() > 0 {
        let (u, v) = choose |u: Seq<char>, v: Seq<char>| #![trigger u + v] br_list_gamma(a.drop_last(), u) && a.last().br_gamma(v) && w =~= u + v;
        assert forall |i: int, x: Seq<char>| 0 <= i < a.drop_last().len() && a.drop_last()[i].br_gamma(x) implies #[trigger] b.drop_last()[i].br_gamma(x) by {
            assert(a[i].br_gamma(x));
            assert(b[i].br_gamma(x));
        }
        lemma_br_list_mono(a.drop_last(), b.drop_last(), u);
        assert(b[a.len() - 1].br_gamma(v));
    }
}

/// a copy of a list (derive(Clone) / Vec::clone) represents the same strings
pub proof fn lemma_br_list_copy_gamma(a: Seq<BrickDomain>, b: Seq<BrickDomain>, w: Seq<char>)
    requires br_list_copy(a, b),
    ensures br_list_gamma(a, w) == br_list_gamma(b, w),
{
    if br_list_gamma(a, w) {
        assert forall |i: int, x: Seq<char>| 0 <= i < a.len() && a[i].br_gamma(x) implies #[trigger] b[i].br_gamma(x) by { lemma_br_copy_gamma(a[i], b[i], x); }
        lemma_br_list_mono(a, b, w);
    }
    if br_list_gamma(b, w) {
        assert forall |i: int, x: Seq<char>| 0 <= i < a.len() && b[i].br_gamma(x) implies #[trigger] a[i].br_gamma(x) by { lemma_br_copy_gamma(a[i], b[i], x); }
        lemma_br_list_mono(b, a, w);
    }
}

/// BricksDomain::append_string_domain, all four shapes of the result at once: a list that is a copy of `a` followed by a
/// copy of `b` represents s + t whenever `a` represents s and `b` represents t
pub proof fn lemma_br_append_sound(a: Seq<BrickDomain>, b: Seq<BrickDomain>)
    ensures
        forall |ca: Seq<BrickDomain>, cb: Seq<BrickDomain>, s: Seq<char>, t: Seq<char>|
            br_list_copy(ca, a) && br_list_copy(cb, b) && br_list_gamma(a, s) && br_list_gamma(b, t)
            ==> #[trigger] br_list_gamma(ca + cb, s + t),
{
    assert forall |ca: Seq<BrickDomain>, cb: Seq<BrickDomain>, s: Seq<char>, t: Seq<char>|
            br_list_copy(ca, a) && br_list_copy(cb, b) && br_list_gamma(a, s) && br_list_gamma(b, t)
            implies #[trigger] br_list_gamma(ca + cb, s + t) by {
        lemma_br_list_copy_gamma(ca, a, s);
        lemma_br_list_copy_gamma(cb, b, t);
        lemma_br_list_concat_intro(ca, cb, s, t);
    }
}

/// the one-element list [Top] represents every string
pub proof fn lemma_br_top_single_all()
    ensures forall |w: Seq<char>| #[trigger] br_list_gamma(seq![BrickDomain::Top], w),
{
    assert forall |w: Seq<char>| #[trigger] br_list_gamma(seq![BrickDomain::Top], w) by { lemma_br_list_single(BrickDomain::Top, w); }
}

/// append_string_domain(Value, Top): a copy of `a` with a Top brick pushed represents s + t for every t
pub proof fn lemma_br_push_top_sound(a: Seq<BrickDomain>)
    ensures
        forall |ca: Seq<BrickDomain>, s: Seq<char>, t: Seq<char>|
            br_list_copy(ca, a) && br_list_gamma(a, s) ==> #[trigger] br_list_gamma(ca.push(BrickDomain::Top), s + t),
{
    assert forall |ca: Seq<BrickDomain>, s: Seq<char>, t: Seq<char>|
            br_list_copy(ca, a) && br_list_gamma(a, s) implies #[trigger] br_list_gamma(ca.push(BrickDomain::Top), s + t) by {
        lemma_br_list_copy_gamma(ca, a, s);
        lemma_br_list_push(ca, BrickDomain::Top, s + t);
    }
}

/// pad_list: a brick that represents exactly the empty string can be inserted anywhere in a list
pub proof fn lemma_br_list_insert_empty(a: Seq<BrickDomain>, b: Seq<BrickDomain>, e: BrickDomain, w: Seq<char>)
    requires
        forall |x: Seq<char>| #[trigger] e.br_gamma(x) <==> x.len() == 0,
    ensures
        br_list_gamma(a.push(e) + b, w) <==> br_list_gamma(a + b, w),
{
    if br_list_gamma(a.push(e) + b, w) {
        let st = lemma_br_list_concat_elim(a.push(e), b, w);
        lemma_br_list_push(a, e, st.0);
        let (u, v) = choose |u: Seq<char>, v: Seq<char>| #![trigger u + v] br_list_gamma(a, u) && e.br_gamma(v) && st.0 =~= u + v;
        assert(st.0 =~= u);
        lemma_br_list_concat_intro(a, b, st.0, st.1);
    }
    if br_list_gamma(a + b, w) {
        let st = lemma_br_list_concat_elim(a, b, w);
        lemma_br_list_push(a, e, st.0);
        assert(e.br_gamma(Seq::<char>::empty()));
        assert(st.0 =~= st.0 + Seq::<char>::empty());
        lemma_br_list_concat_intro(a.push(e), b, st.0, st.1);
    }
}

/// pad_list, one step with an inserted empty brick, for all strings at once
pub proof fn lemma_br_pad_step_empty(orig: Seq<BrickDomain>, a: Seq<BrickDomain>, b: Seq<BrickDomain>, e: BrickDomain)
    requires
        forall |x: Seq<char>| #[trigger] e.br_gamma(x) <==> x.len() == 0,
        forall |w: Seq<char>| #[trigger] br_list_gamma(a + b, w) <==> br_list_gamma(orig, w),
    ensures
        forall |w: Seq<char>| #[trigger] br_list_gamma(a.push(e) + b, w) <==> br_list_gamma(orig, w),
{
    assert forall |w: Seq<char>| #[trigger] br_list_gamma(a.push(e) + b, w) <==> br_list_gamma(orig, w) by {
        lemma_br_list_insert_empty(a, b, e, w);
        assert(br_list_gamma(a + b, w) <==> br_list_gamma(orig, w));
    }
}

/// pad_list, one step moving (a copy of) the first remaining brick over
pub proof fn lemma_br_pad_step_move(orig: Seq<BrickDomain>, a: Seq<BrickDomain>, b: Seq<BrickDomain>, c: BrickDomain)
    requires
        b.len() > 0,
        c.br_copy(&b[0]),
        forall |w: Seq<char>| #[trigger] br_list_gamma(a + b, w) <==> br_list_gamma(orig, w),
    ensures
        forall |w: Seq<char>| #[trigger] br_list_gamma(a.push(c) + b.remove(0), w) <==> br_list_gamma(orig, w),
{
    assert forall |w: Seq<char>| #[trigger] br_list_gamma(a.push(c) + b.remove(0), w) <==> br_list_gamma(orig, w) by {
        let x = a.push(c) + b.remove(0);
        let y = a + b;
        assert(x.len() == y.len());
        assert forall |i: int| 0 <= i < x.len() implies (#[trigger] x[i]).br_copy(&y[i]) by {
            if i < a.len() { } else if i == a.len() { } else { assert(x[i] == b[i - a.len()]); }
        }
        lemma_br_list_copy_gamma(x, y, w);
        assert(br_list_gamma(a + b, w) <==> br_list_gamma(orig, w));
    }
}

// ---------------- powers: S^j . S^k = S^(j+k) --------------------------------------------------------------------------------

pub proof fn lemma_br_pow_one(set: Set<String>, w: Seq<char>)
    ensures br_pow(set, 1, w) <==> br_member(set, w),
{
    if br_pow(set, 1, w) {
        let (u, v) = choose |u: Seq<char>, v: Seq<char>| #![trigger u + v] br_member(set, u) && br_pow(set, 0, v) && w =~= u + v;
        assert(w =~= u);
    }
    if br_member(set, w) {
        assert(br_pow(set, 0, Seq::<char>::empty()));
        assert(w =~= w + Seq::<char>::empty());
    }
}

pub proof fn lemma_br_pow_add(set: Set<String>, j: nat, k: nat, u: Seq<char>, v: Seq<char>)
    requires br_pow(set, j, u), br_pow(set, k, v),
    ensures br_pow(set, j + k, u + v),
    decreases j
{
    if j == 0 {
        assert(u + v =~= v);
    } else {
        let (a, b) = choose |a: Seq<char>, b: Seq<char>| #![trigger a + b] br_member(set, a) && br_pow(set, (j - 1) as nat, b) && u =~= a + b;
        lemma_br_pow_add(set, (j - 1) as nat, k, b, v);
        assert(u + v =~= a + (b + v));
        assert((j + k - 1) as nat == (j - 1) as nat + k);
    }
}

pub proof fn lemma_br_pow_split(set: Set<String>, j: nat, k: nat, w: Seq<char>) -> (uv: (Seq<char>, Seq<char>))
    requires br_pow(set, j + k, w),
    ensures br_pow(set, j, uv.0), br_pow(set, k, uv.1), w =~= uv.0 + uv.1,
    decreases j
{
    if j == 0 {
        assert(w =~= Seq::<char>::empty() + w);
        (Seq::<char>::empty(), w)
    } else {
        assert((j + k - 1) as nat == (j - 1) as nat + k);
        let (a, b) = choose |a: Seq<char>, b: Seq<char>| #![trigger a + b] br_member(set, a) && br_pow(set, (j + k - 1) as nat, b) && w =~= a + b;
        let uv = lemma_br_pow_split(set, (j - 1) as nat, k, b);
        assert(a + uv.0 =~= a + uv.0);
        assert(br_pow(set, j, a + uv.0));
        assert(w =~= (a + uv.0) + uv.1);
        (a + uv.0, uv.1)
    }
}

/// powers only depend on the members read as strings
pub proof fn lemma_br_pow_same(a: Set<String>, b: Set<String>, k: nat, w: Seq<char>)
    requires br_set_same(a, b),
    ensures br_pow(a, k, w) == br_pow(b, k, w),
{
    if br_pow(a, k, w) { lemma_br_pow_mono(a, b, k, w); }
    if br_pow(b, k, w) { lemma_br_pow_mono(b, a, k, w); }
}

/// rule 4 of normalize: [S]^{m1,M1} [S]^{m2,M2} represents what [S]^{m1+m2, M1+M2} represents
pub proof fn lemma_br_equal_content(x: Brick, y: Brick, r: Brick, w: Seq<char>)
    requires
        x.br_wf(), y.br_wf(),
        br_set_same(x.sequence@, y.sequence@),
        br_set_same(r.sequence@, x.sequence@),
        r.min == x.min + y.min, r.max == x.max + y.max,
    ensures
        r.br_gamma(w) <==> br_cat2(x, y, w),
{
    if r.br_gamma(w) {
        let k = choose |k: nat| r.min as nat <= k <= r.max as nat && #[trigger] br_pow(r.sequence@, k, w);
        // k = j + (k - j) with x.min <= j <= x.max and y.min <= k - j <= y.max
        let j: nat = if k - y.min as nat <= x.max as nat { (k - y.min as nat) as nat } else { x.max as nat };
        let i: nat = (k - j) as nat;
        assert(x.min as nat <= j <= x.max as nat);
        assert(y.min as nat <= i <= y.max as nat);
        lemma_br_pow_same(r.sequence@, x.sequence@, k, w);
        let uv = lemma_br_pow_split(x.sequence@, j, i, w);
        lemma_br_pow_same(x.sequence@, y.sequence@, i, uv.1);
        assert(x.br_gamma(uv.0));
        assert(y.br_gamma(uv.1));
        assert(w =~= uv.0 + uv.1);
    }
    if br_cat2(x, y, w) {
        let (u, v) = choose |u: Seq<char>, v: Seq<char>| #![trigger u + v] x.br_gamma(u) && y.br_gamma(v) && w =~= u + v;
        let j = choose |j: nat| x.min as nat <= j <= x.max as nat && #[trigger] br_pow(x.sequence@, j, u);
        let i = choose |i: nat| y.min as nat <= i <= y.max as nat && #[trigger] br_pow(y.sequence@, i, v);
        lemma_br_pow_same(x.sequence@, y.sequence@, i, v);
        lemma_br_pow_add(x.sequence@, j, i, u, v);
        lemma_br_pow_same(r.sequence@, x.sequence@, j + i, u + v);
        assert(br_pow(r.sequence@, j + i, w));
    }
}

/// the same for all strings and every result brick of that shape (entry hint of merge_bricks_with_equal_content)
pub proof fn lemma_br_equal_content_all(x: Brick, y: Brick)
    requires
        x.br_wf(), y.br_wf(),
        br_set_same(x.sequence@, y.sequence@),
    ensures
        forall |r: Brick, w: Seq<char>| br_set_same(r.sequence@, x.sequence@) && r.min == x.min + y.min && r.max == x.max + y.max
            ==> (#[trigger] r.br_gamma(w) <==> br_cat2(x, y, w)),
{
    assert forall |r: Brick, w: Seq<char>| br_set_same(r.sequence@, x.sequence@) && r.min == x.min + y.min && r.max == x.max + y.max
        implies (#[trigger] r.br_gamma(w) <==> br_cat2(x, y, w)) by {
        lemma_br_equal_content(x, y, r, w);
    }
}
